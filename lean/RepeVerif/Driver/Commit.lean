import RepeVerif.Model.Commit
import RepeVerif.Gen.Commit
import RepeVerif.Driver.Common
/-!
Driver for the `commit` correspondence family (C10).

```
SCRIPT := <puller> <comp none|zstd> <fmt beve|raw> <open ok|err|cut> <verify ok|rej|panic|panics|panicv|slow> <trailer N>
          <dest old|none|dir|olds|nones|noparent|symparent|name247|name250> <stop -|N> <dec -|err|B> <fault -|N|sync|dN|pN> wire <resp>…
  puller := file | bevezst | beve | trailer | fileasync | verifiedasync | trailerasync
            suffixes the model does not look at: `@ws` (async puller over a WebSocketClient), `@ps` (entered
            through `pull_stream`), `@s<N>` (presentation style of the scripted peer: query bytes of the
            last flag, error codes, stream ids, format codes, resource names)
  verify := panic / panics / panicv = verify panics with a String / &'static str / other payload;
            slow = accepts after a delay
  fault dN / pN := the caller's digest sink returns Err / panics once more than N bytes were fed
  resp   := c:<B>:<0|1>  (chunk body, last flag) | e (error response) | x (connection cut) | h (never answers) | z<ms> (stalls, then goes on)
  B      := <H> (hex) | g<seed>.<len> (`genBytes seed len`, for large bodies)
  fault  := N: the temp file takes N bytes and the write of the next one fails (the pulling child runs
            under RLIMIT_FSIZE = N with SIGXFSZ ignored: EFBIG); sync: every write succeeds and fsync
            fails (the temp path is planted as a symlink to /dev/null: EINVAL)
  dec    := what the zstd decoder makes of the bytes delivered before the stream ends or breaks
            (recorded by the harness with the zstd crate; `err` = not a whole frame, `-` = not compressed),
            `dest dir` = destination is a non-empty directory (rename must fail); `olds`/`nones` = as
            old/none with a stale temp file left by an earlier killed pull

script <i> SCRIPT                 -> <i> ret <ok|err> dest <same|L:FNV> tmp <0|1> [seen <L:FNV> trailer <H>]
trace <i> SCRIPT :: <sys>…        -> <i> trace <accept|reject@pos> <match|expected:<sys>…>
  sys := C | W<n> | S | X | R | RF | U | D      (create, write n bytes (merged), fsync, close, rename,
                                                 failed rename, unlink of the temp file, D = dest touched)
kill <i> <syscall>:<N> SCRIPT :: <same|L:FNV>   -> <i> kill <ok|BAD>   (destination observed after SIGKILL on
                                                  entry to the N-th such syscall on the two paths)
gate <i> <sched> <none|zstd> <puller> <chunk> <HA> <HB> <HC>  -> <i> | ok L:FNV | ok L:FNV | ok L:FNV
                                     (three resources of one real Server with gated reader sources, opened / parked /
                                     finished in the scripted order; each pull gets exactly its own content)
wsstorm <i> <cap> <outcap> <chunk> <obs>… SCRIPT :: …  -> as storm (the crate's WebSocketServer, off-reader cap saturated)
storm <i> <ok|D / err|D>… SCRIPT :: …       -> <i> storm <ok|BAD>  (12+ pulls through one client, one of them cut)
par <i> <N> <0|1> SCRIPT :: SCRIPT :: …     -> <i> | ret .. dest .. tmp .. | …   (async pulls run concurrently on a
                                     runtime with N blocking threads, through one shared client or one each)
cancel <i> <ms> SCRIPT :: <same|L:FNV>      -> <i> kill <ok|BAD>   (an async pull dropped by its caller after <ms>)
seq <i> <old:H|none> SCRIPT :: SCRIPT :: …   -> <i> | ret .. dest <absent|L:FNV> tmp .. | …
                                     (one client, one destination: the state that outlives a call is the file
                                     system and whether an earlier step ran into a cut — then every call fails)
sibling <i> <name H>              -> <i> temp <H>   (name of the temp sibling: `tempSibling Gen.Commit.tempSuffix`)
nest <i> <nameA H> <nameB H> SCRIPT_A :: SCRIPT_B
                                  -> <i> A ret .. dest .. tmp .. B ret .. dest .. tmp ..  | <i> alias
                                     (pull B runs to its end inside pull A's verify, same directory; by
                                     `pulls_do_not_interfere` each behaves as if alone unless one's destination
                                     is the other's temp sibling)
real <i> <reader|writer|value> <chunk N> <fail -|N|pN> <depth N> <payload H> SCRIPT   -> as `script` (real `Server`,
                                                  producer body returning Err after N bytes, or PANICKING there (`pN`; `value` = a Serialize impl
                                                  panicking at element N); SCRIPT = what the client saw: a dying producer is a failing script)
value <i> <sync|async> <comp> <fmt> <open> need <N> <dec> wire <resp>…  -> <i> ret <ok L:FNV|err>
  (value: `need` = length of the value's encoding; `dec` = output of the zstd stream decoder on the delivered bytes)
```
-/
namespace Repe.Driver.Commit
open Repe Repe.Driver Repe.Commit

def pullerOf : String → Option Puller
  | "file" => some .file | "bevezst" => some .beveZst | "beve" => some .beve
  | "trailer" => some .trailer | "fileasync" => some .fileAsync
  | "verifiedasync" => some .verifiedAsync | "trailerasync" => some .trailerAsync
  | _ => none

/-- hex, or `g<seed>.<len>` -/
def bodyOf (s : String) : Option Bytes :=
  if s.startsWith "g" then
    match (s.drop 1).toString.splitOn "." with
    | [a, b] => if a.isNat ∧ b.isNat then some (genBytes (natOf a) (natOf b)) else none
    | _ => none
  else bytesOfHex s

def respOf (s : String) : Option Resp :=
  if s = "e" then some .error
  else if s = "x" then some .cut
  else if s = "h" then some .cut   -- the peer hangs: for the file system the same as a peer that is gone
  else match s.splitOn ":" with
    | ["c", h, l] =>
      match bodyOf h, l with
      | some b, "0" => some (.chunk b false)
      | some b, "1" => some (.chunk b true)
      | _, _ => none
    | _ => none

def allSome {α} : List (Option α) → Option (List α)
  | [] => some []
  | none :: _ => none
  | some a :: r => (allSome r).map (a :: ·)

structure Parsed where
  p : Puller
  s : Script
  codec : Codec
  stale : Bool := false   -- a stale temp file exists before the pull
  verifyPanics : Bool := false
  digestPanics : Bool := false   -- fault `pN`: the digest sink panics (instead of `Err`) past N bytes
  openCut : Bool := false        -- `open` was answered by closing the connection

def compOf : String → Option Comp
  | "none" => some .none | "zstd" => some .zstd | _ => none

def decOf (d : String) : Option (Option Bytes) :=
  if d = "-" ∨ d = "err" then some none else (bodyOf d).map some

/-- Parse the SCRIPT words (everything after the index). Returns the parsed script and the words after
the wire (`:: …`). -/
def parseScript (ws : List String) : Option (Parsed × List String) :=
  match ws with
  | pu :: co :: fm :: op :: ve :: tr :: de :: st :: dc :: wf :: "wire" :: rest =>
    -- `z<ms>` = the peer stalls that long before its next answer: invisible to the model
    let wireWs := (rest.takeWhile (· ≠ "::")).filter fun w => !(w.startsWith "z" ∧ (w.drop 1).toString.isNat)
    let after := (rest.dropWhile (· ≠ "::")).drop 1
    -- `@wl<N>`: the pulling WebSocket client refuses inbound frames over N bytes; a chunk response is a
    -- 48-byte header, a 1-byte query and the body: the first oversized one ends the connection
    let wl : Option Nat := ((pu.splitOn "@").filterMap fun x =>
      if x.startsWith "wl" ∧ (x.drop 2).toString.isNat then some (natOf (x.drop 2).toString) else none).head?
    let limitWire : Wire → Wire := fun w => match wl with
      | none => w
      | some n => w.map fun r => match r with
        | .chunk b l => if 49 + b.length > n then .cut else .chunk b l
        | r => r
    match pullerOf ((pu.splitOn "@").headD ""), compOf co, (allSome (wireWs.map respOf)).map limitWire, decOf dc with
    | some p, some comp, some wire, some dec =>
      if (fm = "beve" ∨ fm = "raw") ∧ (op = "ok" ∨ op = "err" ∨ op = "cut") ∧ (ve = "ok" ∨ ve = "rej" ∨ ve = "panic" ∨ ve = "panics" ∨ ve = "panicv" ∨ ve = "slow")
          ∧ (de = "old" ∨ de = "none" ∨ de = "dir" ∨ de = "olds" ∨ de = "nones" ∨ de = "noparent" ∨ de = "symparent" ∨ de = "name247" ∨ de = "name250") ∧ tr.isNat ∧ (st = "-" ∨ st.isNat) ∧ (wf = "-" ∨ wf = "sync" ∨ wf.isNat ∨ ((wf.startsWith "d" ∨ wf.startsWith "p") ∧ (wf.drop 1).toString.isNat)) then
        let stop := if st = "-" then none else some (natOf st)
        if stop.isSome ∧ !p.usesWriteFile then none else
        some (⟨p, { openOk := op = "ok", comp := comp, beve := fm = "beve", wire := wire, stop := stop,
                    verifyOk := ve = "ok" ∨ ve = "slow", trailer := natOf tr, renameOk := de ≠ "dir",
                    -- a digest sink that refuses past N bytes fails the copy exactly like a file that takes N
                    -- bytes (only the pullers that have a digest: the verifying ones)
                    writeFault := if wf = "-" ∨ wf = "sync" then none
                      else if wf.startsWith "d" ∨ wf.startsWith "p" then (if p.verifies then some (natOf (wf.drop 1).toString) else none)
                      else some (natOf wf),
                    syncOk := wf ≠ "sync", createOk := de ≠ "noparent" ∧ de ≠ "name250" },
                ⟨fun _ => dec, fun _ => []⟩, de = "olds" ∨ de = "nones", ve.startsWith "panic", wf.startsWith "p", op = "cut"⟩, after)
      else none
    | _, _, _, _ => none
  | _ => none

def digest (bs : Bytes) : String := toString bs.length ++ ":" ++ toString (fnv bs)

def showRet : Ret → String
  | .ok => "ok" | .err => "err"

def showSys : Sys → String
  | .openTmp => "C" | .writeTmp n => "W" ++ toString n | .fsyncTmp => "S" | .closeTmp => "X"
  | .renameTD => "R" | .renameTDFail => "RF" | .unlinkTmp => "U" | .touchDest => "D"

def sysOfWord (w : String) : Option Sys :=
  if w = "C" then some .openTmp else if w = "S" then some .fsyncTmp else if w = "X" then some .closeTmp
  else if w = "R" then some .renameTD else if w = "RF" then some .renameTDFail else if w = "U" then some .unlinkTmp
  else if w = "D" then some .touchDest
  else if w.startsWith "W" ∧ (w.drop 1).toString.isNat then some (.writeTmp (natOf (w.drop 1).toString))
  else none

/-- The write sizes are not predictable when a zstd decoder fails part-way. -/
def sizesKnown (q : Parsed) : Bool :=
  !(q.p.decodes && q.s.comp == .zstd) || (expected q.p q.s q.codec).isSome

def eraseSizes (t : List Sys) : List Sys :=
  t.filter fun x => match x with | .writeTmp _ => false | _ => true

/-- The destination before a pull is abstract ("whatever was there"): it is unchanged by `ops` iff it
comes out as it went in from two different starting contents (a published content that happens to equal
one marker cannot equal both). -/
def destWord (tmp0 : Option Bytes) (ops : List Op) : String :=
  let a := runOps ⟨some [0], tmp0⟩ ops
  let b := runOps ⟨some [1], tmp0⟩ ops
  if a.dest = some [0] ∧ b.dest = some [1] then "same" else match a.dest with
    | some c => digest c
    | none => "gone"

def runOf (q : Parsed) : Run := run Gen.Commit.steps q.p q.s q.codec

def scriptObs (q : Parsed) : String :=
  let r := runOf q
  -- the destination before the pull is abstract: `[0]` stands for "whatever was there"
  let fs := runOps ⟨some [0], if q.stale then some [0xEE, 0xEE] else none⟩ r.ops
  let dest := destWord (if q.stale then some [0xEE, 0xEE] else none) r.ops
  -- a panicking `verify` has the file-system effect of a rejecting one (the unwinding drops the guard);
  -- the call unwinds instead of returning `Err` exactly when `verify` is reached
  let reached := q.verifyPanics && q.p.verifies &&
    (run Gen.Commit.steps q.p { q.s with verifyOk := true, renameOk := true } q.codec).ret == .ok
  -- a digest sink that panics: same file-system effect as one that returns `Err`; the blocking puller
  -- unwinds, the async ones report the dead consumer task as `Err`
  let bites := q.s.openOk && preOk q.p q.s && !(limitWrites q.s.writeFault (envOf0 q.p q.s q.codec).writes).2
  let reached := reached || (q.digestPanics && q.p.verifies && !q.p.isAsync && bites)
  -- `TrailerHold::new` reserves `trailer_len` bytes: beyond isize::MAX that is a capacity-overflow panic
  -- (after the temp file was created; the unwinding removes it)
  let reached := reached || (q.p.hasTrailer && q.s.trailer > 2^63 - 1 && !q.p.isAsync && q.s.openOk && preOk q.p q.s)
  let base := joinSp ["ret", if reached then "panic" else showRet r.ret, "dest", dest, "tmp", if fs.tmp.isSome then "1" else "0"]
  if q.p.hasTrailer ∧ r.ret = .ok then
    let h := Hold.run q.s.trailer (decoded q.p q.s q.codec).writes
    base ++ " seen " ++ digest h.out.flatten ++ " trailer " ++ hexOfBytes h.hold
  else base

/-- Destination states reachable by killing the pull after `k` operations, any `k`. -/
def killStates (q : Parsed) : List String :=
  let r := runOf q
  (List.range (r.ops.length + 1)).map fun k =>
    destWord none (crash k r.ops)

/-- The pull of this script runs into a connection cut: the client is dead afterwards. -/
def hitsCut (q : Parsed) : Bool :=
  if q.openCut then true
  else if !q.s.openOk || !preOk q.p q.s then false
  else
    let rec go : Wire → Bool
      | [] => true
      | .chunk _ false :: r => go r
      | .chunk _ true :: _ => false
      | .error :: _ => false
      | .cut :: _ => true
    go q.s.wire

/-- Pulls through one client into one destination: the file system and the connection's liveness are the
only state that outlives a call. -/
def seqObs : FS → Bool → List Parsed → List String
  | _, _, [] => []
  | fs, alive, q :: rest =>
    let q' : Parsed := if alive then q else { q with s := { q.s with openOk := false } }
    let r := runOf q'
    let fs' := runOps fs r.ops
    let d := match fs'.dest with
      | some c => digest c
      | none => "absent"
    joinSp ["| ret", showRet r.ret, "dest", d, "tmp", if fs'.tmp.isSome then "1" else "0"] ::
      seqObs fs' (alive && !hitsCut q) rest

partial def parseMany (ws : List String) : Option (List Parsed) :=
  match parseScript ws with
  | some (q, []) => some [q]
  | some (q, rest) => (parseMany rest).map (q :: ·)
  | none => none

def valueObs (mode : String) (comp : Comp) (need : Nat) (dec : Option Bytes) (openOk beve : Bool) (wire : Wire) : String :=
  let async := mode.endsWith "async"
  let base := if async then (mode.dropEnd 5).toString else mode
  let base := if base = "" then "sync" else base
  -- pull_to_vec / pull_consume place no format constraint and read to EOF; the others decode BEVE
  let toEnd := base = "vec" ∨ base = "consume" ∨ base = "consumeerr" ∨ base = "consumepanic"
  if !openOk || (!beve && !toEnd) then "ret err" else
  if base = "consumepanic" then (if async then "ret err" else "ret panic") else
  let d : Decoder Bytes := if toEnd then ⟨fun _ => none, fun acc => some acc⟩
    else ⟨fun acc => if acc.length ≥ need then some (acc.take need) else none, fun _ => none⟩
  -- a compressed stream reaches the value decoder as far as it decompresses: `dec` = the stream
  -- decoder's output on the delivered bytes (recorded by the harness), then EOF iff `last` was reached
  let wire' : Wire := match comp with
    | .none => wire
    | .zstd => (match dec with | some lg => [.chunk lg false] | none => []) ++
        [if (payload wire).isSome then .chunk [] true else .cut]
  let v := if async then valueAsync Gen.Commit.pullResFirst d false wire' else valueSync d wire'
  match v with
  | some bs => if base = "consumeerr" then "ret err" else "ret ok " ++ digest bs
  | none => "ret err"

/-- pulls sharing one client when its connection is cut (or its server saturates): which got through is timing;
each observed outcome (recorded on the line) must be one this pull admits: (ok, its complete content) or
(err, unchanged) -/
def stormObs (idx : String) (rest : List String) : String :=
  let obs := rest.takeWhile fun w => w.startsWith "ok|" ∨ w.startsWith "err|"
  match parseMany (rest.drop obs.length) with
  | some qs =>
    if qs.length ≠ obs.length then idx ++ " bad-op" else
    let okAll := (qs.zip obs).all fun (q, o) =>
      let r := runOf q
      let full := destWord none r.ops
      o = "err|same" ∨ (r.ret = .ok ∧ o = "ok|" ++ full)
    joinSp [idx, "storm", if okAll then "ok" else "BAD"]
  | none => idx ++ " bad-op"

def step (st : Unit) (ws : List String) : Unit × String :=
  match ws with
  | "script" :: idx :: rest =>
    match parseScript rest with
    | some (q, []) => (st, idx ++ " " ++ scriptObs q)
    | _ => (st, idx ++ " bad-op")
  | "trace" :: idx :: rest =>
    match parseScript rest with
    | some (q, toks) =>
      match allSome (toks.map sysOfWord) with
      | some t =>
        let acc := match protoCheck {} 0 t with
          | none => "accept"
          | some pos => "reject@" ++ toString pos
        let want := sysOf (runOf q).ops 0
        let same := if sizesKnown q then t == want else eraseSizes t == eraseSizes want
        (st, joinSp [idx, "trace", acc, if same then "match" else "expected:" ++ ",".intercalate (want.map showSys)])
      | none => (st, idx ++ " bad-op")
    | none => (st, idx ++ " bad-op")
  | ["gate", idx, sched, _comp, pu, _chunk, ha, hb, hc] =>
    -- three streams of one server interleaved as schedule `sched` says: each pull is a complete stream of its own
    -- resource (model: `pulls_do_not_interfere`); the line lists the pulls in the order they end
    let order : List Nat := match natOf sched % 7 with
      | 0 => [0, 2, 1] | 1 => [0, 1, 2] | 2 => [0, 2, 1] | 3 => [1, 0, 2] | 4 => [0, 1, 2] | 5 => [0, 2, 1] | _ => [1, 0, 0, 2]
    match bytesOfHex ha, bytesOfHex hb, bytesOfHex hc with
    | some a, some b, some c =>
      let datas := [a, b, c]
      let content := fun (i : Nat) => let d := datas.getD i []; if pu = "trailer" then d.take (d.length - 4) else d
      (st, joinSp (idx :: order.map fun i => "| ok " ++ digest (content i)))
    | _, _, _ => (st, idx ++ " bad-op")
  | "wsstorm" :: idx :: _cap :: _outcap :: _chunk :: rest => (st, stormObs idx rest)
  | "storm" :: idx :: rest => (st, stormObs idx rest)
  | "par" :: idx :: _bp :: _shared :: rest =>
    -- concurrent pulls into different destinations: each as if alone (`pulls_do_not_interfere`)
    match parseMany rest with
    | some qs => (st, joinSp (idx :: qs.map fun q =>
        let r := runOf q
        let fs := runOps ⟨some [0], none⟩ r.ops
        joinSp ["| ret", showRet r.ret, "dest", destWord none r.ops, "tmp", if fs.tmp.isSome then "1" else "0"]))
    | none => (st, idx ++ " bad-op")
  | "cancel" :: idx :: _ms :: rest =>
    -- a pull dropped by its caller: the destination is one of the states a kill can leave
    match parseScript rest with
    | some (q, [saw]) => (st, joinSp [idx, "kill", if (killStates q).contains saw then "ok" else "BAD"])
    | _ => (st, idx ++ " bad-op")
  | "seq" :: idx :: init :: rest =>
    let fs0 : Option FS := if init = "none" then some ⟨none, none⟩
      else if init.startsWith "old:" then (bytesOfHex (init.drop 4).toString).map fun b => ⟨some b, none⟩
      else none
    match fs0, parseMany rest with
    | some fs, some qs => (st, joinSp (idx :: seqObs fs true qs))
    | _, _ => (st, idx ++ " bad-op")
  | ["sibling", idx, nm] =>
    match bytesOfHex nm with
    | some b => (st, idx ++ " temp " ++ hexOfBytes (b ++ Gen.Commit.tempSuffix.toUTF8.toList))
    | none => (st, idx ++ " bad-op")
  | "nest" :: idx :: na :: nb :: rest =>
    match bytesOfHex na, bytesOfHex nb, parseScript rest with
    | some a, some b, some (qa, rest2) =>
      match parseScript rest2 with
      | some (qb, []) =>
        let sfx := Gen.Commit.tempSuffix.toUTF8.toList
        if a = b ∨ a ++ sfx = b ∨ b ++ sfx = a then (st, idx ++ " alias")
        else
          let short := fun (q : Parsed) =>
            let r := runOf q
            let fs := runOps ⟨some [0], none⟩ r.ops
            joinSp ["ret", showRet r.ret, "dest", destWord none r.ops, "tmp", if fs.tmp.isSome then "1" else "0"]
          (st, joinSp [idx, "A", short qa, "B", short qb])
      | _ => (st, idx ++ " bad-op")
    | _, _, _ => (st, idx ++ " bad-op")
  | "real" :: idx :: _prod :: _chunk :: _fail :: _depth :: _payload :: rest =>
    -- a pull from the crate's own `Server`; the harness states the script the client saw
    match parseScript rest with
    | some (q, []) => (st, idx ++ " " ++ scriptObs q)
    | _ => (st, idx ++ " bad-op")
  | "kill" :: idx :: _point :: rest =>
    match parseScript rest with
    | some (q, [saw]) => (st, joinSp [idx, "kill", if (killStates q).contains saw then "ok" else "BAD"])
    | _ => (st, idx ++ " bad-op")
  | "value" :: idx :: mode :: co :: fm :: op :: "need" :: nd :: dc :: "wire" :: rest =>
    match compOf co, allSome (rest.map respOf), decOf dc with
    | some comp, some wire, some dec =>
      if ["sync", "async", "stream", "vec", "vecasync", "typed", "typedasync", "complex", "complexasync", "consume", "consumeasync",
          "consumeerr", "consumeerrasync", "consumepanic", "consumepanicasync"].contains mode ∧ nd.isNat ∧ (fm = "beve" ∨ fm = "raw") ∧ (op = "ok" ∨ op = "err" ∨ op = "cut") then
        (st, idx ++ " " ++ valueObs mode comp (natOf nd) dec (op = "ok") (fm = "beve") wire)
      else (st, idx ++ " bad-op")
    | _, _, _ => (st, idx ++ " bad-op")
  | _ => (st, "bad-op")

end Repe.Driver.Commit

def main : IO Unit := Repe.Driver.loop Repe.Driver.Commit.step ()
