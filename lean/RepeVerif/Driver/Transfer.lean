import RepeVerif.Model.Transfer
import RepeVerif.Gen.Transfer
import RepeVerif.Driver.Common
/-!
Driver for the `transfer` correspondence family (C11, C13).

ops (second word = index token, echoed as first word of the observation):
  mode checks|wraps
  new <i> <window> <capacity>          sent <i> <off>            ack <i> <file> <off>
  cancel <i> <reason>                  advance <i> <file>        resume <i> <peer> <file> <off>
  credit <i> <len>                     reconnect <i>             push <i> <off> <dlen> <last> <body hex>
  replay <i> <off>                     setpeer <i> <peer>
  enum <i> <domain> <len> <group>      small-scope exhaustive enumeration, see `enumerate`
observation: `<i> <ret> | <sent> <acked> <reason|-> <peer|-> <chunk>…` or `<i> <ret> | POISONED`
with chunk = `offset:dataLen:last:wireLen:fnv64(body)`.
-/
namespace Repe.Driver.Transfer
open Repe Repe.Driver Repe.Transfer

def fnvBasis : UInt64 := 0xcbf29ce484222325
def fnvPrime : UInt64 := 0x100000001b3

def fnvBytes (h : UInt64) (bs : Bytes) : UInt64 :=
  bs.foldl (fun h b => (h ^^^ b.toUInt64) * fnvPrime) h

def fnvStr (h : UInt64) (s : String) : UInt64 :=
  s.toUTF8.foldl (fun h b => (h ^^^ b.toUInt64) * fnvPrime) h

def mix (a d : UInt64) : UInt64 :=
  let x := (a ^^^ d) * fnvPrime
  x ^^^ (x >>> 29)

def showChunk (c : Chunk) : String :=
  s!"{c.offset}:{c.dataLen}:{if c.last then 1 else 0}:{c.body.length}:{(fnvBytes fnvBasis c.body).toNat}"

def showOpt : Option Nat → String
  | none => "-"
  | some n => toString n

def showState (s : State) : String :=
  if s.poisoned then "POISONED" else
  joinSp ([toString s.sent, toString s.acked, showOpt s.cancelled, showOpt s.peer] ++ s.chunks.map showChunk)

def showRet : Ret → String
  | .unit => "unit"
  | .creditOk => "credit-ok"
  | .creditCancelled r => s!"credit-cancelled {r}"
  | .creditTimeout => "credit-timeout"
  | .reconnResume o => s!"reconnect-resume {o}"
  | .reconnCancelled r => s!"reconnect-cancelled {r}"
  | .reconnTimeout => "reconnect-timeout"
  | .resumeOk o => s!"resume-ok {o}"
  | .resumeWrongFile a b => s!"resume-wrongfile {a} {b}"
  | .resumeOutOfWindow => "resume-outofwindow"
  | .resumeCancelled => "resume-cancelled"
  | .chunks cs => joinSp (s!"replay {cs.length}" :: cs.map showChunk)
  | .panic => "PANIC"

/-- observation of one call: return value, visible state, and which of the two watchdog time stamps
(`last_chunk_at`, `last_ack_at`) the call refreshed -/
def obs (op : Op) (s : State) (r : Ret) : String :=
  let e := stampEffect op r
  showRet r ++ " | " ++ showState s ++ " ~" ++ (if e.1 then "1" else "0") ++ (if e.2 then "1" else "0")

/-! ### small-scope exhaustive enumeration -/

/-- Alphabet entry: a concrete op, or a push whose offset abuts the producer's counter. -/
inductive T where
  | op (o : Op)
  | push (dlen ovh : Nat)

structure Ghost where
  nextOff : Nat := 0
  pushes : Nat := 0

def apply (f : Facts) (m : OvMode) (s : State) (g : Ghost) : T → State × Ghost × Ret × Op
  | .op o =>
    let (s', r) := step f m s o
    let g' := match o with
      | .advance _ => { g with nextOff := 0 }
      | _ => g
    (s', g', r, o)
  | .push dlen ovh =>
    let body : Bytes := List.replicate (dlen + ovh) (UInt8.ofNat (g.pushes % 256))
    let o : Op := .pushReplay g.nextOff dlen false body
    let (s', r) := step f m s o
    (s', { nextOff := g.nextOff + dlen, pushes := g.pushes + 1 }, r, o)

def alphaC11 : List T :=
  [.op (.recordSent 1), .op (.recordSent 2), .op (.recordSent 3),
   .op (.recordAck 0 0), .op (.recordAck 0 1), .op (.recordAck 0 2), .op (.recordAck 0 3),
   .op (.recordAck 1 1), .op (.recordAck 1 2), .op (.recordAck 1 3),
   .op (.cancel 0), .op (.cancel emptyReason), .op (.advance 0), .op (.advance 1),
   .op (.requestResume 7 0 0), .op (.requestResume 7 0 1), .op (.requestResume 7 0 2),
   .op (.requestResume 7 1 0), .op (.requestResume 7 1 1), .op (.requestResume 7 1 2),
   .op (.waitCredit 1), .op (.waitCredit 2), .op (.waitCredit 3), .op .waitReconnect,
   .push 1 0, .push 2 1]

def alphaC11s : List T :=
  [.op (.recordSent 1), .op (.recordSent 3), .op (.recordAck 0 1), .op (.recordAck 0 3), .op (.recordAck 1 3),
   .op (.waitCredit 1), .op (.waitCredit 3), .op (.cancel 0), .op (.advance 1), .op (.requestResume 7 0 1)]

/-- cancel with every edge reason string, and everything that reports or could disturb the reason -/
def alphaC11r : List T :=
  [.op (.cancel 0), .op (.cancel idleReason), .op (.cancel emptyReason), .op (.cancel blankReason),
   .op (.cancel longReason), .op (.cancel unicodeReason), .op (.cancel nulReason), .op (.cancel paddedIdleReason),
   .op (.waitCredit 3), .op .waitReconnect, .op (.advance 1), .op (.requestResume 7 0 0)]

def alphaC13 : List T :=
  [.push 0 0, .push 0 1, .push 1 0, .push 1 1, .push 2 0, .push 2 1,
   .op (.requestResume 7 0 0), .op (.requestResume 7 0 1), .op (.requestResume 7 0 2),
   .op (.requestResume 7 0 3), .op (.requestResume 7 0 4), .op (.requestResume 8 1 0),
   .op .waitReconnect, .op (.advance 0), .op (.advance 1), .op (.cancel 0),
   .op (.replayFrom 1), .op (.replayFrom 2), .op (.replayFrom 3),
   .op (.recordSent 2), .op (.recordSent 4)]

def alphaC13s : List T :=
  [.push 1 0, .push 2 1, .push 0 1, .op (.requestResume 7 0 1), .op (.requestResume 7 0 2),
   .op (.advance 0), .op (.cancel 0), .op .waitReconnect]

/-- domain id → (window, capacity, alphabet) -/
def domain (d : String) : Option (Nat × Nat × List T) :=
  match d.splitOn "." with
  | ["c11"] => some (2, 3, alphaC11)
  | ["c11s"] => some (2, 3, alphaC11s)
  | ["c11r"] => some (2, 3, alphaC11r)
  | ["c11s", win] => win.toNat?.map fun w => (w, 0, alphaC11s)
  | ["c13", cap] => cap.toNat?.map fun c => (4, c, alphaC13)
  | ["c13s", cap] => cap.toNat?.map fun c => (4, c, alphaC13s)
  | _ => none

structure Ctx where
  f : Facts
  m : OvMode
  alpha : Array T
  len : Nat
  group : Nat

/-- fold the digests of every extension (up to `len`) of the current sequence into `acc` -/
partial def foldSub (c : Ctx) (s : State) (g : Ghost) (h : UInt64) (depth : Nat) (acc : UInt64) : UInt64 := Id.run do
  let mut acc := acc
  for t in c.alpha do
    let (s', g', r, o) := apply c.f c.m s g t
    let h' := fnvStr h (obs o s' r ++ "\n")
    acc := mix acc h'
    if depth + 1 < c.len then acc := foldSub c s' g' h' (depth + 1) acc
  return acc

/-- preorder DFS; one line per sequence of length ≤ `group`; a sequence of length exactly `group`
carries the folded digest of all its extensions up to `len`. -/
partial def dfs (c : Ctx) (idx : String) (s : State) (g : Ghost) (h : UInt64) (depth : Nat) (path : String)
    (out : Array String) : Array String := Id.run do
  let mut out := out
  let mut i := 0
  for t in c.alpha do
    let (s', g', r, o) := apply c.f c.m s g t
    let h' := fnvStr h (obs o s' r ++ "\n")
    let path' := path ++ "." ++ toString i
    if depth + 1 == c.group && depth + 1 < c.len then
      out := out.push s!"{idx}{path'} {(foldSub c s' g' h' (depth + 1) h').toNat}"
    else
      out := out.push s!"{idx}{path'} {h'.toNat}"
      if depth + 1 < c.len then out := dfs c idx s' g' h' (depth + 1) path' out
    i := i + 1
  return out

def enumerate (f : Facts) (m : OvMode) (idx dom : String) (len group : Nat) : Option String :=
  match domain dom with
  | none => none
  | some (w, cap, alpha) =>
    let c : Ctx := { f := f, m := m, alpha := alpha.toArray, len := len, group := min group len }
    let lines := dfs c idx (init w cap) {} fnvBasis 0 "" #[]
    some ("\n".intercalate lines.toList)

/-! ### concurrent sub-family: membership of observed outcomes in the sequential orders -/

/-- a call of a concurrent program: a model op or one of the read accessors -/
inductive COp where
  | op (o : Op)
  | readOff | readIsc | readReason | readPeer
  /-- a thread that only hammers the observers while the others run: no effect, no result of its own -/
  | hammer

def parseCOp (c : String) : Option COp :=
  let h := c.take 1 |>.toString
  let rest := (c.drop 1).toString
  let nums? : Option (List Nat) := if rest = "" then some [] else (rest.splitOn ".").mapM (·.toNat?)
  match nums? with
  | none => none
  | some nums =>
    match h, nums with
    | "s", [o] => some (.op (.recordSent o))
    | "a", [f, o] => some (.op (.recordAck f o))
    | "c", [r] => some (.op (.cancel r))
    | "v", [f] => some (.op (.advance f))
    | "r", [p, f, o] => some (.op (.requestResume p f o))
    | "k", [l] => some (.op (.waitCredit l))
    | "w", [] => some (.op .waitReconnect)
    | "p", [o, d, w] => some (.op (.pushReplay o d false (List.replicate w (UInt8.ofNat ((o + d) % 256)))))
    | "y", [o] => some (.op (.replayFrom o))
    | "t", [p] => some (.op (.setPeer p))
    | "o", [] => some .readOff
    | "i", [] => some .readIsc
    | "n", [] => some .readReason
    | "g", [] => some .readPeer
    | "h", [] => some .hammer
    | _, _ => none

def parseProg (w : String) : Option (List COp) :=
  if w = "-" then some [] else (w.splitOn ",").mapM parseCOp

def us (s : String) : String := s.replace " " "_"

def callCOp (f : Facts) (m : OvMode) (s : State) : COp → State × String
  | .op o => let (s', r) := Repe.Transfer.step f m s o; (s', us (showRet r))
  | .readOff => (s, if s.poisoned then "PANIC" else s!"off_{s.sent}_{s.acked}")
  | .readIsc => (s, if s.poisoned then "PANIC" else s!"isc_{if s.cancelled.isSome then 1 else 0}")
  | .readReason => (s, if s.poisoned then "PANIC" else s!"reason_{showOpt s.cancelled}")
  | .readPeer => (s, if s.poisoned then "PANIC" else s!"peer_{showOpt s.peer}")
  | .hammer => (s, "h")

def concFinal (f : Facts) (m : OvMode) (s : State) : String :=
  let (_, r) := Repe.Transfer.step f m s .waitReconnect
  us (showState s ++ "/" ++ showRet r)

/-- outcomes of all sequential orders that keep each thread's program order -/
partial def seqOutcomes (f : Facts) (m : OvMode) (s : State) (rest : List (List COp)) (rets : List (List String))
    (acc : List String) : List String := Id.run do
  if rest.all List.isEmpty then
    let o := ";".intercalate (rets.map fun r => ",".intercalate r.reverse) ++ "|" ++ concFinal f m s
    return if acc.contains o then acc else o :: acc
  let mut acc := acc
  let mut i := 0
  for p in rest do
    match p with
    | [] => pure ()
    | c :: cs =>
      let (s', r) := callCOp f m s c
      let rets' := rets.mapIdx fun j rs => if j = i then r :: rs else rs
      acc := seqOutcomes f m s' (rest.set i cs) rets' acc
    i := i + 1
  return acc

def concLine (f : Facts) (m : OvMode) (idx : String) (ws : List String) : String :=
  -- ws = <window> <cap> <setup> :: progs… [:: outcomes…]
  match ws with
  | w :: c :: setup :: "::" :: tail =>
    let progsW := tail.takeWhile (· ≠ "::")
    let observed := (tail.dropWhile (· ≠ "::")).drop 1
    match w.toNat?, c.toNat?, parseProg setup, progsW.mapM parseProg with
    | some w, some c, some setup, some progs =>
      let s0 := setup.foldl (fun s c => (callCOp f m s c).1) (init w c)
      let allowed := seqOutcomes f m s0 progs (progs.map fun _ => []) []
      match observed.find? (fun o => !allowed.contains o) with
      | some bad => s!"{idx} conc NONLIN {bad}"
      | none => s!"{idx} conc ok {observed.length}"
    | _, _, _, _ => idx ++ " bad-op"
  | _ => idx ++ " bad-op"

/-! ### the watchdog scenario (`watchdog <i>`): what the model says the real watchdog thread must have done -/

def showReasonW : Option Nat → String
  | none => "-"
  | some r => if r = idleReason then "idle" else toString r

/-- A: idle transfer with some state; B: cancelled with reason 5 before the watchdog runs (visited with a stale
and with a fresh `is_cancelled`); C, D: never visited with `idle = true` (unregistered / far-future timeout);
E: like A but cancelled with the empty reason before the watchdog runs. -/
def watchdogLine (f : Facts) (m : OvMode) (idx : String) : String :=
  let setup : List Op := [.setPeer 3, .pushReplay 0 5 false [1, 2, 3, 4, 5], .recordSent 5, .recordAck 0 2]
  let a0 := run f m (init 8 64) setup
  let a1 := run f m a0 (watchdogVisit false true ++ watchdogVisit true true)
  let same := decide ({ a1 with cancelled := a0.cancelled } = a0)
  let b0 := run f m (init 8 64) [.cancel 5]
  let b1 := run f m b0 (watchdogVisit false true ++ watchdogVisit true true)
  let c1 := run f m (init 8 64) (watchdogVisit false false)
  let e0 := run f m a0 [.cancel emptyReason]
  let e1 := run f m e0 (watchdogVisit false true ++ watchdogVisit true true)
  -- K: idle timeout 4 s (tick at its clamp): visited not idle, later idle — same end as L
  -- G: zero idle timeout (idle at every visit); H: `Duration::MAX` (never idle); L: registered late, idle when seen
  let g1 := run f m a0 (watchdogVisit false true ++ watchdogVisit true true)
  let h1 := run f m a0 (watchdogVisit false false ++ watchdogVisit false false)
  let l1 := run f m a0 (watchdogVisit false true)
  s!"{idx} watchdog A={showReasonW a1.cancelled}/{if same then "same" else "changed"} B={showReasonW b1.cancelled} C={showReasonW c1.cancelled} D={showReasonW c1.cancelled} E={showReasonW e1.cancelled} G={showReasonW g1.cancelled} H={showReasonW h1.cancelled} L={showReasonW l1.cancelled} K={showReasonW l1.cancelled} reg=ok"

/-! ### line protocol -/

structure St where
  mode : OvMode := .checks
  s : State := init 0 0

def nat? (s : String) : Option Nat := s.toNat?

def parseOp : List String → Option Op
  | ["sent", _, o] => do pure (.recordSent (← nat? o))
  | ["ack", _, f, o] => do pure (.recordAck (← nat? f) (← nat? o))
  | ["cancel", _, r] => do pure (.cancel (← nat? r))
  | ["advance", _, f] => do pure (.advance (← nat? f))
  | ["resume", _, p, f, o] => do pure (.requestResume (← nat? p) (← nat? f) (← nat? o))
  | ["credit", _, l] => do pure (.waitCredit (← nat? l))
  | ["reconnect", _] => some .waitReconnect
  -- the deadline / timeout of a wait is not a parameter of the model: a caller alone on the object gets the
  -- outcome of one pass whatever it is (C12: `wait_pass`), so the token is accepted and ignored
  | ["credit", _, l, _] => do pure (.waitCredit (← nat? l))
  | ["reconnect", _, _] => some .waitReconnect
  | ["push", _, o, d, l, b] => do
    let lb ← (if l = "1" then some true else if l = "0" then some false else none)
    pure (.pushReplay (← nat? o) (← nat? d) lb (← bytesOfHex b))
  | ["replay", _, o] => do pure (.replayFrom (← nat? o))
  | ["setpeer", _, p] => do pure (.setPeer (← nat? p))
  | _ => none

def step (st : St) (ws : List String) : St × String :=
  match ws with
  | ["mode", "checks"] => ({ st with mode := .checks }, "")
  | ["mode", "wraps"] => ({ st with mode := .wraps }, "")
  | ["new", idx, w, c] =>
    match nat? w, nat? c with
    | some w, some c =>
      let s := init w c
      ({ st with s := s }, idx ++ " new | " ++ showState s)
    | _, _ => (st, idx ++ " bad-op")
  | ["newdef", idx, w] =>
    -- `TransferControl::new(w)` = `with_replay_capacity(w, DEFAULT_REPLAY_RING_BYTES)` (`C13.defaults_fact`)
    match nat? w with
    | some w =>
      let s := init w (if Gen.newUsesDefaultRing then Gen.defaultReplayRingBytes else 0)
      ({ st with s := s }, idx ++ " new | " ++ showState s)
    | none => (st, idx ++ " bad-op")
  | ["enum", idx, dom, len, group] =>
    match nat? len, nat? group with
    | some len, some group =>
      match enumerate Gen.transferFacts st.mode idx dom len group with
      | some out => (st, out)
      | none => (st, idx ++ " bad-op")
    | _, _ => (st, idx ++ " bad-op")
  | ["watchdog", idx] => (st, watchdogLine Gen.transferFacts st.mode idx)
  | "conc" :: idx :: rest => (st, concLine Gen.transferFacts st.mode idx rest)
  | _ :: idx :: _ =>
    match parseOp ws with
    | some op =>
      let (s', r) := Repe.Transfer.step Gen.transferFacts st.mode st.s op
      ({ st with s := s' }, idx ++ " " ++ obs op s' r)
    | none => (st, idx ++ " bad-op")
  | _ => (st, "bad-op")

end Repe.Driver.Transfer

def main : IO Unit := Repe.Driver.loop Repe.Driver.Transfer.step {}
