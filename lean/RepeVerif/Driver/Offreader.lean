import RepeVerif.Model.OffReader
import RepeVerif.Gen.Offreader
import RepeVerif.Driver.Common
/-!
Driver for the `offreader` correspondence family (C16).

  cap <idx> <N|-|d> <mw 0|1> [<outbound capacity>]  new connection: cap (`-` = unlimited), router middleware or not
  reconnect <idx>                                 the client drops the connection (handlers stay parked) and opens a new one
  hook <idx> begin|end                            the exits in between happen inside the refusal of the arrival in between (no observation)
  race <idx> <rounds> <extra>                     unobserved arrivals/exits ending with nothing running (no observation)
  burst <idx> begin|end                          the arrivals in between are written in one piece (no observation)
  arrive <idx> <id> <inline|blocking> <notify 0|1> <ec>
      -> <idx> admitted <id> ; running N | <idx> resp <id> <ec> ; running N | <idx> dropped ; running N
         | <idx> none ; running N | <idx> stalled ; running N
  exit <idx> <id> <ret|err N|panic [payload kind]>
      -> <idx> resp <id> <ec> ; running N | <idx> none ; running N | <idx> unknown ; running N
`running` counts handlers that are executing, whether off the reader or (wrong facts only) on it.
-/
namespace Repe.Driver.Offreader
open Repe Repe.Driver

structure DSt where
  conns : List Conn := []
  cur : Nat := 0
  setting : CapSetting := .default
  mw : Bool := false

def DSt.st (d : DSt) : St := (d.conns[d.cur]?.map (·.st)).getD (St.init none)

def runningOf (s : St) : Nat :=
  s.running.length + (match s.readerBusy with | some (.runningInline _) => 1 | _ => 0)

/-- handlers executing anywhere on the server: the current connection and the dropped ones -/
def runningCount (d : DSt) : Nat := (d.conns.map (fun c => runningOf c.st)).foldl (· + ·) 0

def showNew (s s' : St) : List String :=
  (s'.outbound.drop s.outbound.length).map fun r => s!"resp {r.id} {r.ec}"

def settingOf (c : String) : Option CapSetting :=
  if c = "d" then some .default else if c = "-" then some (.set 0) else if c.isNat then some (.set (natOf c)) else none

def owns (c : Conn) (id : Nat) : Bool :=
  (takeRun id c.st.running).isSome || (match c.st.readerBusy with | some (.runningInline a) => a.id = id | _ => false)

def findOwner (conns : List Conn) (cur id : Nat) : Option Nat :=
  if (conns[cur]?.map (owns · id)).getD false then some cur
  else (List.range conns.length).find? (fun i => (conns[i]?.map (owns · id)).getD false)

def step (d : DSt) (ws : List String) : DSt × String :=
  let f := Gen.offFacts
  let cf := Gen.capFacts
  let fresh (c mw : String) : Option DSt :=
    match settingOf c with
    | some setting =>
      if mw = "0" || mw = "1" then
        some { conns := sstep f cf setting [] .connect, cur := 0, setting := setting, mw := mw = "1" }
      else none
    | none => none
  match ws with
  | ["cap", _idx, c, mw] => match fresh c mw with | some d' => (d', "") | none => (d, "bad-op")
  | ["cap", _idx, c, mw, ocap] =>
    -- the outbound queue's capacity is not part of the model: a full queue only delays the reader
    -- (`p<k>`: the server runtime's blocking pool has k threads — when a handler gets a thread is not modelled either)
    if ocap.isNat || (ocap.startsWith "p" && (ocap.drop 1).toString.isNat) then
      (match fresh c mw with | some d' => (d', "") | none => (d, "bad-op")) else (d, "bad-op")
  | ["starve", _idx, "begin"] => (d, "")  -- the admitted handler starts late (no free pool thread): same events
  | ["starve", _idx, "end"] => (d, "")
  | ["hook", _idx, "begin"] => (d, "")    -- the exits that follow happen inside the refusal that follows: same events
  | ["hook", _idx, "end"] => (d, "")
  | ["race", _idx, rounds, extra] =>
    -- an unobserved interleaving of arrivals and exits on this connection that ends with every handler
    -- exited: by `all_exited_running_zero` the state then has nothing running and no permit taken
    if rounds.isNat && extra.isNat then
      let ids := d.st.running.map (·.id)
      let conns := ids.foldl (fun cs id => sstep f cf d.setting cs (.ev d.cur (.exit id .ret))) d.conns
      ({ d with conns := conns }, "")
    else (d, "bad-op")
  | ["burst", _idx, "begin"] => (d, "")   -- how the arrivals reach the socket; same events
  | ["burst", _idx, "end"] => (d, "")
  | ["reconnect", _idx] =>
    let conns := sstep f cf d.setting (sstep f cf d.setting d.conns (.disconnect d.cur)) .connect
    ({ d with conns := conns, cur := conns.length - 1 }, "")
  | ["arrive", idx, id, route, notify, ec] =>
    if !(id.isNat && (route = "inline" || route = "blocking") && (notify = "0" || notify = "1") && ec.isNat) then
      (d, idx ++ " bad-op")
    else
      let a : Arrival := ⟨natOf id, if route = "inline" then .inline else .blocking, d.mw, notify = "1", natOf ec⟩
      let s := d.st
      let d' := { d with conns := sstep f cf d.setting d.conns (.ev d.cur (.arrive a)) }
      let s' := d'.st
      let outs := showNew s s'
      let what :=
        if s'.backlog.length > s.backlog.length || (s'.readerBusy.isSome && !s.readerBusy.isSome &&
            (match s'.readerBusy with | some (.waitingSlot _) => true | _ => false)) then "stalled"
        else if runningOf s' > runningOf s then joinSp (s!"admitted {a.id}" :: outs)
        else if !outs.isEmpty then joinSp outs
        else if s'.reports.length > s.reports.length then "dropped"
        else "none"
      (d', s!"{idx} {what} ; running {runningCount d'}")
  | "exit" :: idx :: id :: kind =>
    let k : Option ExitKind := match kind with
      | ["ret"] => some .ret
      | ["panic"] => some .panic
      | ["panic", payloadKind] => if payloadKind.isNat then some .panic else none   -- what the unwinding carries is not modelled
      | ["err", c] => if c.isNat then some (.err (natOf c)) else none
      | _ => none
    match k, id.isNat with
    | some k, true =>
      match findOwner d.conns d.cur (natOf id) with
      | none => (d, s!"{idx} unknown ; running {runningCount d}")
      | some i =>
        let s := (d.conns[i]?.map (·.st)).getD (St.init none)
        let d' := { d with conns := sstep f cf d.setting d.conns (.ev i (.exit (natOf id) k)) }
        let s' := (d'.conns[i]?.map (·.st)).getD (St.init none)
        let outs := showNew s s'
        let what := if outs.isEmpty then "none" else joinSp outs
        (d', s!"{idx} {what} ; running {runningCount d'}")
    | _, _ => (d, idx ++ " bad-op")
  | _ :: idx :: _ => (d, idx ++ " bad-op")
  | _ => (d, "bad-op")

end Repe.Driver.Offreader

def main : IO Unit := Repe.Driver.loop Repe.Driver.Offreader.step {}
