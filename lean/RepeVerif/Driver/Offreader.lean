import RepeVerif.Model.OffReader
import RepeVerif.Gen.Offreader
import RepeVerif.Driver.Common
/-!
Driver for the `offreader` correspondence family (C16).

  cap <idx> <N|-> <mw 0|1> [<outbound capacity>]  new connection: cap (`-` = unlimited), router middleware or not
  burst <idx> begin|end                          the arrivals in between are written in one piece (no observation)
  arrive <idx> <id> <inline|blocking> <notify 0|1> <ec>
      -> <idx> admitted <id> ; running N | <idx> resp <id> <ec> ; running N | <idx> dropped ; running N
         | <idx> none ; running N | <idx> stalled ; running N
  exit <idx> <id> <ret|err N|panic [payload kind]>
      -> <idx> resp <id> <ec> ; running N | <idx> none ; running N | <idx> unknown ; running N
`running` counts handlers that are executing, whether off the reader or (wrong facts only) on it.
-/
namespace Repe.Driver.Offreader
open Repe Repe.Driver

structure DSt where
  st : St := St.init none
  mw : Bool := false

def runningCount (s : St) : Nat :=
  s.running.length + (match s.readerBusy with | some (.runningInline _) => 1 | _ => 0)

def showNew (s s' : St) : List String :=
  (s'.outbound.drop s.outbound.length).map fun r => s!"resp {r.id} {r.ec}"

def step (d : DSt) (ws : List String) : DSt × String :=
  let f := Gen.offFacts
  match ws with
  | ["cap", _idx, c, mw] =>
    if (c = "-" || c.isNat) && (mw = "0" || mw = "1") then
      ({ st := St.init (if c = "-" then none else some (natOf c)), mw := mw = "1" }, "")
    else (d, "bad-op")
  | ["cap", _idx, c, mw, ocap] =>
    -- the outbound queue's capacity is not part of the model: a full queue only delays the reader
    if (c = "-" || c.isNat) && (mw = "0" || mw = "1") && ocap.isNat then
      ({ st := St.init (if c = "-" then none else some (natOf c)), mw := mw = "1" }, "")
    else (d, "bad-op")
  | ["burst", _idx, "begin"] => (d, "")   -- how the arrivals reach the socket; same events
  | ["burst", _idx, "end"] => (d, "")
  | ["arrive", idx, id, route, notify, ec] =>
    if !(id.isNat && (route = "inline" || route = "blocking") && (notify = "0" || notify = "1") && ec.isNat) then
      (d, idx ++ " bad-op")
    else
      let a : Arrival := ⟨natOf id, if route = "inline" then .inline else .blocking, d.mw, notify = "1", natOf ec⟩
      let s := d.st
      let s' := Repe.step f s (.arrive a)
      let outs := showNew s s'
      let what :=
        if s'.backlog.length > s.backlog.length || (s'.readerBusy.isSome && !s.readerBusy.isSome &&
            (match s'.readerBusy with | some (.waitingSlot _) => true | _ => false)) then "stalled"
        else if runningCount s' > runningCount s then joinSp (s!"admitted {a.id}" :: outs)
        else if !outs.isEmpty then joinSp outs
        else if s'.reports.length > s.reports.length then "dropped"
        else "none"
      ({ d with st := s' }, s!"{idx} {what} ; running {runningCount s'}")
  | "exit" :: idx :: id :: kind =>
    let k : Option ExitKind := match kind with
      | ["ret"] => some .ret
      | ["panic"] => some .panic
      | ["panic", payloadKind] => if payloadKind.isNat then some .panic else none   -- what the unwinding carries is not modelled
      | ["err", c] => if c.isNat then some (.err (natOf c)) else none
      | _ => none
    match k, id.isNat with
    | some k, true =>
      let s := d.st
      let known := (takeRun (natOf id) s.running).isSome ||
        (match s.readerBusy with | some (.runningInline a) => a.id = natOf id | _ => false)
      let s' := Repe.step f s (.exit (natOf id) k)
      let outs := showNew s s'
      let what := if !known then "unknown" else if outs.isEmpty then "none" else joinSp outs
      ({ d with st := s' }, s!"{idx} {what} ; running {runningCount s'}")
    | _, _ => (d, idx ++ " bad-op")
  | _ :: idx :: _ => (d, idx ++ " bad-op")
  | _ => (d, "bad-op")

end Repe.Driver.Offreader

def main : IO Unit := Repe.Driver.loop Repe.Driver.Offreader.step {}
