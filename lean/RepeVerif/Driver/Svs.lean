import RepeVerif.Model.Svs
import RepeVerif.Gen.Svs
import RepeVerif.Driver.Common
/-!
Driver for the `svs` correspondence family (C09).

```
raw <idx> <srv> <kind> <comp> <chunk> <depth> <speed> <stream> <evs> <end> <script> <aux>
    -> <idx> open <format> <comp> <res>…        res = len:last[:fnv] | err | [res …] | ack | -
hl  <idx> <srv> <client> <puller> <kind> <comp> <chunk> <depth> <stream> <evs> <end> <aux>
    -> <idx> ok [<len> <fnv>] | <idx> err
```
`stream` = `h:<hex>` | `p:<a>:<b>:<len>` (byte i = (a·i+b) mod 251) | `z:<len>` (content not known to the
model: lengths only); for `raw` it is what the body (or the zstd encoder) wrote into the sink, for `hl`
the logical bytes.  `evs` = `w<len>`/`f` list, `c<k>` (pieces of k), or `-`.  `end` = ok|err|vanish.
`script` = `N` (next until terminal) | `n` | `c` (cancel, request) | `k` (cancel, notify) | `u` (next on a
never-issued id) | `m` (malformed next body) | `j` (malformed cancel body) | `o` (open of an unknown resource) | `w` (a second stream of the same resource is opened and pulled once) | `q` (a `next`
parked on a gated producer + `cancel` from elsewhere while it is parked: prints `* ack`).
`conc <idx> <srv> <chunk> <depth> <n> <rounds> <L>`: n clients open simultaneously, per round.
`many <idx> <srv> <chunk> <depth> <n> <L>`: n streams live (partly pulled) at once on one router, then each finished.
Script tokens may be repeated: `n*64`.
`peer <idx> <srv> <client> <puller> v<ver>.z<comp>.f<fmt> <c<len>q<hex>|e<code>,…>`: a scripted peer answers the puller.
`cnext <idx> <srv> <chunk> <depth> <k> <stream> <evs> <aux>`: k connections pull ONE stream concurrently.
`aux` is the harness's replay recipe (ignored here).
`duo <idx> <srv> <kind> <chunk> <depth> <streamA> <evsA> <endA> <streamB> <evsB> <endB> <script> <auxA> <auxB>`:
two streams open at once (uncompressed); script `a|b` (one next), `A|B` (drain), `x|y` (cancel).
-/
namespace Repe.Driver.Svs
open Repe Repe.Driver Repe.Svs

def fnv (bs : Bytes) : UInt64 :=
  bs.foldl (fun h b => (h ^^^ b.toUInt64) * 0x100000001b3) 0xcbf29ce484222325

def patBytes (a b n : Nat) : Bytes := (List.range n).map fun i => UInt8.ofNat ((a * i + b) % 251)

/-- stream bytes and whether the model knows their content -/
def parseStream (s : String) : Option (Bytes × Bool) :=
  match s.splitOn ":" with
  | ["h", hx] => (bytesOfHex hx).map (·, true)
  | ["p", a, b, n] => some (patBytes (natOf a) (natOf b) (natOf n), true)
  | ["z", n] => some (List.replicate (natOf n) 0, false)
  | _ => none

def piecesOf (k : Nat) : Nat → Bytes → List Ev
  | 0, _ => []
  | fuel + 1, data => if data.isEmpty then [] else .write (data.take k) :: piecesOf k fuel (data.drop k)

/-- Split the stream bytes into the recorded writes. `none` if the lengths do not add up. -/
def parseEvs (s : String) (data : Bytes) : Option (List Ev) :=
  if s = "-" then (if data.isEmpty then some [] else none)
  else if s.startsWith "c" then
    let k := natOf (s.drop 1).toString
    if k = 0 then none else some (piecesOf k (data.length + 1) data)
  else
    let rec go : List String → Bytes → Option (List Ev)
      | [], rest => if rest.isEmpty then some [] else none
      | t :: ts, rest =>
        if t = "f" then (go ts rest).map (Ev.flush :: ·)
        else if t.startsWith "w" then
          let n := natOf (t.drop 1).toString
          if rest.length < n then none else (go ts (rest.drop n)).map (Ev.write (rest.take n) :: ·)
        else none
    go (s.splitOn ",") data

def parseEnd : String → Option BodyEnd
  | "ok" => some .ok
  | "err" => some (.err "injected")
  | "vanish" => some .vanish
  | _ => none

/-- `open` response format tag: from the extracted table; `writer:<fmt>` carries the caller's. -/
def formatOf (kind : String) : Option Nat :=
  match kind.splitOn ":" with
  | ["writer", f] => some (natOf f)
  | [k, _] => Gen.svsFormats.lookup k
  | [k] => Gen.svsFormats.lookup k
  | _ => none

def showResp (known : Bool) : Resp → String
  | .error => "err"
  | .chunk body q =>
    let flag := match q with
      | [b] => toString b.toNat
      | _ => "?"
    toString body.length ++ ":" ++ flag ++ (if known then ":" ++ toString (fnv body).toNat else "")

def isTerminal (F : Facts) : Resp → Bool
  | .error => true
  | .chunk _ q => isLast F.syncLastIs q

/-- `N`: next until a terminal response. -/
def drainNext (F : Facts) (id : Nat) : Nat → Server → List Resp → Server × List Resp
  | 0, sv, acc => (sv, acc.reverse)
  | fuel + 1, sv, acc =>
    let (sv', r) := sv.next F id
    if isTerminal F r then (sv', (r :: acc).reverse) else drainNext F id fuel sv' (r :: acc)

def runScript (F : Facts) (known : Bool) (id fuel : Nat) (msgs : List Msg) : List String → Server → List String → Option (List String)
  | [], _, acc => some acc.reverse
  | t :: ts, sv, acc =>
    match t with
    | "n" =>
      let (sv', r) := sv.next F id
      runScript F known id fuel msgs ts sv' (showResp known r :: acc)
    | "N" =>
      let (sv', rs) := drainNext F id fuel sv []
      runScript F known id fuel msgs ts sv' (("[" ++ joinSp (rs.map (showResp known)) ++ "]") :: acc)
    | "q" =>
      -- a `next` parked on a gated producer while a `cancel` from elsewhere is acknowledged: whatever
      -- the parked request returns (`*`), the stream is released afterwards
      let (sv', _) := sv.next F id
      runScript F known id fuel msgs ts (sv'.cancel id) ("ack" :: "*" :: acc)
    | "w" =>
      -- a second stream of the same resource is opened and pulled once; later tokens keep addressing the first
      let (sv1, id2) := sv.open msgs
      let (sv2, r) := sv1.next F id2
      runScript F known id fuel msgs ts sv2 (("second(" ++ showResp known r ++ ")") :: acc)
    | "u" =>
      -- `next` for an id that was never issued (ids start at 1 in the model; 0 stands for any such id)
      let (sv', r) := sv.next F 0
      runScript F known id fuel msgs ts sv' (showResp known r :: acc)
    | "m" => runScript F known id fuel msgs ts sv ("err" :: acc)     -- malformed `next` body: InvalidBody, table untouched
    | "j" => runScript F known id fuel msgs ts sv ("ack" :: acc)     -- malformed `cancel` body: acknowledged, releases nothing
    | "o" => runScript F known id fuel msgs ts sv ("noent" :: acc)   -- `open` of an unknown resource: no session
    | "c" => runScript F known id fuel msgs ts (sv.cancel id) ("ack" :: acc)
    | "k" => runScript F known id fuel msgs ts (sv.cancel id) ("-" :: acc)
    | _ => none

/-- `n*64,c` → 64 × `n`, then `c` -/
def expandScript (script : String) : List String :=
  (script.splitOn ",").flatMap fun t =>
    match t.splitOn "*" with
    | [tok, k] => List.replicate (natOf k) tok
    | _ => [t]

def policyOf : String → Option Policy
  | "n" => some .alternate
  | "f" => some .alternate        -- fragmented request bytes: a transport matter, same schedule
  | "p" => some .consumerFirst    -- slow producer: the handler is always waiting
  | "c" => some .producerFirst    -- slow consumer: the producer runs ahead until the buffer is full
  | _ => none

/-- the two consumer models must agree (theorems `pull_sequence` / `fifo_schedule_independent`);
a disagreement would show as a marker in the output -/
def channelAgrees (d : Nat) (p : Policy) (msgs : List Msg) : Bool :=
  let viaChannel := deliverMsgs d p msgs
  let direct := pullAll (msgs.length + 2) { rx := msgs }
  let key : PullRes → Nat × Nat × UInt64 := fun
    | .ok (c, l) => (c.length, if l then 1 else 0, fnv c)
    | .error _ => (0, 2, 0)
  -- and the arms of `Session::pull` as extracted from the current source (`C09.pull_source_form`)
  let arms := pullAllA Gen.svsPull (msgs.length + 2) { rx := msgs }
  viaChannel.map key == direct.map key && arms.map key == direct.map key

def raw (idx kind comp chunk depth speed stream evs end_ script : String) : String :=
  let F := Gen.svsFacts
  match parseStream stream, parseEnd end_, policyOf speed, formatOf kind with
  | some (data, known), some e, some pol, some fmt =>
    match parseEvs evs data with
    | none => idx ++ " bad-op"
    | some evl =>
      match produce F (natOf chunk) evl e with
      | none => idx ++ " diverges"
      | some msgs =>
        let (sv, id) := ({} : Server).open msgs
        match runScript F known id (msgs.length + 2) msgs (expandScript script) sv [] with
        | none => idx ++ " bad-op"
        | some out =>
          let mark := if channelAgrees (natOf depth) pol msgs then [] else ["!channel"]
          joinSp ([idx, "open", toString fmt, comp] ++ out ++ mark)
  | _, _, _, _ => idx ++ " bad-op"

/-- stand-in codec for `hl` (the observation does not expose the compressed stream): any pair with
`decompress (compress x) = x` gives the same answer (`C09.end_to_end_compressed`). -/
def standInCompress (x : Bytes) : Bytes := 0x28 :: 0xb5 :: 0x2f :: 0xfd :: x
def standInDecompress (x : Bytes) : Bytes := x.drop 4

def needsBeve : String → Option Bool
  | "vec" => some false
  | "file" => some false       -- pull_to_file(_async): the committed file's content (commit protocol: C10)
  | "call" => some false       -- pull_consume(_async) with a read-to-end consumer
  | "c1" => some false         -- … whose consumer reads 1 byte at a time, then 2..7, then the rest
  | "cerr" => some false       -- … whose consumer reads everything and returns Err
  | "cpart" => some false      -- … whose consumer reads 16 bytes and returns them
  | "cpanic" => some false     -- … whose consumer panics after 16 bytes
  | "consume" => some false    -- pull_consume_async with a consumer that stalls (schedule only: same bytes)
  | "value" => some true
  | "typed" => some true
  | "complex" => some true
  | _ => none

def hl (idx client puller kind comp chunk stream evs end_ : String) : String :=
  let F := Gen.svsFacts
  match parseStream stream, parseEnd end_, formatOf kind, needsBeve puller with
  | some (data, known), some e, some fmt, some beve =>
    match parseEvs evs data with
    | none => idx ++ " bad-op"
    | some evl =>
      if beve && fmt != 1 then idx ++ " err" else
      -- what reaches the sink: the body's writes, or the encoder's output
      let sinkEvs : List Ev :=
        if comp = "1" then
          match e with
          | .ok => [.write (standInCompress (evBytes evl))]
          | _ => []                       -- an unfinished encoder: whatever it wrote is a strict prefix
        else evl
      match produce F (natOf chunk) sinkEvs e with
      | none => idx ++ " diverges"
      | some msgs =>
        let rs := (Server.nexts F (msgs.length + 2) (({} : Server).open msgs).1 (({} : Server).open msgs).2).2
        let got := if client = "sync" then syncPull F (fun _ => 8192) rs else asyncPull F rs
        match got with
        | none => idx ++ " err"
        | some bytes =>
          let logical := if comp = "1" then standInDecompress bytes else bytes
          if puller = "cerr" || puller = "cpanic" then idx ++ " err"
          else if puller = "cpart" then
            let part := logical.take 16
            joinSp ([idx, "ok", toString part.length] ++ (if known then [toString (fnv part).toNat] else []))
          else if puller = "vec" || puller = "consume" || puller = "file" || puller = "call" || puller = "c1" then
            joinSp ([idx, "ok", toString logical.length] ++ (if known then [toString (fnv logical).toNat] else []))
          else idx ++ " ok"
  | _, _, _, _ => idx ++ " bad-op"

/-- two streams open at once on one server; `a`/`b` = one `next`, `A`/`B` = drain, `x`/`y` = cancel -/
def runDuo (F : Facts) (ka kb : Bool) (ida idb fuel : Nat) : List String → Server → List String → Option (List String)
  | [], _, acc => some acc.reverse
  | t :: ts, sv, acc =>
    let one (id : Nat) (known : Bool) :=
      let (sv', r) := sv.next F id
      runDuo F ka kb ida idb fuel ts sv' (showResp known r :: acc)
    let all (id : Nat) (known : Bool) :=
      let (sv', rs) := drainNext F id fuel sv []
      runDuo F ka kb ida idb fuel ts sv' (("[" ++ joinSp (rs.map (showResp known)) ++ "]") :: acc)
    match t with
    | "a" => one ida ka
    | "b" => one idb kb
    | "A" => all ida ka
    | "B" => all idb kb
    | "x" => runDuo F ka kb ida idb fuel ts (sv.cancel ida) ("ack" :: acc)
    | "y" => runDuo F ka kb ida idb fuel ts (sv.cancel idb) ("ack" :: acc)
    | _ => none

def duo (idx kind chunk sa ea enda sb eb endb script : String) : String :=
  let F := Gen.svsFacts
  match parseStream sa, parseEnd enda, parseStream sb, parseEnd endb, formatOf kind with
  | some (da, ka), some xa, some (db, kb), some xb, some fmt =>
    match parseEvs ea da, parseEvs eb db with
    | some la, some lb =>
      match produce F (natOf chunk) la xa, produce F (natOf chunk) lb xb with
      | some ma, some mb =>
        let (sv1, ida) := ({} : Server).open ma
        let (sv2, idb) := sv1.open mb
        match runDuo F ka kb ida idb (ma.length + mb.length + 2) (script.splitOn ",") sv2 [] with
        | none => idx ++ " bad-op"
        | some out => joinSp ([idx, "open", toString fmt, toString fmt, if ida != idb then "distinct" else "same"] ++ out)
      | _, _ => idx ++ " diverges"
    | _, _ => idx ++ " bad-op"
  | _, _, _, _, _ => idx ++ " bad-op"

/-- `conc`: `n` clients open at the same moment, `rounds` times; client `i` in round `j` pulls the
pattern payload `(7, (16·i+j) mod 251, L+3·i+j)`.  All streams of a round are open together on one server. -/
def concRound (F : Facts) (chunk n L j : Nat) : Bool × List String :=
  let payloads := (List.range n).map fun i => patBytes 7 ((16 * i + j) % 251) (L + 3 * i + j)
  let step := fun (acc : Server × List (Nat × List Msg)) (data : Bytes) =>
    match produce F chunk (if data.isEmpty then [] else [.write data]) .ok with
    | none => acc
    | some msgs =>
      let (sv', id) := acc.1.open msgs
      (sv', acc.2 ++ [(id, msgs)])
  let (sv, opened) := payloads.foldl step (({} : Server), [])
  let ids := opened.map (·.1)
  let distinct := ids.eraseDups.length == ids.length
  let pull := fun (acc : Server × List String) (im : Nat × List Msg) =>
    let (sv', rs) := drainNext F im.1 (im.2.length + 2) acc.1 []
    let bytes := (rs.map fun r => match r with | .chunk b _ => b | .error => []).flatten
    let lasts := (rs.filter fun r => match r with | .chunk _ q => isLast F.syncLastIs q | .error => false).length
    let errs := (rs.filter fun r => match r with | .error => true | _ => false).length
    let tok := if errs > 0 then "err" else
      toString bytes.length ++ ":" ++ toString (fnv bytes).toNat ++ ":" ++ toString lasts
    (sv', acc.2 ++ [tok])
  let (_, toks) := opened.foldl pull (sv, [])
  (distinct, toks)

def conc (idx chunk n rounds L : String) : String :=
  let F := Gen.svsFacts
  let rs := (List.range (natOf rounds)).map fun j => concRound F (natOf chunk) (natOf n) (natOf L) j
  joinSp ([idx, "conc", if rs.all (·.1) then "distinct" else "same"] ++ (rs.map (·.2)).flatten)

/-- `cnext`: `k` connections issue `next` on ONE stream concurrently until each sees `last` or an error.
Which request gets which chunk is up to the schedule; the multiset of chunk responses is not
(`C09.concurrent_next`): printed sorted. -/
def cnext (idx chunk stream evs : String) : String :=
  let F := Gen.svsFacts
  match parseStream stream with
  | some (data, known) =>
    match parseEvs evs data with
    | some evl =>
      match produce F (natOf chunk) evl .ok with
      | some msgs =>
        let (sv, id) := ({} : Server).open msgs
        let (_, rs) := drainNext F id (msgs.length + 2) sv []
        let toks := (rs.filter fun r => match r with | .error => false | _ => true).map (showResp known)
        let sorted := (toks.toArray.qsort (fun a b => a < b)).toList
        joinSp ([idx, "cnext"] ++ sorted)
      | none => idx ++ " diverges"
    | none => idx ++ " bad-op"
  | none => idx ++ " bad-op"

/-- `peer`: a scripted peer answers `open` and the successive `next`s; the model's two client reassemblers say what
the puller returns (`C09.async_eq_sync` holds for every answer list).  Body of the `j`-th answer: pattern `(7, j, len)`. -/
def parsePeerResps (s : String) : Option (List Resp) :=
  if s = "-" then some [] else
  let rec go : Nat → List String → Option (List Resp)
    | _, [] => some []
    | j, t :: ts =>
      if t.startsWith "e" then (go (j + 1) ts).map (Resp.error :: ·)
      else match (t.drop 1).toString.splitOn "q" with
        | [l, q] => match bytesOfHex q with
          | some qb => (go (j + 1) ts).map (Resp.chunk (patBytes 7 (j + 1) (natOf l)) qb :: ·)
          | none => none
        | _ => none
  go 0 (s.splitOn ",")

def peer (idx client openSpec resps : String) : String :=
  let F := Gen.svsFacts
  let tags := (openSpec.splitOn ".").map fun p => ((p.take 1).toString, natOf (p.drop 1).toString)
  let version := (tags.lookup "v").getD 1
  let comp := (tags.lookup "z").getD 0
  match parsePeerResps resps with
  | none => idx ++ " bad-op"
  | some rs =>
    -- `parse_open_response`: the contract version must be 1 and the compression tag known; a zstd tag on these
    -- raw bodies is not generated
    if version != 1 || comp != 0 then idx ++ " err" else
    match (if client = "sync" then syncPull F (fun _ => 8192) rs else asyncPull F rs) with
    | none => idx ++ " err"
    | some b => joinSp [idx, "ok", toString b.length, toString (fnv b).toNat]

def step (st : Unit) (ws : List String) : Unit × String :=
  match ws with
  | ["raw", idx, _srv, kind, comp, chunk, depth, speed, stream, evs, end_, script, _aux] =>
    (st, raw idx kind comp chunk depth speed stream evs end_ script)
  | ["hl", idx, _srv, client, puller, kind, comp, chunk, _depth, stream, evs, end_, _aux] =>
    (st, hl idx client puller kind comp chunk stream evs end_)
  | ["cnext", idx, _srv, chunk, _depth, _k, stream, evs, _aux] => (st, cnext idx chunk stream evs)
  | ["conc", idx, _srv, chunk, _depth, n, rounds, L] => (st, conc idx chunk n rounds L)
  | ["peer", idx, _srv, client, _puller, openSpec, resps] => (st, peer idx client openSpec resps)
  | ["many", idx, _srv, chunk, _depth, n, L] =>
    -- n streams live at once on one router, one pull from each, then each drained: per stream the same summary
    -- every fifth stream (index ≡ 3 mod 5) that is not finished by its first pull is cancelled instead (`x`); the order in
    -- which the streams are finished or cancelled does not matter (`C09.other_streams_untouched`)
    let r := concRound Gen.svsFacts (natOf chunk) (natOf n) (natOf L) 0
    let c := natOf chunk
    let toks := (List.range r.2.length).zip r.2 |>.map fun (i, t) =>
      if i % 5 == 3 && c != 0 && (natOf L + 3 * i) > c then "x" else t
    (st, joinSp ([idx, "many", if r.1 then "distinct" else "same"] ++ toks))
  | ["duo", idx, _srv, kind, chunk, _depth, sa, ea, enda, sb, eb, endb, script, _auxa, _auxb] =>
    (st, duo idx kind chunk sa ea enda sb eb endb script)
  | _ :: idx :: _ => (st, idx ++ " bad-op")
  | _ => (st, "bad-op")

end Repe.Driver.Svs

def main : IO Unit := Repe.Driver.loop Repe.Driver.Svs.step ()
