/-! Facts re-extracted from /repo/src/peer.rs by extract/peers.py (placeholder default). -/
namespace Repe.Gen.Peers

/-- For every public method of `PeerRegistry` that touches the maps: how many times its body calls
`self.lock()` (one call = the whole method is one critical section), and whether the guard is bound
to a name that is explicitly dropped before the end of the body. -/
def lockCalls : List (String × Nat) :=
  [("len", 1), ("is_empty", 1), ("peers", 1), ("get", 1), ("alias", 1), ("get_by", 1),
   ("key_for", 1), ("aliases_for", 1), ("insert", 1), ("remove", 1)]

/-- `broadcast_each`: number of `self.lock()` calls (0: it only calls `self.peers()`), number of
`self.peers()` calls, and whether the send loop iterates over that snapshot. -/
def broadcastLockCalls : Nat := 0
def broadcastSnapshotCalls : Nat := 1
def broadcastLoopsOverSnapshot : Bool := true

end Repe.Gen.Peers
