import RepeVerif.Lemmas.Fleet
import RepeVerif.Props.C06
import RepeVerif.Gen.Fleet
/-!
# C19 — Fleet calls retry only transport failures, boundedly, and recover afterwards

> For every sequence of per-attempt outcomes a node can exhibit (refused, accepted then closed,
> closed while idle, silent until timeout, malformed reply, application error, success) a fleet call
> makes at most the configured number of attempts, retries only after transport-level failures, stops
> at the first reply, success or application error, and reports that reply or the last transport
> error; a transport failure never leaves the node wedged, so a later attempt or call reconnects and
> succeeds once the node is reachable again. A broadcast addresses exactly the nodes carrying all
> requested tags and returns exactly one result per addressed node.

clause → theorem
* the four retry loops have the shape the model assumes ............. `C19.source_forms`
* both `is_retryable_error` tables are the same ...................... `C19.sync_async_same_table`
* the table holds only transport-level kinds, never app errors ....... `C19.table_transport_only`
* at most `max_attempts` attempts .................................... `C19.attempts_le_max`, `C19.contacts_le_max`
* retries only after transport-level failures ........................ `C19.retry_only_after_retryable`
* stops at the first reply (success or application error) ........... `C19.stops_at_first_reply`
* reports that reply or the last transport error ..................... `C19.reports_reply_or_last_transport_error`,
                                                                         `C19.reports_ok_iff`, `C19.reports_app_error_iff`
* what a dead cached client of each fleet yields is in its table ..... `C19.dead_client_error_retryable`   (F4)
* a transport failure never leaves the node wedged ................... `C19.never_wedged`
* … so a later attempt or call reconnects and succeeds ............... `C19.recovers`, `C19.recovers_after_any_history`
* … and those kinds are exactly what the client model (C06) allows ... `C19.dead_kinds_from_client_model_blocking`,
                                                                         `…_async`, `…_async_race`, `C19.dead_kinds_are_exactly_the_model_outcomes`
* connection management (`connect_all`, `disconnect_all`, `reconnect_disconnected`) and `health_check`
  keep the recovery guarantee ........................................ `C19.source_forms_management`, `C19.health_check_one_attempt_and_invalidates`,
                                                                         `C19.connect_all_sound`, `C19.disconnect_reconnect`, `C19.recovers_after_any_operations`
* broadcast addresses exactly the nodes carrying all requested tags .. `C19.broadcast_targets`
* exactly one result per addressed node .............................. `C19.broadcast_one_result_each`

All theorems are about the model instantiated with the facts `Gen.Fleet.*` re-extracted from the
source, for every behaviour list (any length), every start cache (= every history) and every
`max_attempts`.  `Fleet` and `AsyncFleet` are both covered: `policies` = the two extracted tables, each with
every extracted dead-client error kind of that fleet, `loops` = the four
extracted loop shapes (`Lemmas/Fleet.lean`); `cacheAfter` = the cache left by a history of calls.
-/
namespace Repe.C19
open Repe.Fleet

/-- Facts re-extracted from the source: every retry loop is `for attempt in 0..max_attempts` with
`invalidate_client` on the retryable branch and `break` on the other; both broadcasts fan out over
the nodes selected by `tag_set.is_subset(&node.tags)`. -/
theorem source_forms :
    (∀ lf ∈ loops, lf = LoopForm.canonical) ∧
    Gen.Fleet.filter = .requestedSubsetOfNode ∧ Gen.Fleet.asyncFilter = .requestedSubsetOfNode ∧
    Gen.Fleet.fanOutOverTargets = true ∧ Gen.Fleet.asyncFanOutOverTargets = true := by decide

theorem sync_async_same_table :
    Gen.Fleet.retryableKinds = Gen.Fleet.asyncRetryableKinds ∧
    Gen.Fleet.serverRetry = Gen.Fleet.asyncServerRetry ∧
    Gen.Fleet.otherRetry = Gen.Fleet.asyncOtherRetry := by decide

/-- Neither table retries an application error or a decode error, and every listed kind is a
transport-level failure. -/
theorem table_transport_only : ∀ P ∈ policies, P.TransportOnly := by
  intro P hP
  have h : ∀ P ∈ policies, (∀ k ∈ P.retryKinds, k ∈ transportKinds) ∧ P.serverRetry = false ∧
      P.otherRetry = false := by decide
  exact ⟨(h P hP).1, (h P hP).2.1, (h P hP).2.2⟩

/-- F4: whatever a call on a dead cached client can yield — every member of the extracted sets
`Gen.Fleet.deadKinds` (blocking `Client`: `EPIPE` from the write on the socket its response loop shut
down) and `Gen.Fleet.asyncDeadKinds` (`AsyncClient`: `NotConnected` from the refused registration, or
`EPIPE` when the call registered just before the connection was marked failed) — must be retryable,
otherwise the dead client is never dropped. `policies` has one entry per fleet and member. -/
theorem dead_client_error_retryable : ∀ P ∈ policies, P.retryable (deadClientError P) = true := by decide

/-! ### the retry loop -/

theorem attempts_le_max (P : Policy) (lf : LoopForm) (hlf : lf ∈ loops) (max : Nat) (c : Cache)
    (bs : List Behaviour) : (call P lf max c bs).attempts ≤ max := by
  rw [source_forms.1 lf hlf, call_canonical]
  exact run_log_length_le P _ max c bs

example : (call Gen.Fleet.policy Gen.Fleet.loopJson 3 .none [.silent, .refused, .acceptThenClose, .success]).attempts = 3 := by decide

/-- What a scripted node can count — the attempts that reached it — is bounded the same way. -/
theorem contacts_le_max (P : Policy) (lf : LoopForm) (hlf : lf ∈ loops) (max : Nat) (c : Cache)
    (bs : List Behaviour) : (call P lf max c bs).contacts ≤ max :=
  Nat.le_trans (contacts_le_attempts _) (attempts_le_max P lf hlf max c bs)

example : Gen.Fleet.loopJson ∈ loops ∧ Gen.Fleet.asyncLoopMessage ∈ loops ∧ Gen.Fleet.policy ∈ policies ∧
    Gen.Fleet.asyncPolicy ∈ policies ∧ policies.length = 3 ∧
    { Gen.Fleet.asyncPolicy with deadKind := .brokenPipe } ∈ policies := by decide

/-- Every attempt that was followed by another one failed with an `io` error whose kind is in the
extracted table and is transport-level. -/
theorem retry_only_after_retryable (P : Policy) (hP : P ∈ policies) (lf : LoopForm) (hlf : lf ∈ loops)
    (max : Nat) (c : Cache) (bs : List Behaviour) :
    ∀ r ∈ (call P lf max c bs).log.dropLast,
      ∃ k, r.reply = .err (.io k) ∧ k ∈ P.retryKinds ∧ k ∈ transportKinds := by
  rw [source_forms.1 lf hlf, call_canonical]
  intro r hr
  obtain ⟨e, he, hret⟩ := run_dropLast_retryable P max c bs r hr
  obtain ⟨k, rfl, hk, ht⟩ := (table_transport_only P hP).of_retryable hret
  exact ⟨k, he, hk, ht⟩

example : ((call Gen.Fleet.policy Gen.Fleet.loopJson 3 .none [.silent, .refused, .success]).log.dropLast).length = 2 := by decide

/-- An attempt answered by the node's application (success or application error) is the last one. -/
theorem stops_at_first_reply (P : Policy) (hP : P ∈ policies) (lf : LoopForm) (hlf : lf ∈ loops)
    (max : Nat) (c : Cache) (bs : List Behaviour) (r : Rec) (hr : r ∈ (call P lf max c bs).log)
    (hrep : r.reply.isReply = true) : (call P lf max c bs).log.getLast? = some r := by
  rcases mem_dropLast_or_last _ r hr with h | h
  · obtain ⟨k, hk, _⟩ := retry_only_after_retryable P hP lf hlf max c bs r h
    rw [hk] at hrep; simp [Reply.isReply] at hrep
  · exact h

example : (call Gen.Fleet.policy Gen.Fleet.loopJson 3 .none [.silent, .appError, .success]).log.getLast? =
    some ⟨some .appError, .err .server⟩ := by decide

/-- More generally: an attempt that ended in anything but an io error — success, an application error,
a reply whose frame is not a REPE frame, or a well-framed reply whose body the entry point cannot
decode — is the last one: nothing the node *said* is retried, however wrong. -/
theorem stops_at_any_answer (P : Policy) (hP : P ∈ policies) (lf : LoopForm) (hlf : lf ∈ loops)
    (max : Nat) (c : Cache) (bs : List Behaviour) (r : Rec) (hr : r ∈ (call P lf max c bs).log)
    (hans : ∀ k, r.reply ≠ .err (.io k)) : (call P lf max c bs).log.getLast? = some r := by
  rcases mem_dropLast_or_last _ r hr with h | h
  · obtain ⟨k, hk, _⟩ := retry_only_after_retryable P hP lf hlf max c bs r h
    exact absurd hk (hans k)
  · exact h

/-- A well-framed reply with an undecodable body is answered once, reported as a decode error, and the
(sound) connection is kept — for every fleet and loop, with attempts to spare. -/
example : ∀ P ∈ policies, ∀ lf ∈ loops,
    (call P lf 3 .none [.badBody, .success]).log = [⟨some .badBody, .err .decode⟩] ∧
    (call P lf 3 .none [.badBody, .success]).cache = .live ∧
    (call P lf 3 .live [.badBody]).contacts = 1 := by decide

/-- With at least one attempt allowed the call reports the reply of its last attempt, and that
attempt got a reply (`ok`), or failed with a non-retryable error, or was the `max`-th attempt
failing with a retryable transport error. -/
theorem reports_reply_or_last_transport_error (P : Policy) (hP : P ∈ policies) (lf : LoopForm)
    (hlf : lf ∈ loops) (max : Nat) (hmax : 1 ≤ max) (c : Cache) (bs : List Behaviour) :
    ∃ r, (call P lf max c bs).log.getLast? = some r ∧ (call P lf max c bs).result = some r.reply ∧
      (r.reply = .ok ∨ (∃ e, r.reply = .err e ∧ P.retryable e = false) ∨
       ((call P lf max c bs).attempts = max ∧
          ∃ k, r.reply = .err (.io k) ∧ k ∈ P.retryKinds ∧ k ∈ transportKinds)) := by
  rw [source_forms.1 lf hlf, call_canonical]
  obtain ⟨m, rfl⟩ : ∃ m, max = m + 1 := ⟨max - 1, by omega⟩
  have hne := run_log_ne_nil P .canonical m c bs
  simp only [Run.result, Run.attempts]
  cases hl : (run P .canonical (m+1) c bs).log.getLast? with
  | none => exact absurd (List.getLast?_eq_none_iff.mp hl) hne
  | some r =>
    refine ⟨r, rfl, by simp, ?_⟩
    rcases run_last P (m+1) c bs r hl with h | h | ⟨h1, e, he, hret⟩
    · exact .inl h
    · exact .inr (.inl h)
    · obtain ⟨k, rfl, hk, ht⟩ := (table_transport_only P hP).of_retryable hret
      exact .inr (.inr ⟨h1, k, he, hk, ht⟩)

/-- The call reports success iff some attempt was answered with success. -/
theorem reports_ok_iff (P : Policy) (hP : P ∈ policies) (lf : LoopForm) (hlf : lf ∈ loops)
    (max : Nat) (c : Cache) (bs : List Behaviour) :
    (call P lf max c bs).result = some .ok ↔ ∃ r ∈ (call P lf max c bs).log, r.reply = .ok := by
  constructor
  · intro h
    simp only [Run.result, Option.map_eq_some_iff] at h
    obtain ⟨r, hr, hrep⟩ := h
    exact ⟨r, List.mem_of_getLast? hr, hrep⟩
  · rintro ⟨r, hr, hrep⟩
    have := stops_at_first_reply P hP lf hlf max c bs r hr (by rw [hrep]; rfl)
    simp [Run.result, this, hrep]

/-- The call reports an application error iff some attempt was answered with one. -/
theorem reports_app_error_iff (P : Policy) (hP : P ∈ policies) (lf : LoopForm) (hlf : lf ∈ loops)
    (max : Nat) (c : Cache) (bs : List Behaviour) :
    (call P lf max c bs).result = some (.err .server) ↔
      ∃ r ∈ (call P lf max c bs).log, r.reply = .err .server := by
  constructor
  · intro h
    simp only [Run.result, Option.map_eq_some_iff] at h
    obtain ⟨r, hr, hrep⟩ := h
    exact ⟨r, List.mem_of_getLast? hr, hrep⟩
  · rintro ⟨r, hr, hrep⟩
    have := stops_at_first_reply P hP lf hlf max c bs r hr (by rw [hrep]; rfl)
    simp [Run.result, this, hrep]

/-! ### never wedged, recovery -/

/-- After any call, from any cache state and against any behaviours: either the cache does not hold
a dead client, or the next attempt's error is retryable — and a retryable error invalidates the
cache (`source_forms`: `invalidate_client` is on the retryable branch). -/
theorem never_wedged (P : Policy) (hP : P ∈ policies) (lf : LoopForm) (max : Nat) (c : Cache)
    (bs : List Behaviour) :
    (call P lf max c bs).cache ≠ .dead ∨
      (∀ bs', (step P (call P lf max c bs).cache bs').entry.reply = .err (deadClientError P) ∧
              P.retryable (deadClientError P) = true) := by
  by_cases h : (call P lf max c bs).cache = .dead
  · refine .inr fun bs' => ⟨?_, dead_client_error_retryable P hP⟩
    rw [h]; exact congrArg Rec.reply (step_dead P bs').1
  · exact .inl h

/-- A dead cache does occur (so `never_wedged` is not vacuous): a malformed reply, an idle close. -/
example : (call Gen.Fleet.policy Gen.Fleet.loopJson 3 .none [.malformed]).cache = .dead := by decide
example : (call Gen.Fleet.policy Gen.Fleet.loopJson 3 .none [.closedWhileIdle]).cache = .dead := by decide

/-- Witness for F4: with a table that lacks `BrokenPipe` the node stays wedged for ever although it
is healthy: every later call fails without reaching the node and leaves the dead client in place. -/
example :
    let P : Policy := ⟨[.timedOut, .connectionRefused, .connectionReset, .connectionAborted,
                        .notConnected, .unexpectedEof, .wouldBlock, .interrupted], false, false, .brokenPipe⟩
    ∀ max, (call P .canonical (max+1) .dead []).result = some (.err (deadClientError P)) ∧
           (call P .canonical (max+1) .dead []).cache = .dead ∧
           (call P .canonical (max+1) .dead []).contacts = 0 := by
  intro P max
  have h := run_succ_stop P max .dead [] (deadClientError P) rfl (by decide)
  rw [call_canonical, h]
  decide

/-- Once the node is reachable again (`healthy bs`), whatever state earlier failures left behind
(`c` arbitrary): a call with `max_attempts ≥ 2` succeeds and leaves a live connection; with
`max_attempts = 1` the call either succeeds or the next one does. -/
theorem recovers (P : Policy) (hP : P ∈ policies) (lf : LoopForm) (hlf : lf ∈ loops) (c : Cache)
    (bs : List Behaviour) (hb : healthy bs) :
    (∀ max, 2 ≤ max → (call P lf max c bs).result = some .ok ∧ (call P lf max c bs).cache = .live) ∧
    ((call P lf 1 c bs).result = some .ok ∨
      ((call P lf 1 c bs).rest = bs ∧
       (call P lf 1 (call P lf 1 c bs).cache bs).result = some .ok ∧
       (call P lf 1 (call P lf 1 c bs).cache bs).cache = .live)) := by
  rw [source_forms.1 lf hlf]
  simp only [call_canonical]
  by_cases hc : c = .dead
  · subst hc
    have hd := dead_client_error_retryable P hP
    obtain ⟨h1, h2, h3⟩ := step_dead P bs
    constructor
    · intro max hmax
      obtain ⟨m, rfl⟩ : ∃ m, max = m + 2 := ⟨max - 2, by omega⟩
      rw [run_succ_retry P (m+1) .dead bs (deadClientError P) (by rw [h1]) hd, h3]
      obtain ⟨g1, g2, g3⟩ := run_healthy_ok P .canonical m .none bs (by decide) hb
      refine ⟨?_, g2⟩
      simp only [Run.result]
      cases hl : (run P .canonical (m+1) .none bs).log with
      | nil => rw [hl] at g3; simp at g3
      | cons a l =>
        rw [hl] at g1
        simpa [List.getLast?_cons_cons] using g1
    · right
      rw [run_succ_retry P 0 .dead bs (deadClientError P) (by rw [h1]) hd, h3]
      simp only [run_zero]
      obtain ⟨g1, g2, _⟩ := run_healthy_ok P .canonical 0 .none bs (by decide) hb
      exact ⟨trivial, by simpa [Run.result] using g1, g2⟩
  · constructor
    · intro max hmax
      obtain ⟨m, rfl⟩ : ∃ m, max = m + 1 := ⟨max - 1, by omega⟩
      obtain ⟨g1, g2, _⟩ := run_healthy_ok P LoopForm.canonical m c bs hc hb
      exact ⟨by simpa [Run.result] using g1, g2⟩
    · left
      obtain ⟨g1, _, _⟩ := run_healthy_ok P LoopForm.canonical 0 c bs hc hb
      simpa [Run.result] using g1

example : healthy [.success, .success] := by intro b hb; simp at hb; rcases hb with rfl | rfl <;> rfl

/-- Recovery after *every* history of outcome sequences (each earlier call with any policy, i.e. any
dead-client error kind, any `max_attempts`, any behaviours): the next call against the healthy node
succeeds if it may make two attempts, otherwise the one after it does. -/
theorem recovers_after_any_history (P : Policy) (hP : P ∈ policies) (lf : LoopForm) (hlf : lf ∈ loops)
    (hist : List (Policy × Nat × List Behaviour)) (max : Nat) (hmax : 1 ≤ max) :
    let c := cacheAfter lf .none hist
    (call P lf max c []).result = some .ok ∨
      (call P lf max (call P lf max c []).cache []).result = some .ok := by
  intro c
  have hb : healthy [] := by intro b hb; cases hb
  obtain ⟨h2, h1⟩ := recovers P hP lf hlf c [] hb
  by_cases hm : 2 ≤ max
  · exact .inl (h2 max hm).1
  · obtain rfl : max = 1 := by omega
    rcases h1 with h | ⟨_, h, _⟩
    · exact .inl h
    · exact .inr h

example : cacheAfter Gen.Fleet.loopJson .none
    [(Gen.Fleet.policy, 2, [.silent, .refused]), (Gen.Fleet.asyncPolicy, 1, [.malformed])] = .dead := by
  decide

/-! ### connection management and health check -/

/-- Facts re-extracted from the source: both `health_check`s make one attempt and invalidate the client
after any error; all four retry loops pass the *node's* timeout to the client call. -/
theorem source_forms_management :
    Gen.Fleet.healthForm = ⟨true, true⟩ ∧ Gen.Fleet.asyncHealthForm = ⟨true, true⟩ ∧
    Gen.Fleet.nodeTimeout = true ∧ Gen.Fleet.asyncNodeTimeout = true := by decide

/-- `invalidate_client` — what the model's "the client is dropped" stands for in the retryable branch
of the four loops and in both `health_check`s — waits for the node slot's lock and empties the slot
whatever other threads are doing with the fleet (no `try_lock`, no condition): so `LoopForm.invalidateOnRetry`
and `HealthForm.invalidateOnError` describe every interleaving with readers of the slot, not only the
single-threaded one. Fact re-extracted from the source. -/
theorem invalidation_is_unconditional :
    Gen.Fleet.invalidateUnconditional = true ∧ Gen.Fleet.asyncInvalidateUnconditional = true := by decide

/-- The model has no clock: an attempt ends when the node's behaviour says so (a reply, a close, the
node's own timeout). That is faithful only if the code has no timer of its own: the four loops sleep
once per retry for the configured delay and pass the node's timeout to the client call, `health_check`
uses its one constant, and nothing else in them, in `ensure_connected`, `invalidate_client` or
`broadcast_json` waits, compares instants or wraps a call in a timeout. Fact re-extracted from the source. -/
theorem no_timers_of_its_own :
    Gen.Fleet.noExtraTimers = true ∧ Gen.Fleet.asyncNoExtraTimers = true := by decide

/-- The two places where the model abstracts code that is not a loop: `ensure_connected` returns the
cached client as it is or connects once and stores the client (the `Cache` transitions of `attempt`),
and `broadcast_json` inserts every worker's result under the name of the node the call was made to
(`broadcast` pairs each target's name with its run). Facts re-extracted from the source. -/
theorem slot_and_result_discipline :
    Gen.Fleet.ensureConnectedCaches = true ∧ Gen.Fleet.asyncEnsureConnectedCaches = true ∧
    Gen.Fleet.resultsKeyedByNode = true ∧ Gen.Fleet.asyncResultsKeyedByNode = true := by decide

/-- `health_check` makes at most one contact, reports healthy iff that attempt was answered with
success, and an unhealthy verdict never leaves a client behind (in particular not a dead one): the
next call reconnects. -/
theorem health_check_one_attempt_and_invalidates (P : Policy) (c : Cache) (bs : List Behaviour) :
    (healthStep P Gen.Fleet.healthForm c bs).2.1 ≤ 1 ∧
    ((healthStep P Gen.Fleet.healthForm c bs).1 ≠ .ok → (healthStep P Gen.Fleet.healthForm c bs).2.2.1 = .none) ∧
    (healthStep P Gen.Fleet.asyncHealthForm c bs).2.1 ≤ 1 ∧
    ((healthStep P Gen.Fleet.asyncHealthForm c bs).1 ≠ .ok → (healthStep P Gen.Fleet.asyncHealthForm c bs).2.2.1 = .none) := by
  rw [source_forms_management.1, source_forms_management.2.1]
  have h : ∀ hf : HealthForm, hf = ⟨true, true⟩ →
      (healthStep P hf c bs).2.1 ≤ 1 ∧ ((healthStep P hf c bs).1 ≠ .ok → (healthStep P hf c bs).2.2.1 = .none) := by
    intro hf hhf; subst hhf
    simp only [healthStep]
    constructor
    · split <;> simp
    · intro hne
      cases hr : (step P c bs).entry.reply with
      | ok => exact absurd hr hne
      | err e => simp
  exact ⟨(h _ rfl).1, (h _ rfl).2, (h _ rfl).1, (h _ rfl).2⟩

example : (healthStep Gen.Fleet.policy Gen.Fleet.healthForm .live [.malformed]).2.2.1 = .none := by decide

/-- `connect_all` / `reconnect_disconnected` on one node: the node is reported connected iff its slot is
occupied afterwards; it fails only if the slot was empty and the node refused; an occupied slot (even a
dead client — that is what `never_wedged` is for) is left alone and no behaviour is consumed. -/
theorem connect_all_sound (c : Cache) (bs : List Behaviour) :
    ((connectStep c bs).1 = (connectStep c bs).2.1.connected) ∧
    ((connectStep c bs).1 = false → c = .none ∧ ∃ r, bs = .refused :: r) ∧
    (c ≠ .none → (connectStep c bs).2.1 = c ∧ (connectStep c bs).2.2 = bs) := by
  cases c <;> cases bs with
  | nil => simp [connectStep, Cache.connected]
  | cons b r => cases b <;> simp [connectStep, Cache.connected]

/-- `disconnect_all` empties the slot; `reconnect_disconnected` does not touch an occupied one. -/
theorem disconnect_reconnect (P : Policy) (lf : LoopForm) (hf : HealthForm) (max : Nat) (st : LifeState) :
    (lifeStep P lf hf max st .disconnectAll).2.2.cache = .none ∧
    (st.cache ≠ .none → (lifeStep P lf hf max st .reconnect).2.2.cache = st.cache ∧
                        (lifeStep P lf hf max st .reconnect).2.2.rest = st.rest) := by
  refine ⟨rfl, fun h => ?_⟩
  cases hc : st.cache with
  | none => exact absurd hc h
  | live => simp [lifeStep, hc]
  | dead => simp [lifeStep, hc]

/-- **Whatever management operations and calls were made before** (`connect_all`, `disconnect_all`,
`reconnect_disconnected`, `health_check`, calls — any sequence, any node behaviours), once the node is
healthy a call with two attempts succeeds, and with one attempt the second call at the latest. -/
theorem recovers_after_any_operations (P : Policy) (hP : P ∈ policies) (lf : LoopForm) (hlf : lf ∈ loops)
    (P0 : Policy) (hf : HealthForm) (max0 : Nat) (st : LifeState) (ops : List LifeOp) (max : Nat) (hmax : 1 ≤ max) :
    let c := (lifeRun P0 lf hf max0 st ops).2.cache
    (call P lf max c []).result = some .ok ∨
      (call P lf max (call P lf max c []).cache []).result = some .ok := by
  intro c
  have hb : healthy [] := by intro b hb; cases hb
  obtain ⟨h2, h1⟩ := recovers P hP lf hlf c [] hb
  by_cases hm : 2 ≤ max
  · exact .inl (h2 max hm).1
  · obtain rfl : max = 1 := by omega
    rcases h1 with h | ⟨_, h, _⟩
    · exact .inl h
    · exact .inr h

example : (lifeRun Gen.Fleet.policy Gen.Fleet.loopJson Gen.Fleet.healthForm 2 ⟨.none, [.refused, .malformed], []⟩
    [.connectAll, .connectAll, .health, .reconnect, .call]).2.cache = .live := by decide

/-! ### composition with C06 (the multiplexing clients under the fleet)

`Gen.Fleet.deadKinds` / `asyncDeadKinds` are extracted; why there are exactly those alternatives is a
theorem of the client model (`Model/Mux.lean`, property C06): a call on a connection whose failure path
has run returns `writeErr` (blocking: the write on the socket the response loop shut down) or `connErr`
(async: the registration is refused), and a call racing with the failure path one of the two.  The two
outcome classes are mapped to `io::ErrorKind`s: `writeErr` ↦ `BrokenPipe` (Linux: `EPIPE` after a local
shutdown — trusted), `connErr` ↦ the kind of `connection_failed_error` (extracted `refusalKind`). -/

/-- `io::ErrorKind` of a C06 outcome of a call on a failed connection. -/
def kindOfDeadOutcome (refusal : Option IoKind) : Repe.Mux.Outcome → Option IoKind
  | .writeErr => some .brokenPipe
  | .connErr => refusal
  | _ => none

/-- **Blocking `Client` under `Fleet`.** In every reachable state of the client model whose failure
path has finished (any interleaving of callers, reader and `fail_all_pending`), the next call returns an
outcome whose error kind is a member of the extracted set `Gen.Fleet.deadKinds` and is retryable in
`Fleet`'s table — so the fleet drops the dead client (`never_wedged`, `recovers`). Uses
`C06.dead_connection_outcome` and `C06.dead_connection_outcome_by_client`. -/
theorem dead_kinds_from_client_model_blocking (s : Repe.Mux.State)
    (hs : Repe.Mux.Reachable Gen.Mux.blockingCfg s) (g : Nat) (hf : s.reader = .finished g) (c : Nat)
    (hc : (s.calls c).pc = .idle) :
    ∃ o k, ((Repe.Mux.run Gen.Mux.blockingCfg s [.alloc c, .register c, .write c, .cleanup c]).calls c).pc = .returned o ∧
      kindOfDeadOutcome Gen.Fleet.refusalKind o = some k ∧ k ∈ Gen.Fleet.deadKinds ∧
      Gen.Fleet.policy.retryable (.io k) = true := by
  have h := C06.dead_connection_outcome Gen.Mux.blockingCfg (by decide) (by decide) (by decide) s hs g hf c hc
  have hb : ¬ (Repe.Mux.FailStep.closeAndDrain ∈ Gen.Mux.blockingCfg.failOrder) := by decide
  rw [if_neg hb] at h
  exact ⟨.writeErr, .brokenPipe, h, rfl, by decide, by decide⟩

/-- **`AsyncClient` under `AsyncFleet`**, settled case: the registration is refused; the kind of that
refusal is in `Gen.Fleet.asyncDeadKinds` and retryable in `AsyncFleet`'s table. -/
theorem dead_kinds_from_client_model_async (s : Repe.Mux.State)
    (hs : Repe.Mux.Reachable Gen.Mux.asyncCfg s) (g : Nat) (hf : s.reader = .finished g) (c : Nat)
    (hc : (s.calls c).pc = .idle) :
    ∃ o k, ((Repe.Mux.run Gen.Mux.asyncCfg s [.alloc c, .register c, .write c, .cleanup c]).calls c).pc = .returned o ∧
      kindOfDeadOutcome Gen.Fleet.asyncRefusalKind o = some k ∧ k ∈ Gen.Fleet.asyncDeadKinds ∧
      Gen.Fleet.asyncPolicy.retryable (.io k) = true := by
  have h := C06.dead_connection_outcome Gen.Mux.asyncCfg (by decide) (by decide) (by decide) s hs g hf c hc
  have hb : Repe.Mux.FailStep.closeAndDrain ∈ Gen.Mux.asyncCfg.failOrder := by decide
  rw [if_pos hb] at h
  exact ⟨.connErr, .notConnected, h, by decide, by decide, by decide⟩

/-- **The race.** A call that has not registered when the async client's reader does its last drain
(it may be anywhere between "connection marked failed" and "writer shut down") returns `connErr` or
`writeErr` (`C06.late_caller_fails`); both map into `Gen.Fleet.asyncDeadKinds` and both are retryable:
the set has exactly the alternatives the client model allows, and whichever the scheduler picks, the
fleet invalidates. -/
theorem dead_kinds_from_client_model_async_race (s : Repe.Mux.State)
    (hs : Repe.Mux.Reachable Gen.Mux.asyncCfg s) (hp : Repe.Mux.PostDrain s) (c : Nat)
    (hpc : (s.calls c).pc = .active) (hreg : (s.calls c).reg = false) (hw : (s.calls c).wrote = false) :
    ∃ o k, ((Repe.Mux.run Gen.Mux.asyncCfg s [.register c, .write c, .cleanup c]).calls c).pc = .returned o ∧
      kindOfDeadOutcome Gen.Fleet.asyncRefusalKind o = some k ∧ k ∈ Gen.Fleet.asyncDeadKinds ∧
      Gen.Fleet.asyncPolicy.retryable (.io k) = true := by
  obtain ⟨o, ho, h⟩ := C06.late_caller_fails Gen.Mux.asyncCfg (by decide) (by decide) (by decide) s hs hp c hpc hreg hw
  rcases ho with rfl | rfl
  · exact ⟨.connErr, .notConnected, h, by decide, by decide, by decide⟩
  · exact ⟨.writeErr, .brokenPipe, h, by decide, by decide, by decide⟩

/-- Conversely every member of the extracted sets is the image of an outcome the client model allows. -/
theorem dead_kinds_are_exactly_the_model_outcomes :
    (∀ k ∈ Gen.Fleet.deadKinds, ∃ o, (o = .connErr ∨ o = .writeErr) ∧ kindOfDeadOutcome Gen.Fleet.refusalKind o = some k) ∧
    (∀ k ∈ Gen.Fleet.asyncDeadKinds, ∃ o, (o = .connErr ∨ o = .writeErr) ∧ kindOfDeadOutcome Gen.Fleet.asyncRefusalKind o = some k) := by
  refine ⟨?_, ?_⟩
  · intro k hk
    have : k = .brokenPipe := by revert k; decide
    subst this; exact ⟨.writeErr, .inr rfl, rfl⟩
  · intro k hk
    have : k = .notConnected ∨ k = .brokenPipe := by revert k; decide
    rcases this with rfl | rfl
    · exact ⟨.connErr, .inl rfl, by decide⟩
    · exact ⟨.writeErr, .inr rfl, rfl⟩

/-- The hypotheses are met: the failure path of either client does finish. -/
example : (Repe.Mux.run Gen.Mux.asyncCfg Repe.Mux.State.init (.readErr :: List.replicate 12 .failStep)).reader = .finished 0 := by
  decide

/-! ### broadcast -/

/-- A node is addressed iff it is in the fleet and carries every requested tag (both fleets). -/
theorem broadcast_targets (req : List String) (nodes : List Node) (n : Node) :
    (n ∈ targets Gen.Fleet.filter req nodes ↔ n ∈ nodes ∧ ∀ t ∈ req, t ∈ n.tags) ∧
    (n ∈ targets Gen.Fleet.asyncFilter req nodes ↔ n ∈ nodes ∧ ∀ t ∈ req, t ∈ n.tags) := by
  rw [source_forms.2.1, source_forms.2.2.1]
  simp [targets, matchesTags]

/-- Exactly one result per addressed node: the result names are the addressed nodes' names, in
order, and (node names being distinct, as `Fleet::with_options` enforces) no name occurs twice, so
keying the results by name loses nothing. -/
theorem broadcast_one_result_each (P : Policy) (lf : LoopForm) (ff : FilterForm) (max : Nat)
    (req : List String) (nodes : List Node) (hn : (nodes.map (·.name)).Nodup) :
    (broadcast P lf ff max req nodes).map (·.1) = (targets ff req nodes).map (·.name) ∧
    (broadcast P lf ff max req nodes).length = (targets ff req nodes).length ∧
    ((broadcast P lf ff max req nodes).map (·.1)).Nodup := by
  have h1 : (broadcast P lf ff max req nodes).map (·.1) = (targets ff req nodes).map (·.name) := by
    simp [broadcast, List.map_map, Function.comp_def]
  refine ⟨h1, by simp [broadcast], ?_⟩
  rw [h1]
  exact List.Nodup.sublist (List.Sublist.map _ List.filter_sublist) hn

example : (([⟨"n1", ["a"], []⟩, ⟨"n2", [], []⟩] : List Node).map (·.name)).Nodup := by decide

/-- The hypotheses the theorems above carry hold for every fleet that can exist: both constructors
validate the options (`max_attempts ≥ 1`, the hypothesis of `reports_reply_or_last_transport_error`)
and refuse a second node of the same name, and so does `add_node` (the hypothesis of
`broadcast_one_result_each`). Facts re-extracted from the source. -/
theorem constructors_enforce_hypotheses :
    Gen.Fleet.maxAttemptsValidated = true ∧ Gen.Fleet.asyncMaxAttemptsValidated = true ∧
    Gen.Fleet.namesDistinctAtConstruction = true ∧ Gen.Fleet.asyncNamesDistinctAtConstruction = true ∧
    Gen.Fleet.namesDistinctAtAdd = true ∧ Gen.Fleet.asyncNamesDistinctAtAdd = true := by decide

/-- Tags are opaque: what a broadcast addresses depends only on which tags are equal, not on what they
are (empty, blank, non-ASCII, long, differing in case only …). Renaming every tag through an injective
map — in the request and on the nodes — addresses the same nodes. (The harness maps the tags of a case
to such strings; node names do not enter `targets` at all.) -/
theorem tags_opaque (f : String → String) (hf : Function.Injective f) (req : List String) (n : Node) :
    matchesTags Gen.Fleet.filter (req.map f) ⟨n.name, n.tags.map f, n.behaviours⟩ =
      matchesTags Gen.Fleet.filter req n ∧
    matchesTags Gen.Fleet.asyncFilter (req.map f) ⟨n.name, n.tags.map f, n.behaviours⟩ =
      matchesTags Gen.Fleet.asyncFilter req n := by
  rw [source_forms.2.1, source_forms.2.2.1]
  have key : ((req.map f).all fun t => (n.tags.map f).contains t) = (req.all fun t => n.tags.contains t) := by
    rw [Bool.eq_iff_iff]
    simp only [List.all_eq_true, List.contains_iff_mem, List.mem_map]
    constructor
    · intro h t ht
      obtain ⟨a, ha, hfa⟩ := h (f t) ⟨t, ht, rfl⟩
      exact hf hfa ▸ ha
    · rintro h _ ⟨t, ht, rfl⟩
      exact ⟨t, h t ht, rfl⟩
  exact ⟨key, key⟩

/-- The request is a set: the order in which the caller lists the tags and repeats among them do not
matter. -/
theorem request_order_and_repeats_irrelevant (req req' : List String) (n : Node)
    (h : ∀ t, t ∈ req ↔ t ∈ req') :
    matchesTags Gen.Fleet.filter req n = matchesTags Gen.Fleet.filter req' n ∧
    matchesTags Gen.Fleet.asyncFilter req n = matchesTags Gen.Fleet.asyncFilter req' n := by
  rw [source_forms.2.1, source_forms.2.2.1]
  have key : (req.all fun t => n.tags.contains t) = (req'.all fun t => n.tags.contains t) := by
    rw [Bool.eq_iff_iff]
    simp only [List.all_eq_true]
    constructor
    · intro hh t ht; exact hh t ((h t).2 ht)
    · intro hh t ht; exact hh t ((h t).1 ht)
  exact ⟨key, key⟩

example : matchesTags Gen.Fleet.filter ["b", "a", "b"] ⟨"n", ["a", "b"], []⟩ = true := by decide

example : (targets Gen.Fleet.filter ["a"] [⟨"n1", ["a", "b"], []⟩, ⟨"n2", ["b"], []⟩]).map (·.name) = ["n1"] := by
  decide

end Repe.C19
