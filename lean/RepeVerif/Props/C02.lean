import RepeVerif.Lemmas.Wire
import RepeVerif.Gen.Wire
/-!
# C02 — Hostile bytes never crash a parser or reader; only consistent frames parse

> Feeding any byte sequence to any parsing or stream-reading entry point, including headers whose
> 64-bit length fields are inconsistent, overflow when added, or exceed what can ever be allocated,
> never panics, aborts the process or reads out of bounds: it returns an error. A parse succeeds only
> when the magic is correct, the declared total equals 48 plus both payload lengths and the supplied
> bytes contain that whole frame (exact-length variants also reject trailing bytes), and the returned
> query and body are exactly the corresponding input bytes.

clause → theorem
* the current source adds lengths checked, allocates fallibly ... `C02.source_forms`
* never panics / aborts: header, 4 slice parsers ............... `C02.decode_total`, `C02.parse_total`
* never panics / aborts: 4 stream readers, any declared size ... `C02.read_total`
* success ⇒ magic, total = 48+q+b, frame inside buffer, slices .. `C02.parse_sound`
* exact variants reject trailing bytes ......................... `C02.exact_rejects_trailing`, `C02.exact_sound`
* (converse) a consistent frame does parse ..................... `C02.parse_complete`, `C02.read_complete`
* truncation at every position ⇒ error ......................... `C02.read_truncated`

`Outcome` has explicit `panic` and `abort` constructors (integer overflow with overflow-checks on,
slice index out of range, `vec![0; n]` capacity overflow, allocation failure), so "never crashes" is
`isReturn = true`. All theorems quantify over both build profiles (`mode`).
-/
namespace Repe.C02

/-- Facts re-extracted from the source: the header's add of the two declared lengths is a checked add (every later sum is then bounded by the
64-bit `length` field, whatever its form), and every reader reserves its buffer fallibly. -/
theorem source_forms :
    Gen.headerSumForm = .checked ∧
    Gen.readAlloc = .fallible ∧ Gen.readIntoAlloc = .fallible ∧
    Gen.asyncReadAlloc = .fallible ∧ Gen.asyncReadIntoAlloc = .fallible := by decide

theorem decode_total (mode : OvMode) (bs : Bytes) :
    (Header.decode Gen.headerSumForm mode bs).isReturn = true := by
  rw [source_forms.1]; exact decode_checked_total mode bs

/-- `Message::from_slice`, `MessageView::from_slice` and both `_exact` variants. -/
theorem parse_total (mode : OvMode) (bs : Bytes) :
    (Message.fromSlice Gen.headerSumForm Gen.sliceSumForm mode bs).isReturn = true ∧
    (Message.fromSlice Gen.headerSumForm Gen.viewSumForm mode bs).isReturn = true ∧
    (Message.fromSliceExact Gen.headerSumForm Gen.sliceSumForm mode bs).isReturn = true ∧
    (Message.fromSliceExact Gen.headerSumForm Gen.viewSumForm mode bs).isReturn = true := by
  rw [source_forms.1]
  have ex : ∀ sf, (Message.fromSliceExact .checked sf mode bs).isReturn = true := fun sf => by
    unfold Message.fromSliceExact
    exact bind_return _ _ (fromSlice_checked_total sf mode bs) fun m => by split <;> rfl
  exact ⟨fromSlice_checked_total _ mode bs, fromSlice_checked_total _ mode bs, ex _, ex _⟩

/-- The four stream readers on any stream (any fragmentation, any cut, any declared sizes –
including ≥ 2^62 and sums that wrap). -/
theorem read_total (mode : OvMode) (s : Bytes) :
    (readMessage Gen.headerSumForm Gen.readAlloc mode s).isReturn = true ∧
    (readMessage Gen.headerSumForm Gen.asyncReadAlloc mode s).isReturn = true ∧
    (readMessageInto Gen.headerSumForm Gen.readIntoSumForm Gen.readIntoAlloc mode s).isReturn = true ∧
    (readMessageInto Gen.headerSumForm Gen.asyncReadIntoSumForm Gen.asyncReadIntoAlloc mode s).isReturn = true := by
  obtain ⟨h1, h4, h5, h6, h7⟩ := source_forms
  rw [h1, h4, h5, h6, h7]
  exact ⟨readMessage_total mode s, readMessage_total mode s,
         readMessageInto_total _ mode s, readMessageInto_total _ mode s⟩

/-- A parse succeeds only on a consistent frame wholly inside the buffer, and returns exactly
the corresponding input bytes. -/
theorem parse_sound (mode : OvMode) (sf : SumForm) (bs : Bytes) (m : Message)
    (hp : Message.fromSlice Gen.headerSumForm sf mode bs = .ok m) :
    48 ≤ bs.length ∧ m.header = Header.parse bs ∧ m.header.spec = REPE_SPEC ∧
    m.header.length = 48 + m.header.queryLength + m.header.bodyLength ∧
    48 + m.header.queryLength + m.header.bodyLength ≤ bs.length ∧
    m.query = (bs.drop 48).take m.header.queryLength ∧
    m.body = (bs.drop (48 + m.header.queryLength)).take m.header.bodyLength ∧
    m.query.length = m.header.queryLength ∧ m.body.length = m.header.bodyLength := by
  rw [source_forms.1] at hp; exact fromSlice_sound sf mode bs m hp

theorem exact_sound (mode : OvMode) (sf : SumForm) (bs : Bytes) (m : Message)
    (hp : Message.fromSliceExact Gen.headerSumForm sf mode bs = .ok m) :
    bs = m.toVec ∧ m.WF := by
  rw [source_forms.1] at hp
  unfold Message.fromSliceExact at hp
  cases hf : Message.fromSlice .checked sf mode bs with
  | ok m' =>
    simp only [hf, Outcome.bind] at hp
    split at hp
    · cases hp
    · rename_i hne
      cases hp
      obtain ⟨wf, hb⟩ := fromSlice_wf_and_bytes sf mode bs m hf
      have : bs.length = 48 + m.query.length + m.body.length := by simpa using hne
      rw [← this, List.take_length] at hb
      exact ⟨hb.symm, wf⟩
  | err e => simp [hf, Outcome.bind] at hp
  | panic => simp [hf, Outcome.bind] at hp
  | abort => simp [hf, Outcome.bind] at hp

theorem exact_rejects_trailing (mode : OvMode) (sf : SumForm) (m : Message) (wf : m.WF)
    (rest : Bytes) (hne : rest ≠ []) :
    Message.fromSliceExact Gen.headerSumForm sf mode (m.toVec ++ rest) = .err .lengthMismatch :=
  fromSliceExact_trailing _ sf mode m wf rest hne

theorem parse_complete (mode : OvMode) (sf : SumForm) (m : Message) (wf : m.WF) (rest : Bytes) :
    Message.fromSlice Gen.headerSumForm sf mode (m.toVec ++ rest) = .ok m :=
  fromSlice_toVec_append _ sf mode m wf rest

theorem read_complete (mode : OvMode) (m : Message) (wf : m.WF) (rest : Bytes)
    (hq : m.query.length < 2^62) (hb : m.body.length < 2^62) :
    readMessage Gen.headerSumForm Gen.readAlloc mode (m.toVec ++ rest) = .ok m := by
  rw [source_forms.2.1]; exact readMessage_complete _ mode m wf rest hq hb

theorem read_truncated (mode : OvMode) (m : Message) (wf : m.WF) (n : Nat) (hn : n < m.toVec.length) :
    readMessage Gen.headerSumForm Gen.readAlloc mode (m.toVec.take n) = .err .io := by
  rw [source_forms.2.1]; exact readMessage_truncated _ mode m wf n hn

/-! ### Why the checked / fallible forms are needed: witnesses for the unchecked forms
(these are the inputs F1 and F2 of DESIGN.md §9). -/

/-- header: length = 48, spec = 0x1507, query_length = 2^64-1, body_length = 1 -/
def f1Header : Bytes :=
  leBytes 8 48 ++ leBytes 2 0x1507 ++ leBytes 1 1 ++ leBytes 1 0 ++ leBytes 4 0 ++ leBytes 8 0 ++
  leBytes 8 (2^64 - 1) ++ leBytes 8 1 ++ leBytes 2 0 ++ leBytes 2 0 ++ leBytes 4 0

example : Header.decode .unchecked .checks f1Header = .panic := by decide
example : (Message.fromSlice .unchecked .unchecked .wraps f1Header) = .panic := by decide

/-- header declaring a 2^62-byte query -/
def f2Header : Bytes :=
  leBytes 8 (48 + 2^62) ++ leBytes 2 0x1507 ++ leBytes 1 1 ++ leBytes 1 0 ++ leBytes 4 0 ++ leBytes 8 0 ++
  leBytes 8 (2^62) ++ leBytes 8 0 ++ leBytes 2 0 ++ leBytes 2 0 ++ leBytes 4 0

example : readMessage .checked .infallible .wraps f2Header = .abort := by decide
example : readMessage .checked .fallible .wraps f2Header = .err .io := by decide

end Repe.C02
