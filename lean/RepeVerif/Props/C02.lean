import RepeVerif.Lemmas.Wire
import RepeVerif.Gen.Wire
/-!
# C02 — Hostile bytes never crash a parser or reader; only consistent frames parse

> Feeding any byte sequence to any parsing or stream-reading entry point, including headers whose
> 64-bit length fields are inconsistent, overflow when added, or exceed what can ever be allocated,
> never panics, aborts the process or reads out of bounds: it returns an error. A parse succeeds only
> when the magic is correct, the declared total equals 48 plus both payload lengths and the supplied
> bytes contain that whole frame (exact-length variants also reject trailing bytes), and the returned
> query and body are exactly the corresponding input bytes.

clause → theorem
* the current source adds lengths checked, allocates fallibly ... `C02.source_forms`
* never panics / aborts: header, 4 slice parsers ............... `C02.decode_total`, `C02.parse_total`
* never panics / aborts: 4 stream readers, any declared size ... `C02.read_total`
* success ⇒ magic, total = 48+q+b, frame inside buffer, slices .. `C02.parse_sound`
* exact variants reject trailing bytes ......................... `C02.exact_rejects_trailing`, `C02.exact_sound`
* (converse) a consistent frame does parse ..................... `C02.parse_complete`, `C02.read_complete`
* truncation at every position ⇒ error ......................... `C02.read_truncated`, `C02.read_into_truncated`
* stream readers: success ⇒ whole consistent frame, exact bytes . `C02.read_sound`, `C02.read_into_sound`
* (converse, into-readers; pipelined with a reused buffer) ...... `C02.read_into_complete`, `C02.read_pipelined`
* blocking and async readers are the same function ............. `C02.reader_twins_agree`
* the checks the model performs are the checks in the source .... `C02.parser_checks`, `C02.reader_shapes`
* one-message-per-buffer entry points use the exact parsers ..... `C02.entry_points_exact`
* a failed / timed-out frame read ends the connection ........... `C02.read_loops_never_resume`, `C02.client_read_loop_never_resumes`, `C02.async_client_read_loops_never_resume` (why: `C02.resume_inside_frame_accepts_embedded`)

`Outcome` has explicit `panic` and `abort` constructors (integer overflow with overflow-checks on,
slice index out of range, `vec![0; n]` capacity overflow, allocation failure), so "never crashes" is
`isReturn = true`. All theorems quantify over both build profiles (`mode`).
-/
namespace Repe.C02

/-- Facts re-extracted from the source: the header's add of the two declared lengths is a checked add (every later sum is then bounded by the
64-bit `length` field, whatever its form), and every reader reserves its buffer fallibly. -/
theorem source_forms :
    Gen.headerSumForm = .checked ∧
    Gen.readAlloc = .fallible ∧ Gen.readIntoAlloc = .fallible ∧
    Gen.asyncReadAlloc = .fallible ∧ Gen.asyncReadIntoAlloc = .fallible := by decide

theorem decode_total (mode : OvMode) (bs : Bytes) :
    (Header.decode Gen.headerSumForm mode bs).isReturn = true := by
  rw [source_forms.1]; exact decode_checked_total mode bs

/-- `Message::from_slice`, `MessageView::from_slice` and both `_exact` variants. -/
theorem parse_total (mode : OvMode) (bs : Bytes) :
    (Message.fromSlice Gen.headerSumForm Gen.sliceSumForm mode bs).isReturn = true ∧
    (Message.fromSlice Gen.headerSumForm Gen.viewSumForm mode bs).isReturn = true ∧
    (Message.fromSliceExact Gen.headerSumForm Gen.sliceSumForm mode bs).isReturn = true ∧
    (Message.fromSliceExact Gen.headerSumForm Gen.viewSumForm mode bs).isReturn = true := by
  rw [source_forms.1]
  have ex : ∀ sf, (Message.fromSliceExact .checked sf mode bs).isReturn = true := fun sf => by
    unfold Message.fromSliceExact
    exact bind_return _ _ (fromSlice_checked_total sf mode bs) fun m => by split <;> rfl
  exact ⟨fromSlice_checked_total _ mode bs, fromSlice_checked_total _ mode bs, ex _, ex _⟩

/-- The four stream readers on any stream (any fragmentation, any cut, any declared sizes –
including ≥ 2^62 and sums that wrap). -/
theorem read_total (mode : OvMode) (s : Bytes) :
    (readMessage Gen.headerSumForm Gen.readAlloc mode s).isReturn = true ∧
    (readMessage Gen.headerSumForm Gen.asyncReadAlloc mode s).isReturn = true ∧
    (readMessageInto Gen.headerSumForm Gen.readIntoSumForm Gen.readIntoAlloc mode s).isReturn = true ∧
    (readMessageInto Gen.headerSumForm Gen.asyncReadIntoSumForm Gen.asyncReadIntoAlloc mode s).isReturn = true := by
  obtain ⟨h1, h4, h5, h6, h7⟩ := source_forms
  rw [h1, h4, h5, h6, h7]
  exact ⟨readMessage_total mode s, readMessage_total mode s,
         readMessageInto_total _ mode s, readMessageInto_total _ mode s⟩

/-- A parse succeeds only on a consistent frame wholly inside the buffer, and returns exactly
the corresponding input bytes. -/
theorem parse_sound (mode : OvMode) (sf : SumForm) (bs : Bytes) (m : Message)
    (hp : Message.fromSlice Gen.headerSumForm sf mode bs = .ok m) :
    48 ≤ bs.length ∧ m.header = Header.parse bs ∧ m.header.spec = REPE_SPEC ∧
    m.header.length = 48 + m.header.queryLength + m.header.bodyLength ∧
    48 + m.header.queryLength + m.header.bodyLength ≤ bs.length ∧
    m.query = (bs.drop 48).take m.header.queryLength ∧
    m.body = (bs.drop (48 + m.header.queryLength)).take m.header.bodyLength ∧
    m.query.length = m.header.queryLength ∧ m.body.length = m.header.bodyLength := by
  rw [source_forms.1] at hp; exact fromSlice_sound sf mode bs m hp

theorem exact_sound (mode : OvMode) (sf : SumForm) (bs : Bytes) (m : Message)
    (hp : Message.fromSliceExact Gen.headerSumForm sf mode bs = .ok m) :
    bs = m.toVec ∧ m.WF := by
  rw [source_forms.1] at hp
  unfold Message.fromSliceExact at hp
  cases hf : Message.fromSlice .checked sf mode bs with
  | ok m' =>
    simp only [hf, Outcome.bind] at hp
    split at hp
    · cases hp
    · rename_i hne
      cases hp
      obtain ⟨wf, hb⟩ := fromSlice_wf_and_bytes sf mode bs m hf
      have : bs.length = 48 + m.query.length + m.body.length := by simpa using hne
      rw [← this, List.take_length] at hb
      exact ⟨hb.symm, wf⟩
  | err e => simp [hf, Outcome.bind] at hp
  | panic => simp [hf, Outcome.bind] at hp
  | abort => simp [hf, Outcome.bind] at hp

theorem exact_rejects_trailing (mode : OvMode) (sf : SumForm) (m : Message) (wf : m.WF)
    (rest : Bytes) (hne : rest ≠ []) :
    Message.fromSliceExact Gen.headerSumForm sf mode (m.toVec ++ rest) = .err .lengthMismatch :=
  fromSliceExact_trailing _ sf mode m wf rest hne

theorem parse_complete (mode : OvMode) (sf : SumForm) (m : Message) (wf : m.WF) (rest : Bytes) :
    Message.fromSlice Gen.headerSumForm sf mode (m.toVec ++ rest) = .ok m :=
  fromSlice_toVec_append _ sf mode m wf rest

theorem read_complete (mode : OvMode) (m : Message) (wf : m.WF) (rest : Bytes)
    (hq : m.query.length < 2^62) (hb : m.body.length < 2^62) :
    readMessage Gen.headerSumForm Gen.readAlloc mode (m.toVec ++ rest) = .ok m := by
  rw [source_forms.2.1]; exact readMessage_complete _ mode m wf rest hq hb

theorem read_truncated (mode : OvMode) (m : Message) (wf : m.WF) (n : Nat) (hn : n < m.toVec.length) :
    readMessage Gen.headerSumForm Gen.readAlloc mode (m.toVec.take n) = .err .io := by
  rw [source_forms.2.1]; exact readMessage_truncated _ mode m wf n hn

/-! ### coverage-audit pass -/

/-- The checks of `Header::decode`, `Message::from_slice(_exact)` and `MessageView::from_slice(_exact)`, in
source order and in a recognised form (comparison, error variant), are exactly the checks of the model;
the slices returned are cut at the model's offsets; `Message::new` compares both lengths. A check the
extractor does not recognise (a weakened magic test, an extra disjunct, a signed comparison) is extracted
as `.unknown`, a different slicing as `false`. -/
theorem parser_checks :
    Gen.decodeChecks = Header.decodeChecks ∧ Gen.decodeReturnsParsed = true ∧
    Gen.sliceChecks = Message.fromSliceChecks ∧ Gen.viewChecks = Message.fromSliceChecks ∧
    Gen.sliceExactChecks = Message.fromSliceExactChecks ∧ Gen.viewExactChecks = Message.fromSliceExactChecks ∧
    Gen.sliceBoundsExact = true ∧ Gen.viewBoundsExact = true ∧ Gen.messageNewShape = true := by decide

/-- The four stream readers and the `read_exact` helper (EOF before the buffer is full is an error) have,
statement by statement, the shape the model transcribes. -/
theorem reader_shapes :
    Gen.readShape = true ∧ Gen.asyncReadShape = true ∧ Gen.readIntoShape = true ∧
    Gen.asyncReadIntoShape = true ∧ Gen.readExactShape = true := by decide

/-- Entry points that receive one whole transport message per buffer (WebSocket server reader and proxy,
WebSocket client) parse it with the exact-length variants. -/
theorem entry_points_exact : Gen.wsServerParser = .exact ∧ Gen.wsClientParser = .exact := by decide

/-- Blocking and async readers are the same function of the stream. -/
theorem reader_twins_agree (mode : OvMode) (s : Bytes) :
    readMessage Gen.headerSumForm Gen.readAlloc mode s = readMessage Gen.headerSumForm Gen.asyncReadAlloc mode s ∧
    readMessageInto Gen.headerSumForm Gen.readIntoSumForm Gen.readIntoAlloc mode s =
      readMessageInto Gen.headerSumForm Gen.asyncReadIntoSumForm Gen.asyncReadIntoAlloc mode s := by
  have h1 : Gen.readAlloc = Gen.asyncReadAlloc := by decide
  have h2 : Gen.readIntoAlloc = Gen.asyncReadIntoAlloc := by decide
  have h3 : Gen.readIntoSumForm = Gen.asyncReadIntoSumForm := by decide
  rw [h1, h2, h3]; exact ⟨rfl, rfl⟩

/-- A stream read succeeds only on a stream that starts with a whole consistent frame, and returns exactly
those stream bytes (all four readers, any declared sizes). -/
theorem read_sound (mode : OvMode) (s : Bytes) (m : Message)
    (h : readMessage Gen.headerSumForm Gen.readAlloc mode s = .ok m ∨
         readMessage Gen.headerSumForm Gen.asyncReadAlloc mode s = .ok m) :
    m.WF ∧ ∃ rest, s = m.toVec ++ rest := by
  rw [source_forms.1] at h
  rcases h with h | h <;> exact readMessage_sound _ mode s m h

theorem read_into_sound (mode : OvMode) (s f : Bytes)
    (h : readMessageInto Gen.headerSumForm Gen.readIntoSumForm Gen.readIntoAlloc mode s = .ok f ∨
         readMessageInto Gen.headerSumForm Gen.asyncReadIntoSumForm Gen.asyncReadIntoAlloc mode s = .ok f) :
    ∃ m : Message, m.WF ∧ f = m.toVec ∧ ∃ rest, s = f ++ rest := by
  rw [source_forms.1] at h
  rcases h with h | h <;> exact readMessageInto_sound _ _ mode s f h

/-- non-vacuity of `read_sound` / `read_into_sound`: a 48-byte consistent header is read by both kinds -/
def okHeader : Bytes :=
  leBytes 8 48 ++ leBytes 2 0x1507 ++ leBytes 1 1 ++ leBytes 1 0 ++ leBytes 4 0 ++ leBytes 8 9 ++
  leBytes 8 0 ++ leBytes 8 0 ++ leBytes 2 0 ++ leBytes 2 0 ++ leBytes 4 0
example : (readMessage Gen.headerSumForm Gen.readAlloc .checks okHeader).map Message.toVec = .ok okHeader := by decide
example : readMessageInto Gen.headerSumForm Gen.readIntoSumForm Gen.readIntoAlloc .wraps okHeader = .ok okHeader := by
  decide

theorem read_into_complete (mode : OvMode) (m : Message) (wf : m.WF) (rest : Bytes)
    (hsz : 48 + m.query.length + m.body.length < 2^62) :
    readMessageInto Gen.headerSumForm Gen.readIntoSumForm Gen.readIntoAlloc mode (m.toVec ++ rest) = .ok m.toVec ∧
    readMessageInto Gen.headerSumForm Gen.asyncReadIntoSumForm Gen.asyncReadIntoAlloc mode (m.toVec ++ rest) = .ok m.toVec := by
  rw [source_forms.2.2.1, source_forms.2.2.2.2]
  exact ⟨readMessageInto_complete _ _ mode m wf rest hsz, readMessageInto_complete _ _ mode m wf rest hsz⟩

theorem read_into_truncated (mode : OvMode) (m : Message) (wf : m.WF) (n : Nat) (hn : n < m.toVec.length) :
    readMessageInto Gen.headerSumForm Gen.readIntoSumForm Gen.readIntoAlloc mode (m.toVec.take n) = .err .io ∧
    readMessageInto Gen.headerSumForm Gen.asyncReadIntoSumForm Gen.asyncReadIntoAlloc mode (m.toVec.take n) = .err .io := by
  rw [source_forms.2.2.1, source_forms.2.2.2.2]
  exact ⟨readMessageInto_truncated _ _ mode m wf n hn, readMessageInto_truncated _ _ mode m wf n hn⟩

/-- Pipelined frames read with one reader: every owned reader returns them in order too. -/
theorem read_pipelined (mode : OvMode) (ms : List Message) (tail : Bytes)
    (hms : ∀ m ∈ ms, m.WF ∧ m.query.length < 2^62 ∧ m.body.length < 2^62) :
    readSeq (fun s => (readMessage Gen.headerSumForm Gen.readAlloc mode s).map Message.toVec) ms.length
      ((ms.map Message.toVec).flatten ++ tail) = (ms.map Message.toVec, tail) := by
  rw [source_forms.2.1]
  refine readSeq_frames _ ms tail fun m hm rest => ?_
  rw [readMessage_complete _ mode m (hms m hm).1 rest (hms m hm).2.1 (hms m hm).2.2]
  rfl

/-! ### second coverage-audit pass: the readers are not resumable -/

/-- Why a connection must end after a failed or timed-out frame read: the readers start at the current stream position,
and a position inside a frame may well be the first byte of bytes that form a consistent frame of their own. Whatever
precedes it (`pre`: the part of the outer frame already consumed) and whatever follows, the four readers return the
embedded frame. So "only whole frames of the stream are ever parsed" holds only for reads that start at frame
boundaries (`read_pipelined`), and the read loops must never read again after an error. -/
theorem resume_inside_frame_accepts_embedded (mode : OvMode) (pre tail : Bytes) (e : Message) (wf : e.WF)
    (hsz : 48 + e.query.length + e.body.length < 2^62) :
    readMessageInto Gen.headerSumForm Gen.readIntoSumForm Gen.readIntoAlloc mode
      ((pre ++ (e.toVec ++ tail)).drop pre.length) = .ok e.toVec ∧
    readMessage Gen.headerSumForm Gen.readAlloc mode ((pre ++ (e.toVec ++ tail)).drop pre.length) = .ok e := by
  rw [List.drop_left' rfl]
  exact ⟨(read_into_complete mode e wf tail hsz).1, read_complete mode e wf tail (by omega) (by omega)⟩

/-- non-vacuity: a consistent embedded frame exists (id 99, query `/s`) -/
example : (Message.mk ⟨50, 0x1507, 1, 0, 0, 99, 2, 0, 1, 2, 0⟩ [47, 115] []).WF := by
  refine ⟨⟨?_,?_,?_,?_,?_,?_,?_,?_,?_,?_,?_⟩, ?_, ?_, ?_, ?_⟩ <;> decide

/-- The read loops of the blocking and the async TCP server, as re-read from the source on every run: every error of the
frame read (a read timeout — `WouldBlock`/`TimedOut` — included) leaves the loop (`break` on a clean end of stream,
`return` otherwise; the async server's `timeout(..)` arm returns). A loop that `continue`s after an error, or any other
arm, is extracted as `false`. -/
theorem read_loops_never_resume : Gen.serverReadArms = true ∧ Gen.asyncReadTimeoutCloses = true := by decide

/-- The same for the blocking `Client`'s response loop: every error of `read_message` fails the pending calls and leaves
the loop. (At /repo 7face75 this is FALSE: an `Interrupted` error `continue`s, and `read_message` can return it after
having consumed part of a frame — finding F11, `fixes/F11-client-eintr-resync.diff`; the harness re-finds it with a real
signal as `parse.net.client.resync_inside_frame_after_eintr`.) -/
theorem client_read_loop_never_resumes : Gen.clientReadLoopEnds = true := by decide

/-- The async client's response loop races the frame read against the shutdown signal only (which breaks), and every read
error breaks; the WebSocket client's loop reads whole messages and races them against nothing. A timer / sleep / timeout
arm, or a `continue` before the dispatch, would drop the non-resumable `read_message_async` mid-frame: extracted as `false`. -/
theorem async_client_read_loops_never_resume :
    Gen.asyncClientReadLoopEnds = true ∧ Gen.wsClientReadLoopPlain = true := by decide

/-! ### Why the checked / fallible forms are needed: witnesses for the unchecked forms
(these are the inputs F1 and F2 of DESIGN.md §9). -/

/-- header: length = 48, spec = 0x1507, query_length = 2^64-1, body_length = 1 -/
def f1Header : Bytes :=
  leBytes 8 48 ++ leBytes 2 0x1507 ++ leBytes 1 1 ++ leBytes 1 0 ++ leBytes 4 0 ++ leBytes 8 0 ++
  leBytes 8 (2^64 - 1) ++ leBytes 8 1 ++ leBytes 2 0 ++ leBytes 2 0 ++ leBytes 4 0

example : Header.decode .unchecked .checks f1Header = .panic := by decide
example : (Message.fromSlice .unchecked .unchecked .wraps f1Header) = .panic := by decide

/-- header declaring a 2^62-byte query -/
def f2Header : Bytes :=
  leBytes 8 (48 + 2^62) ++ leBytes 2 0x1507 ++ leBytes 1 1 ++ leBytes 1 0 ++ leBytes 4 0 ++ leBytes 8 0 ++
  leBytes 8 (2^62) ++ leBytes 8 0 ++ leBytes 2 0 ++ leBytes 2 0 ++ leBytes 4 0

example : readMessage .checked .infallible .wraps f2Header = .abort := by decide
example : readMessage .checked .fallible .wraps f2Header = .err .io := by decide

end Repe.C02
