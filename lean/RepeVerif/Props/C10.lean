import RepeVerif.Lemmas.Commit
import RepeVerif.Gen.Commit
import RepeVerif.Props.C09
/-!
# C10 — A failed or interrupted pull never publishes a file, and never a partial one

> A pull-to-file publishes the destination only after the whole stream arrived, passed any
> caller-supplied verification and was flushed to disk; the destination then holds exactly the
> complete content (with a verified trailer stripped). If the producer fails, the connection drops,
> verification rejects, the stream is too short, or the pulling process is killed at any moment, the
> destination path is left exactly as it was (absent, or its previous content); a value-decoding pull
> returns an error rather than a value built from a truncated stream, and a failed in-process pull
> leaves no temporary file.

The model (`Model/Commit.lean`): a filesystem of two paths (`dest`, its `.svspart` sibling); every file
puller is its list of statements in source order (`Gen.Commit.steps`, re-extracted on every run) run by
`interp` against an environment computed from a *fault script* (answers of the peer to successive
`next` calls: chunk / chunk+last / error response / connection cut; open failure; incompatible tags;
verify outcome; trailer length; rename refused; an early-stopping `fill`) and an uninterpreted zstd
decoder. `expected p s codec : Option Bytes` is the specification: the content that must be
published, `none` for every failing script.

clause → theorem
* the statements are in the order the theorems assume (facts) ......... `C10.source_order`
* publishes only after whole stream + verify + flush/fsync; complete ... `C10.success_publishes_complete`, `C10.published_only_if`
* producer failure / cut at every k / verify reject / short trailer .... `C10.failure_leaves_dest` with `C10.fault_at_any_k_fails`,
                                                                         `C10.verify_reject_fails`, `C10.short_trailer_fails`, `C10.early_stop_fails`,
                                                                         `C10.write_fault_fails` (file system refuses a write), `C10.write_limit_not_reached`,
                                                                         `C10.sync_fault_fails` (fsync reports an error)
* killed at any moment: destination old or complete .................... `C10.crash_atomic`
* a failed in-process pull leaves no temporary file .................... `C10.failure_leaves_dest` (third conjunct)
* trailer held back across arbitrary write sizes ....................... `C10.trailer_hold_spec`
* value pull: error, never a value from a truncated stream ............. `C10.value_pull_error_first`, `C10.value_sync_error_first`
* every model run is a word of the syscall protocol the traces are checked against ... `C10.runs_conform`

Assumed (trusted base): `rename(2)` is atomic and `fsync(2)` durable — `Op.rename` replaces `dest` by
the temp file's content in one step; durability is not modelled (the `sync`-before-`rename` order is a
fact checked on the extracted step list, on the model's op lists and on the real syscall traces).
-/
namespace Repe.C10
open Repe.Commit

/-- Facts re-extracted from `src/value_stream.rs`: statement order of the five puller shapes,
`pull_res?` before the consumer's value, the guard's drop/commit discipline, EOF only after `last`. -/
theorem source_order :
    Gen.Commit.steps = canonical ∧ Gen.Commit.pullResFirst = true ∧
    Gen.Commit.dropRemovesUncommitted = true ∧ Gen.Commit.commitClosesBeforeRename = true ∧
    Gen.Commit.commitRemovesOnRenameError = true ∧ Gen.Commit.writeFileCommitsOnlyOnOk = true ∧
    Gen.Commit.readerEofOnlyAfterLast = true ∧ Gen.Commit.tempSuffix = ".svspart" ∧
    Gen.Commit.tempCreateTruncates = true ∧ Gen.Commit.tempAppendsToFileName = true ∧
    Gen.Commit.asyncLoopOkOnlyOnLastOrGone = true ∧ Gen.Commit.teeWritesAll = true ∧
    Gen.Commit.pullPathsHaveNoTimers = true ∧ Gen.Commit.readerProducerUsesIoCopy = true := by decide

/-- `TrailerHold`: for every sequence of writes (any sizes, any count) the bytes forwarded to the file
and the digest are the stream minus its last `n` bytes, the held bytes are the last `n`; a stream
shorter than `n` forwards nothing and `into_trailer` is an error. -/
theorem trailer_hold_spec (n : Nat) (ws : List Bytes) :
    (Hold.run n ws).out.flatten = ws.flatten.take (ws.flatten.length - n) ∧
    (Hold.run n ws).hold = ws.flatten.drop (ws.flatten.length - n) ∧
    (n ≤ ws.flatten.length → Hold.intoTrailer n (Hold.run n ws) = some (ws.flatten.drop (ws.flatten.length - n))) ∧
    (ws.flatten.length < n → Hold.intoTrailer n (Hold.run n ws) = none ∧ (Hold.run n ws).out.flatten = []) := by
  obtain ⟨a, b, c⟩ := Hold.run_spec n ws
  refine ⟨a, b, ?_, ?_⟩
  · intro h
    unfold Hold.intoTrailer
    rw [if_neg (by rw [c]; omega), b]
  · intro h
    refine ⟨?_, ?_⟩
    · unfold Hold.intoTrailer
      rw [if_pos (by rw [c]; omega)]
    · have : ws.flatten.length - n = 0 := by omega
      rw [a, this]; rfl

example : Hold.run 2 [[1], [2, 3, 4], [5]] = ⟨[4, 5], [[1], [2], [3]]⟩ := by decide
example : Hold.intoTrailer 4 (Hold.run 4 [[1], [2, 3]]) = none := by decide

/-- Every failing script — whatever the puller, compression, `k`, destination — returns `Err`, leaves
the destination exactly as it was and leaves no temp file. -/
theorem failure_leaves_dest (p : Puller) (s : Script) (codec : Codec) (fs₀ : FS)
    (hfail : expected p s codec = none) (htmp : fs₀.tmp = none) :
    let r := run Gen.Commit.steps p s codec
    r.ret = .err ∧ (runOps fs₀ r.ops).dest = fs₀.dest ∧ (runOps fs₀ r.ops).tmp = none := by
  rw [source_order.1]
  obtain ⟨a, b, c⟩ := run_of_expected_none p s codec hfail
  refine ⟨a, dest_of_noRename _ _ c, ?_⟩
  rcases b with b | b
  · rw [b]; exact htmp
  · exact tmp_of_last_remove _ _ b.1

/-- The same without assuming anything about a stale temp file: a failing pull either never got as far
as creating its temp file (no operation at all: failing `open`, incompatible tags) or ends by removing
it. -/
theorem failure_leaves_dest' (p : Puller) (s : Script) (codec : Codec) (fs₀ : FS)
    (hfail : expected p s codec = none) :
    let r := run Gen.Commit.steps p s codec
    r.ret = .err ∧ (runOps fs₀ r.ops).dest = fs₀.dest ∧
    ((runOps fs₀ r.ops).tmp = none ∨ (r.ops = [] ∧ (s.openOk = false ∨ preOk p s = false))) := by
  rw [source_order.1]
  obtain ⟨a, b, c⟩ := run_of_expected_none p s codec hfail
  refine ⟨a, dest_of_noRename _ _ c, ?_⟩
  by_cases hg : (s.openOk && preOk p s) = true
  · left
    rcases b with b | b
    · -- an empty list is impossible once `interp` ran (it starts with `create`)
      exfalso
      have hb := (interp_bad (envOf p s codec) p (by
        cases hgd : good (envOf p s codec) p with
        | false => rfl
        | true =>
          have := interp_good (envOf p s codec) p hgd
          simp only [run, hg, if_true] at b
          rw [this] at b; simp [successOps] at b)).2.2.2.1
      simp only [run, hg, if_true] at b
      rw [b] at hb; simp at hb
    · exact tmp_of_last_remove _ _ b.1
  · right
    refine ⟨by simp [run, hg], ?_⟩
    cases ho : s.openOk <;> cases ht : preOk p s <;> simp_all

/-- A non-failing script returns `Ok` and the destination holds exactly the expected content (the
whole stream, decompressed where the puller decompresses, verified trailer stripped); no temp file. -/
theorem success_publishes_complete (p : Puller) (s : Script) (codec : Codec) (fs₀ : FS) (c : Bytes)
    (hok : expected p s codec = some c) :
    let r := run Gen.Commit.steps p s codec
    r.ret = .ok ∧ runOps fs₀ r.ops = { dest := some c, tmp := none } := by
  rw [source_order.1]
  obtain ⟨a, b⟩ := run_of_expected_some p s codec c hok
  simp only [a, run_successOps, b, and_self]

/-- What "non-failing" means: `open` answered, tags compatible, a `last` chunk reached before any error
or cut (within what the fill reads), the stream decodes, it is at least as long as the trailer, the
caller's verification accepted, and the rename went through. -/
theorem fit_some {lim : Option Nat} {x c : Bytes} (h : fit lim x = some c) :
    c = x ∧ (∀ k, lim = some k → c.length ≤ k) := by
  unfold fit at h
  cases lim with
  | none => simp only [Option.some.injEq] at h; exact ⟨h.symm, fun _ hk => by cases hk⟩
  | some k =>
    simp only at h
    split at h
    · rename_i hle
      simp only [Option.some.injEq] at h
      subst h
      exact ⟨rfl, fun k' hk => by cases hk; exact hle⟩
    · cases h

theorem published_only_if (p : Puller) (s : Script) (codec : Codec) (c : Bytes)
    (h : expected p s codec = some c) :
    s.openOk = true ∧ preOk p s = true ∧ (p.verifies = true → s.verifyOk = true) ∧ s.renameOk = true ∧
    s.syncOk = true ∧ (∀ k, s.writeFault = some k → c.length ≤ k) ∧
    ∃ wb lg, payloadN (if p.usesWriteFile then s.stop else none) s.wire = some wb ∧
      (if p.decodes && s.comp == .zstd then codec.dec wb else some wb) = some lg ∧
      (if p.hasTrailer then s.trailer ≤ lg.length ∧ c = lg.take (lg.length - s.trailer) else c = lg) := by
  unfold expected at h
  split at h
  · rename_i hg
    simp only [Bool.and_eq_true, Bool.or_eq_true, Bool.not_eq_true'] at hg
    obtain ⟨⟨⟨⟨ho, ht⟩, hv⟩, hr⟩, hs⟩ := hg
    refine ⟨ho, ht, ?_, hr, hs, ?_⟩
    · intro hpv; rcases hv with hv | hv
      · rw [hpv] at hv; cases hv
      · exact hv
    · split at h
      · cases h
      · rename_i wb hwb
        split at h
        · cases h
        · rename_i lg hlg
          split at h
          · rename_i hT
            split at h
            · rename_i hle
              obtain ⟨hc, hk⟩ := fit_some h
              refine ⟨hk, wb, lg, hwb, hlg, ?_⟩
              simp only [hT, if_true]
              exact ⟨hle, hc⟩
            · cases h
          · rename_i hT
            obtain ⟨hc, hk⟩ := fit_some h
            refine ⟨hk, wb, lg, hwb, hlg, ?_⟩
            simp only [hT]
            exact hc
  · cases h

/-- The peer's answers when the producer's chunks are `cs` and the fault `f` replaces the `k`-th answer. -/
def faultWire (cs : List Bytes) (k : Nat) (f : Resp) (rest : Wire) : Wire :=
  (cs.take k).map (fun c => .chunk c false) ++ f :: rest

theorem payloadN_faultWire (lim : Option Nat) (cs : List Bytes) (k : Nat) (f : Resp) (rest : Wire)
    (hf : f = .error ∨ f = .cut) : payloadN lim (faultWire cs k f rest) = none := by
  unfold faultWire
  generalize cs.take k = pre
  induction pre generalizing lim with
  | nil =>
    rcases hf with rfl | rfl <;> (cases lim with
      | none => simp [payloadN]
      | some n => cases n <;> simp [payloadN])
  | cons c pre ih =>
    cases lim with
    | none => simp [payloadN, ih]
    | some n => cases n <;> simp [payloadN, ih]

/-- Producer error or connection cut after the `k`-th chunk, for every `k` (also `k` = 0 and `k` past the
end), whatever follows: a failing script for every puller. -/
theorem fault_at_any_k_fails (p : Puller) (s : Script) (codec : Codec) (cs : List Bytes) (k : Nat)
    (f : Resp) (rest : Wire) (hf : f = .error ∨ f = .cut) :
    expected p { s with wire := faultWire cs k f rest } codec = none := by
  unfold expected
  simp only [payloadN_faultWire _ cs k f rest hf]
  split <;> rfl

/-- The peer simply vanishing after `k` chunks (the answers run out) is a failing script too. -/
theorem vanish_at_any_k_fails (p : Puller) (s : Script) (codec : Codec) (cs : List Bytes) :
    expected p { s with wire := cs.map (fun c => .chunk c false) } codec = none := by
  have h : ∀ lim, payloadN lim (cs.map (fun c => Resp.chunk c false)) = none := by
    induction cs with
    | nil => intro lim; cases lim with
      | none => simp [payloadN]
      | some n => cases n <;> simp [payloadN]
    | cons c cs ih => intro lim; cases lim with
      | none => simp [payloadN, ih]
      | some n => cases n <;> simp [payloadN, ih]
  unfold expected
  simp only [h]
  split <;> rfl

theorem verify_reject_fails (p : Puller) (s : Script) (codec : Codec) (hp : p.verifies = true)
    (hv : s.verifyOk = false) : expected p s codec = none := by
  simp [expected, hp, hv]

/-- A stream whose logical content is shorter than the trailer is a failing script. -/
theorem short_trailer_fails (p : Puller) (s : Script) (codec : Codec) (hp : p.hasTrailer = true)
    (hshort : ∀ wb lg, payload s.wire = some wb →
      (if s.comp = .zstd then codec.dec wb else some wb) = some lg → lg.length < s.trailer) :
    expected p s codec = none := by
  have hw : p.usesWriteFile = false := by cases p <;> simp_all [Puller.hasTrailer, Puller.usesWriteFile]
  have hd : p.decodes = true := by cases p <;> simp_all [Puller.hasTrailer, Puller.decodes]
  unfold expected
  split
  · simp only [hw, hd, Bool.true_and, Bool.false_eq_true, if_false, beq_iff_eq]
    cases hpay : payloadN none s.wire with
    | none => rfl
    | some wb =>
      simp only []
      cases hlg : (if s.comp = Comp.zstd then codec.dec wb else some wb) with
      | none => rfl
      | some lg =>
        have := hshort wb lg hpay hlg
        have hn : ¬ s.trailer ≤ lg.length := by omega
        simp [hn]
  · rfl

/-- `write_file`'s `last_seen` test: a `fill` that returns `Ok` after `n` fetches none of which carried
`last` is a failing script (no caller's `fill` does; `io::copy` reads to EOF). -/
theorem early_stop_fails (p : Puller) (s : Script) (codec : Codec) (cs : List Bytes) (rest : Wire)
    (hp : p.usesWriteFile = true) (hs : s.stop = some cs.length) :
    expected p { s with wire := cs.map (fun c => .chunk c false) ++ rest } codec = none := by
  have h : ∀ (cs : List Bytes), payloadN (some cs.length) (cs.map (fun c => Resp.chunk c false) ++ rest) = none := by
    intro cs
    induction cs with
    | nil => simp [payloadN]
    | cons c cs ih => simpa [payloadN] using ih
  unfold expected
  simp only [hp, hs, if_true, h]
  split <;> rfl

/-- `sync_all` reporting an error (the content is not known to be on disk) is a failing script. -/
theorem sync_fault_fails (p : Puller) (s : Script) (codec : Codec) (hs : s.syncOk = false) :
    expected p s codec = none := by
  simp [expected, hs]

/-- A temp file that cannot be created (missing or unwritable parent directory) is a failing script, and
nothing at all is done to the file system. -/
theorem create_fault_fails (p : Puller) (s : Script) (codec : Codec) (hs : s.createOk = false) :
    expected p s codec = none ∧ run Gen.Commit.steps p s codec = ⟨[], .err⟩ := by
  simp [expected, run, preOk, hs]

/-- A write refused by the file system (ENOSPC / EFBIG / EDQUOT … after `k` bytes) anywhere inside the
content — first byte, a chunk boundary, the last byte — is a failing script for every puller:
`failure_leaves_dest` applies (Err, destination untouched, temp file removed). -/
theorem write_fault_fails (p : Puller) (s : Script) (codec : Codec) (c : Bytes) (k : Nat)
    (hc : expected p { s with writeFault := none } codec = some c) (hk : k < c.length) :
    expected p { s with writeFault := some k } codec = none := by
  rw [expected_eq] at hc ⊢
  have e : streamContent p { s with writeFault := some k } codec = streamContent p { s with writeFault := none } codec := rfl
  have t : preOk p { s with writeFault := some k } = preOk p { s with writeFault := none } := by
    cases p <;> rfl
  rw [e, t]
  split at hc
  · rename_i hg
    rw [if_pos hg]
    cases hsc : streamContent p { s with writeFault := none } codec with
    | none => rfl
    | some c0 =>
      rw [hsc] at hc
      simp only [Option.bind_some, fit, Option.some.injEq] at hc ⊢
      subst hc
      rw [if_neg (by omega)]
  · cases hc

/-- … and a limit the content fits under changes nothing. -/
theorem write_limit_not_reached (p : Puller) (s : Script) (codec : Codec) (c : Bytes) (k : Nat)
    (hc : expected p { s with writeFault := none } codec = some c) (hk : c.length ≤ k) :
    expected p { s with writeFault := some k } codec = some c := by
  rw [expected_eq] at hc ⊢
  have e : streamContent p { s with writeFault := some k } codec = streamContent p { s with writeFault := none } codec := rfl
  have t : preOk p { s with writeFault := some k } = preOk p { s with writeFault := none } := by
    cases p <;> rfl
  rw [e, t]
  split at hc
  · rename_i hg
    rw [if_pos hg]
    cases hsc : streamContent p { s with writeFault := none } codec with
    | none => rw [hsc] at hc; cases hc
    | some c0 =>
      rw [hsc] at hc
      simp only [Option.bind_some, fit, Option.some.injEq] at hc ⊢
      subst hc
      rw [if_pos hk]
  · cases hc

/-- Killed after any number `k` of its filesystem operations, the pull leaves the destination either
exactly as it was or holding the complete expected content — the latter only for a non-failing script
and only when all operations ran: create, every write, flush, fsync, close, and `rename` last. -/
theorem crash_atomic (p : Puller) (s : Script) (codec : Codec) (fs₀ : FS) (k : Nat) :
    let r := run Gen.Commit.steps p s codec
    let fs := runOps fs₀ (crash k r.ops)
    fs.dest = fs₀.dest ∨
    ∃ (c : Bytes) (ws : List Bytes), expected p s codec = some c ∧ fs.dest = some c ∧ ws.flatten = c ∧
      r.ops = .create :: ws.map .write ++ [.flush, .sync, .close, .rename] ∧ r.ops.length ≤ k := by
  rw [source_order.1]
  cases he : expected p s codec with
  | none =>
    left
    obtain ⟨_, _, c⟩ := run_of_expected_none p s codec he
    exact dest_of_noRename _ _ (fun h => c (List.mem_of_mem_take h))
  | some c =>
    obtain ⟨a, b⟩ := run_of_expected_some p s codec c he
    simp only [a, crash]
    by_cases hk : k < (successOps (envOf p s codec).writes).length
    · left
      exact dest_of_noRename _ _ (noRename_successOps_take _ k hk)
    · right
      refine ⟨c, (envOf p s codec).writes, rfl, ?_, b, rfl, by omega⟩
      rw [List.take_of_length_le (by omega), run_successOps, b]

/-- Every op list the model produces is a word of the syscall protocol the real traces are checked
against (`protoOk`): only `rename` touches `dest`, at most once, after an `fsync` that follows the last
write. -/
theorem runs_conform (p : Puller) (s : Script) (codec : Codec) :
    protoOk (sysOf (run Gen.Commit.steps p s codec).ops 0) = true := by
  rw [source_order.1]
  cases he : expected p s codec with
  | some c => rw [(run_of_expected_some p s codec c he).1]; exact protoOk_successOps _
  | none =>
    obtain ⟨_, b, c⟩ := run_of_expected_none p s codec he
    rcases b with b | ⟨_, b, hc⟩
    · rw [b]; rfl
    · cases hops : (run canonical p s codec).ops with
      | nil => rfl
      | cons o r =>
        rw [hops] at b c hc
        simp only [List.head?_cons, Option.some.injEq] at b
        subst b
        have hr : Op.rename ∉ r := fun h => c (List.mem_cons_of_mem _ h)
        simp only [List.tail_cons] at hc
        unfold protoOk
        simp only [sysOf, Nat.lt_irrefl, if_false, List.nil_append, List.singleton_append, protoCheck,
          Bool.false_eq_true]
        rw [protoCheck_noRename r _ _ 0 rfl rfl hr hc]; rfl

/-! ### which paths a pull touches (`temp_sibling`) -/

/-- the extracted suffix, as characters -/
def suffix : List Char := Gen.Commit.tempSuffix.toList

theorem suffix_nonempty : suffix ≠ [] := by decide

/-- The temp sibling is never the destination itself, lives in the destination's directory, and two
different destinations never share a temp sibling (the suffix is appended to the *whole* file name:
`out.bin` and `out.txt` get `out.bin.svspart` and `out.txt.svspart`). -/
theorem temp_sibling_spec (a b : FPath) :
    tempSibling suffix a ≠ a ∧ (tempSibling suffix a).dir = a.dir ∧
    (tempSibling suffix a = tempSibling suffix b → a = b) ∧
    (tempSibling suffix a = b ↔ b.dir = a.dir ∧ b.name = a.name ++ suffix) := by
  refine ⟨tempSibling_ne suffix suffix_nonempty a, rfl, tempSibling_inj suffix a b, ?_⟩
  cases a; cases b
  simp only [tempSibling, FPath.mk.injEq]
  constructor
  · rintro ⟨h1, h2⟩; exact ⟨h1.symm, h2.symm⟩
  · rintro ⟨h1, h2⟩; exact ⟨h1.symm, h2.symm⟩

example : tempSibling suffix ⟨["d"], "out.bin".toList⟩ = ⟨["d"], "out.bin.svspart".toList⟩ := by decide
example : tempSibling suffix ⟨["d"], "out.bin".toList⟩ ≠ tempSibling suffix ⟨["d"], "out.txt".toList⟩ := by decide

/-- Frame: on a file system over all paths, a pull to `d` (any puller, any script — failing, complete,
killed after any `k` operations) changes nothing but `d` and `d`'s temp sibling, and on those two it
behaves exactly as the two-path model the other theorems are about. -/
theorem pull_touches_only_its_two_paths (p : Puller) (s : Script) (codec : Codec) (d : FPath) (w : World) (k : Nat) :
    let ops := crash k (run Gen.Commit.steps p s codec).ops
    (runOpsAt suffix d w ops).view suffix d = runOps (w.view suffix d) ops ∧
    ∀ q, q ≠ d → q ≠ tempSibling suffix d → runOpsAt suffix d w ops q = w q :=
  runOpsAt_view suffix suffix_nonempty d _ w

/-- Two pulls to different destinations, neither of which is the other's temp sibling (true of any two
destinations that do not themselves end in `.svspart`), do not disturb each other: after the first ran
to any point and the second ran completely, the second's destination and temp are what the second
alone would have produced. -/
theorem pulls_do_not_interfere (pa pb : Puller) (sa sb : Script) (codec : Codec) (a b : FPath) (w : World) (k : Nat)
    (hab : a ≠ b) (h1 : a ≠ tempSibling suffix b) (h2 : b ≠ tempSibling suffix a) :
    let opsA := crash k (run Gen.Commit.steps pa sa codec).ops
    let opsB := (run Gen.Commit.steps pb sb codec).ops
    (runOpsAt suffix b (runOpsAt suffix a w opsA) opsB).view suffix b = runOps (w.view suffix b) opsB := by
  intro opsA opsB
  have hA := (runOpsAt_view suffix suffix_nonempty a opsA w).2
  have hB := (runOpsAt_view suffix suffix_nonempty b opsB (runOpsAt suffix a w opsA)).1
  rw [hB]
  have e1 : runOpsAt suffix a w opsA b = w b := hA b (Ne.symm hab) h2
  have e2 : runOpsAt suffix a w opsA (tempSibling suffix b) = w (tempSibling suffix b) :=
    hA _ (Ne.symm h1) (fun h => hab (tempSibling_inj suffix a b h.symm))
  simp only [World.view, e1, e2]

/-! ### composition with C09: the streams its model produces are scripts of this model -/

/-- C09's `next` responses as this model's answers (`last` = the 1-byte query is `[1]`). -/
def wireOfResps (rs : List Svs.Resp) : Wire :=
  rs.map fun r => match r with
    | .chunk b q => .chunk b (Svs.isLast 1 q)
    | .error => .error

/-- C09's pull results as answers (the lemma shape the C09 builder targets: every run of its model,
`Session.pull` results or server responses, maps to a `Wire`). -/
def wireOfPulls (rs : List Svs.PullRes) : Wire :=
  rs.map fun r => match r with
    | .ok (c, last) => .chunk c last
    | .error _ => .error

theorem wireOfResps_respOfPull (rs : List Svs.PullRes) :
    wireOfResps (rs.map (Svs.respOfPull Gen.svsFacts)) = wireOfPulls rs := by
  rw [C09.source_facts]
  induction rs with
  | nil => rfl
  | cons r rs ih =>
    simp only [wireOfResps, wireOfPulls, List.map_cons, List.map_map] at ih ⊢
    rw [ih]
    cases r with
    | error e => rfl
    | ok v => obtain ⟨c, l⟩ := v; cases l <;> rfl

/-- What this model reads off a response list is what C09's async (hence, by `C09.async_eq_sync`, sync)
reassembler returns. -/
theorem payload_wireOfResps (rs : List Svs.Resp) :
    payload (wireOfResps rs) = Svs.asyncPull Gen.svsFacts rs := by
  rw [C09.source_facts]
  unfold payload Svs.asyncPull
  induction rs with
  | nil => rfl
  | cons r rs ih =>
    cases r with
    | error => rfl
    | chunk b q =>
      simp only [wireOfResps, List.map_cons] at ih ⊢
      cases hl : Svs.isLast 1 q with
      | true =>
        have : Svs.isLast Svs.specFacts.asyncLastIs q = true := hl
        simp only [payloadN, Svs.asyncLoop, this, if_true, Svs.channelReaderAll]
        cases b <;> simp [Svs.specFacts]
      | false =>
        have : Svs.isLast Svs.specFacts.asyncLastIs q = false := hl
        simp only [payloadN, Option.map_none, Svs.asyncLoop, this, Bool.false_eq_true, if_false]
        rw [ih]
        cases Svs.asyncLoop Svs.specFacts rs with
        | mk more ok =>
          cases ok <;> cases b <;> simp [Svs.specFacts, Svs.channelReaderAll]

/-- End to end through both models: a producer writes `evs` (any fragmentation, any flushes, chunk size
`c ≥ 1`), C09's server answers `n` `next` requests; as a script of this model that stream is equivalent,
for every puller and every other script field, to a single final chunk carrying exactly the written
bytes.  (`success_publishes_complete` / `failure_leaves_dest` / `crash_atomic` then apply.) -/
theorem c09_stream_is_complete_script (c : Nat) (hc : 1 ≤ c) (evs : List Svs.Ev) (sv : Svs.Server) (n : Nat)
    (hn : (Svs.evBytes evs).length / c + 1 ≤ n) (p : Puller) (s : Script) (codec : Codec) :
    ∃ msgs, Svs.produce Gen.svsFacts c evs .ok = some msgs ∧
      payload (wireOfResps (Svs.responses Gen.svsFacts sv msgs n)) = some (Svs.evBytes evs) ∧
      expected p { s with wire := wireOfResps (Svs.responses Gen.svsFacts sv msgs n), stop := none } codec =
        expected p { s with wire := [.chunk (Svs.evBytes evs) true], stop := none } codec := by
  obtain ⟨msgs, h1, _, _, h4⟩ := C09.end_to_end c hc evs sv n hn (fun _ => 1) (fun _ => Nat.le_refl 1)
  have hp := payload_wireOfResps (Svs.responses Gen.svsFacts sv msgs n)
  rw [h4] at hp
  refine ⟨msgs, h1, hp, ?_⟩
  have e1 : ∀ lim : Option Nat, (if p.usesWriteFile then (none : Option Nat) else none) = lim → lim = none := by
    intro lim h; cases hu : p.usesWriteFile <;> simp_all
  unfold expected
  have hn' : (if p.usesWriteFile = true then (none : Option Nat) else none) = none := by split <;> rfl
  simp only [hn']
  have : payloadN none (wireOfResps (Svs.responses Gen.svsFacts sv msgs n)) = some (Svs.evBytes evs) := hp
  simp only [this, payloadN]
  rfl

/-- … and when the producer fails or vanishes after any number of writes, the stream is a failing script
of this model for every puller: `Err`, destination untouched, no temp file. -/
theorem c09_failed_stream_leaves_dest (c : Nat) (hc : 1 ≤ c) (evs : List Svs.Ev) (e : Svs.BodyEnd) (he : e ≠ .ok)
    (sv : Svs.Server) (n : Nat) (p : Puller) (s : Script) (codec : Codec) (fs₀ : FS) (htmp : fs₀.tmp = none) :
    ∃ msgs, Svs.produce Gen.svsFacts c evs e = some msgs ∧
      let r := run Gen.Commit.steps p { s with wire := wireOfResps (Svs.responses Gen.svsFacts sv msgs n) } codec
      r.ret = .err ∧ (runOps fs₀ r.ops).dest = fs₀.dest ∧ (runOps fs₀ r.ops).tmp = none := by
  obtain ⟨msgs, h1, _, _, h4⟩ := C09.end_to_end_failure c hc evs e he sv n (fun _ => 1) (fun _ => Nat.le_refl 1)
  refine ⟨msgs, h1, ?_⟩
  have hp := payload_wireOfResps (Svs.responses Gen.svsFacts sv msgs n)
  rw [h4] at hp
  apply failure_leaves_dest _ _ _ _ _ htmp
  -- no `last` within any limit either
  have hlim : ∀ (w : Wire) (lim : Option Nat), payloadN none w = none → payloadN lim w = none := by
    intro w
    induction w with
    | nil => intro lim _; cases lim with
      | none => rfl
      | some k => cases k <;> rfl
    | cons r w ih =>
      intro lim h
      cases r with
      | error => cases lim with
        | none => rfl
        | some k => cases k <;> rfl
      | cut => cases lim with
        | none => rfl
        | some k => cases k <;> rfl
      | chunk b l =>
        cases l with
        | true => simp [payloadN] at h
        | false =>
          have h' : payloadN none w = none := by simpa [payloadN] using h
          cases lim with
          | none => simp [payloadN, h']
          | some k => cases k <;> simp [payloadN, ih _ h']
  unfold expected
  simp only [hlim _ _ hp]
  split <;> rfl

/-- The complete-stream composition, instantiated: a blocking `pull_to_file` of an uncompressed stream
produced by C09's model publishes exactly the bytes the producer wrote. -/
theorem c09_file_pull_publishes (c : Nat) (hc : 1 ≤ c) (evs : List Svs.Ev) (sv : Svs.Server) (n : Nat)
    (hn : (Svs.evBytes evs).length / c + 1 ≤ n) (codec : Codec) (fs₀ : FS) :
    ∃ msgs, Svs.produce Gen.svsFacts c evs .ok = some msgs ∧
      let s : Script := { openOk := true, comp := .none, beve := false, stop := none, verifyOk := true, trailer := 0,
                          renameOk := true, wire := wireOfResps (Svs.responses Gen.svsFacts sv msgs n) }
      let r := run Gen.Commit.steps .file s codec
      r.ret = .ok ∧ runOps fs₀ r.ops = { dest := some (Svs.evBytes evs), tmp := none } := by
  obtain ⟨msgs, h1, _, h3⟩ := c09_stream_is_complete_script c hc evs sv n hn .file
    { openOk := true, comp := .none, beve := false, stop := none, verifyOk := true, trailer := 0,
      renameOk := true, wire := [] } codec
  refine ⟨msgs, h1, ?_⟩
  apply success_publishes_complete
  rw [h3]
  rfl

example : ∃ msgs, Svs.produce Gen.svsFacts 2 [.write [1, 2, 3], .flush, .write [4, 5]] .ok = some msgs ∧
    payload (wireOfResps (Svs.responses Gen.svsFacts {} msgs 4)) = some [1, 2, 3, 4, 5] := ⟨_, rfl, by decide⟩
example : payload (wireOfResps (Svs.responses Gen.svsFacts {}
    ((Svs.produce Gen.svsFacts 2 [.write [1, 2, 3, 4, 5]] (.err "boom")).getD []) 6)) = none := by decide

/-! ### value-decoding pulls -/

/-- `pull_value` (sync): a returned value was completed by a prefix of the bodies actually delivered,
or was decoded at an EOF that followed a `last` chunk — never at a failed `next`. -/
theorem value_sync_error_first {V} (d : Decoder V) (w : Wire) (v : V) (h : valueSync d w = some v) :
    (∃ j, d.early (((syncPullN none w).bodies.take j).flatten) = some v) ∨
    (∃ wb, payload w = some wb ∧ d.atEof wb = some v) := by
  simp only [valueSync] at h
  cases hf : feed d [] (syncPullN none w).bodies with
  | mk r acc =>
    rw [hf] at h
    cases r with
    | some v' =>
      simp only [Option.some.injEq] at h
      subst h
      obtain ⟨j, _, hj⟩ := feed_some d [] _ _ _ hf
      exact Or.inl ⟨j, by simpa using hj⟩
    | none =>
      simp only at h
      split at h
      · rename_i hok
        right
        have hacc := feed_none d [] _ _ hf
        have hs := syncPullN_payload none w
        have hls := syncPull_ok_lastSeen w hok
        cases hp : payloadN none w with
        | none => rw [hp] at hs; simp [hok, hls] at hs
        | some wb =>
          rw [hp] at hs
          refine ⟨wb, hp, ?_⟩
          rw [← hs.2, ← h, hacc]; simp
      · cases h

/-- `run_pull`: with `pull_res?` ahead of the consumer's value (extracted fact), a value returned by an
async value pull was completed by a prefix of the delivered bodies, or decoded at the EOF of a stream
whose `last` chunk arrived — whatever the decoder does at a short EOF, whatever the schedule. -/
theorem value_pull_error_first {V} (d : Decoder V) (notice : Bool) (w : Wire) (v : V)
    (h : valueAsync Gen.Commit.pullResFirst d notice w = some v) :
    (∃ j, d.early (((asyncPull w).bodies.take j).flatten) = some v) ∨
    (∃ wb, payload w = some wb ∧ d.atEof wb = some v) := by
  rw [source_order.2.1] at h
  simp only [valueAsync] at h
  cases hf : feed d [] (asyncPull w).bodies with
  | mk r acc =>
    rw [hf] at h
    cases r with
    | some v' =>
      obtain ⟨j, _, hj⟩ := feed_some d [] _ _ _ hf
      simp only [if_true] at h
      split at h
      · simp only [Option.some.injEq] at h; subst h
        exact Or.inl ⟨j, by simpa using hj⟩
      · cases h
    | none =>
      simp only [if_true, Option.isSome_none, Bool.false_and, Bool.or_false] at h
      split at h
      · rename_i hok
        right
        have hacc := feed_none d [] _ _ hf
        rw [asyncPull_eq] at hok hacc
        have hs := syncPullN_payload none w
        have hls := syncPull_ok_lastSeen w hok
        cases hp : payloadN none w with
        | none => rw [hp] at hs; simp [hok, hls] at hs
        | some wb =>
          rw [hp] at hs
          refine ⟨wb, hp, ?_⟩
          rw [← hs.2, ← h, hacc]; simp
      · cases h

/-- `pull_to_vec` / `pull_consume` with a consumer that reads to the end (`read_to_end`: no early stop,
returns whatever arrived at EOF — the "sloppy" extreme of a decoder): blocking and async, for every
schedule, the result is exactly the whole stream, or an error — never a prefix. -/
theorem vec_pull_spec (notice : Bool) (w : Wire) :
    valueSync (⟨fun _ => none, fun acc => some acc⟩ : Decoder Bytes) w = payload w ∧
    valueAsync Gen.Commit.pullResFirst (⟨fun _ => none, fun acc => some acc⟩ : Decoder Bytes) notice w = payload w := by
  have hfeed : ∀ (bodies : List Bytes) (acc : Bytes),
      feed (⟨fun _ => none, fun acc => some acc⟩ : Decoder Bytes) acc bodies = (none, acc ++ bodies.flatten) := by
    intro bodies
    induction bodies with
    | nil => intro acc; simp [feed]
    | cons b r ih => intro acc; simp [feed, ih, List.append_assoc]
  have hs := syncPullN_payload none w
  rw [source_order.2.1]
  constructor
  · simp only [valueSync, hfeed, List.nil_append]
    cases hp : payloadN none w with
    | none =>
      rw [hp] at hs
      cases hok : (syncPullN none w).ok with
      | false => simp [payload, hp]
      | true => simp [hok, syncPull_ok_lastSeen w hok] at hs
    | some wb =>
      rw [hp] at hs
      have hok : (syncPullN none w).ok = true := by rw [hs.1]
      simp [payload, hp, hok, hs.2]
  · simp only [valueAsync, hfeed, List.nil_append, asyncPull_eq]
    cases hp : payloadN none w with
    | none =>
      rw [hp] at hs
      cases hok : (syncPullN none w).ok with
      | false => simp [payload, hp]
      | true => simp [hok, syncPull_ok_lastSeen w hok] at hs
    | some wb =>
      rw [hp] at hs
      have hok : (syncPullN none w).ok = true := by rw [hs.1]
      simp [payload, hp, hok, hs.2]

example : valueSync (⟨fun _ => none, fun acc => some acc⟩ : Decoder Bytes) (faultWire [[1, 2], [3]] 1 .cut []) = none := by decide

/-- In the property's words: the stream is truncated (no `last` chunk before the error / cut) and no
delivered prefix completes the value ⇒ the pull returns an error, sync and async. -/
theorem truncated_value_is_error {V} (d : Decoder V) (notice : Bool) (w : Wire)
    (htrunc : payload w = none) (hneed : ∀ bs, d.early bs = none) :
    valueSync d w = none ∧ valueAsync Gen.Commit.pullResFirst d notice w = none := by
  constructor
  · cases h : valueSync d w with
    | none => rfl
    | some v =>
      rcases value_sync_error_first d w v h with ⟨j, hj⟩ | ⟨wb, hw, _⟩
      · rw [hneed] at hj; cases hj
      · rw [htrunc] at hw; cases hw
  · cases h : valueAsync Gen.Commit.pullResFirst d notice w with
    | none => rfl
    | some v =>
      rcases value_pull_error_first d notice w v h with ⟨j, hj⟩ | ⟨wb, hw, _⟩
      · rw [hneed] at hj; cases hj
      · rw [htrunc] at hw; cases hw

/-! ### non-vacuity and witnesses -/

/-- identity "codec" (used where compression is `none`) and a toy one (drops a 1-byte frame header,
complete iff the header says so) -/
def idCodec : Codec := ⟨some, id⟩
def toyCodec : Codec := ⟨fun x => match x with | 1 :: r => some r | _ => none, fun x => x.drop 1⟩

def sOk : Script :=
  { openOk := true, comp := .none, beve := false, wire := [.chunk [1, 2] false, .chunk [] false, .chunk [3, 4, 5] true],
    stop := none, verifyOk := true, trailer := 2, renameOk := true }

example : expected .file sOk idCodec = some [1, 2, 3, 4, 5] := by decide
example : expected .trailerAsync sOk idCodec = some [1, 2, 3] := by decide
example : run Gen.Commit.steps .trailer sOk idCodec =
    ⟨[.create, .write [], .write [1, 2], .write [3], .flush, .sync, .close, .rename], .ok⟩ := by decide
example : expected .beve { sOk with comp := .zstd, beve := true, wire := [.chunk [1, 7] false, .chunk [8] true] } toyCodec
    = some [7, 8] := by decide
-- failing scripts of each named kind
example : expected .file { sOk with wire := faultWire [[1, 2], [3]] 1 .error [] } idCodec = none := by decide
example : run Gen.Commit.steps .file { sOk with wire := faultWire [[1, 2], [3]] 1 .cut [] } idCodec =
    ⟨[.create, .write [1, 2], .close, .remove], .err⟩ := by decide
example : run Gen.Commit.steps .fileAsync { sOk with wire := faultWire [[1, 2], [3]] 1 .cut [] } idCodec =
    ⟨[.create, .write [1, 2], .flush, .sync, .close, .remove], .err⟩ := by decide
example : run Gen.Commit.steps .verifiedAsync { sOk with verifyOk := false } idCodec =
    ⟨[.create, .write [1, 2], .write [3, 4, 5], .flush, .sync, .close, .remove], .err⟩ := by decide
example : (run Gen.Commit.steps .trailer { sOk with trailer := 6 } idCodec).ret = .err := by decide
example : run Gen.Commit.steps .file { sOk with renameOk := false } idCodec =
    ⟨[.create, .write [1, 2], .write [3, 4, 5], .flush, .sync, .close, .renameFail, .remove], .err⟩ := by decide
example : run Gen.Commit.steps .beveZst sOk idCodec = ⟨[], .err⟩ := by decide
-- a write refused after 3 bytes: the short write, then the error; nothing published, temp file removed
example : run Gen.Commit.steps .file { sOk with writeFault := some 3 } idCodec =
    ⟨[.create, .write [1, 2], .write [3], .close, .remove], .err⟩ := by decide
example : run Gen.Commit.steps .fileAsync { sOk with writeFault := some 0 } idCodec =
    ⟨[.create, .write [], .close, .remove], .err⟩ := by decide
example : expected .file { sOk with writeFault := none } idCodec = some [1, 2, 3, 4, 5] ∧ 3 < [1, 2, 3, 4, 5].length := by decide
example : expected .file { sOk with writeFault := some 5 } idCodec = some [1, 2, 3, 4, 5] := by decide
-- fsync fails after everything was written: nothing is renamed, the temp file is removed
example : run Gen.Commit.steps .file { sOk with syncOk := false } idCodec =
    ⟨[.create, .write [1, 2], .write [3, 4, 5], .flush, .sync, .close, .remove], .err⟩ := by decide
-- crash points of a successful pull over an existing destination
example : (runOps ⟨some [9], none⟩ (crash 6 (run Gen.Commit.steps .file sOk idCodec).ops)).dest = some [9] := by decide
example : (runOps ⟨some [9], none⟩ (crash 7 (run Gen.Commit.steps .file sOk idCodec).ops)).dest = some [1, 2, 3, 4, 5] := by decide

/-! hypotheses of the fault lemmas and of the value theorems are met by concrete scripts -/
def needFive : Decoder Bytes := ⟨fun acc => if acc.length ≥ 5 then some (acc.take 5) else none, fun _ => none⟩
def sloppy : Decoder Bytes := ⟨fun _ => none, fun bs => some bs⟩

example : valueSync needFive sOk.wire = some [1, 2, 3, 4, 5] := by decide
example : valueAsync Gen.Commit.pullResFirst needFive false sOk.wire = some [1, 2, 3, 4, 5] := by decide
example : valueSync sloppy sOk.wire = some [1, 2, 3, 4, 5] := by decide
-- truncated stream, decoder that would hand out a value at a short EOF: error all the same
example : payload (faultWire [[1, 2], [3]] 1 .cut []) = none ∧ ∀ bs, sloppy.early bs = none := ⟨by decide, fun _ => rfl⟩
example : valueSync sloppy (faultWire [[1, 2], [3]] 1 .error []) = none := by decide
example : valueAsync Gen.Commit.pullResFirst sloppy true (faultWire [[1, 2], [3]] 1 .error []) = none := by decide
-- all bytes of the value arrived, only `last` was replaced by an error: the sync decoder has its value
-- (first disjunct of `value_sync_error_first`), the async pull reports the pull error
example : valueSync needFive (faultWire [[1, 2], [3, 4, 5]] 2 .error []) = some [1, 2, 3, 4, 5] := by decide
example : valueAsync Gen.Commit.pullResFirst needFive false (faultWire [[1, 2], [3, 4, 5]] 2 .error []) = none := by decide
-- `verify_reject_fails`, `short_trailer_fails`, `early_stop_fails`
example : Puller.verifiedAsync.verifies = true ∧ ({ sOk with verifyOk := false } : Script).verifyOk = false := by decide
example : expected .trailer { sOk with trailer := 6 } idCodec = none := by decide
example : ∀ wb lg, payload ({ sOk with trailer := 6 } : Script).wire = some wb →
    (if ({ sOk with trailer := 6 } : Script).comp = .zstd then idCodec.dec wb else some wb) = some lg → lg.length < 6 := by
  intro wb lg h1 h2
  have : payload ({ sOk with trailer := 6 } : Script).wire = some [1, 2, 3, 4, 5] := by decide
  rw [this] at h1; cases h1
  simp [sOk] at h2; subst h2; decide
example : expected .file { sOk with stop := some 2, wire := [[1, 2], [3]].map (fun c => .chunk c false) ++ [.chunk [4] true] } idCodec
    = none := by decide

/-! ### why the extracted order matters (what the theorems would lose) -/

/-- `write_file` without the `last_seen` test publishes a short file when the fill stops early. -/
example : (runOps ⟨none, none⟩ (run { canonical with writeFile := [.create, .copy, .flush, .sync, .commit] } .file
    { sOk with stop := some 1 } idCodec).ops).dest = some [1, 2] := by decide
/-- `run_pull` returning the consumer's value before the pull result publishes a truncated file. -/
example : (runOps ⟨none, none⟩ (run { canonical with fileAsync := [.create, .copy, .flush, .sync, .commit] } .fileAsync
    { sOk with wire := faultWire [[1, 2], [3]] 1 .cut [] } idCodec).ops).dest = some [1, 2] := by decide
/-- … and hands out a value decoded at a short EOF by a sloppy decoder. -/
example : valueAsync false (⟨fun _ => none, fun bs => some bs⟩ : Decoder Bytes) false (faultWire [[1, 2], [3]] 1 .cut [])
    = some [1, 2] := by decide
example : valueAsync true (⟨fun _ => none, fun bs => some bs⟩ : Decoder Bytes) false (faultWire [[1, 2], [3]] 1 .cut [])
    = none := by decide
/-- committing before verifying publishes rejected content. -/
example : (runOps ⟨none, none⟩ (run { canonical with verifiedAsync := [.create, .copy, .flush, .sync, .pullRes, .commit, .verify] }
    .verifiedAsync { sOk with verifyOk := false } idCodec).ops).dest = some [1, 2, 3, 4, 5] := by decide
/-- a rename before the fsync is not a word of the protocol the traces are checked against. -/
example : protoOk [.openTmp, .writeTmp 3, .closeTmp, .renameTD, .fsyncTmp] = false := by decide
example : protoOk [.openTmp, .writeTmp 3, .fsyncTmp, .writeTmp 1, .closeTmp, .renameTD] = false := by decide
example : protoOk [.openTmp, .touchDest, .writeTmp 3, .fsyncTmp, .closeTmp, .renameTD] = false := by decide
example : protoOk [.openTmp, .writeTmp 3, .fsyncTmp, .closeTmp, .renameTD] = true := by decide

end Repe.C10
