import RepeVerif.Lemmas.Transfer
import RepeVerif.Lemmas.TransferCondvar
import RepeVerif.Gen.Transfer
/-!
# C11 — Flow-control accounting never over-grants credit

> For every history of sends, acknowledgements, file advances, resumes and cancels, the acknowledged
> offset never exceeds the sent offset, acknowledgements for another file or at or below the current
> acknowledged offset never release credit, and credit for a chunk is granted only if nothing is in
> flight or the in-flight bytes plus the chunk fit the window, so a producer following the documented
> loop never has more than one window (or one oversized chunk) unacknowledged. Cancellation is
> permanent and its first reason wins: every pending or later credit or reconnect wait reports it, and
> a resume is refused.

Model: `Repe.Transfer.step` (Model/Transfer.lean) — one atomic step per public method of
`TransferControl` (each runs under the one mutex), so "every history" = every `List Op`, of any
length, over all naturals (hence all 64-bit values). The forms of the credit predicate and of the ack
cap are `Gen.transferFacts`, re-extracted from src/stream.rs on every run.  `+` in the statements is
addition in ℕ (no wrap-around).  All theorems hold for both build profiles (`m`).

clause → theorem
* facts the proofs rest on (re-checked by `decide`) ........... `ack_cap_fact`, `ack_file_fact`, `credit_add_fact`, `credit_checked_fact`,
  `resume_cap_fact`, `reconnect_cancel_first_fact`, `advance_keeps_cancel_fact`, `cancel_first_wins_fact`
* acked ≤ sent after every history .......................... `acked_le_sent`
* foreign-file or stale ack changes nothing ................. `foreign_or_stale_ack_inert`
* credit granted ⇒ nothing in flight ∨ in-flight + len ≤ window `credit_sound_all` (general form `credit_sound`; never a panic: `credit_never_panics`; converse: `credit_granted_iff`)
* documented loop ⇒ in flight ≤ max window lastChunk ........ `loop_bound_all` (general forms `loop_bound`, `loop_bound_prefix`)
* cancel permanent, first reason wins ....................... `cancel_sticky_first_reason`, `cancel_records_first`
  (for every reason value, the empty string included: reasons are opaque, `reasons_opaque`, `edge_reasons_distinct`)
* every later wait reports it; resume refused ............... `waits_report_cancel`, `resume_refused_after_cancel`
* the release profile never poisons the mutex ............... `release_never_poisons`
* the idle watchdog only ever cancels; first reason wins against it; what refreshes its time stamps
  ........................................................... `watchdog_only_cancels`, `watchdog_keeps_first_reason`, `watchdog_inputs`
* composition with C12: same effect of every signalling method and same wait pass in both models; C12's
  wake obligation read on the full model ...................... `refines_condvar_op`, `refines_condvar_wait`, `wake_obligation_on_full_model`
* concurrent callers: every method is one lock region, so every interleaving of calls is a sequential
  history and all of the above applies to it ................. `single_section_ops`
-/
namespace Repe.C11
open Repe Repe.Transfer

abbrev F : Facts := Gen.transferFacts

/-! ### facts read off the current source -/

/-- `record_ack` caps the acknowledged offset with `.min(sent_offset)`. -/
theorem ack_cap_fact : F.ackCap = true := by decide
/-- `record_ack` only accepts the current file index. -/
theorem ack_file_fact : F.ackFileTest = true := by decide
/-- `in_flight + chunk_len` is not a bare `+` (which wraps in release builds and panics under the mutex
in dev builds): it is a checked or a saturating add. -/
theorem credit_add_fact : F.creditAdd ≠ .unchecked := by decide
/-- … in fact a checked add (`checked_add` with `None` read as "does not fit"): the sum is exact for every
window, including `u64::MAX`, where a saturating add would over-grant. -/
theorem credit_checked_fact : F.creditAdd = .checked := by decide
/-- `request_resume`'s implicit ACK is capped: `&& last_received_offset <= sent_offset`. -/
theorem resume_cap_fact : F.resumeCap = true := by decide
/-- `wait_for_reconnect` looks at `cancelled` before it takes the pending resume. -/
theorem reconnect_cancel_first_fact : F.reconnCancelFirst = true := by decide
/-- `advance_to_file` does not touch `cancelled`. -/
theorem advance_keeps_cancel_fact : F.advanceKeepsCancel = true := by decide
/-- `cancel` stores its reason only under `if guard.cancelled.is_none()` — not under a test that looks at the
stored string (a blank one, say), and not unconditionally. -/
theorem cancel_first_wins_fact : F.cancelFirstWins = true := by decide

/-- The credit sum is exact: a checked add always, a saturating add unless the window is `u64::MAX`. -/
theorem credit_exact (w : Nat) (hw : F.creditAdd = .checked ∨ w + 1 < U64) : CreditExact F w := by
  rcases hw with h | h
  · exact Or.inl h
  · cases hf : F.creditAdd with
    | unchecked => exact absurd hf credit_add_fact
    | checked => exact Or.inl rfl
    | saturating => exact Or.inr ⟨hf, h⟩

/-! ### accounting -/

/-- The acknowledged offset never exceeds the sent offset, after any history from any state in which it holds
(in particular from a fresh control). -/
theorem acked_le_sent (m : OvMode) (s : State) (h : s.acked ≤ s.sent) (ops : List Op) :
    (run F m s ops).acked ≤ (run F m s ops).sent :=
  run_inv (fun s => s.acked ≤ s.sent) (fun s op h => step_acked_le_sent ack_cap_fact resume_cap_fact s op h) ops s h

theorem acked_le_sent_fresh (m : OvMode) (window capacity : Nat) (ops : List Op) :
    (run F m (init window capacity) ops).acked ≤ (run F m (init window capacity) ops).sent :=
  acked_le_sent m _ (Nat.le_refl 0) ops

/-- An acknowledgement for another file, or at or below the acknowledged offset, changes nothing at all
(in particular it releases no credit). Timestamps are not modelled. -/
theorem foreign_or_stale_ack_inert (m : OvMode) (s : State) (file off : Nat)
    (h : file ≠ s.file ∨ off ≤ s.acked) : (step F m s (.recordAck file off)).1 = s :=
  ack_inert ack_file_fact s file off h

example : (3 : Nat) ≠ (init 8 8).file ∨ 0 ≤ (init 8 8).acked := by decide

/-- Credit is granted only if the transfer is not cancelled and nothing is in flight or in-flight plus the
chunk fits the window — for every state, every chunk length and both profiles. (With a saturating add the
window must not be `u64::MAX`; with a checked add there is no condition.) -/
theorem credit_sound (m : OvMode) (s : State) (len : Nat) (hw : F.creditAdd = .checked ∨ s.window + 1 < U64)
    (h : (step F m s (.waitCredit len)).2 = .creditOk) :
    s.cancelled = none ∧ (inFlight s = 0 ∨ inFlight s + len ≤ s.window) :=
  (waitCredit_ok ((credit_exact _ hw).addExact _ _) h).2

/-- The property's clause at full strength, no side condition: with the checked add the source has, credit is
granted only if nothing is in flight or in-flight plus the chunk fits the window — every state (every 64-bit
`sent`, `acked`, `window`), every chunk length, both profiles. -/
theorem credit_sound_all (m : OvMode) (s : State) (len : Nat)
    (h : (step F m s (.waitCredit len)).2 = .creditOk) :
    s.cancelled = none ∧ (inFlight s = 0 ∨ inFlight s + len ≤ s.window) :=
  credit_sound m s len (Or.inl credit_checked_fact) h

example : (step F .checks { window := 8, capacity := 0, sent := 4, acked := 1 } (.waitCredit 4)).2 = .creditOk := by decide
example : (step F .wraps { window := 8, capacity := 0, sent := 4, acked := 1 } (.waitCredit 6)).2 = .creditTimeout := by decide

/-- The credit wait never panics (so never poisons the mutex) and never changes the state. -/
theorem credit_never_panics (m : OvMode) (s : State) (len : Nat) (hp : s.poisoned = false) :
    (step F m s (.waitCredit len)).1 = s ∧ (step F m s (.waitCredit len)).2 ≠ .panic :=
  waitCredit_no_panic (Or.inl credit_add_fact) hp

/-- (Converse, beyond the property.) While the predicate keeps today's shape — the oversized-chunk clause
`in_flight == 0 ||` and `<=` — a wait with an expired deadline grants exactly when the predicate holds.
The shape is a hypothesis, not a checked fact: a stricter predicate (`<`, no zero clause) still satisfies
C11 and must not break this file. -/
theorem credit_granted_iff (hz : F.creditZero = true) (hle : F.creditLe = true)
    (m : OvMode) (s : State) (len : Nat) (hw : s.window < U64)
    (hx : F.creditAdd = .checked ∨ s.window + 1 < U64) (hp : s.poisoned = false) (hc : s.cancelled = none) :
    (step F m s (.waitCredit len)).2 = .creditOk ↔ (inFlight s = 0 ∨ inFlight s + len ≤ s.window) :=
  waitCredit_iff hz hle ((credit_exact _ hx).addExact _ _) hw hp hc

/-! ### the documented producer loop

`Follows F m s g ops`: in `ops` (producer and inbound handlers interleaved in any way) every
`record_sent x` happens while the producer holds a credit for `len` granted by `wait_for_credit` and has
`x = sent + len`, and `advance_to_file` happens only between chunks. Everything else — acks (also hostile
ones), resumes, cancels, reconnect waits, pushes — is unconstrained. -/

/-- A producer following the documented loop never has more than one window, or one oversized chunk,
unacknowledged. -/
theorem loop_bound (m : OvMode) (window capacity : Nat) (hw : F.creditAdd = .checked ∨ window + 1 < U64)
    (ops : List Op) (hf : Follows F m (init window capacity) {} ops) :
    inFlight (run F m (init window capacity) ops) ≤
      max window (runGhost F m (init window capacity) {} ops).lastLen := by
  have h := loop_run (f := F) (m := m) ops (init window capacity) {} (credit_exact _ hw)
    (by simp [LoopInv, init, inFlight]) hf
  have hb := h.1.bound
  rw [h.2] at hb
  exact hb

/-- The same without a side condition on the window (checked add). -/
theorem loop_bound_all (m : OvMode) (window capacity : Nat) (a b : List Op)
    (hf : Follows F m (init window capacity) {} (a ++ b)) :
    inFlight (run F m (init window capacity) a) ≤
      max window (runGhost F m (init window capacity) {} a).lastLen :=
  loop_bound m window capacity (Or.inl credit_checked_fact) a (Follows.prefix a b _ _ hf)

/-- … at every point of such a history, not only at its end. -/
theorem loop_bound_prefix (m : OvMode) (window capacity : Nat) (hw : F.creditAdd = .checked ∨ window + 1 < U64)
    (a b : List Op) (hf : Follows F m (init window capacity) {} (a ++ b)) :
    inFlight (run F m (init window capacity) a) ≤
      max window (runGhost F m (init window capacity) {} a).lastLen :=
  loop_bound m window capacity hw a (Follows.prefix a b _ _ hf)

/-- non-vacuity: window 4; chunk of 3 granted and sent; a second chunk of 3 is refused until an ack arrives;
a hostile ack for another file in between changes nothing. -/
example : Follows F .checks (init 4 0) {}
    [.waitCredit 3, .recordSent 3, .waitCredit 3, .recordAck 7 3, .recordAck 0 3, .waitCredit 3, .recordSent 6] := by
  decide

/-! ### cancellation -/

/-- Once cancelled with reason `r`, the transfer stays cancelled with reason `r` after any history:
permanent, first reason wins. -/
theorem cancel_sticky_first_reason (m : OvMode) (s : State) (r : Nat) (h : s.cancelled = some r) (ops : List Op) :
    (run F m s ops).cancelled = some r :=
  run_inv (fun s => s.cancelled = some r) (fun s op h => step_cancel_sticky advance_keeps_cancel_fact cancel_first_wins_fact s op r h) ops s h

/-- The first `cancel` records its reason. -/
theorem cancel_records_first (m : OvMode) (s : State) (r : Nat) (hp : s.poisoned = false) (h : s.cancelled = none) :
    (step F m s (.cancel r)).1.cancelled = some r := by
  simp [step, hp, h]

/-- After a cancel with reason `r` and any further history, a credit wait and a reconnect wait report
`Cancelled(r)` (and leave the state alone). -/
theorem waits_report_cancel (m : OvMode) (s : State) (r : Nat) (h : s.cancelled = some r) (ops : List Op)
    (hp : (run F m s ops).poisoned = false) :
    (∀ len, step F m (run F m s ops) (.waitCredit len) = (run F m s ops, .creditCancelled r)) ∧
    step F m (run F m s ops) .waitReconnect = (run F m s ops, .reconnCancelled r) :=
  let hc := cancelled_waits (f := F) (m := m) reconnect_cancel_first_fact _ r hp (cancel_sticky_first_reason m s r h ops)
  ⟨hc.1, hc.2.1⟩

/-- … and a resume request is refused without touching peer, pending resume or offsets. -/
theorem resume_refused_after_cancel (m : OvMode) (s : State) (r : Nat) (h : s.cancelled = some r) (ops : List Op)
    (hp : (run F m s ops).poisoned = false) (p file off : Nat) :
    step F m (run F m s ops) (.requestResume p file off) = (run F m s ops, .resumeCancelled) :=
  (cancelled_waits (f := F) (m := m) reconnect_cancel_first_fact _ r hp (cancel_sticky_first_reason m s r h ops)).2.2 p file off

example : ((step F .checks (init 4 4) (.cancel 5)).1).cancelled = some 5 ∧
    (run F .checks (step F .checks (init 4 4) (.cancel 5)).1 [.cancel 6, .advance 1, .recordAck 1 0]).poisoned = false := by
  decide

/-- Reasons are opaque: `r` above ranges over every reason value — the empty string, blanks, a 64 KiB string,
non-ASCII text are values like any other (`Model/Transfer.lean`, `edgeReasons`) —, and the model cannot tell
them apart: renaming the reasons of a history by any `ρ` renames the stored reason and the reported ones and
changes nothing else. So no reason is a "placeholder" that a later one may replace. -/
theorem reasons_opaque (m : OvMode) (ρ : Nat → Nat) (s : State) (ops : List Op) :
    run F m (renameS ρ s) (ops.map (renameOp ρ)) = renameS ρ (run F m s ops) ∧
    ∀ op, step F m (renameS ρ s) (renameOp ρ op) = (renameS ρ (step F m s op).1, renameRet ρ (step F m s op).2) :=
  ⟨run_rename F m ρ s ops, step_rename F m ρ s⟩

/-- The harness's edge reasons are pairwise distinct tokens, distinct from the small tokens `r0`–`r9`. -/
theorem edge_reasons_distinct : (edgeReasons ++ List.range 10).Nodup := by decide

/-- A blank first reason wins like any other: against a later stated reason, against the watchdog's, and the
waits keep reporting it. -/
example : (run F .checks (init 8 8) [.cancel emptyReason, .waitCredit 3, .cancel idleReason, .cancel 3]).cancelled
      = some emptyReason ∧
    (step F .checks (run F .checks (init 8 8) [.cancel emptyReason, .cancel idleReason]) (.waitCredit 3)).2
      = .creditCancelled emptyReason ∧
    (step F .checks (run F .checks (init 8 8) [.cancel blankReason, .cancel emptyReason]) .waitReconnect).2
      = .reconnCancelled blankReason := by decide

/-- In the release profile (no overflow checks, no debug assertions) no method panics, so the mutex is
never poisoned, whatever the history. -/
theorem release_never_poisons (s : State) (hp : s.poisoned = false) (ops : List Op) :
    (run F .wraps s ops).poisoned = false :=
  run_inv (fun s => s.poisoned = false) (fun s op h => step_wraps_not_poisoned F s op h) ops s hp

/-! ### concurrent callers

The producer thread and the inbound ack / cancel / resume handlers call the methods concurrently. Every method
body acquires the one mutex exactly once (`Gen.transferLockCalls`, re-extracted from the source on every run:
one `self.inner.lock()` per body, the state is reachable only through that guard), so a concurrent execution
is an interleaving of whole calls — some merge `m` of the threads' call sequences — and each history theorem
above, being about *every* history, applies to `m`. A method split into two lock regions (validate, unlock,
act) would make the count 2 and this theorem fail: between the regions another thread's cancel or advance
can complete, and no sequential history describes the result. (The two waits release the mutex only while
parked on the condvar; with an expired deadline they do not park. Parking is C12.) -/
theorem single_section_ops :
    singleSection Gen.transferLockCalls = true ∧
    ∀ (m' : OvMode) (window capacity : Nat) (ts : List (List Op)) (m : List Op), Merge ts m →
      (run F m' (init window capacity) m).acked ≤ (run F m' (init window capacity) m).sent ∧
      (∀ r pre post, m = pre ++ post → (run F m' (init window capacity) pre).cancelled = some r →
        (run F m' (init window capacity) m).cancelled = some r ∧
        ((run F m' (init window capacity) m).poisoned = false → ∀ p file off,
          (step F m' (run F m' (init window capacity) m) (.requestResume p file off)).2 = .resumeCancelled)) := by
  refine ⟨by decide, ?_⟩
  intro m' window capacity ts m _
  refine ⟨acked_le_sent_fresh m' window capacity m, ?_⟩
  intro r pre post hm hc
  subst hm
  rw [run_append]
  refine ⟨cancel_sticky_first_reason m' _ r hc post, ?_⟩
  intro hp p file off
  have := resume_refused_after_cancel m' _ r hc post hp p file off
  rw [this]

example : Merge [[.requestResume 7 0 1], [.cancel 0, .recordAck 0 1]] [.cancel 0, .requestResume 7 0 1, .recordAck 0 1] :=
  .pick _ 1 _ _ _ rfl (.pick _ 0 _ _ _ rfl (.pick _ 1 _ _ _ rfl (.done _ (by simp))))

/-! ### the idle watchdog

`spawn_watchdog` scans the registry's snapshot every tick; per transfer it reads `is_cancelled()`, the time
stamps, and calls `cancel("transfer idle")` if the transfer looks idle. Time is the environment's boolean. -/

/-- The only methods `watchdog_loop` calls on a transfer are `is_cancelled`, `timestamps` and `cancel`
(re-extracted): `watchdogVisit` is what it can contribute to a history. -/
theorem watchdog_calls_fact : Gen.watchdogOnlyCancels = true := by decide

/-- A watchdog visit only ever cancels: every other field of the transfer is untouched, and it can only fill
an *empty* cancel slot. -/
theorem watchdog_only_cancels (m : OvMode) (s : State) (sawCancelled idle : Bool) :
    run F m s (watchdogVisit sawCancelled idle) = s ∨
    (s.cancelled = none ∧ run F m s (watchdogVisit sawCancelled idle) = { s with cancelled := some idleReason }) :=
  watchdog_visit_effect cancel_first_wins_fact s sawCancelled idle

/-- First reason wins against the watchdog too, in every interleaving: if the transfer was cancelled with `r`
at some point, then after any further history — other callers and any number of watchdog visits, whatever they
saw (even a stale "not cancelled") and whatever the clock says — the reason is still `r`; and a transfer the
watchdog cancelled stays cancelled with the idle reason. -/
theorem watchdog_keeps_first_reason (m : OvMode) (s : State) (r : Nat) (h : s.cancelled = some r)
    (visits : List (Bool × Bool)) (others : List Op) (hist : List Op)
    (_hm : Merge [others, (visits.map fun v => watchdogVisit v.1 v.2).flatten] hist) :
    (run F m s hist).cancelled = some r :=
  cancel_sticky_first_reason m s r h hist

example : (run F .checks (init 8 8) (watchdogVisit false true)).cancelled = some idleReason ∧
    (run F .checks (run F .checks (init 8 8) [.cancel 3]) (watchdogVisit false true)).cancelled = some 3 := by decide

/-- What feeds the watchdog: `record_sent` refreshes the chunk stamp, `record_ack` the ack stamp — even when
the ack is for another file or stale and changes nothing else —, `advance_to_file` and an accepted resume both. -/
theorem watchdog_inputs (m : OvMode) (s : State) (file off : Nat) (h : file ≠ s.file ∨ off ≤ s.acked) :
    (step F m s (.recordAck file off)).1 = s ∧
    (s.poisoned = false → stampEffect (.recordAck file off) (step F m s (.recordAck file off)).2 = (false, true)) := by
  refine ⟨foreign_or_stale_ack_inert m s file off h, ?_⟩
  intro hp
  have : (step F m s (.recordAck file off)).2 = .unit := by
    simp only [step, hp, if_false, Bool.false_eq_true]
    repeat' split
    all_goals rfl
  rw [this]; rfl

/-! ### composition with C12 (the condvar protocol)

C12's model (`Repe.Condvar`, Model/Condvar.lean) keeps its own, smaller copy of the shared state. `absSh`
forgets what C12 does not look at (ring bodies, byte budget, peer, poisoning). The three theorems below say
that the two models are models of the same object: every signalling method has the same effect on
`sent / acked / file / cancelled / pending resume / chunk boundaries`, one pass through either wait loop
returns the same value, and therefore C12's wake-up obligation — proved in `Lemmas/Condvar.lean` for every
adequate notify table and instantiated by `C12.wake_obligation` with the extracted table — can be read on
the states and steps the history theorems above are about. -/

/-- All forms the refinement needs are the ones the source has. -/
theorem std_forms_fact : F.Std := by decide

/-- **Refinement, signalling methods.** (The push must be one the `debug_assert!` accepts and must not evict:
C12's model has no eviction.) -/
theorem refines_condvar_op (m : OvMode) (t : Condvar.NotifyTable) (s : State) (cop : Condvar.Op)
    (p : Nat) (last : Bool) (body : Bytes) (hp : s.poisoned = false)
    (hedge : ∀ c, s.chunks.getLast? = some c → c.offset + c.dataLen < U64) (hpush : PushFits F m s cop) :
    absSh (step F m s (ofCondvarOp p last body cop)).1 = (Condvar.applyOp t cop (absSh s)).1 :=
  (sim_op std_forms_fact m t s cop p last body hp hedge hpush).1

/-- **Refinement, waits.** One pass of `wait_for_credit` / `wait_for_reconnect` with the deadline reached. -/
theorem refines_condvar_wait (m : OvMode) (s : State) (k : Condvar.Kind) (hp : s.poisoned = false)
    (hw : s.window < U64) :
    ∃ r, toCondvarRet (step F m s (waitOp k)).2 = some r ∧
      Condvar.runBody k true Condvar.stdLoop (absSh s) = some (absSh (step F m s (waitOp k)).1, .returned r) :=
  let ⟨r, h1, h2, _⟩ := sim_wait std_forms_fact m s k hp hw
  ⟨r, h1, h2⟩

/-- **C12's no-lost-wake-up obligation on the full model.** If a wait on state `s` would time out and after
a signalling call it would not, then that call reaches `notify_all()` — for every notify table adequate in
C12's sense (`C12.source_facts` shows the extracted one is). Proof: the refinement above plus
`Condvar.wake_obligation_generic`, the lemma behind `C12.wake_obligation`. -/
theorem wake_obligation_on_full_model (t : Condvar.NotifyTable) (ht : t.adequate = true) (m : OvMode) (s : State)
    (cop : Condvar.Op) (p : Nat) (last : Bool) (body : Bytes) (k : Condvar.Kind) (hp : s.poisoned = false)
    (hw : s.window < U64)
    (hedge : ∀ c, s.chunks.getLast? = some c → c.offset + c.dataLen < U64) (hpush : PushFits F m s cop)
    (h0 : toCondvarRet (step F m s (waitOp k)).2 = some .timeout)
    (h1 : toCondvarRet (step F m (step F m s (ofCondvarOp p last body cop)).1 (waitOp k)).2 ≠ some .timeout) :
    (Condvar.applyOp t cop (absSh s)).2 = true := by
  obtain ⟨hsim, hp'⟩ := sim_op std_forms_fact m t s cop p last body hp hedge hpush
  have hw' : (step F m s (ofCondvarOp p last body cop)).1.window < U64 := by rw [step_window]; exact hw
  have hpre : Condvar.pred k (absSh s) = false := by
    cases hpr : Condvar.pred k (absSh s) with
    | false => rfl
    | true => exact absurd h0 ((pred_iff_not_timeout std_forms_fact m s k hp hw).mp hpr)
  have hpost := (pred_iff_not_timeout std_forms_fact m _ k hp' hw').mpr h1
  rw [hsim] at hpost
  exact Condvar.wake_obligation_generic t ht k cop (absSh s) hpre hpost

-- non-vacuity: window 8, 8 bytes in flight; a credit wait for 4 times out, after `record_ack(0, 4)` it is granted
example :
    toCondvarRet (step F .checks { window := 8, capacity := 8, sent := 8 } (waitOp (.credit 4))).2 = some .timeout ∧
    toCondvarRet (step F .checks (step F .checks { window := 8, capacity := 8, sent := 8 }
      (ofCondvarOp 1 false [] (.ack 0 4))).1 (waitOp (.credit 4))).2 = some .ok := by decide

/-! ### Why the sum must not be a bare `+` (finding F3 of DESIGN.md §9)

`record_sent(u64::MAX)` then `wait_for_credit(1, …)` with window 8: the unchecked sum wraps to 0 ≤ 8 in a
release build (credit granted with 2^64−1 bytes in flight) and panics under the mutex in a dev build. -/
def f3Facts : Facts := { F with creditAdd := .unchecked }
def f3State : State := { window := 8, capacity := 8, sent := 2 ^ 64 - 1 }

example : (step f3Facts .wraps f3State (.waitCredit 1)).2 = .creditOk := by decide
example : step f3Facts .checks f3State (.waitCredit 1) = ({ f3State with poisoned := true }, .panic) := by decide
example : (step { F with creditAdd := .checked } .wraps f3State (.waitCredit 1)).2 = .creditTimeout := by decide

/-- The extractor saw none of the source shapes it knows to be dangerous for this property (a third disjunct in
the grant condition, a wrapping sum, an `abs_diff` in-flight, a file gate other than `==`, a `record_sent` that is
not a high-water mark, an eviction that is an `if` or subtracts the wrong length, a `covers` / `replay_from`
comparison other than the documented one, a pending resume that is read without being taken, …:
`extract/transfer.py`, `suspicious_forms`). Such a shape makes this theorem fail; it never makes the check
fall back to the committed default facts silently. -/
theorem no_suspicious_forms : Gen.transferSuspicious = [] := by decide

end Repe.C11
