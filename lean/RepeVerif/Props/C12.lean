import RepeVerif.Lemmas.Condvar
import RepeVerif.Gen.Wake
import RepeVerif.Model.Transfer
import RepeVerif.Gen.Transfer
/-!
# C12 — A parked producer is always woken by the event it waits for

> A producer blocked waiting for credit returns as soon as a sufficient acknowledgement, a cancel, a
> file advance or a credit-freeing resume occurs, and a producer blocked waiting for reconnect
> returns as soon as a resume or cancel occurs, under every interleaving of the waiting and
> signalling threads; it never sleeps on until its deadline because a wake-up was missed. A wait
> whose condition never becomes true returns a timeout at its deadline, not earlier and not never.

Model: `Model/Condvar.lean` — one mutex, one condition variable, one waiter running
`wait_for_credit len` (`Kind.credit len`) or `wait_for_reconnect` (`Kind.reconnect`), any number of
signalling threads (an interleaving is an arbitrary list of events `Ev`; each signalling method is one
atomic step because its whole body runs under the mutex).  Everything below is about the model
instantiated with `Gen.Wake.cfg`: the table "which method reaches `notify_all()` inside which `if`s"
and the order of the tests in the two wait loops, re-extracted from src/stream.rs on every run.

clause → theorem
* the extracted facts are the ones the proofs need (notify table,
  loop order, check-and-park in one critical section) ............. `C12.source_facts`
* every branch that makes a wait condition true notifies
  (ack, cancel, advance, resume; for both waits; ALL states) ...... `C12.wake_obligation`
* the same for ANY number of waiters of mixed kinds (needs the
  extra fact "every notification is notify_all") .................. `C12.source_facts_n`,
  `C12.multi_parked_implies_not_pred`, `C12.multi_enabling_op_wakes_all`, `C12.multi_mutex_exclusive`
* composition with the C11/C13 model (`Model/Transfer.lean`): its
  `step` refines `applyOp` (interface `Refines`), so the obligation
  holds for its calls ............................................. `C12.transfer_sim`, `C12.transfer_wake_obligation`,
                                                                     `C12.Refines.wake_obligation`
* a parked waiter is woken by the very call that makes its
  condition true .................................................. `C12.enabling_op_wakes`
* never parked while the condition holds, every interleaving ..... `C12.parked_implies_not_pred`
  (+ whoever is parked was put there by a check that saw it false)  `C12.mutex_consistent`
* returns as soon as …: once the condition holds the waiter does
  not park again and its next pass returns the matching value ..... `C12.no_repark`, `C12.progress`,
                                                                     `C12.progress_maximal`
* the value returned is the matching one, at a state where the
  condition held ................................................... `C12.return_sound`
* timeout not earlier: only from a check that saw `expired` with
  the condition false ............................................. `C12.timeout_exact`
* timeout not never: condition false and deadline passed ⇒ the
  waiter's own steps return `timeout`; while the condition stays
  false nothing else can be returned .............................. `C12.timeout_reached`, `C12.only_timeout_while_false`

Time is the environment's boolean answer to `now >= deadline` at each check (DESIGN §5); that a real
timeout is not returned before the real deadline is what the correspondence family `wake` measures.
Values are naturals: the model's one add (`in_flight + chunk_len`) is exact while it stays below 2^64.
Not proved: `std::sync::{Mutex, Condvar}` themselves (the event semantics above is their contract),
scheduler fairness (a woken thread eventually runs), more than one waiter.
-/
namespace Repe.C12
open Repe.Condvar

abbrev cfg : Cfg := Gen.Wake.cfg

/-- The facts read off the current source: `record_ack`, `cancel`, `advance_to_file` and
`request_resume` reach `notify_all()` under no more than the guards that coincide with their state
change, both wait loops test cancel, then the condition, then the deadline, then park, and both hold
the mutex without a gap from those tests to `wait_timeout` (check-and-park is one critical section),
and both re-read the monotonic clock on every pass for the deadline test (`expired` in the model is that
test's answer; a form that is not re-derived from the clock each pass is modelled as never firing). -/
theorem source_facts : cfg.Good := by decide

/-- **No lost wake-up, per branch.** For every state, every method call and both waits: if the call
turns the wait condition from false to true, that call reaches `notify_all()`. -/
theorem wake_obligation (k : Kind) (op : Op) (s : Sh)
    (h0 : pred k s = false) (h1 : pred k (applyOp cfg.tbl op s).1 = true) :
    (applyOp cfg.tbl op s).2 = true :=
  wake_obligation_generic cfg.tbl source_facts.tbl k op s h0 h1

-- non-vacuity: a sufficient ack, a cancel, an advance, a credit-freeing resume; a resume for reconnect
example : pred (.credit 4) ⟨8, 8, 0, 0, none, none, []⟩ = false ∧
    pred (.credit 4) (applyOp cfg.tbl (.ack 0 4) ⟨8, 8, 0, 0, none, none, []⟩).1 = true := by decide
example : pred (.credit 4) (applyOp cfg.tbl (.cancel 7) ⟨8, 8, 0, 0, none, none, []⟩).1 = true := by decide
example : pred (.credit 4) (applyOp cfg.tbl (.advance 1) ⟨8, 8, 0, 0, none, none, []⟩).1 = true := by decide
example : pred (.credit 4) (applyOp cfg.tbl (.resume 0 4) ⟨8, 8, 0, 0, none, none, [(0, 4), (4, 4)]⟩).1 = true := by
  decide
example : pred .reconnect ⟨8, 8, 0, 0, none, none, []⟩ = false ∧
    pred .reconnect (applyOp cfg.tbl (.resume 0 0) ⟨8, 8, 0, 0, none, none, []⟩).1 = true := by decide
-- and the obligation is not trivially met: an insufficient ack notifies too, a foreign one does not
example : (applyOp cfg.tbl (.ack 0 1) ⟨8, 8, 0, 0, none, none, []⟩).2 = true ∧
    (applyOp cfg.tbl (.ack 1 4) ⟨8, 8, 0, 0, none, none, []⟩).2 = false ∧
    (applyOp cfg.tbl (.sent 9) ⟨8, 8, 0, 0, none, none, []⟩).2 = false := by decide

/-- **Safety, every interleaving.** From any initial shared state, after any sequence of events (any
number of signalling threads, any order, spurious wake-ups, any answers to the deadline test), the
waiter is not parked while its condition holds. -/
theorem parked_implies_not_pred (k : Kind) (s0 : Sh) (evs : List Ev) :
    (run cfg k (St.init s0) evs).pc = .parked → pred k (run cfg k (St.init s0) evs).sh = false :=
  (NoLost.run source_facts evs (NoLost.init k s0)).parked

/-- The mutex is held by the waiter exactly while it is inside the loop body. -/
theorem mutex_consistent (k : Kind) (s0 : Sh) (evs : List Ev) :
    (run cfg k (St.init s0) evs).locked = true ↔ (run cfg k (St.init s0) evs).pc = .checking :=
  (NoLost.run source_facts evs (NoLost.init k s0)).mutex

/-- **The event it waits for wakes it.** In every reachable state in which the waiter is parked, a
method call after which the wait condition holds moves the waiter out of the wait (`woken`), in the
same atomic step. -/
theorem enabling_op_wakes (k : Kind) (s0 : Sh) (pre : List Ev) (o : Op)
    (hpk : (run cfg k (St.init s0) pre).pc = .parked)
    (h1 : pred k (applyOp cfg.tbl o (run cfg k (St.init s0) pre).sh).1 = true) :
    (step cfg k (run cfg k (St.init s0) pre) (.op o)).pc = .woken := by
  have hinv := NoLost.run source_facts pre (NoLost.init k s0)
  generalize run cfg k (St.init s0) pre = st at *
  have hl : st.locked = false := by
    cases hlk : st.locked with
    | false => rfl
    | true => have := hinv.mutex.mp hlk; simp [hpk] at this
  have hn := wake_obligation k o st.sh (hinv.parked hpk) h1
  simp [step, hl, hpk, hn]

-- non-vacuity: the waiter does park (window full), is woken by an ack and returns
example : (run cfg (.credit 4) (St.init ⟨8, 8, 0, 0, none, none, []⟩) [.lock, .check false]).pc = .parked := by decide
example : (run cfg (.credit 4) (St.init ⟨8, 8, 0, 0, none, none, []⟩)
    [.lock, .check false, .op (.ack 0 4), .lock, .check false]).pc = .returned .ok := by decide

/-- Reachable states (any history `pre`) in which the condition holds and the waiter has not returned. -/
def Ready (k : Kind) (st : St) : Prop :=
  (∃ s0 pre, st = run cfg k (St.init s0) pre) ∧ pred k st.sh = true ∧ st.pc.isReturned = false

private theorem Ready.bound {k : Kind} {st : St} (h : Ready k st) : Bound k (expected k st.sh) st.sh st := by
  obtain ⟨⟨s0, pre, rfl⟩, hp, hnr⟩ := h
  exact Bound.of_noLost (NoLost.run source_facts pre (NoLost.init k s0)) hp hnr

/-- **No re-park.** Once the condition holds and no further method runs, whatever the waiter does
(and whatever spurious wake-ups occur) it is never parked again. -/
theorem no_repark (k : Kind) (st : St) (h : Ready k st) (evs : List Ev)
    (hw : ∀ e ∈ evs, e.isWaiter = true) : (run cfg k st evs).pc ≠ .parked := by
  rcases h.bound.run source_facts evs hw with hb | ⟨hpc, _⟩
  · simp [hb]
  · rcases hpc with h1 | h1 | h1 <;> simp [h1]

/-- **Progress.** In such a state the waiter's next two steps — take the mutex (a no-op if it holds
it), one pass through the loop body — return the matching value, whatever the deadline test says. -/
theorem progress (k : Kind) (st : St) (h : Ready k st) (e : Bool) :
    (run cfg k st [.lock, .check e]).pc = .returned (expected k st.sh) := by
  have hb := h.bound
  rcases hb with hb | ⟨hpc, hp, _, _, hm⟩
  · have := h.2.2; simp [hb, PC.isReturned] at this
  · obtain ⟨s', hs', _⟩ := runBody_std_true k e st.sh hp
    have hl := source_facts.loopOf k
    have hck := source_facts.clockOf k
    rcases hpc with h1 | h1 | h1
    · have hl0 : st.locked = false := by
        cases hlk : st.locked with
        | false => rfl
        | true => have := hm.mp hlk; simp [h1] at this
      simp [run, step, h1, hl0, hl, hck, hs']
    · have hl0 : st.locked = false := by
        cases hlk : st.locked with
        | false => rfl
        | true => have := hm.mp hlk; simp [h1] at this
      simp [run, step, h1, hl0, hl, hck, hs']
    · simp [run, step, h1, hl, hck, hs']

/-- **Every maximal run of the waiter's own steps ends in the matching return**: after any waiter
steps, if no waiter step can change the state any more, the waiter has returned `expected`. -/
theorem progress_maximal (k : Kind) (st : St) (h : Ready k st) (evs : List Ev)
    (hw : ∀ e ∈ evs, e.isWaiter = true)
    (hmax : ∀ e : Ev, e.isWaiter = true → step cfg k (run cfg k st evs) e = run cfg k st evs) :
    (run cfg k st evs).pc = .returned (expected k st.sh) := by
  rcases h.bound.run source_facts evs hw with hb | ⟨hpc, hp, hx, hs, hm⟩
  · exact hb
  · exfalso
    generalize run cfg k st evs = st' at *
    obtain ⟨s', hs', _⟩ := runBody_std_true k false st'.sh hp
    have hl := source_facts.loopOf k
    have hck := source_facts.clockOf k
    rcases hpc with h1 | h1 | h1
    · have hl0 : st'.locked = false := by
        cases hlk : st'.locked with
        | false => rfl
        | true => have := hm.mp hlk; simp [h1] at this
      have := congrArg St.pc (hmax .lock rfl)
      simp [step, h1, hl0] at this
    · have hl0 : st'.locked = false := by
        cases hlk : st'.locked with
        | false => rfl
        | true => have := hm.mp hlk; simp [h1] at this
      have := congrArg St.pc (hmax .lock rfl)
      simp [step, h1, hl0] at this
    · have := congrArg St.pc (hmax (.check false) rfl)
      simp [step, h1, hl, hck, hs'] at this

-- non-vacuity of `Ready`: parked waiter, sufficient ack ⇒ woken with the condition true
example : Ready (.credit 4) (run cfg (.credit 4) (St.init ⟨8, 8, 0, 0, none, none, []⟩)
    [.lock, .check false, .op (.ack 0 4)]) :=
  ⟨⟨_, _, rfl⟩, by decide, by decide⟩

/-- **Returned values are the matching ones.** Along any interleaving, a return comes from one pass
through the loop body which either saw the condition true and returned `expected` of that state
(`ok` / `cancelled r` / `resume off`), or saw it false with the deadline passed and returned `timeout`. -/
theorem return_sound (k : Kind) (s0 : Sh) (evs : List Ev) (r : Ret)
    (h : (run cfg k (St.init s0) evs).pc = .returned r) :
    ∃ pre e post, evs = pre ++ Ev.check e :: post ∧ (run cfg k (St.init s0) pre).pc = .checking ∧
      ((r = .timeout ∧ e = true ∧ pred k (run cfg k (St.init s0) pre).sh = false) ∨
       (r = expected k (run cfg k (St.init s0) pre).sh ∧ pred k (run cfg k (St.init s0) pre).sh = true)) :=
  return_step source_facts evs (by simp [St.init]) h

theorem expected_ne_timeout (k : Kind) (s : Sh) (hp : pred k s = true) : expected k s ≠ .timeout := by
  cases hc : s.cancelled with
  | some r => simp [expected, hc]
  | none =>
    cases k with
    | credit len => simp [expected, hc]
    | reconnect =>
      cases hq : s.pending with
      | none => simp [pred, hc, hq] at hp
      | some off => simp [expected, hc, hq]

/-- **Timeout not earlier.** `timeout` is only ever returned by a check at which the environment
said the deadline had passed and the condition was false. -/
theorem timeout_exact (k : Kind) (s0 : Sh) (evs : List Ev)
    (h : (run cfg k (St.init s0) evs).pc = .returned .timeout) :
    ∃ pre post, evs = pre ++ Ev.check true :: post ∧ (run cfg k (St.init s0) pre).pc = .checking ∧
      pred k (run cfg k (St.init s0) pre).sh = false := by
  obtain ⟨pre, e, post, h1, h2, h3⟩ := return_sound k s0 evs .timeout h
  rcases h3 with ⟨_, he, hp⟩ | ⟨hx, hp⟩
  · exact ⟨pre, post, by rw [h1, he], h2, hp⟩
  · exact absurd hx.symm (expected_ne_timeout k _ hp)

/-- **Timeout not never.** In any reachable state where the waiter has not returned and its condition
is false, once the deadline has passed the waiter's own steps (timer wake-up, re-lock, one pass)
return `timeout`. -/
theorem timeout_reached (k : Kind) (s0 : Sh) (pre : List Ev)
    (hp : pred k (run cfg k (St.init s0) pre).sh = false)
    (hnr : (run cfg k (St.init s0) pre).pc.isReturned = false) :
    (run cfg k (run cfg k (St.init s0) pre) [.wake, .lock, .check true]).pc = .returned .timeout := by
  have hinv := NoLost.run source_facts pre (NoLost.init k s0)
  generalize run cfg k (St.init s0) pre = st at *
  have hl := source_facts.loopOf k
  have hck := source_facts.clockOf k
  have hb := runBody_std_false k true st.sh hp
  have hlock : st.pc ≠ .checking → st.locked = false := fun hne => by
    cases hlk : st.locked with
    | false => rfl
    | true => exact absurd (hinv.mutex.mp hlk) hne
  cases hpc : st.pc with
  | start => simp [run, step, hpc, hlock (by simp [hpc]), hl, hck, hb]
  | woken => simp [run, step, hpc, hlock (by simp [hpc]), hl, hck, hb]
  | parked => simp [run, step, hpc, hlock (by simp [hpc]), hl, hck, hb]
  | checking => simp [run, step, hpc, hl, hck, hb]
  | preparking => exact absurd hpc hinv.notPre
  | returned r => simp [hpc, PC.isReturned] at hnr

/-- While the condition is false at every point of a history, the only thing the waiter can return is
`timeout` (it does not invent credit or a resume). -/
theorem only_timeout_while_false (k : Kind) (s0 : Sh) (evs : List Ev) (r : Ret)
    (hfalse : ∀ pre post, evs = pre ++ post → pred k (run cfg k (St.init s0) pre).sh = false)
    (h : (run cfg k (St.init s0) evs).pc = .returned r) : r = .timeout := by
  obtain ⟨pre, e, post, h1, _, h3⟩ := return_sound k s0 evs r h
  rcases h3 with ⟨hr, _⟩ | ⟨_, hp⟩
  · exact hr
  · have := hfalse pre (Ev.check e :: post) h1
    rw [hp] at this; cases this

-- non-vacuity: window full, nobody signals, deadline passes
example : (run cfg (.credit 4) (St.init ⟨8, 8, 0, 0, none, none, []⟩)
    [.lock, .check false, .wake, .lock, .check true]).pc = .returned .timeout := by decide
example : (run cfg .reconnect (St.init ⟨8, 8, 0, 0, none, none, []⟩)
    [.lock, .check false, .op (.ack 0 2), .wake, .lock, .check true]).pc = .returned .timeout := by decide

/-! ### Any number of waiters (the source says "one producer per transfer"; the protocol does not need it)

`MSt`/`mstep`: a waiter for every natural number, kinds mixed arbitrarily (`kinds i` = credit with any
chunk length, or reconnect), one mutex (`holder`), `notify_all` wakes every parked waiter.  Reconnect
waiters compete for the staged resume (`take()`): whoever looks first gets it, which can only turn another
waiter's condition from true to false, never the other way (`runBody_std_other`). -/

/-- Additional fact for n waiters: every notification in the source is `notify_all`. -/
theorem source_facts_n : cfg.GoodN := by decide

/-- **No lost wake-up for any number of waiters**, every interleaving: no waiter is parked while its own
condition holds. -/
theorem multi_parked_implies_not_pred (kinds : Nat → Kind) (s0 : Sh) (evs : List MEv) (i : Nat) :
    (mrun cfg kinds (MSt.init s0) evs).pc i = .parked →
    pred (kinds i) (mrun cfg kinds (MSt.init s0) evs).sh = false :=
  (MNoLost.run source_facts_n evs (MNoLost.init kinds s0)).parked i

/-- **Observers.** A read-only call (or `set_peer`) made by any thread at any point of any interleaving is
one atomic step (fact `readersAtomic`, part of `source_facts_n`): it changes nothing, wakes nobody and
sees exactly the state of that point of the history - what the harness's observer threads are checked
against. -/
theorem observer_step (kinds : Nat → Kind) (st : MSt) (pick : Nat) :
    (mstep cfg kinds st (.op .nop pick)).sh = st.sh ∧ (mstep cfg kinds st (.op .nop pick)).pc = st.pc := by
  simp only [mstep, applyOp]
  split <;> simp

/-- Mutual exclusion: at most one waiter is inside its loop body. -/
theorem multi_mutex_exclusive (kinds : Nat → Kind) (s0 : Sh) (evs : List MEv) (i j : Nat)
    (hi : (mrun cfg kinds (MSt.init s0) evs).pc i = .checking)
    (hj : (mrun cfg kinds (MSt.init s0) evs).pc j = .checking) : i = j := by
  have h := MNoLost.run source_facts_n evs (MNoLost.init kinds s0)
  have h1 := (h.mutex i).mp hi
  have h2 := (h.mutex j).mp hj
  rw [h1] at h2
  exact Option.some.inj h2

/-- One call wakes **every** parked waiter whose condition it makes true (whatever `pick` is). -/
theorem multi_enabling_op_wakes_all (kinds : Nat → Kind) (s0 : Sh) (pre : List MEv) (o : Op) (pick i : Nat)
    (hfree : (mrun cfg kinds (MSt.init s0) pre).holder = none)
    (hpk : (mrun cfg kinds (MSt.init s0) pre).pc i = .parked)
    (h1 : pred (kinds i) (applyOp cfg.tbl o (mrun cfg kinds (MSt.init s0) pre).sh).1 = true) :
    (mstep cfg kinds (mrun cfg kinds (MSt.init s0) pre) (.op o pick)).pc i = .woken := by
  have hinv := MNoLost.run source_facts_n pre (MNoLost.init kinds s0)
  generalize mrun cfg kinds (MSt.init s0) pre = st at *
  have hn := wake_obligation (kinds i) o st.sh (hinv.parked i hpk) h1
  have hall : cfg.notifyAll = true := source_facts_n.all
  simp [mstep, hfree, hn, hall, hpk]

-- non-vacuity: a credit waiter (chunk 4) and a reconnect waiter park; one cancel wakes both
example :
    let kinds : Nat → Kind := fun i => if i = 0 then .credit 4 else .reconnect
    let st := mrun cfg kinds (MSt.init ⟨8, 8, 0, 0, none, none, []⟩)
      [.lock 0, .check 0 false, .lock 1, .check 1 false]
    st.pc 0 = .parked ∧ st.pc 1 = .parked ∧ st.holder = none ∧
    (mstep cfg kinds st (.op (.cancel 7) 0)).pc 0 = .woken ∧
    (mstep cfg kinds st (.op (.cancel 7) 0)).pc 1 = .woken := by decide

/-- With `notify_one` the n-waiter invariant is false: two credit waiters parked, a cancel wakes the one
the environment picks (a legitimate choice: waiter 0 is parked), the other sleeps on although cancelled.
With one waiter (`parked_implies_not_pred`) the two calls cannot be told apart. -/
def cfgNotifyOne : Cfg := { cfg with notifyAll := false }

example : ¬ cfgNotifyOne.GoodN := by decide
example : cfgNotifyOne.Good := by decide
example :
    let kinds : Nat → Kind := fun _ => .credit 4
    let st := mrun cfgNotifyOne kinds (MSt.init ⟨8, 8, 0, 0, none, none, []⟩)
      [.lock 0, .check 0 false, .lock 1, .check 1 false, .op (.cancel 7) 0]
    st.pc 0 = .woken ∧ st.pc 1 = .parked ∧ pred (kinds 1) st.sh = true := by decide

/-! ### Composition with the C11/C13 model of `TransferControl` (`Model/Transfer.lean`)

`Condvar.Sh`/`applyOp` is a *minimal* transfer state.  The interface another model of `TransferControl`
has to meet to inherit every theorem above is `Refines`: an abstraction function onto `Sh`, a map from
its operations to the six signalling `Op`s, and the commutation `abs ∘ step = applyOp ∘ abs` on the states it
declares regular (`ok`).  The two wait predicates are then `pred k ∘ abs`.  Below the interface is
instantiated with the C11 model itself (`Transfer.State`, `Transfer.step`, the facts of `Gen.transferFacts`),
using its definitions directly. -/

/-- What a richer model of `TransferControl` has to provide. -/
structure Refines (σ ω : Type) (step : σ → ω → σ) where
  abs : σ → Sh
  opOf : ω → Option Op
  /-- states / calls on which the commutation is claimed (e.g. mutex not poisoned, no ring eviction) -/
  ok : σ → ω → Prop
  sim : ∀ s o op, opOf o = some op → ok s o → abs (step s o) = (applyOp cfg.tbl op (abs s)).1

/-- **The per-branch obligation transfers to any refining model**: a call of the richer model that turns
a wait condition (read through `abs`) from false to true is a call that notifies. -/
theorem Refines.wake_obligation {σ ω : Type} {step : σ → ω → σ} (R : Refines σ ω step)
    (k : Kind) (s : σ) (o : ω) (op : Op) (hop : R.opOf o = some op) (hok : R.ok s o)
    (h0 : pred k (R.abs s) = false) (h1 : pred k (R.abs (step s o)) = true) :
    (applyOp cfg.tbl op (R.abs s)).2 = true := by
  rw [R.sim s o op hop hok] at h1
  exact C12.wake_obligation k op (R.abs s) h0 h1

def absT (s : Transfer.State) : Sh :=
  ⟨s.window, s.sent, s.acked, s.file, s.cancelled, s.pending, s.chunks.map fun c => (c.offset, c.dataLen)⟩

def opOfT : Transfer.Op → Option Op
  | .recordSent n => some (.sent n)
  | .recordAck f o => some (.ack f o)
  | .cancel r => some (.cancel r)
  | .advance f => some (.advance f)
  | .requestResume _ f o => some (.resume f o)
  | .pushReplay off dlen _ _ => some (.push off dlen)
  | _ => none

/-- Regular calls of the C11 model: mutex not poisoned; for `request_resume` the ring test does not
overflow and agrees with `ringCovers`; for `push_replay` the contiguity assertion passes and nothing is
evicted (the C12 model has no eviction). -/
def okT (f : Transfer.Facts) (m : OvMode) (s : Transfer.State) : Transfer.Op → Prop
  | .requestResume _ _ off => s.poisoned = false ∧ Transfer.covers f m s.chunks off = .ok (ringCovers (absT s).ring off)
  | .pushReplay off dlen last body =>
    s.poisoned = false ∧ (Transfer.step f m s (.pushReplay off dlen last body)).1.chunks = s.chunks ++ [⟨off, dlen, last, body⟩]
      ∧ (Transfer.step f m s (.pushReplay off dlen last body)).1.poisoned = false
  | _ => s.poisoned = false

/-- The forms of `record_ack` the C12 model assumes (file test, cap, strict comparison). -/
def StdAck (f : Transfer.Facts) : Prop := f.ackFileTest = true ∧ f.ackCap = true ∧ f.ackStrict = true

theorem transfer_facts_std : StdAck Gen.transferFacts := ⟨by decide, by decide, by decide⟩

/-- **Simulation**: on regular calls, the C11 model's `step` and this file's `applyOp` commute with `absT`,
for the facts extracted from the current source and both build profiles. -/
theorem transfer_sim (m : OvMode) (s : Transfer.State) (o : Transfer.Op) (op : Op)
    (hop : opOfT o = some op) (hok : okT Gen.transferFacts m s o) :
    absT (Transfer.step Gen.transferFacts m s o).1 = (applyOp cfg.tbl op (absT s)).1 := by
  obtain ⟨h1, h2, h3⟩ := transfer_facts_std
  cases o with
  | recordSent n =>
    cases hop
    have hp : s.poisoned = false := hok
    simp only [Transfer.step, hp, applyOp, absT]
    by_cases h : s.sent < n <;> simp [h]
  | recordAck f off =>
    cases hop
    have hp : s.poisoned = false := hok
    simp only [Transfer.step, hp, applyOp, absT, h1, h2, h3, Transfer.ackAdvances, Transfer.ackCapped]
    by_cases hf : f = s.file
    · by_cases ha : s.acked < min off s.sent <;> simp [hf, ha]
    · simp [hf]
  | cancel r =>
    cases hop
    have hp : s.poisoned = false := hok
    have hw : Gen.transferFacts.cancelFirstWins = true := by decide
    cases hc : s.cancelled <;> simp [Transfer.step, hp, applyOp, absT, hc, hw]
  | advance f =>
    cases hop
    have hp : s.poisoned = false := hok
    have hk : Gen.transferFacts.advanceKeepsCancel = true := by decide
    have hd : Gen.transferFacts.advanceDropsPending = true := by decide
    simp [Transfer.step, hp, applyOp, absT, hk, hd]
  | requestResume p f off =>
    cases hop
    obtain ⟨hp, hcov⟩ := hok
    simp only [Transfer.step, hp, applyOp, resumeRes]
    cases hc : s.cancelled with
    | some r => simp [absT, hc]
    | none =>
      by_cases hf : f = s.file
      · simp only [hcov]
        cases hr : ringCovers (absT s).ring off with
        | false => simp [absT, hc, hf] at hr ⊢
        | true =>
          have hrc : Gen.transferFacts.resumeCap = true := by decide
          by_cases ha : s.acked < off ∧ off ≤ s.sent
          · have hb : Transfer.resumeBumps Gen.transferFacts off s.acked s.sent = true := by
              simp [Transfer.resumeBumps, hrc, ha.1, ha.2]
            simp [absT, hc, hf, ha, hb] at hr ⊢
          · have hb : Transfer.resumeBumps Gen.transferFacts off s.acked s.sent = false := by
              simp only [Transfer.resumeBumps, hrc, Bool.not_true, Bool.false_or, Bool.and_eq_false_imp,
                decide_eq_true_eq, decide_eq_false_iff_not]
              intro h1; exact fun h2 => ha ⟨h1, h2⟩
            simp [absT, hc, hf, ha, hb] at hr ⊢
      · simp [absT, hc, hf]
  | pushReplay off dlen last body =>
    cases hop
    obtain ⟨hp, hch, hp'⟩ := hok
    by_cases hA : Transfer.pushAssertOk m s.chunks off = true
    · simp only [Transfer.step, hp, hA, Bool.false_eq_true, if_false, if_true] at hch ⊢
      simp [absT, applyOp, hch]
    · simp [Transfer.step, hp, hA, Transfer.poison] at hp'
  | waitCredit len => cases hop
  | waitReconnect => cases hop
  | replayFrom off => cases hop
  | setPeer p => cases hop

/-- The C11 model refines the C12 transfer state. -/
def transferRefines (m : OvMode) : Refines Transfer.State Transfer.Op (fun s o => (Transfer.step Gen.transferFacts m s o).1) where
  abs := absT
  opOf := opOfT
  ok := okT Gen.transferFacts m
  sim := fun s o op hop hok => transfer_sim m s o op hop hok

/-- **Composition**: in the C11 model, any regular call of `record_sent / record_ack / cancel /
advance_to_file / request_resume / push_replay` after which a wait condition holds that did not hold
before is a call that reaches `notify_all()`. -/
theorem transfer_wake_obligation (m : OvMode) (k : Kind) (s : Transfer.State) (o : Transfer.Op) (op : Op)
    (hop : opOfT o = some op) (hok : okT Gen.transferFacts m s o)
    (h0 : pred k (absT s) = false)
    (h1 : pred k (absT (Transfer.step Gen.transferFacts m s o).1) = true) :
    (applyOp cfg.tbl op (absT s)).2 = true :=
  (transferRefines m).wake_obligation k s o op hop hok h0 h1

-- non-vacuity: in the C11 model, window 8 full, chunk 4 waiting; `record_ack(0, 4)` is a regular call that
-- turns the credit condition true (and `request_resume` on the empty ring at offset 0 the reconnect one)
example :
    let s : Transfer.State := { window := 8, capacity := 100, sent := 8 }
    okT Gen.transferFacts .checks s (.recordAck 0 4) ∧
    pred (.credit 4) (absT s) = false ∧
    pred (.credit 4) (absT (Transfer.step Gen.transferFacts .checks s (.recordAck 0 4)).1) = true ∧
    okT Gen.transferFacts .checks s (.requestResume 1 0 0) ∧
    pred .reconnect (absT s) = false ∧
    pred .reconnect (absT (Transfer.step Gen.transferFacts .checks s (.requestResume 1 0 0)).1) = true := by
  refine ⟨rfl, by decide, by decide, ⟨rfl, by decide⟩, by decide, by decide⟩

/-! ### Why the facts matter: the same model with one `notify_all()` removed loses a wake-up -/

/-- `record_ack` without its `notify_all()`: the waiter stays parked although credit is available. -/
def cfgNoAckNotify : Cfg := { cfg with tbl := { cfg.tbl with ack := .never } }

example : ¬ cfgNoAckNotify.Good := by decide
example :
    let st := run cfgNoAckNotify (.credit 4) (St.init ⟨8, 8, 0, 0, none, none, []⟩)
      [.lock, .check false, .op (.ack 0 4)]
    st.pc = .parked ∧ pred (.credit 4) st.sh = true := by decide

/-- Deadline tested before the condition: a timeout is returned although credit is available. -/
def cfgDeadlineFirst : Cfg := { cfg with creditLoop := [.cancel, .deadline, .pred, .park] }

example : ¬ cfgDeadlineFirst.Good := by decide
example : (run cfgDeadlineFirst (.credit 4) (St.init ⟨8, 0, 0, 0, none, none, []⟩) [.lock, .check true]).pc
    = .returned .timeout := by decide

/-- The mutex dropped between the tests and `wait_timeout` (the loop re-locks before it parks): a
cancel that lands in the gap notifies nobody and the waiter parks with its condition true. -/
def cfgGap : Cfg := { cfg with reconnectAtomic := false }

example : ¬ cfgGap.Good := by decide
example :
    let st := run cfgGap .reconnect (St.init ⟨8, 8, 0, 0, none, none, []⟩)
      [.lock, .check false, .op (.cancel 1), .lock]
    st.pc = .parked ∧ pred .reconnect st.sh = true := by decide

/-- The deadline test not re-derived from the clock on every pass (seed C12-B: a sticky `timed_out()`
flag): read pessimistically the test may never fire, and `timeout_reached` fails. -/
def cfgStickyClock : Cfg := { cfg with creditClock := false }

example : ¬ cfgStickyClock.Good := by decide
example : (run cfgStickyClock (.credit 4) (St.init ⟨8, 8, 0, 0, none, none, []⟩)
    [.lock, .check false, .wake, .lock, .check true]).pc = .parked := by decide

end Repe.C12
