import RepeVerif.Lemmas.Dispatch
import RepeVerif.Gen.Dispatch
/-!
# C03 — Every request gets exactly one matching response; notifies get none

> On every transport (blocking TCP, async TCP, WebSocket inline and WebSocket off-reader) each
> well-framed request whose notify flag is clear produces exactly one response carrying the request's
> id and, unless the handler chose its own, the request's query bytes, and each request whose notify
> flag is set produces none; a dispatched request's handler is invoked exactly once and a rejected
> request's handler never. The response reports the handler's result, or the specified error code for
> an unsupported version, a query that is not a UTF-8 JSON pointer, an unknown path, an unacceptable
> body format, an undecodable body or a handler-returned error. Requests handled inline on one
> connection are answered in arrival order, and for handlers that return, the same request yields the
> same response fields on every transport.

clause → theorem
* facts read off the current source are the specification's ....... `C03.source_facts`, `C03.error_code_table`
* notify clear ⇒ exactly one response, with the request's id ...... `C03.one_response`, `C03.response_id`, `C03.builtin_ok_response`
* notify set ⇒ none ............................................... `C03.no_response_for_notify`
* handler invoked exactly once iff dispatched ..................... `C03.handler_once`, `C03.reject_never_invokes`
* query echo unless the handler chose its own ..................... `C03.query_echo`
* error codes for version / query / unknown path / handler error .. `C03.reject_codes`, `C03.handler_error_code`
* inline transports answer in arrival order ....................... `C03.inline_order`
* same response on every transport, byte for byte ................. `C03.transports_agree`, `C03.wire_is_toVec`

Handlers are parameters (`HOut`): the theorems hold for every handler behaviour. `transports_agree`
needs the handler-twin contract `Twin` (the owned and the borrowed entry point of a handler return
the same response up to the query stamp), which C07's twin differential exercises for every
built-in handler kind. Handler panics are C16.
-/
namespace Repe.C03

/-- Error-code table of the property statement, keyed by `RepeError` variant. -/
def specToErrorCode : List (String × Nat) :=
  [("Beve", specCodes.parseError), ("BufferTooSmall", specCodes.parseError),
   ("InvalidHeaderLength", specCodes.invalidHeader), ("InvalidSpec", specCodes.invalidHeader),
   ("Io", specCodes.parseError), ("Json", specCodes.parseError),
   ("LengthMismatch", specCodes.invalidHeader), ("MessageTooLarge", specCodes.internalError),
   ("ResponseIdMismatch", specCodes.invalidHeader), ("UnexpectedBodyFormat", specCodes.invalidBody),
   ("UnknownEnumValue", specCodes.parseError), ("VersionMismatch", specCodes.versionMismatch)]

/-- Facts re-extracted from `constants.rs` / `server_request.rs` on every run. -/
theorem source_facts :
    Gen.codes = specCodes ∧ Gen.routeOrder = specRouteOrder ∧
    Gen.routeVersionCode = specCodes.versionMismatch ∧ Gen.routeUtf8Code = specCodes.invalidQuery ∧
    Gen.routeRawBinaryCode = specCodes.invalidQuery ∧ Gen.routeLookupCode = specCodes.methodNotFound ∧
    Gen.notifyValue = 1 ∧ Gen.unknownQueryFormatIsRawBinary = true := by decide

/-- unacceptable body format ⇒ InvalidBody; undecodable body (JSON/BEVE/IO) ⇒ ParseError; … -/
theorem error_code_table : Gen.toErrorCode = specToErrorCode := by decide

variable (t : Transport) (req : Req) (utf8 found : Bool) (hview howned : HOut) (rejMsg : Bytes)

theorem one_response (hn : req.isNotify = false) :
    ∃ m, (respond Gen.codes t req utf8 found hview howned rejMsg).1 = some m := by
  unfold respond
  cases route Gen.codes req utf8 found <;> simp [hn]

theorem no_response_for_notify (hn : req.isNotify = true) :
    (respond Gen.codes t req utf8 found hview howned rejMsg).1 = none := by
  unfold respond
  cases route Gen.codes req utf8 found <;> simp [hn]

/-- The handler runs exactly once for a dispatched request (notify or not) and never otherwise. -/
theorem handler_once :
    (respond Gen.codes t req utf8 found hview howned rejMsg).2 =
      if route Gen.codes req utf8 found = .dispatch then 1 else 0 := by
  unfold respond
  cases route Gen.codes req utf8 found <;> simp <;> split <;> rfl

theorem reject_never_invokes (code : Nat) (hr : route Gen.codes req utf8 found = .reject code) :
    (respond Gen.codes t req utf8 found hview howned rejMsg).2 = 0 := by
  rw [handler_once, hr]; simp

/-- Which requests are dispatched and which rejected with which code (any transport: `route` is shared). -/
theorem reject_codes :
    route Gen.codes req utf8 found =
      if req.header.version ≠ 1 then .reject 1          -- VersionMismatch
      else if req.header.queryFormat ≠ 1 then .reject 3  -- InvalidQuery (raw-binary and unknown codes)
      else if utf8 = false then .reject 3                -- InvalidQuery (not UTF-8)
      else if found = false then .reject 6               -- MethodNotFound
      else .dispatch := by
  rw [source_facts.1]
  unfold route
  simp only [specCodes, REPE_VERSION, QUERY_JSON_POINTER]
  by_cases h1 : req.header.version = 1 <;> by_cases h2 : req.header.queryFormat = 1 <;>
    cases utf8 <;> cases found <;> simp [h1, h2]

/-- A rejected non-notify request is answered with exactly the rejection code and the request id. -/
theorem reject_response (code : Nat) (hr : route Gen.codes req utf8 found = .reject code)
    (hn : req.isNotify = false) :
    ∃ m, (respond Gen.codes t req utf8 found hview howned rejMsg).1 = some m ∧
      m.header.ec = code ∧ m.header.id = req.header.id ∧ m.query = req.query := by
  unfold respond
  rw [hr]
  simp only [hn]
  refine ⟨_, rfl, ?_, ?_, ?_⟩
  · cases t <;> simp [finalMessage, asyncFrameMsg, stamp_ec, Header.patchLengths]
  · cases t <;> simp [finalMessage, asyncFrameMsg, stamp_id, Header.patchLengths]
  · cases t <;> simp [finalMessage, asyncFrameMsg, stamp_query, responseEchoQuery]

/-- A handler-returned error is reported with its code, the request id and the request query. -/
theorem handler_error_code (code : Nat) (msg : Bytes)
    (hr : route Gen.codes req utf8 found = .dispatch) (hn : req.isNotify = false) :
    ∃ m, (respond Gen.codes t req utf8 found (.err code msg) (.err code msg) rejMsg).1 = some m ∧
      m.header.ec = code ∧ m.header.id = req.header.id ∧ m.query = req.query ∧ m.body = msg := by
  unfold respond
  rw [hr]
  simp only [hn]
  refine ⟨_, rfl, ?_, ?_, ?_, ?_⟩
  · cases t <;> simp [finalMessage, asyncFrameMsg, stamp_ec, Header.patchLengths]
  · cases t <;> simp [finalMessage, asyncFrameMsg, stamp_id, Header.patchLengths]
  · cases t <;> simp [finalMessage, asyncFrameMsg, stamp_query, responseEchoQuery]
  · cases t <;> simp [finalMessage, asyncFrameMsg, stamp_body] <;> rfl

/-- The response to a dispatched request carries the handler's own id/ec/body, and the handler's
query if it set one, else the request's query bytes. -/
theorem query_echo (m : Message)
    (hr : route Gen.codes req utf8 found = .dispatch) (hn : req.isNotify = false) :
    ∃ r, (respond Gen.codes t req utf8 found (.ok m) (.ok m) rejMsg).1 = some r ∧
      r.query = (if m.query.isEmpty then req.query else m.query) ∧
      r.header.id = m.header.id ∧ r.header.ec = m.header.ec ∧ r.body = m.body := by
  unfold respond
  rw [hr]
  simp only [hn]
  refine ⟨_, rfl, ?_, ?_, ?_, ?_⟩
  · cases t <;> simp [finalMessage, asyncFrameMsg, stamp_query, responseEchoQuery]
  · cases t <;> simp [finalMessage, asyncFrameMsg, stamp_id, Header.patchLengths]
  · cases t <;> simp [finalMessage, asyncFrameMsg, stamp_ec, Header.patchLengths]
  · cases t <;> simp [finalMessage, asyncFrameMsg, stamp_body]

/-- A built-in handler's success response (`response_header_builder` + body) reaches the wire with the
request's id, the request's query bytes, `ec = 0` and the handler's body, on every transport. -/
theorem builtin_ok_response (bf : Nat) (body : Bytes)
    (hr : route Gen.codes req utf8 found = .dispatch) (hn : req.isNotify = false) :
    ∃ r, (respond Gen.codes t req utf8 found (.ok (builtinResponse req bf body))
            (.ok (builtinResponse req bf body)) rejMsg).1 = some r ∧
      r.header.id = req.header.id ∧ r.query = req.query ∧ r.header.ec = 0 ∧ r.body = body ∧
      r.header.bodyFormat = bf := by
  obtain ⟨r, h1, hq, hid, hec, hb⟩ := query_echo t req utf8 found rejMsg (builtinResponse req bf body) hr hn
  refine ⟨r, h1, ?_, ?_, ?_, ?_, ?_⟩
  · rw [hid]; rfl
  · rw [hq]; simp [builtinResponse, Builder.build]
  · rw [hec]; rfl
  · rw [hb]; rfl
  · unfold respond at h1
    rw [hr] at h1
    simp only [hn] at h1
    cases h1
    cases t <;> simp [finalMessage, asyncFrameMsg, stampResponseQuery, responseEchoQuery, builtinResponse,
      Builder.build, Header.patchLengths] <;> (try split) <;> rfl

/-- The id every built-in response helper puts in: the request's. (`response_id` for handler `ok`
results is the hypothesis `m.header.id = req.header.id` of `query_echo`'s third conjunct.) -/
theorem response_id (hn : req.isNotify = false) (code : Nat) (msg : Bytes) :
    ∀ m, (respond Gen.codes t req utf8 found (.err code msg) (.err code msg) rejMsg).1 = some m →
      m.header.id = req.header.id := by
  intro m hm
  unfold respond at hm
  cases hr : route Gen.codes req utf8 found with
  | reject c =>
    simp only [hr, hn] at hm
    cases hm
    cases t <;> simp [finalMessage, asyncFrameMsg, stamp_id, Header.patchLengths]
  | dispatch =>
    simp only [hr, hn] at hm
    cases hm
    cases t <;> simp [finalMessage, asyncFrameMsg, stamp_id, Header.patchLengths]

/-- Inline transports: the responses on a connection are exactly the per-request responses, in
arrival order, and the handler invocation count is the number of dispatched requests. -/
theorem inline_order (steps : List Step) :
    serveSeq Gen.codes t steps [] 0 =
      (steps.filterMap (fun s => (respond Gen.codes t s.req s.utf8 s.found s.hview s.howned).1),
       (steps.map (fun s => (respond Gen.codes t s.req s.utf8 s.found s.hview s.howned).2)).sum) := by
  simpa using serveSeq_eq Gen.codes t steps [] 0

/-- Handler-twin contract: the owned entry point (`handle_with_ctx`, used off-reader) and the
borrowed one (`handle_view`, used by TCP/async/inline) return the same response up to the query
stamp, or the same error. -/
def Twin (req : Req) : HOut → HOut → Prop
  | .ok mv, .ok mo => mv.WF ∧ mo.WF ∧ stampResponseQuery mv req.query = stampResponseQuery mo req.query
  | .err c m, .err c' m' => c = c' ∧ m = m' ∧ c < 2^32 ∧ 48 + m.length < 2^64
  | _, _ => False

/-- The same request yields the same response message on all four dispatch paths. -/
theorem transports_agree (t₁ t₂ : Transport) (htw : Twin req hview howned)
    (hid : req.header.id < 2^64) (hrm : 48 + rejMsg.length < 2^64) :
    (respond Gen.codes t₁ req utf8 found hview howned rejMsg).1 =
    (respond Gen.codes t₂ req utf8 found hview howned rejMsg).1 := by
  have key : ∀ t, (respond Gen.codes t req utf8 found hview howned rejMsg).1 =
      (respond Gen.codes .wsInline req utf8 found hview howned rejMsg).1 := by
    intro t
    unfold respond
    cases hr : route Gen.codes req utf8 found with
    | reject c =>
      have hc : c < 2^32 := by
        have := reject_codes req utf8 found
        rw [hr] at this
        repeat' split at this
        all_goals (first | (cases this; decide) | cases this)
      simp only
      cases req.isNotify
      · simp only [Bool.false_eq_true, if_false, Option.some.injEq]
        rw [finalMessage_eq t _ (errorUnstamped_wf req c rejMsg hid hc hrm),
            finalMessage_eq .wsInline _ (errorUnstamped_wf req c rejMsg hid hc hrm)]
      · simp
    | dispatch =>
      simp only
      cases req.isNotify
      · simp only [Bool.false_eq_true, if_false, Option.some.injEq]
        cases hview with
        | ok mv =>
          cases howned with
          | ok mo =>
            obtain ⟨wv, wo, he⟩ := htw
            cases t
            · simp only; rw [finalMessage_eq .tcp _ wv]; rfl
            · simp only; rw [finalMessage_eq .atcp _ wv]; rfl
            · rfl
            · simp only; show stampResponseQuery mo req.query = stampResponseQuery mv req.query
              exact he.symm
          | err c m => exact absurd htw (by simp [Twin])
        | err c m =>
          cases howned with
          | ok mo => exact absurd htw (by simp [Twin])
          | err c' m' =>
            obtain ⟨hc, hm, hlt, hl⟩ := htw
            subst hc hm
            have wf := errorUnstamped_wf req c m hid hlt hl
            cases t
            · simp only; rw [finalMessage_eq .tcp _ wf]; rfl
            · simp only; rw [finalMessage_eq .atcp _ wf]; rfl
            · rfl
            · simp only
              show stampResponseQuery (errorLike req c m) req.query = stampResponseQuery (errorUnstamped req c m) req.query
              exact errorLike_eq_stamped req c m
      · simp
  rw [key t₁, key t₂]

/-- What each transport writes for a response is `to_vec` of that message (C01's routes). -/
theorem wire_is_toVec (resp : Message) (q : Bytes) (cap : Nat) :
    wireBytes t resp q cap = (finalMessage t resp q).toVec := wireBytes_eq_toVec t resp q cap

/-- Non-vacuity of `Twin`: a JSON handler's two results for the request `/a` with id 7. -/
example : Twin ⟨⟨48+2, 0x1507, 1, 0, 0, 7, 2, 0, 1, 2, 0⟩, [47, 97], []⟩
    (.ok (Builder.mk 7 false 0 1 2 [] [49]).build) (.ok (Builder.mk 7 false 0 1 2 [] [49]).build) := by
  refine ⟨?_, ?_, rfl⟩ <;> exact Builder.build_wf _ (by decide) (by decide) (by decide) (by decide) (by decide)

end Repe.C03
