import RepeVerif.Lemmas.Dispatch
import RepeVerif.Gen.Dispatch
/-!
# C03 — Every request gets exactly one matching response; notifies get none

> On every transport (blocking TCP, async TCP, WebSocket inline and WebSocket off-reader) each
> well-framed request whose notify flag is clear produces exactly one response carrying the request's
> id and, unless the handler chose its own, the request's query bytes, and each request whose notify
> flag is set produces none; a dispatched request's handler is invoked exactly once and a rejected
> request's handler never. The response reports the handler's result, or the specified error code for
> an unsupported version, a query that is not a UTF-8 JSON pointer, an unknown path, an unacceptable
> body format, an undecodable body or a handler-returned error. Requests handled inline on one
> connection are answered in arrival order, and for handlers that return, the same request yields the
> same response fields on every transport.

clause → theorem
* facts read off the current source are the specification's ....... `C03.source_facts`, `C03.error_code_table`
* notify clear ⇒ exactly one response, with the request's id ...... `C03.one_response`, `C03.response_id`, `C03.builtin_ok_response`
* notify set ⇒ none ............................................... `C03.no_response_for_notify`
* handler invoked exactly once iff dispatched ..................... `C03.handler_once`, `C03.reject_never_invokes`
* query echo unless the handler chose its own ..................... `C03.query_echo`
* error codes for version / query / unknown path / handler error .. `C03.reject_codes`, `C03.handler_error_code`
* inline transports answer in arrival order ....................... `C03.inline_order`
* same response on every transport, byte for byte ................. `C03.transports_agree`, `C03.wire_is_toVec`

* the source's per-request behaviour / connection loop are the modelled ones .. `C03.serve_facts`, `C03.respond_is_source`, `C03.serve_loop_is_source`
* notify: run once, answered never, on every path (also off the reader) ....... `C03.notify_invoked_once_unanswered`
* unacceptable body format ⇒ InvalidBody, per built-in handler kind ........... `C03.decode_facts`, `C03.unacceptable_format_code`
* undecodable body ⇒ ParseError (InvalidBody at a registry mount) ............. `C03.undecodable_body_code`
* decodable body ⇒ the closure's result ........................................ `C03.decoded_reports_closure`, `C03.builtin_response_code`
* owned / borrowing decoder twins follow one rule; built-ins meet `Twin` ....... `C03.decode_twins`, `C03.builtin_twin`
* same response on every transport, wrapped or bare, blocking or not,
  for every built-in handler kind — no twin hypothesis ........................ `C03.transports_agree_builtin`, `C03.entry_facts`
* responses queued when a WebSocket reader ends are still delivered ........... `C03.teardown_delivers_queued`

Handlers are parameters (`HOut`): the general theorems hold for every handler behaviour; `transports_agree`
needs the handler-twin contract `Twin` (the owned and the borrowed entry point of a handler return
the same response up to the query stamp). For the built-in handler kinds (`with_json*`, `with_typed*`,
`with_typed_slice*`, `with_handler`, registry and struct mounts) the contract is *proved* (`builtin_twin`) from
the decode sites' facts re-extracted from `server.rs` / `registry.rs`; what stays a parameter there is whether
serde_json / beve decode the bytes (`decodable`) and what the registered closure returns (`Closure`).
Custom erased handlers remain `HOut` parameters. Handler panics are C16.
-/
namespace Repe.C03

/-- Error-code table of the property statement, keyed by `RepeError` variant. -/
def specToErrorCode : List (String × Nat) :=
  [("Beve", specCodes.parseError), ("BufferTooSmall", specCodes.parseError),
   ("InvalidHeaderLength", specCodes.invalidHeader), ("InvalidSpec", specCodes.invalidHeader),
   ("Io", specCodes.parseError), ("Json", specCodes.parseError),
   ("LengthMismatch", specCodes.invalidHeader), ("MessageTooLarge", specCodes.internalError),
   ("ResponseIdMismatch", specCodes.invalidHeader), ("UnexpectedBodyFormat", specCodes.invalidBody),
   ("UnknownEnumValue", specCodes.parseError), ("VersionMismatch", specCodes.versionMismatch)]

/-- Facts re-extracted from `constants.rs` / `server_request.rs` on every run. -/
theorem source_facts :
    Gen.codes = specCodes ∧ Gen.routeOrder = specRouteOrder ∧
    Gen.routeVersionCode = specCodes.versionMismatch ∧ Gen.routeUtf8Code = specCodes.invalidQuery ∧
    Gen.routeRawBinaryCode = specCodes.invalidQuery ∧ Gen.routeLookupCode = specCodes.methodNotFound ∧
    Gen.notifyValue = 1 ∧ Gen.unknownQueryFormatIsRawBinary = true ∧ Gen.versionTestIsNe = true ∧
    Gen.routeRejectSites = 4 ∧ Gen.routeDispatchSites = 1 ∧ Gen.routeSlices = 0 ∧
    -- timers / timeouts / sleeps in: blocking loop, async loop, WebSocket reader, writer, off-reader spawn, dispatch fns
    Gen.timerArms = [2, 3, 0, 5, 0, 0] := by decide

/-- unacceptable body format ⇒ InvalidBody; undecodable body (JSON/BEVE/IO) ⇒ ParseError; … -/
theorem error_code_table : Gen.toErrorCode = specToErrorCode := by decide

variable (t : Transport) (req : Req) (utf8 found : Bool) (hview howned : HOut) (rejMsg : Bytes)

theorem one_response (hn : req.isNotify = false) :
    ∃ m, (respond Gen.codes t req utf8 found hview howned rejMsg).1 = some m := by
  unfold respond
  cases route Gen.codes req utf8 found <;> simp [hn]

theorem no_response_for_notify (hn : req.isNotify = true) :
    (respond Gen.codes t req utf8 found hview howned rejMsg).1 = none := by
  unfold respond
  cases route Gen.codes req utf8 found <;> simp [hn]

/-- The handler runs exactly once for a dispatched request (notify or not) and never otherwise. -/
theorem handler_once :
    (respond Gen.codes t req utf8 found hview howned rejMsg).2 =
      if route Gen.codes req utf8 found = .dispatch then 1 else 0 := by
  unfold respond
  cases route Gen.codes req utf8 found <;> simp <;> split <;> rfl

theorem reject_never_invokes (code : Nat) (hr : route Gen.codes req utf8 found = .reject code) :
    (respond Gen.codes t req utf8 found hview howned rejMsg).2 = 0 := by
  rw [handler_once, hr]; simp

/-- Which requests are dispatched and which rejected with which code (any transport: `route` is shared). -/
theorem reject_codes :
    route Gen.codes req utf8 found =
      if req.header.version ≠ 1 then .reject 1          -- VersionMismatch
      else if req.header.queryFormat ≠ 1 then .reject 3  -- InvalidQuery (raw-binary and unknown codes)
      else if utf8 = false then .reject 3                -- InvalidQuery (not UTF-8)
      else if found = false then .reject 6               -- MethodNotFound
      else .dispatch := by
  rw [source_facts.1]
  unfold route
  simp only [specCodes, REPE_VERSION, QUERY_JSON_POINTER]
  by_cases h1 : req.header.version = 1 <;> by_cases h2 : req.header.queryFormat = 1 <;>
    cases utf8 <;> cases found <;> simp [h1, h2]

/-- A rejected non-notify request is answered with exactly the rejection code and the request id. -/
theorem reject_response (code : Nat) (hr : route Gen.codes req utf8 found = .reject code)
    (hn : req.isNotify = false) :
    ∃ m, (respond Gen.codes t req utf8 found hview howned rejMsg).1 = some m ∧
      m.header.ec = code ∧ m.header.id = req.header.id ∧ m.query = req.query := by
  unfold respond
  rw [hr]
  simp only [hn]
  refine ⟨_, rfl, ?_, ?_, ?_⟩
  · cases t <;> simp [finalMessage, asyncFrameMsg, stamp_ec, Header.patchLengths]
  · cases t <;> simp [finalMessage, asyncFrameMsg, stamp_id, Header.patchLengths]
  · cases t <;> simp [finalMessage, asyncFrameMsg, stamp_query, responseEchoQuery]

/-- A handler-returned error is reported with its code, the request id and the request query. -/
theorem handler_error_code (code : Nat) (msg : Bytes)
    (hr : route Gen.codes req utf8 found = .dispatch) (hn : req.isNotify = false) :
    ∃ m, (respond Gen.codes t req utf8 found (.err code msg) (.err code msg) rejMsg).1 = some m ∧
      m.header.ec = code ∧ m.header.id = req.header.id ∧ m.query = req.query ∧ m.body = msg := by
  unfold respond
  rw [hr]
  simp only [hn]
  refine ⟨_, rfl, ?_, ?_, ?_, ?_⟩
  · cases t <;> simp [finalMessage, asyncFrameMsg, stamp_ec, Header.patchLengths]
  · cases t <;> simp [finalMessage, asyncFrameMsg, stamp_id, Header.patchLengths]
  · cases t <;> simp [finalMessage, asyncFrameMsg, stamp_query, responseEchoQuery]
  · cases t <;> simp [finalMessage, asyncFrameMsg, stamp_body] <;> rfl

/-- The response to a dispatched request carries the handler's own id/ec/body, and the handler's
query if it set one, else the request's query bytes. -/
theorem query_echo (m : Message)
    (hr : route Gen.codes req utf8 found = .dispatch) (hn : req.isNotify = false) :
    ∃ r, (respond Gen.codes t req utf8 found (.ok m) (.ok m) rejMsg).1 = some r ∧
      r.query = (if m.query.isEmpty then req.query else m.query) ∧
      r.header.id = m.header.id ∧ r.header.ec = m.header.ec ∧ r.body = m.body := by
  unfold respond
  rw [hr]
  simp only [hn]
  refine ⟨_, rfl, ?_, ?_, ?_, ?_⟩
  · cases t <;> simp [finalMessage, asyncFrameMsg, stamp_query, responseEchoQuery]
  · cases t <;> simp [finalMessage, asyncFrameMsg, stamp_id, Header.patchLengths]
  · cases t <;> simp [finalMessage, asyncFrameMsg, stamp_ec, Header.patchLengths]
  · cases t <;> simp [finalMessage, asyncFrameMsg, stamp_body]

/-- A built-in handler's success response (`response_header_builder` + body) reaches the wire with the
request's id, the request's query bytes, `ec = 0` and the handler's body, on every transport. -/
theorem builtin_ok_response (bf : Nat) (body : Bytes)
    (hr : route Gen.codes req utf8 found = .dispatch) (hn : req.isNotify = false) :
    ∃ r, (respond Gen.codes t req utf8 found (.ok (builtinResponse req bf body))
            (.ok (builtinResponse req bf body)) rejMsg).1 = some r ∧
      r.header.id = req.header.id ∧ r.query = req.query ∧ r.header.ec = 0 ∧ r.body = body ∧
      r.header.bodyFormat = bf := by
  obtain ⟨r, h1, hq, hid, hec, hb⟩ := query_echo t req utf8 found rejMsg (builtinResponse req bf body) hr hn
  refine ⟨r, h1, ?_, ?_, ?_, ?_, ?_⟩
  · rw [hid]; rfl
  · rw [hq]; simp [builtinResponse, Builder.build]
  · rw [hec]; rfl
  · rw [hb]; rfl
  · unfold respond at h1
    rw [hr] at h1
    simp only [hn] at h1
    cases h1
    cases t <;> simp [finalMessage, asyncFrameMsg, stampResponseQuery, responseEchoQuery, builtinResponse,
      Builder.build, Header.patchLengths] <;> (try split) <;> rfl

/-- The id every built-in response helper puts in: the request's. (`response_id` for handler `ok`
results is the hypothesis `m.header.id = req.header.id` of `query_echo`'s third conjunct.) -/
theorem response_id (hn : req.isNotify = false) (code : Nat) (msg : Bytes) :
    ∀ m, (respond Gen.codes t req utf8 found (.err code msg) (.err code msg) rejMsg).1 = some m →
      m.header.id = req.header.id := by
  intro m hm
  unfold respond at hm
  cases hr : route Gen.codes req utf8 found with
  | reject c =>
    simp only [hr, hn] at hm
    cases hm
    cases t <;> simp [finalMessage, asyncFrameMsg, stamp_id, Header.patchLengths]
  | dispatch =>
    simp only [hr, hn] at hm
    cases hm
    cases t <;> simp [finalMessage, asyncFrameMsg, stamp_id, Header.patchLengths]

/-- Inline transports: the responses on a connection are exactly the per-request responses, in
arrival order, and the handler invocation count is the number of dispatched requests. -/
theorem inline_order (steps : List Step) :
    serveSeq Gen.codes t steps [] 0 =
      (steps.filterMap (fun s => (respond Gen.codes t s.req s.utf8 s.found s.hview s.howned).1),
       (steps.map (fun s => (respond Gen.codes t s.req s.utf8 s.found s.hview s.howned).2)).sum) := by
  simpa using serveSeq_eq Gen.codes t steps [] 0

/-- Handler-twin contract: the owned entry point (`handle_with_ctx`, used off-reader) and the
borrowed one (`handle_view`, used by TCP/async/inline) return the same response up to the query
stamp, or the same error. -/
def Twin (req : Req) : HOut → HOut → Prop
  | .ok mv, .ok mo => mv.WF ∧ mo.WF ∧ stampResponseQuery mv req.query = stampResponseQuery mo req.query
  | .err c m, .err c' m' => c = c' ∧ m = m' ∧ c < 2^32 ∧ 48 + m.length < 2^64
  | _, _ => False

/-- The same request yields the same response message on all four dispatch paths. -/
theorem transports_agree (t₁ t₂ : Transport) (htw : Twin req hview howned)
    (hid : req.header.id < 2^64) (hrm : 48 + rejMsg.length < 2^64) :
    (respond Gen.codes t₁ req utf8 found hview howned rejMsg).1 =
    (respond Gen.codes t₂ req utf8 found hview howned rejMsg).1 := by
  have key : ∀ t, (respond Gen.codes t req utf8 found hview howned rejMsg).1 =
      (respond Gen.codes .wsInline req utf8 found hview howned rejMsg).1 := by
    intro t
    unfold respond
    cases hr : route Gen.codes req utf8 found with
    | reject c =>
      have hc : c < 2^32 := by
        have := reject_codes req utf8 found
        rw [hr] at this
        repeat' split at this
        all_goals (first | (cases this; decide) | cases this)
      simp only
      cases req.isNotify
      · simp only [Bool.false_eq_true, if_false, Option.some.injEq]
        rw [finalMessage_eq t _ (errorUnstamped_wf req c rejMsg hid hc hrm),
            finalMessage_eq .wsInline _ (errorUnstamped_wf req c rejMsg hid hc hrm)]
      · simp
    | dispatch =>
      simp only
      cases req.isNotify
      · simp only [Bool.false_eq_true, if_false, Option.some.injEq]
        cases hview with
        | ok mv =>
          cases howned with
          | ok mo =>
            obtain ⟨wv, wo, he⟩ := htw
            cases t
            · simp only; rw [finalMessage_eq .tcp _ wv]; rfl
            · simp only; rw [finalMessage_eq .atcp _ wv]; rfl
            · rfl
            · simp only; show stampResponseQuery mo req.query = stampResponseQuery mv req.query
              exact he.symm
          | err c m => exact absurd htw (by simp [Twin])
        | err c m =>
          cases howned with
          | ok mo => exact absurd htw (by simp [Twin])
          | err c' m' =>
            obtain ⟨hc, hm, hlt, hl⟩ := htw
            subst hc hm
            have wf := errorUnstamped_wf req c m hid hlt hl
            cases t
            · simp only; rw [finalMessage_eq .tcp _ wf]; rfl
            · simp only; rw [finalMessage_eq .atcp _ wf]; rfl
            · rfl
            · simp only
              show stampResponseQuery (errorLike req c m) req.query = stampResponseQuery (errorUnstamped req c m) req.query
              exact errorLike_eq_stamped req c m
      · simp
  rw [key t₁, key t₂]

/-- What each transport writes for a response is `to_vec` of that message (C01's routes). -/
theorem wire_is_toVec (resp : Message) (q : Bytes) (cap : Nat) :
    wireBytes t resp q cap = (finalMessage t resp q).toVec := wireBytes_eq_toVec t resp q cap

/-- Non-vacuity of `Twin`: a JSON handler's two results for the request `/a` with id 7. -/
example : Twin ⟨⟨48+2, 0x1507, 1, 0, 0, 7, 2, 0, 1, 2, 0⟩, [47, 97], []⟩
    (.ok (Builder.mk 7 false 0 1 2 [] [49]).build) (.ok (Builder.mk 7 false 0 1 2 [] [49]).build) := by
  refine ⟨?_, ?_, rfl⟩ <;> exact Builder.build_wf _ (by decide) (by decide) (by decide) (by decide) (by decide)

/-! ## The built-in handlers, the serve loops and the middleware wrapper, from extracted facts -/

/-- The body-decoding rule of each built-in handler kind, as documented: JSON / typed / context / adapter handlers take
BEVE, JSON and UTF-8-framed JSON; the bulk slice handlers take BEVE only; a registry mount takes every known format; a
struct mount takes BEVE / JSON / UTF-8; registry and struct mounts read "no body" as a read. Any other format is
InvalidBody. Undecodable bytes are ParseError, except at a registry mount (InvalidBody, `RegistryError::code`). -/
def specDecode : HKind → DecodeFacts
  | .json | .jsonCtx | .typed | .typedCtx | .adapter => ⟨[1, 2, 3], 4, 5, true, false, true⟩
  | .slice | .sliceRef => ⟨[1], 4, 5, true, false, true⟩
  | .registry => ⟨[0, 1, 2, 3], 4, 4, false, true, true⟩
  | .struct => ⟨[1, 2, 3], 4, 5, true, true, true⟩

/-- Every decode site of `server.rs` / `registry.rs`, owned and borrowing twin alike, is the documented rule
(re-extracted on every run; an unrecognised decode expression is `strict := false`, a wrong code is that code). -/
theorem decode_facts : ∀ k e, Gen.decodeFacts k e = specDecode k := by
  intro k e; cases k <;> cases e <;> decide

/-- The owned and the borrowing decoder of every kind follow the same rule. -/
theorem decode_twins (k : HKind) : Gen.decodeFacts k .view = Gen.decodeFacts k .owned := by
  rw [decode_facts, decode_facts]

/-- Who overrides `handle_view`: the four plain value handlers; neither wrapper does; the pipeline forwards
`execution()`. -/
theorem entry_facts : Gen.entryFacts = ⟨[.json, .typed, .slice, .sliceRef], false, false, true⟩ := by decide

/-- The notify branches, handler call sites, echo arguments, stamps, flushes, sends and the teardown of the four
serve loops have the recognised forms. -/
theorem serve_facts : Gen.serveFacts = specServe := by decide

/-- The per-request behaviour read off the current source is the modelled `respond`: every theorem above is about it. -/
theorem respond_is_source :
    respondG Gen.serveFacts Gen.codes t req utf8 found hview howned rejMsg =
      respond Gen.codes t req utf8 found hview howned rejMsg := by
  rw [serve_facts]; exact respondG_spec _ _ _ _ _ _ _ _

/-- Side conditions that hold of every Rust value (field widths, lengths below 2^64). -/
structure Sane (req : Req) (cl : Closure) (txt : Bytes) : Prop where
  id : req.header.id < 2^64
  txt : 48 + req.query.length + txt.length < 2^64
  cl : match cl with
    | .ok bf b => bf < 2^16 ∧ 48 + b.length < 2^64
    | .err c m => c < 2^32 ∧ 48 + req.query.length + m.length < 2^64

/-- Built-in handlers meet the twin contract: whichever rule both entry points share, the borrowed entry point's
outcome and the owned one's are the same response once the dispatch layer has echoed the query. -/
theorem builtin_twin (e : Entry) (f : DecodeFacts) (hf : f.rejectCode < 2^32 ∧ f.failCode < 2^32) (decodable : Bool) (cl : Closure)
    (txt : Bytes) (hs : Sane req cl txt) :
    Twin req (builtinHandle f e req decodable cl txt) (builtinHandle f .owned req decodable cl txt) := by
  have herr : ∀ c m, c < 2^32 → 48 + req.query.length + m.length < 2^64 →
      Twin req (.ok (errorFor e req c m)) (.ok (errorFor .owned req c m)) := by
    intro c m hc hm
    cases e
    · exact ⟨errorLike_wf req c m hs.id hc hm, errorLike_wf req c m hs.id hc hm, rfl⟩
    · exact ⟨errorUnstamped_wf req c m hs.id hc (by omega), errorLike_wf req c m hs.id hc hm,
        (errorLike_eq_stamped req c m).symm⟩
  unfold builtinHandle
  cases hd : decodeDecision f req.header.bodyFormat req.body.isEmpty decodable with
  | reject c' =>
    obtain ⟨hc, _⟩ := decodeDecision_reject hd
    exact herr c' txt (by rw [hc]; exact hf.1) hs.txt
  | fail c' b =>
    obtain ⟨hc, _, _⟩ := decodeDecision_fail hd
    have hc' : c' < 2^32 := by rw [hc]; exact hf.2
    cases b
    · exact herr c' txt hc' hs.txt
    · exact ⟨rfl, rfl, hc', by have := hs.txt; omega⟩
  | value =>
    cases cl with
    | ok bf b =>
      have h := hs.cl
      exact ⟨builtinResponse_wf req bf b hs.id h.1 h.2, builtinResponse_wf req bf b hs.id h.1 h.2, rfl⟩
    | err c m =>
      have h := hs.cl
      exact herr c m h.1 h.2

/-- Non-vacuity of `Sane` / `builtin_twin`: a JSON handler answering `1` to `/a`, id 7. -/
example : Sane ⟨⟨48+2, 0x1507, 1, 0, 0, 7, 2, 0, 1, 2, 0⟩, [47, 97], []⟩ (.ok 2 [49]) [] :=
  ⟨by decide, by decide, by decide⟩

/-- A request to a built-in handler of any kind yields the same response on all four dispatch paths, whether or
not middleware wraps the route and whether or not it was registered with a `_blocking` constructor — with no
twin hypothesis: the owned and the borrowing decoder are the same rule by `decode_twins`. -/
theorem transports_agree_builtin (k : HKind) (t₁ t₂ : Transport) (w₁ w₂ b₁ b₂ decodable : Bool) (cl : Closure)
    (txt : Bytes) (hs : Sane req cl txt) :
    (builtinRespond Gen.serveFacts Gen.codes Gen.decodeFacts Gen.entryFacts t₁ req utf8 found k w₁ b₁ decodable cl txt).1 =
    (builtinRespond Gen.serveFacts Gen.codes Gen.decodeFacts Gen.entryFacts t₂ req utf8 found k w₂ b₂ decodable cl txt).1 := by
  have hf : (specDecode k).rejectCode < 2^32 ∧ (specDecode k).failCode < 2^32 := by cases k <;> decide
  have key : ∀ t e, (respond Gen.codes t req utf8 found (builtinHandle (specDecode k) e req decodable cl txt)
        (builtinHandle (specDecode k) .owned req decodable cl txt) []).1 =
      (respond Gen.codes .wsOff req utf8 found (builtinHandle (specDecode k) .owned req decodable cl txt)
        (builtinHandle (specDecode k) .owned req decodable cl txt) []).1 := by
    intro t e
    rw [transports_agree req utf8 found _ _ [] t .wsOff (builtin_twin req e (specDecode k) hf decodable cl txt hs) hs.id
      (by decide)]
    rw [respond_wsOff_hview]
  unfold builtinRespond
  simp only [respond_is_source, decode_facts]
  exact (key _ _).trans (key _ _).symm

/-- The response to a dispatched, non-notify request to a built-in handler carries the request's id and query and
the error code `builtinEc` of the documented decoding rule — on every transport, wrapped or not, blocking or not. -/
theorem builtin_response_code (k : HKind) (w b decodable : Bool) (cl : Closure) (txt : Bytes)
    (hr : route Gen.codes req utf8 found = .dispatch) (hn : req.isNotify = false) :
    ∃ m, (builtinRespond Gen.serveFacts Gen.codes Gen.decodeFacts Gen.entryFacts t req utf8 found k w b decodable cl txt).1
        = some m ∧
      m.header.ec = builtinEc (specDecode k) req.header.bodyFormat req.body.isEmpty decodable cl ∧
      m.header.id = req.header.id ∧ m.query = req.query := by
  unfold builtinRespond
  simp only [respond_is_source, decode_facts]
  rw [respond_dispatch _ _ _ _ _ _ _ _ hr hn]
  refine ⟨_, rfl, ?_, ?_, ?_⟩
  · rw [finalMessage_ec]; cases t <;> exact builtin_out_ec _ _ _ _ _ _ _
  · rw [finalMessage_id]; cases t <;> exact builtin_out_id _ _ _ _ _ _ _
  · rw [finalMessage_query]
    have h : ∀ m : Message, (m.query = [] ∨ m.query = req.query) →
        (if m.query.isEmpty then req.query else m.query) = req.query := by
      intro m hm
      rcases hm with h | h
      · simp [h]
      · rw [h]; split <;> rfl
    cases t <;> exact h _ (builtin_out_query _ _ _ _ _ _ _)

/-- An unacceptable body format is answered with InvalidBody by every built-in handler kind. -/
theorem unacceptable_format_code (k : HKind) (fmt : Nat) (bodyEmpty decodable : Bool) (cl : Closure)
    (hfmt : fmt ∉ (specDecode k).accepts) (hne : ((specDecode k).emptySkips && bodyEmpty) = false) :
    builtinEc (specDecode k) fmt bodyEmpty decodable cl = specCodes.invalidBody := by
  unfold builtinEc decodeDecision
  simp only [hne, hfmt]
  cases k <;> rfl

/-- An undecodable body in an accepted format is answered with ParseError — InvalidBody at a registry mount. -/
theorem undecodable_body_code (k : HKind) (fmt : Nat) (bodyEmpty : Bool) (cl : Closure)
    (hfmt : fmt ∈ (specDecode k).accepts) (hne : ((specDecode k).emptySkips && bodyEmpty) = false) :
    builtinEc (specDecode k) fmt bodyEmpty false cl =
      if k = .registry then specCodes.invalidBody else specCodes.parseError := by
  unfold builtinEc decodeDecision
  simp only [hne, hfmt]
  cases k <;> rfl

/-- A decodable body in an accepted format (or no body at a registry / struct mount) reports the closure's result. -/
theorem decoded_reports_closure (k : HKind) (fmt : Nat) (bodyEmpty : Bool) (cl : Closure)
    (h : fmt ∈ (specDecode k).accepts ∨ ((specDecode k).emptySkips && bodyEmpty) = true) :
    builtinEc (specDecode k) fmt bodyEmpty true cl = match cl with | .ok _ _ => 0 | .err c _ => c := by
  have hd : decodeDecision (specDecode k) fmt bodyEmpty true = .value := by
    unfold decodeDecision
    rcases h with h | h
    · by_cases hs : ((specDecode k).emptySkips && bodyEmpty) = true <;> simp [hs, h]
    · simp [h]
  unfold builtinEc
  rw [hd]
  cases cl <;> rfl

/-- Non-vacuity: BEVE-framed bytes to a JSON handler are accepted; a raw-binary frame is not; a registry mount
accepts raw binary. -/
example : (1 ∈ (specDecode .json).accepts) ∧ (0 ∉ (specDecode .json).accepts) ∧ (0 ∈ (specDecode .registry).accepts) := by
  decide

/-- The connection loop read off the source (flush after every response, in-order sends) is the modelled loop, hence
`inline_order` is about it. -/
theorem serve_loop_is_source (steps : List Step) :
    serveSeqG Gen.serveFacts Gen.codes t steps = serveSeq Gen.codes t steps [] 0 := by
  rw [serve_facts]
  unfold serveSeqG
  cases t <;> simp [specServe]

/-- WebSocket teardown: every response already queued when the reader ends (cleanly or with an error) is delivered. -/
theorem teardown_delivers_queued (queued : List Message) : teardownDelivered Gen.serveFacts queued = queued := by
  rw [serve_facts]; rfl

/-- An off-reader response survives a full outbound queue (peer not reading at the moment the handler returns). -/
theorem offreader_response_survives_full_queue (queueFull : Bool) (resp : Message) :
    offReaderHandoff Gen.serveFacts queueFull resp = some resp := by
  rw [serve_facts]; cases queueFull <;> rfl

/-- A request refused at the saturated off-reader cap is answered exactly once and its handler does not run. -/
theorem saturated_request_one_response_no_invocation : saturatedOutcome Gen.serveFacts = (1, 0) := by
  rw [serve_facts]; rfl

/-- A struct mount's handler is given exactly the pointer's segments, whatever their number (the 16/17 spill
boundary included): an unknown deep path cannot be served as its 16-segment prefix. -/
theorem struct_segments_all_delivered (segs : List String) : structSegmentsSeen Gen.serveFacts segs = segs := by
  rw [serve_facts]; simp [structSegmentsSeen, specServe]

/-- A dispatched notify is run exactly once on every path — also off the reader, whatever happens to the connection
in the meantime — and answered on none. -/
theorem notify_invoked_once_unanswered (hr : route Gen.codes req utf8 found = .dispatch) (hn : req.isNotify = true) :
    respondG Gen.serveFacts Gen.codes t req utf8 found hview howned rejMsg = (none, 1) := by
  rw [respond_is_source]
  unfold respond
  rw [hr]
  simp [hn]

end Repe.C03
