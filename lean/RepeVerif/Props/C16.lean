import RepeVerif.Lemmas.OffReader
import RepeVerif.Gen.Offreader
import RepeVerif.Props.C03
/-!
# C16 — Off-reader handlers are capped, never block the reader or kill the connection

> On a WebSocket connection the number of simultaneously running off-reader handlers never exceeds
> the configured per-connection cap; a request arriving at the cap is answered immediately with the
> retryable resource-exhausted error (a notify is dropped) while the connection keeps reading and
> answering other requests. Every handler exit, by return, error or panic, frees its slot; a panic is
> reported to its caller as an internal error with the request's id, and the connection and its other
> in-flight calls are unaffected.

clause → theorem
* the facts read off the current source are the ones the property needs ....... `C16.source_facts`
* running handlers never exceed the cap (every event order) ................... `C16.running_le_cap`
* the reader is never stuck: every frame is handled when it arrives ........... `C16.reader_never_blocked`, `C16.inline_answered_while_saturated`
* arrival at the cap: immediate ResourceExhausted with the id / notify dropped,
  nothing else changes ........................................................ `C16.saturation_immediate_and_inert`
* below the cap (or with no cap) a blocking request is admitted ............... `C16.admitted_below_cap`
* every exit (return, error, panic) frees the slot ............................ `C16.exit_frees_slot`
* when every handler has exited nothing is running, no permit is held, and
  cap-many further requests are admitted ...................................... `C16.all_exited_running_zero`, `C16.then_cap_many_admitted`
* a panic is reported as InternalError with the request's id .................. `C16.panic_reports_internal_same_id`
* each admitted request is answered exactly once on exit (a notify never) ..... `C16.exit_answers_once`
* the other calls are unaffected by how one handler ends ...................... `C16.others_unaffected`
* a middleware-wrapped blocking route is still off-reader ..................... `C16.wrapped_route_is_off_reader`

All theorems are about `run Gen.offFacts`/`step Gen.offFacts`, i.e. the model instantiated with the
facts extracted from the current source, for **every** list of events (arrivals of inline/blocking,
wrapped/unwrapped, notify/non-notify requests and handler exits of the three kinds, in any order,
including exits of ids that are not running), every cap and no cap.
-/
namespace Repe.C16

/-- `try_acquire_owned`, no wait in the saturation branch, `let _permit = permit;` first in the blocking
closure, `catch_unwind` around `dispatch`, InternalError / ResourceExhausted as the two reply codes,
saturated notifies dropped, both replies built from the request (id), `MiddlewarePipeline::execution` forwards, `_blocking` registrars wrap with
`OffReaderHandler` whose execution is `OffReader` — as extracted from `/repo` on this run. -/
theorem source_facts : Gen.offFacts = specOffFacts := by decide

theorem run_eq (s : St) (hf : Free s) (evs : List Ev) :
    run Gen.offFacts s evs = evs.foldl stepSpec s := by
  rw [source_facts]; exact (run_spec s hf evs).1

/-- Reachable states satisfy the permit invariant. -/
theorem reachable_inv (cap : Option Nat) (evs : List Ev) : Inv (run Gen.offFacts (St.init cap) evs) := by
  rw [run_eq _ (inv_init cap).1]
  exact foldl_inv _ (inv_init cap) evs

/-- **The cap is an invariant of every event order**: after any list of events on a connection with cap
`c`, at most `c` handlers are running, each holds a permit, and exactly that many permits are taken. -/
theorem running_le_cap (c : Nat) (evs : List Ev) :
    let s := run Gen.offFacts (St.init (some c)) evs
    s.running.length ≤ c ∧ s.permits = s.running.length := by
  have h := reachable_inv (some c) evs
  have hc : (run Gen.offFacts (St.init (some c)) evs).cap = some c := by
    rw [run_eq _ (inv_init _).1, foldl_cap]; rfl
  obtain ⟨_, h2⟩ := h
  rw [hc] at h2
  exact ⟨h2.2.1, h2.1⟩

example : (run Gen.offFacts (St.init (some 1))
    [.arrive ⟨1, .blocking, true, false, 0⟩, .arrive ⟨2, .blocking, false, false, 0⟩,
     .arrive ⟨3, .inline, false, false, 0⟩, .exit 1 .panic, .arrive ⟨4, .blocking, false, true, 0⟩]).outbound
    = [⟨2, 8⟩, ⟨3, 0⟩, ⟨1, 9⟩] := by decide

/-- The reader is never stuck: after any list of events it is idle and no frame is waiting to be read
(so every arriving frame is handled in the step in which it arrives). -/
theorem reader_never_blocked (cap : Option Nat) (evs : List Ev) :
    let s := run Gen.offFacts (St.init cap) evs
    s.readerBusy = none ∧ s.backlog = [] :=
  (reachable_inv cap evs).1

/-- Non-vacuity for the hypotheses used below (`Inv s`, cap reached, a running handler, room below the
cap): the state reached after two admissions on a cap-2 connection, reader free, outbound non-empty. -/
def exampleSt : St :=
  run Gen.offFacts (St.init (some 2))
    [.arrive ⟨7, .inline, false, false, 0⟩, .arrive ⟨1, .blocking, false, false, 0⟩, .arrive ⟨2, .blocking, true, true, 0⟩]

example : Inv exampleSt ∧ exampleSt.cap = some 2 ∧ exampleSt.running.length = 2 ∧
    (∃ r ∈ exampleSt.running, r.id = 1) ∧ exampleSt.outbound = [⟨7, 0⟩] ∧
    takeRun 2 exampleSt.running = some (⟨2, true, true⟩, [⟨1, false, true⟩]) := by
  refine ⟨reachable_inv _ _, by decide, by decide, ⟨⟨1, false, true⟩, by decide, rfl⟩, by decide, by decide⟩

example : Inv (St.init (some 3)) ∧ ∀ c, (St.init (some 3)).cap = some c → (St.init (some 3)).running.length < c :=
  ⟨inv_init _, by intro c h; cases h; decide⟩

variable (s : St)

/-- A blocking request that arrives with the cap reached: the reply `ResourceExhausted` carrying its id is
queued at once (nothing for a notify), the saturation is reported, and nothing else changes — no
handler is started, no permit moves, the reader stays free. -/
theorem saturation_immediate_and_inert (hi : Inv s) (c : Nat) (a : Arrival)
    (hc : s.cap = some c) (hfull : s.running.length = c) (hr : a.route = .blocking) :
    step Gen.offFacts s (.arrive a) =
      { s with outbound := s.outbound ++ (if a.notify then [] else [⟨a.id, Gen.codes.resourceExhausted⟩]),
               reports := s.reports ++ [.saturation a.id] } ∧
    Gen.codes.resourceExhausted = 8 := by
  refine ⟨?_, by decide⟩
  rw [source_facts, step_spec s hi.1]
  obtain ⟨_, h2⟩ := hi
  rw [hc] at h2
  have : ¬ s.permits < c := by omega
  simp only [stepSpec, hr, hc, this, if_false]
  cases a.notify <;> simp [push] <;> rfl

/-- An inline request is answered in the step in which it arrives, whatever is running — in
particular while the cap is saturated. -/
theorem inline_answered_while_saturated (hi : Inv s) (a : Arrival) (hr : a.route = .inline) (hn : a.notify = false) :
    (step Gen.offFacts s (.arrive a)).outbound = s.outbound ++ [⟨a.id, a.inlineEc⟩] ∧
    (step Gen.offFacts s (.arrive a)).running = s.running := by
  rw [source_facts, step_spec s hi.1]
  simp [stepSpec, hr, hn]

/-- Below the cap, or with no cap, a blocking request is admitted: a handler starts, nothing is queued. -/
theorem admitted_below_cap (hi : Inv s) (a : Arrival) (hr : a.route = .blocking)
    (hroom : ∀ c, s.cap = some c → s.running.length < c) :
    (step Gen.offFacts s (.arrive a)).running = s.running ++ [⟨a.id, a.notify, s.cap.isSome⟩] ∧
    (step Gen.offFacts s (.arrive a)).outbound = s.outbound ∧
    (step Gen.offFacts s (.arrive a)).reports = s.reports := by
  rw [source_facts, step_spec s hi.1]
  obtain ⟨_, h2⟩ := hi
  cases hc : s.cap with
  | none => simp [stepSpec, hr, hc]
  | some c =>
    rw [hc] at h2
    have : s.permits < c := by have := hroom c hc; omega
    simp [stepSpec, hr, hc, this]

/-- Every exit — return, error or panic — of a running handler frees its slot: one fewer handler is
running, the permit count follows, and (with a cap) there is room for a new request. -/
theorem exit_frees_slot (hi : Inv s) (id : Nat) (k : ExitKind) (hrun : ∃ r ∈ s.running, r.id = id) :
    let s' := step Gen.offFacts s (.exit id k)
    s'.running.length + 1 = s.running.length ∧ Inv s' ∧
    (∀ c, s.cap = some c → s'.permits + 1 = s.permits ∧ s'.running.length < c) := by
  have hinv : Inv (step Gen.offFacts s (.exit id k)) := by
    rw [source_facts, step_spec s hi.1]; exact stepSpec_inv s hi _
  refine ⟨?_, hinv, ?_⟩
  · rw [source_facts, step_spec s hi.1]
    obtain ⟨r, rest, ht⟩ := takeRun_of_mem hrun
    have := (takeRun_some ht).2.2.1
    simp only [stepSpec, ht]
    cases k <;> simpa using this
  · intro c hc
    have hlen : (step Gen.offFacts s (.exit id k)).running.length + 1 = s.running.length := by
      rw [source_facts, step_spec s hi.1]
      obtain ⟨r, rest, ht⟩ := takeRun_of_mem hrun
      have := (takeRun_some ht).2.2.1
      simp only [stepSpec, ht]
      cases k <;> simpa using this
    have hc' : (step Gen.offFacts s (.exit id k)).cap = some c := by
      rw [source_facts, step_spec s hi.1, stepSpec_cap]; exact hc
    obtain ⟨_, h2⟩ := hinv
    obtain ⟨_, h1⟩ := hi
    rw [hc'] at h2
    rw [hc] at h1
    omega

/-- When every running handler has exited (in the order they were admitted here; any order works by
`exit_frees_slot`), in whatever way each one ends, nothing is running and no permit is held. -/
theorem all_exited_running_zero (hi : Inv s) (ks : Run → ExitKind) :
    let s' := run Gen.offFacts s (s.running.map (fun r => Ev.exit r.id (ks r)))
    s'.running = [] ∧ (∀ c, s.cap = some c → s'.permits = 0) ∧ Inv s' := by
  have he : run Gen.offFacts s (s.running.map (fun r => Ev.exit r.id (ks r))) =
      (s.running.map (fun r => Ev.exit r.id (ks r))).foldl stepSpec s := run_eq s hi.1 _
  have hinv := foldl_inv s hi (s.running.map (fun r => Ev.exit r.id (ks r)))
  have hrun := exit_all s ks
  simp only [he]
  refine ⟨hrun, ?_, hinv⟩
  intro c hc
  obtain ⟨_, h2⟩ := hinv
  rw [foldl_cap, hc] at h2
  rw [h2.1, hrun]; rfl

/-- No leaked slot: from a state in which nothing is running, `c` further blocking requests are all
admitted (none is rejected), and the next one is the first to be refused. -/
theorem then_cap_many_admitted (hi : Inv s) (c : Nat) (hc : s.cap = some c) (h0 : s.running = [])
    (as : List Arrival) (hb : ∀ a ∈ as, a.route = .blocking) (hlen : as.length ≤ c) :
    let s' := run Gen.offFacts s (as.map Ev.arrive)
    s'.running = as.map (fun a => ⟨a.id, a.notify, true⟩) ∧ s'.outbound = s.outbound ∧
    s'.reports = s.reports := by
  rw [run_eq s hi.1]
  -- generalise to any prefix already admitted
  suffices h : ∀ (as : List Arrival) (t : St), Inv t → t.cap = some c →
      (∀ a ∈ as, a.route = .blocking) → t.running.length + as.length ≤ c →
      ((as.map Ev.arrive).foldl stepSpec t).running = t.running ++ as.map (fun a => ⟨a.id, a.notify, true⟩) ∧
      ((as.map Ev.arrive).foldl stepSpec t).outbound = t.outbound ∧
      ((as.map Ev.arrive).foldl stepSpec t).reports = t.reports by
    have := h as s hi hc hb (by rw [h0]; simpa using hlen)
    rw [h0] at this
    simpa using this
  intro as
  induction as with
  | nil => intro t _ _ _ _; simp
  | cons a rest ih =>
    intro t ht htc hbl hl
    have hroute := hbl a (List.mem_cons_self ..)
    obtain ⟨_, h2⟩ := ht
    have ht' : Inv t := ⟨by assumption, h2⟩
    rw [htc] at h2
    have hp : t.permits < c := by simp at hl; omega
    have hstep : stepSpec t (.arrive a) =
        { t with permits := t.permits + 1, running := t.running ++ [⟨a.id, a.notify, true⟩] } := by
      simp [stepSpec, hroute, htc, hp]
    simp only [List.map_cons, List.foldl_cons]
    have hinv' := stepSpec_inv t ht' (.arrive a)
    rw [hstep] at hinv' ⊢
    have := ih _ hinv' htc (fun x hx => hbl x (List.mem_cons_of_mem _ hx)) (by simp at hl ⊢; omega)
    simpa using this

/-- The response an exit queues: exactly one, for the exiting request's id, with code 0 / the handler's
error code / InternalError — and none if the request was a notify. Nothing else is queued. -/
theorem exit_answers_once (hi : Inv s) (id : Nat) (k : ExitKind) (r : Run) (rest : List Run)
    (ht : takeRun id s.running = some (r, rest)) :
    (step Gen.offFacts s (.exit id k)).outbound =
      s.outbound ++ (if r.notify then [] else [⟨id, match k with | .ret => 0 | .err c => c | .panic => Gen.codes.internalError⟩]) ∧
    (step Gen.offFacts s (.exit id k)).running = rest := by
  rw [source_facts, step_spec s hi.1]
  simp only [stepSpec, ht]
  cases k <;> simp <;> rfl

/-- A panicking handler: its caller gets `InternalError` (9) with the request's id, the panic is
reported, the slot is freed, and the connection state is otherwise what it was (reader free, other
handlers still running). -/
theorem panic_reports_internal_same_id (hi : Inv s) (id : Nat) (r : Run) (rest : List Run)
    (ht : takeRun id s.running = some (r, rest)) (hn : r.notify = false) :
    let s' := step Gen.offFacts s (.exit id .panic)
    s'.outbound = s.outbound ++ [⟨id, 9⟩] ∧ s'.reports = s.reports ++ [.handlerPanic id] ∧
    s'.running = rest ∧ s'.readerBusy = none ∧ s'.backlog = [] ∧ Inv s' := by
  have hinv : Inv (step Gen.offFacts s (.exit id .panic)) := by
    rw [source_facts, step_spec s hi.1]; exact stepSpec_inv s hi _
  refine ⟨?_, ?_, ?_, hinv.1.1, hinv.1.2, hinv⟩
  · rw [(exit_answers_once s hi id .panic r rest ht).1, hn]; rfl
  · rw [source_facts, step_spec s hi.1]; simp [stepSpec, ht]
  · exact (exit_answers_once s hi id .panic r rest ht).2

example : takeRun 5 [⟨4, false, true⟩, ⟨5, false, true⟩] = some (⟨5, false, true⟩, [⟨4, false, true⟩]) := by decide

/-- **Others unaffected**: change the way handler `h` ends (return ↔ error ↔ panic) anywhere in any
event list: the sequence of responses to all *other* requests, the set of running handlers, the
permit count and the reader state after the run are exactly the same. -/
theorem others_unaffected (cap : Option Nat) (h : Nat) (k : ExitKind) (evs : List Ev) :
    let s1 := run Gen.offFacts (St.init cap) evs
    let s2 := run Gen.offFacts (St.init cap) (evs.map (rekind h k))
    s1.outbound.filter (·.id ≠ h) = s2.outbound.filter (·.id ≠ h) ∧
    s1.running = s2.running ∧ s1.permits = s2.permits ∧ s1.readerBusy = s2.readerBusy := by
  simp only
  rw [run_eq _ (inv_init cap).1, run_eq _ (inv_init cap).1]
  obtain ⟨_, hp, hr, hb, _, ho⟩ := foldl_sameBut h k _ _ (SameBut.rfl' h (St.init cap)) evs
  exact ⟨ho, hr, hp, hb⟩

/-- A blocking route behind router middleware is dispatched off the reader exactly like an unwrapped
one (`MiddlewarePipeline::execution` forwards). -/
theorem wrapped_route_is_off_reader (hi : Inv s) (a : Arrival) (hr : a.route = .blocking) :
    effectiveOff Gen.offFacts a = true ∧
    step Gen.offFacts s (.arrive a) = step Gen.offFacts s (.arrive { a with wrapped := !a.wrapped }) := by
  rw [source_facts]
  refine ⟨by simp [effectiveOff, hr, specOffFacts], ?_⟩
  rw [step_spec s hi.1, step_spec s hi.1]
  simp [stepSpec, hr]

/-! ### composition with C03 (dispatch): the off-reader path of both models is the same path -/

/-- **C03 ∘ C16.** An admitted, non-notify request whose handler *returns* (a message of its own, or an
error): the response C03's `respond … .wsOff` computes — request id, query stamp, error mapping through
`errorLike` — is, in its id and error code, exactly the entry this model's `exit` step appends to the
outbound FIFO; and it is C03's single response for that request. (`hok`: a handler's own message
carries the request id and no error code — the built-in handlers' contract, cf. `C03.query_echo`.) -/
theorem admitted_exit_is_c03_response (hi : Inv s) (req : Req) (utf8 found : Bool) (hview howned : HOut)
    (r : Run) (rest : List Run)
    (hroute : route Gen.codes req utf8 found = .dispatch) (hn : req.isNotify = false)
    (ht : takeRun req.header.id s.running = some (r, rest)) (hrn : r.notify = false)
    (hok : ∀ m, howned = .ok m → m.header.id = req.header.id ∧ m.header.ec = 0) :
    ∃ m, (respond Gen.codes .wsOff req utf8 found hview howned).1 = some m ∧
      (respond Gen.codes .wsOff req utf8 found hview howned).2 = 1 ∧
      m.header.id = req.header.id ∧
      (step Gen.offFacts s (.exit req.header.id (exitOf howned))).outbound = s.outbound ++ [respOf m] := by
  have hstep := (exit_answers_once s hi req.header.id (exitOf howned) r rest ht).1
  rw [hrn] at hstep
  have hcnt : (respond Gen.codes .wsOff req utf8 found hview howned).2 = 1 := by
    rw [C03.handler_once, hroute]; rfl
  cases howned with
  | ok mo =>
    obtain ⟨h1, h2⟩ := hok mo rfl
    refine ⟨stampResponseQuery mo req.query, ?_, hcnt, ?_, ?_⟩
    · unfold respond; rw [hroute]; simp [hn, finalMessage]
    · rw [stamp_id, h1]
    · rw [hstep]; simp [respOf, exitOf, stamp_id, stamp_ec, h1, h2]
  | err c msg =>
    refine ⟨stampResponseQuery (errorLike req c msg) req.query, ?_, hcnt, ?_, ?_⟩
    · unfold respond; rw [hroute]; simp [hn, finalMessage]
    · rw [stamp_id]; rfl
    · rw [hstep]; simp [respOf, exitOf, stamp_id, stamp_ec]

/-- The two replies `spawn_off_reader` builds itself are C03's `errorLike` (request id and query, the
given code): the saturation reply and the panic reply of this model are `respOf` of those messages. -/
theorem own_replies_are_errorLike (hi : Inv s) (req : Req) (msg : Bytes) :
    (∀ c a, s.cap = some c → s.running.length = c → a.route = .blocking → a.notify = false →
      a.id = req.header.id →
      (step Gen.offFacts s (.arrive a)).outbound =
        s.outbound ++ [respOf (errorLike req Gen.codes.resourceExhausted msg)]) ∧
    (∀ r rest, takeRun req.header.id s.running = some (r, rest) → r.notify = false →
      (step Gen.offFacts s (.exit req.header.id .panic)).outbound =
        s.outbound ++ [respOf (stampResponseQuery (errorLike req Gen.codes.internalError msg) req.query)]) := by
  constructor
  · intro c a hc hfull hr hnn hid
    rw [(saturation_immediate_and_inert s hi c a hc hfull hr).1]
    simp [hnn, respOf, hid]
  · intro r rest ht hrn
    rw [(exit_answers_once s hi req.header.id .panic r rest ht).1, hrn]
    simp [respOf, stamp_id, stamp_ec]

/-- A notify request: C03 gives no response, and this model's exit of a notify handler queues none. -/
theorem notify_exit_is_c03_none (hi : Inv s) (req : Req) (utf8 found : Bool) (hview howned : HOut)
    (k : ExitKind) (r : Run) (rest : List Run) (hn : req.isNotify = true)
    (ht : takeRun req.header.id s.running = some (r, rest)) (hrn : r.notify = true) :
    (respond Gen.codes .wsOff req utf8 found hview howned).1 = none ∧
    (step Gen.offFacts s (.exit req.header.id k)).outbound = s.outbound := by
  refine ⟨C03.no_response_for_notify .wsOff req utf8 found hview howned [] hn, ?_⟩
  rw [(exit_answers_once s hi req.header.id k r rest ht).1, hrn]; simp

example : route Gen.codes ⟨⟨48+2, 0x1507, 1, 0, 0, 7, 2, 0, 1, 2, 0⟩, [47, 97], []⟩ true true = .dispatch ∧
    (⟨⟨48+2, 0x1507, 1, 0, 0, 7, 2, 0, 1, 2, 0⟩, [47, 97], []⟩ : Req).isNotify = false := by decide

/-! ### configuration, and several connections of one server -/

/-- `WebSocketServer::new` caps every connection at `DEFAULT_OFFREADER_LIMIT` (whatever value the source
gives it; 16 today); `with_offreader_limit(0)` removes the cap; `with_offreader_limit(n)`, `n > 0`, caps
at `n` — and the cap is the number of permits of a semaphore each connection gets for itself. -/
theorem configured_cap :
    connectionCap Gen.capFacts .default = some Gen.capFacts.defaultLimit ∧
    connectionCap Gen.capFacts (.set 0) = none ∧
    ∀ n, 0 < n → connectionCap Gen.capFacts (.set n) = some n := by
  have hf : Gen.capFacts.newUsesDefault = true ∧ Gen.capFacts.zeroMeansUnlimited = true ∧
      Gen.capFacts.semaphoreIsLimitPerConnection = true := by decide
  obtain ⟨h1, h2, h3⟩ := hf
  refine ⟨by simp [connectionCap, configuredLimit, h1, h3], by simp [connectionCap, configuredLimit, h2, h3], ?_⟩
  intro n hn
  simp [connectionCap, configuredLimit, h3, hn]

/-- **Per connection, for every interleaving.** Whatever happens on a server — connections accepted,
events on any of them in any order, connections going away while handlers are still running — every
connection, open or closed, keeps the permit invariant against the configured cap: at most `cap` of
*its* handlers run, and its permits taken equal its handlers running. -/
theorem server_every_connection_capped (setting : CapSetting) (evs : List SEv) :
    ∀ c ∈ srun Gen.offFacts Gen.capFacts setting evs,
      Inv c.st ∧ c.st.cap = connectionCap Gen.capFacts setting ∧
      ∀ k, connectionCap Gen.capFacts setting = some k → c.st.running.length ≤ k := by
  intro c hc
  rw [source_facts] at hc
  obtain ⟨h1, h2⟩ := srun_inv Gen.capFacts setting evs [] (by simp) c hc
  refine ⟨h1, h2, ?_⟩
  intro k hk
  obtain ⟨_, h3⟩ := h1
  rw [h2, hk] at h3
  exact h3.2.1

/-- Connections do not share slots: an event on connection `i` (or its disconnect) leaves every other
connection exactly as it was, and a new connection starts with nothing running however many handlers
of older connections still hold permits. -/
theorem connections_independent (setting : CapSetting) (conns : List Conn) (i j : Nat) (e : Ev) (h : j ≠ i) :
    (sstep Gen.offFacts Gen.capFacts setting conns (.ev i e))[j]? = conns[j]? ∧
    (sstep Gen.offFacts Gen.capFacts setting conns (.disconnect i))[j]? = conns[j]? ∧
    (sstep Gen.offFacts Gen.capFacts setting conns .connect)[conns.length]? =
      some ⟨St.init (connectionCap Gen.capFacts setting), false⟩ :=
  ⟨modifyNth_getElem?_ne _ _ _ _ h, modifyNth_getElem?_ne _ _ _ _ h, by simp [sstep]⟩

/-- A handler that outlives its connection still frees its slot when it ends (return, error or panic);
its answer is discarded and nothing else about the closed connection changes. -/
theorem closed_connection_exit_frees_slot (c : Conn) (hi : Inv c.st) (hc : c.closed = true)
    (id : Nat) (k : ExitKind) (r : Run) (rest : List Run) (ht : takeRun id c.st.running = some (r, rest)) :
    let c' := connStep Gen.offFacts c (.exit id k)
    c'.st.running = rest ∧ c'.st.outbound = c.st.outbound ∧ Inv c'.st ∧ c'.closed = true ∧
    (∀ n, c.st.cap = some n → c'.st.permits + 1 = c.st.permits) := by
  have h2 := (exit_answers_once c.st hi id k r rest ht).2
  have hinv := connStep_inv c hi (.exit id k)
  rw [← source_facts] at hinv
  have hrun : (connStep Gen.offFacts c (.exit id k)).st.running = rest := by
    simp only [connStep, hc, if_true]; exact h2
  refine ⟨hrun, by simp [connStep, hc], hinv.1, by rw [hinv.2.2, hc], ?_⟩
  intro n hn
  obtain ⟨_, h3⟩ := hinv.1
  rw [hinv.2.1, hn] at h3
  obtain ⟨_, h4⟩ := hi
  rw [hn] at h4
  have := (takeRun_some ht).2.2.1
  rw [h3.1, hrun, h4.1]; omega

example : ∃ c : Conn, Inv c.st ∧ c.closed = true ∧ c.st.cap = some 2 ∧
    takeRun 1 c.st.running = some (⟨1, false, true⟩, [⟨2, true, true⟩]) :=
  ⟨⟨exampleSt, true⟩, reachable_inv _ _, rfl, by decide, by decide⟩

end Repe.C16
