import RepeVerif.Lemmas.Transfer
import RepeVerif.Gen.Transfer
/-!
# C13 — An accepted resume replays a gapless tail; the replay buffer stays bounded

> A resume request is accepted only for the current file, before cancellation, at an offset that is a
> retained chunk boundary, the trailing edge, or zero on an empty buffer; whenever it is accepted, the
> chunks offered for replay start exactly at that offset and continue contiguously, byte-identical to
> what was originally sent, up to the last byte emitted, so the receiver's stream has no gap or
> duplicate. The buffer always retains the most recent chunk and otherwise never holds more than its
> byte capacity, evicting oldest first, and a file advance empties it and discards any pending resume.

Model: the ring inside `Repe.Transfer.State` (`chunks`, `bytesHeld`, `capacity`; a chunk carries its wire
body verbatim), `push_replay` with the eviction loop whose guard is `Gen.transferFacts`, `covers`,
`replay_from`, and the resume / reconnect / advance steps.  Histories are arbitrary `List Op` of any
length over all naturals; both build profiles.

Domain (stated as hypotheses where needed): logical offsets of retained chunks end below 2^64
(`c.offset + c.dataLen < 2^64`: a file shorter than 16 EiB), the total of wire bytes pushed by a history is
below 2^64 (`bytes_held`'s `saturating_add` never saturates), and for contiguity the pushes abut (the API's
stated contract, enforced by the code's `debug_assert!`: in the dev profile it needs no hypothesis).

clause → theorem
* facts the proofs rest on ....................................... `evict_keep_one_fact`, `resume_cap_fact`, `advance_fact`, `defaults_fact`
* ring = suffix of the pushes since the last advance (oldest first, bodies verbatim) `ring_is_suffix`
* ring contiguous under abutting pushes / always in the dev profile . `ring_contiguous`, `ring_contiguous_dev`
* bytes_held = Σ wire; > 1 chunk only within capacity (capacity 0 too)  `ring_bounded`
* the newest chunk is always retained ............................ `push_retains_newest`
* resume accepted ⇔ ¬cancelled ∧ current file ∧ boundary/edge/0-on-empty `resume_accept_iff`
* accepted ⇒ replay tail starts at the offset, contiguous, ends at the newest chunk, empty only at the edge `replay_gapless`
* … and stays so until the next push/advance .................... `replay_stable`
* end to end: the tail is a suffix of the pushes since the last advance (byte-identical) `replay_byte_identical`
* accepted resume installs peer and pending; acked only moves within (acked, sent] `resume_installs_peer_and_pending`
* reconnect hands the pending resume over exactly once ........... `reconnect_consumes_once`
* advance empties ring, resets offsets, discards pending ......... `advance_clears_ring_and_pending`
* concurrent callers: one lock region per method ⇒ interleavings are sequential histories `single_section_ops`
-/
namespace Repe.C13
open Repe Repe.Transfer

abbrev F : Facts := Gen.transferFacts

/-- The eviction loop stops while one chunk is left (`&& self.chunks.len() > 1`). -/
theorem evict_keep_one_fact : F.evictKeepOne = true := by decide

/-- `request_resume`'s implicit ACK is capped by `sent_offset`; `advance_to_file` drops the pending resume
unconditionally and leaves `cancelled` alone; `wait_for_reconnect` tests `cancelled` first. -/
theorem resume_cap_fact : F.resumeCap = true := by decide
theorem advance_fact : F.advanceDropsPending = true ∧ F.advanceKeepsCancel = true := by decide

/-- `TransferControl::new(w)` builds the ring with `DEFAULT_REPLAY_RING_BYTES`, and that default is at least the
default window, so with default settings a whole window of in-flight chunks is retained for replay; both fit u64. -/
theorem defaults_fact :
    Gen.newUsesDefaultRing = true ∧ Gen.defaultWindowBytes ≤ Gen.defaultReplayRingBytes ∧
    0 < Gen.defaultWindowBytes ∧ Gen.defaultReplayRingBytes < U64 := by decide

/-- The ring always is a suffix of the chunks pushed since the last `advance_to_file` — eviction is
oldest-first and never alters a retained chunk (offset, length, flag and wire body are the pushed ones).
`runLog` is the ghost log of pushes that returned. -/
theorem ring_is_suffix (m : OvMode) (window capacity : Nat) (ops : List Op) :
    ∃ evicted, runLog F m (init window capacity) [] ops = evicted ++ (run F m (init window capacity) ops).chunks :=
  suffix_run ops (init window capacity) [] ⟨[], rfl⟩

/-- Under abutting pushes the retained chunks form one contiguous run: `next.offset = prev.offset + prev.data_len`. -/
theorem ring_contiguous (m : OvMode) (window capacity : Nat) (ops : List Op)
    (hab : abutsAllB F m (init window capacity) ops = true) :
    Contig (run F m (init window capacity) ops).chunks :=
  contig_run ops _ (by simp [init, Contig]) (Or.inl hab)

/-- In the dev profile the `debug_assert!` enforces the contract (a violating push panics and changes nothing),
so contiguity needs no hypothesis. -/
theorem ring_contiguous_dev (window capacity : Nat) (ops : List Op) :
    Contig (run F .checks (init window capacity) ops).chunks :=
  contig_run ops _ (by simp [init, Contig]) (Or.inr rfl)

example : abutsAllB F .wraps (init 4 3)
    [.pushReplay 0 2 false [1, 2, 3], .pushReplay 2 0 false [], .pushReplay 2 1 true [9], .advance 1, .pushReplay 7 1 false [5]] = true := by
  decide

/-- After every history: `bytes_held` is exactly the wire size of the retained chunks, and more than one
chunk is retained only while that size is within the capacity (a single oversized chunk, and capacity 0,
included). -/
theorem ring_bounded (m : OvMode) (window capacity : Nat) (ops : List Op) (hw : wireOf ops < U64) :
    let s := run F m (init window capacity) ops
    s.bytesHeld = sumWire s.chunks ∧ (s.chunks.length ≤ 1 ∨ sumWire s.chunks ≤ capacity) := by
  have h := ringInv_run (f := F) (m := m) ops (init window capacity) (by simp [RingInv, init, sumWire])
    (by simpa [init] using hw)
  have hcap : (run F m (init window capacity) ops).capacity = capacity :=
    run_inv (fun s => s.capacity = capacity) (fun s op hs => by rw [step_capacity]; exact hs) ops _ rfl
  refine ⟨h.1, ?_⟩
  rcases h.2 with h2 | h2
  · exact Or.inl h2
  · right; rw [h.1, hcap] at h2; exact h2

example : wireOf [.pushReplay 0 2 false [1, 2, 3], .recordSent 2, .pushReplay 2 1 true [9]] < U64 := by decide

/-- A push that returns leaves its chunk as the newest entry: the most recent chunk is never evicted. -/
theorem push_retains_newest (m : OvMode) (s : State) (off dlen : Nat) (last : Bool) (body : Bytes)
    (hp : s.poisoned = false) (ha : pushAssertOk m s.chunks off = true) :
    (step F m s (.pushReplay off dlen last body)).1.chunks.getLast? = some ⟨off, dlen, last, body⟩ :=
  push_keeps_newest evict_keep_one_fact s off dlen last body hp ha

/-- A resume is accepted exactly for the current file, before cancellation, at zero on an empty ring, at a
retained chunk boundary, or at the trailing edge. -/
theorem resume_accept_iff (m : OvMode) (s : State) (p file off : Nat) (hp : s.poisoned = false)
    (hedge : ∀ c, s.chunks.getLast? = some c → c.offset + c.dataLen < U64) :
    (step F m s (.requestResume p file off)).2 = .resumeOk off ↔
      (s.cancelled = none ∧ file = s.file ∧
        ((s.chunks = [] ∧ off = 0) ∨ (∃ c ∈ s.chunks, c.offset = off) ∨
         (∃ c, s.chunks.getLast? = some c ∧ off = c.offset + c.dataLen))) :=
  Transfer.resume_accept_iff s p file off hp hedge

def exState : State :=
  { window := 8, capacity := 8, sent := 5, acked := 1,
    chunks := [⟨2, 3, false, [1, 2, 3, 4]⟩, ⟨5, 2, false, [7, 7]⟩], bytesHeld := 6 }

example : (step F .checks exState (.requestResume 9 0 5)).2 = .resumeOk 5 := by decide
example : (step F .checks exState (.requestResume 9 0 7)).2 = .resumeOk 7 := by decide
example : (step F .checks exState (.requestResume 9 0 3)).2 = .resumeOutOfWindow := by decide
example : (step F .checks exState (.requestResume 9 0 0)).2 = .resumeOutOfWindow := by decide

/-- Whenever a resume is accepted at `off` on a contiguous ring, what `replay_chunks_from(off)` offers is a
suffix of the ring (so, by `ring_is_suffix`, of the original sends, bodies verbatim) that starts exactly at
`off`, is contiguous, ends with the newest chunk (the last byte emitted), leaves only chunks below `off`
behind, and is empty only when `off` is the trailing edge (or nothing was pushed and `off = 0`). -/
theorem replay_gapless (m : OvMode) (s : State) (p file off : Nat) (hp : s.poisoned = false)
    (hedge : ∀ c, s.chunks.getLast? = some c → c.offset + c.dataLen < U64) (hc : Contig s.chunks)
    (hacc : (step F m s (.requestResume p file off)).2 = .resumeOk off) :
    let s' := (step F m s (.requestResume p file off)).1
    let tail := replayFrom s'.chunks off
    (step F m s' (.replayFrom off)).2 = .chunks tail ∧
    (∃ before, s'.chunks = before ++ tail ∧ ∀ c ∈ before, c.offset < off) ∧
    Contig tail ∧
    (∀ h, tail.head? = some h → h.offset = off) ∧
    (tail ≠ [] → tail.getLast? = s'.chunks.getLast?) ∧
    (tail = [] → (s'.chunks = [] ∧ off = 0) ∨ ∃ c, s'.chunks.getLast? = some c ∧ off = c.offset + c.dataLen) := by
  have hb := ((Transfer.resume_accept_iff (f := F) (m := m) s p file off hp hedge).mp hacc).2.2
  have hch : (step F m s (.requestResume p file off)).1.chunks = s.chunks := (step_chunks_other s _ rfl).1
  have hpo : (step F m s (.requestResume p file off)).1.poisoned = false := by
    rw [resume_effect resume_cap_fact s p file off hacc]; exact hp
  simp only [hch]
  refine ⟨?_, replay_tail hc hb⟩
  rw [step_replayFrom _ _ hpo, hch]

example : Contig exState.chunks ∧ ∀ c, exState.chunks.getLast? = some c → c.offset + c.dataLen < U64 := by
  refine ⟨by decide, ?_⟩
  intro c hc
  simp [exState] at hc
  subst hc
  decide

/-- End to end, for a whole history from a fresh control (the entry points users call): if after any abutting
history a resume is accepted at `off`, then what `replay_chunks_from(off)` offers is a suffix of the chunks the
producer pushed since the last file advance — the same chunks, bodies byte-identical, nothing missing up to the
last push — and it starts at `off`. -/
theorem replay_byte_identical (m : OvMode) (window capacity : Nat) (ops : List Op) (p file off : Nat)
    (hab : abutsAllB F m (init window capacity) ops = true)
    (hp : (run F m (init window capacity) ops).poisoned = false)
    (hedge : ∀ c, (run F m (init window capacity) ops).chunks.getLast? = some c → c.offset + c.dataLen < U64)
    (hacc : (step F m (run F m (init window capacity) ops) (.requestResume p file off)).2 = .resumeOk off) :
    let tail := replayFrom (run F m (init window capacity) ops).chunks off
    (∃ earlier, runLog F m (init window capacity) [] ops = earlier ++ tail) ∧
    (∀ h, tail.head? = some h → h.offset = off) ∧ Contig tail := by
  obtain ⟨ev, hev⟩ := ring_is_suffix m window capacity ops
  have hc := ring_contiguous m window capacity ops hab
  have hb := ((Transfer.resume_accept_iff (f := F) (m := m) _ p file off hp hedge).mp hacc).2.2
  obtain ⟨⟨before, hbef, _⟩, hct, hhead, _, _⟩ := replay_tail hc hb
  refine ⟨⟨ev ++ before, ?_⟩, hhead, hct⟩
  rw [hev, List.append_assoc, ← hbef]

/-- The tail offered for replay does not change until the next `push_replay` or `advance_to_file`. -/
theorem replay_stable (m : OvMode) (s : State) (ops : List Op) (h : ∀ op ∈ ops, isPushOrAdvance op = false)
    (off : Nat) : replayFrom (run F m s ops).chunks off = replayFrom s.chunks off := by
  rw [run_chunks_stable ops s h]

/-- An accepted resume installs the new peer and the pending resume, and moves the acknowledged offset only
to an offset in `(acked, sent]`; nothing else changes. -/
theorem resume_installs_peer_and_pending (m : OvMode) (s : State) (p file off : Nat)
    (hacc : (step F m s (.requestResume p file off)).2 = .resumeOk off) :
    (step F m s (.requestResume p file off)).1 =
      { s with peer := some p, pending := some off,
               acked := if off > s.acked ∧ off ≤ s.sent then off else s.acked } :=
  resume_effect resume_cap_fact s p file off hacc

/-- `wait_for_reconnect` hands a pending resume to the producer exactly once: the first wait returns it and
clears the slot, the next one (nothing new having arrived) times out. -/
theorem reconnect_consumes_once (m : OvMode) (s : State) (o : Nat) (hp : s.poisoned = false)
    (hc : s.cancelled = none) (hpend : s.pending = some o) :
    step F m s .waitReconnect = ({ s with pending := none }, .reconnResume o) ∧
    step F m (step F m s .waitReconnect).1 .waitReconnect = ({ s with pending := none }, .reconnTimeout) := by
  simp [step, hp, hc, hpend]

example : (step F .checks exState (.requestResume 9 0 5)).1.pending = some 5 ∧
    (step F .checks exState (.requestResume 9 0 5)).1.cancelled = none := by decide

/-- A file advance empties the ring, resets both offsets, discards any pending resume — so the next
reconnect wait cannot hand over a resume staged for the old file. -/
theorem advance_clears_ring_and_pending (m : OvMode) (s : State) (n : Nat) (hp : s.poisoned = false) :
    (step F m s (.advance n)).1 =
      { s with file := n, sent := 0, acked := 0, chunks := [], bytesHeld := 0, pending := none } ∧
    (∀ o, (step F m (step F m s (.advance n)).1 .waitReconnect).2 ≠ .reconnResume o) := by
  refine ⟨by simp [step, hp, advance_fact.1, advance_fact.2], ?_⟩
  intro o
  simp only [step, hp, if_false, Bool.false_eq_true, advance_fact.1, advance_fact.2, if_true]
  cases s.cancelled <;> cases F.reconnCancelFirst <;> simp

/-- Every method body takes the mutex exactly once (fact re-extracted on every run), so concurrent callers
produce an interleaving of whole calls, i.e. a sequential history, and the ring theorems — stated for every
history — apply to it: the ring is a suffix of the pushes and bounded, whatever the interleaving of the
producer's pushes with inbound resumes, cancels and acks. -/
theorem single_section_ops :
    singleSection Gen.transferLockCalls = true ∧
    ∀ (m' : OvMode) (window capacity : Nat) (ts : List (List Op)) (m : List Op), Merge ts m →
      (∃ evicted, runLog F m' (init window capacity) [] m = evicted ++ (run F m' (init window capacity) m).chunks) ∧
      (wireOf m < U64 →
        (run F m' (init window capacity) m).bytesHeld = sumWire (run F m' (init window capacity) m).chunks ∧
        ((run F m' (init window capacity) m).chunks.length ≤ 1 ∨
          sumWire (run F m' (init window capacity) m).chunks ≤ capacity)) :=
  ⟨by decide, fun m' w c _ m _ => ⟨ring_is_suffix m' w c m, fun hw => ring_bounded m' w c m hw⟩⟩

/-- The extractor saw none of the source shapes it knows to be dangerous for this property (a third disjunct in
the grant condition, a wrapping sum, an `abs_diff` in-flight, a file gate other than `==`, a `record_sent` that is
not a high-water mark, an eviction that is an `if` or subtracts the wrong length, a `covers` / `replay_from`
comparison other than the documented one, a pending resume that is read without being taken, …:
`extract/transfer.py`, `suspicious_forms`). Such a shape makes this theorem fail; it never makes the check
fall back to the committed default facts silently. -/
theorem no_suspicious_forms : Gen.transferSuspicious = [] := by decide

end Repe.C13
