import RepeVerif.Lemmas.WriterDiscipline
import RepeVerif.Gen.Wire
import RepeVerif.Gen.Torn
import RepeVerif.Props.C02
/-!
# C05 — Bytes put on a connection are always whole frames, never torn or interleaved

> The byte stream any endpoint writes to a connection is always a concatenation of complete,
> well-formed frames: concurrent callers, concurrent responses and pushed notifications never
> interleave their bytes, and a write that is interrupted (write timeout, stalled peer, a caller
> abandoning its call mid-send) is never followed by further frames on that connection; the connection
> is failed instead. A peer can therefore always re-synchronise purely from declared lengths.

The model (`Model/WriterDiscipline.lean`): any number of writers submit frames; `progress w k` puts the
next `k` bytes of `w`'s frame on the wire (any fragmentation), `interrupt w` abandons `w`'s frame at
any point.  An endpoint is described by two facts, `exclusive` (writer lock held from first to last
byte of a frame) and `failOnInterrupt` (an interrupted frame fails the connection).

clause → theorem
* concatenation of complete frames; no interleaving ........ `whole_frames` (shape, for every schedule),
                                                              `whole_frames_endpoints` + `endpoints_disciplined` (the six endpoints, current source)
* an interrupted write is never followed by further frames .. `whole_frames` (last clause), `failed_is_final`,
                                                              `whole_frames_quiescent`
* the connection is failed instead .......................... `interrupted_frame_fails_connection`
* a peer re-synchronises purely from declared lengths ....... `frames_self_delimiting`, `peer_resync`,
                                                              `peer_resync_current` (corollary of `C02.parse_complete` / `C02.parse_sound`
                                                              on the extracted sum forms and the extracted endpoint facts)
* each fact is necessary .................................... `torn_without_fail`, `interleaved_without_lock`
* the driver of the correspondence runs this model .......... `driver_run_is_model_run`, `driver_frames_consistent`

The two facts of each endpoint are read off its write path by `extract/torn.py` on every run
(`Gen.Torn`, `endpoints_disciplined`, `whole_frames_endpoints`): lock regions, writes outside them,
dropped write results, what a failed/timed-out write does, the abandoned-frame marker.  What the syntactic
forms *mean* at run time is tied behaviourally (correspondence family `torn`: stalled scripted peers,
write timeouts, cancelled calls, independent stream parser).  Kernel socket semantics,
`BufWriter`, tokio cancellation points and tungstenite's framing are exercised there, not modelled.
-/
namespace Repe.C05
open Repe.WD

/-- Frames are self-delimiting: the length-driven splitter applied to a concatenation of consistent
frames followed by *anything* returns exactly those frames, then goes on with the tail.  Holds for
every form of the parser's length sums and both build profiles (the sums cannot overflow: they equal
the 64-bit `length` field). -/
theorem frames_self_delimiting (form sform : SumForm) (mode : OvMode) (ms : List Message)
    (hwf : ∀ m ∈ ms, m.WF) (tail : Bytes) (fuel : Nat) :
    parseFrames form sform mode (ms.length + fuel) ((ms.map Message.toVec).flatten ++ tail) =
      (ms ++ (parseFrames form sform mode fuel tail).1, (parseFrames form sform mode fuel tail).2) :=
  parseFrames_concat form sform mode ms hwf tail fuel

/-- … in particular for the parser in the current source (`Gen` facts). -/
theorem frames_self_delimiting_current (mode : OvMode) (ms : List Message) (hwf : ∀ m ∈ ms, m.WF) :
    parseFrames Gen.headerSumForm Gen.sliceSumForm mode (ms.length + 1)
      ((ms.map Message.toVec).flatten) = (ms, []) := by
  have := frames_self_delimiting Gen.headerSumForm Gen.sliceSumForm mode ms hwf [] 1
  simpa [parseFrames, Message.fromSlice] using this

/-- A truncated frame is never mistaken for a frame. -/
theorem truncated_frame_not_parsed (form sform : SumForm) (mode : OvMode) (m : Message) (wf : m.WF)
    (n : Nat) (hn : n < m.toVec.length) (fuel : Nat) :
    parseFrames form sform mode fuel (m.toVec.take n) = ([], m.toVec.take n) :=
  parseFrames_proper_prefix form sform mode m wf n hn fuel

/-- Once a connection is failed no later step appends a byte, completes a frame or un-fails it
(whatever the endpoint's facts). -/
theorem failed_is_final (f : Facts) (c : Conn Message) (hf : c.failed = true) (later : List (Ev Message)) :
    (run mlen f later c).stream = c.stream ∧ (run mlen f later c).done = c.done ∧
    (run mlen f later c).failed = true := by
  obtain ⟨h1, h2, h3⟩ := run_failed f later c hf
  exact ⟨by simp [Conn.stream, h2], h3, h1⟩

/-- **Whole frames.**  An endpoint with both facts, any number of writers, any schedule of
submissions, fragment sizes and interrupt points (`evs` is an arbitrary event list): the stream is the
concatenation of the completed frames, in completion order, followed by `tail`, where `tail` is
empty or a proper prefix of one consistent frame; a non-empty `tail` belongs either to the frame
the lock holder is still writing, or to an interrupted frame — and then the connection is failed and
no later step appends anything. -/
theorem whole_frames (f : Facts) (hx : f.exclusive = true) (hf : f.failOnInterrupt = true)
    (evs : List (Ev Message)) (hwf : ∀ e ∈ evs, e.Wf) :
    let c := run mlen f evs Conn.init
    (∀ m ∈ c.done, m.WF) ∧
    ∃ tail : Bytes,
      c.stream = (c.done.map Message.toVec).flatten ++ tail ∧
      (tail = [] ∨ ∃ (m : Message) (off : Nat), m.WF ∧ off < m.toVec.length ∧ tail = m.toVec.take off) ∧
      (tail ≠ [] →
        (c.failed = false ∧ ∃ w m off, c.lock = some w ∧ c.cur w = some (m, off) ∧ tail = m.toVec.take off) ∨
        (c.failed = true ∧ ∀ later : List (Ev Message),
            (run mlen f later c).stream = c.stream ∧ (run mlen f later c).done = c.done)) := by
  have hfb : f = both := by cases f; simp_all [both]
  subst hfb
  intro c
  have hi : Inv c := inv_run evs Conn.init inv_init hwf
  refine ⟨hi.doneWf, ?_⟩
  cases hfl : c.failed with
  | true =>
    obtain ⟨m, off, hm, _, hlt, hs⟩ := hi.shapeFailed hfl
    refine ⟨m.toVec.take off, hs, Or.inr ⟨m, off, hm, hlt, rfl⟩, fun _ => Or.inr ⟨rfl, fun later => ?_⟩⟩
    have := failed_is_final both c hfl later
    exact ⟨this.1, this.2.1⟩
  | false =>
    cases hl : c.lock with
    | none =>
      exact ⟨[], by simpa using hi.shapeFree hfl hl, Or.inl rfl, fun h => absurd rfl h⟩
    | some w =>
      obtain ⟨m, off, hc, hs⟩ := hi.shapeHeld hfl w hl
      obtain ⟨hm, hlt⟩ := hi.curWf w m off hc
      exact ⟨m.toVec.take off, hs, Or.inr ⟨m, off, hm, hlt, rfl⟩,
        fun _ => Or.inl ⟨rfl, w, m, off, rfl, hc, rfl⟩⟩

/-! ### the six endpoints, as the current source writes them -/

/-- Every endpoint's write path, as re-extracted from `/repo` on this run, has both discipline facts:
one writer (or one lock region spanning every frame write and no write outside it), whole writes, no
dropped write result, every failed or timed-out write ends the connection, and a dropped writing
future cannot be followed by another frame.  (Blocking client, async client, WebSocket client,
blocking server, async server, WebSocket server, WebSocket proxy relay = endpoints 0..6 of the `torn` family.) -/
theorem endpoints_disciplined :
    ∀ ep, ep < 7 → (Gen.Torn.obs ep).map Obs.facts = some ⟨true, true⟩ := by decide

/-- `whole_frames` for each of the six endpoints with the facts the current source gives it. -/
theorem whole_frames_endpoints (ep : Nat) (hep : ep < 7) :
    ∃ o, Gen.Torn.obs ep = some o ∧
    ∀ (evs : List (Ev Message)), (∀ e ∈ evs, e.Wf) →
      let c := run mlen o.facts evs Conn.init
      (∀ m ∈ c.done, m.WF) ∧
      ∃ tail : Bytes,
        c.stream = (c.done.map Message.toVec).flatten ++ tail ∧
        (tail = [] ∨ ∃ (m : Message) (off : Nat), m.WF ∧ off < m.toVec.length ∧ tail = m.toVec.take off) ∧
        (tail ≠ [] →
          (c.failed = false ∧ ∃ w m off, c.lock = some w ∧ c.cur w = some (m, off) ∧ tail = m.toVec.take off) ∨
          (c.failed = true ∧ ∀ later : List (Ev Message),
              (run mlen o.facts later c).stream = c.stream ∧ (run mlen o.facts later c).done = c.done)) := by
  have h := endpoints_disciplined ep hep
  cases ho : Gen.Torn.obs ep with
  | none => rw [ho] at h; cases h
  | some o =>
    rw [ho] at h
    simp only [Option.map_some, Option.some.injEq] at h
    refine ⟨o, rfl, fun evs hwf => ?_⟩
    have hx : o.facts.exclusive = true := by rw [h]
    have hf : o.facts.failOnInterrupt = true := by rw [h]
    exact whole_frames o.facts hx hf evs hwf

/-- A dangerous form is enough to lose a fact (non-vacuity of the extraction: these are the
observations of F5 — two dropped timeout results —, F6 — no shutdown —, F7 — no marker —, and of a
write outside the lock region). -/
example : (Obs.facts ⟨true, 0, 0, true, 2, false, true⟩).failOnInterrupt = false ∧
    (Obs.facts ⟨false, 1, 0, true, 0, false, true⟩).failOnInterrupt = false ∧
    (Obs.facts ⟨false, 1, 0, true, 0, false, false⟩).failOnInterrupt = false ∧
    (Obs.facts ⟨false, 1, 2, true, 0, true, true⟩).exclusive = false ∧
    (Obs.facts ⟨false, 2, 0, true, 0, true, true⟩).exclusive = false := by decide

/-- Quiescent reading (what a peer that drained the connection sees): when no frame is in progress
(every started frame was completed or interrupted), a non-empty torn tail means the connection is
failed, and the stream never changes again. -/
theorem whole_frames_quiescent (f : Facts) (hx : f.exclusive = true) (hf : f.failOnInterrupt = true)
    (evs : List (Ev Message)) (hwf : ∀ e ∈ evs, e.Wf) (hq : (run mlen f evs Conn.init).lock = none) :
    let c := run mlen f evs Conn.init
    ∃ tail : Bytes,
      c.stream = (c.done.map Message.toVec).flatten ++ tail ∧
      (tail ≠ [] → c.failed = true ∧
        ∀ later : List (Ev Message), (run mlen f later c).stream = c.stream) := by
  intro c
  obtain ⟨_, tail, hs, _, hp⟩ := whole_frames f hx hf evs hwf
  refine ⟨tail, hs, fun hne => ?_⟩
  rcases hp hne with ⟨_, w, _, _, hl, _⟩ | ⟨hfl, hlater⟩
  · rw [hq] at hl; cases hl
  · exact ⟨hfl, fun later => (hlater later).1⟩

/-- The connection is failed instead: interrupting a frame of which at least one byte is on the wire
fails the connection (endpoint with `failOnInterrupt`). -/
theorem interrupted_frame_fails_connection (f : Facts) (hf : f.failOnInterrupt = true) (c : Conn Message)
    (w : Nat) (m : Message) (off : Nat) (hc : c.cur w = some (m, off)) (hpos : 0 < off) :
    (step mlen f c (.interrupt w)).failed = true := by
  rw [step_interrupt_some f c w m off hc]; simp [hf, hpos]

/-- **Re-synchronisation.**  What the peer recovers from the stream of an endpoint with both facts,
using nothing but declared lengths: exactly the completed frames, in order, and the torn tail (which
it never mistakes for a frame). -/
theorem peer_resync (form sform : SumForm) (mode : OvMode) (f : Facts) (hx : f.exclusive = true)
    (hf : f.failOnInterrupt = true) (evs : List (Ev Message)) (hwf : ∀ e ∈ evs, e.Wf) :
    let c := run mlen f evs Conn.init
    ∃ tail : Bytes, c.stream = (c.done.map Message.toVec).flatten ++ tail ∧
      parseFrames form sform mode (c.done.length + 1) c.stream = (c.done, tail) := by
  intro c
  obtain ⟨hd, tail, hs, hshape, _⟩ := whole_frames f hx hf evs hwf
  refine ⟨tail, hs, ?_⟩
  have hs' : c.stream = (c.done.map Message.toVec).flatten ++ tail := hs
  rw [hs', frames_self_delimiting form sform mode c.done hd tail 1]
  rcases hshape with h | ⟨m, off, hm, hlt, h⟩
  · subst h; simp [parseFrames, Message.fromSlice]
  · rw [h, truncated_frame_not_parsed form sform mode m hm off hlt]; simp

/-! ### composition with C02: re-synchronisation as a corollary of the parser theorems -/

/-- C02's soundness theorem, applied to a torn tail: the current source's `Message::from_slice`
(extracted header sum form, any slice sum form, both build profiles) never accepts a proper prefix of a
consistent frame.  (By `C02.parse_sound`: an accepted frame lies inside the buffer and carries the
buffer's own header — which is the torn frame's header and declares more than is there.) -/
theorem torn_tail_rejected_by_current_parser (mode : OvMode) (sf : SumForm) (m0 : Message) (wf : m0.WF)
    (off : Nat) (hoff : off < m0.toVec.length) (m' : Message) :
    Message.fromSlice Gen.headerSumForm sf mode (m0.toVec.take off) ≠ .ok m' := by
  intro hp
  obtain ⟨h48, hhdr, _, _, hle, _⟩ := C02.parse_sound mode sf _ m' hp
  have hlen : (m0.toVec.take off).length = off := by simp [List.length_take]; omega
  rw [hlen] at h48 hle
  have htail : m0.toVec.take off = m0.header.encode ++ (m0.query ++ m0.body).take (off - 48) := by
    simp only [Message.toVec, List.append_assoc]
    rw [List.take_append, encode_length, List.take_of_length_le (by simp; omega)]
  have hh : m'.header = m0.header := by
    rw [hhdr, htail]; exact parse_encode_append m0.header wf.inRange _
  have := toVec_length m0
  rw [hh, wf.qlen, wf.blen] at hle
  omega

/-- **Re-synchronisation from C02's theorems, on the current source's forms.**  For each of the six
endpoints with the facts extracted today, and every schedule: at every frame boundary of the stream the
current `Message::from_slice` returns exactly the next completed frame (`C02.parse_complete`), and at the
boundary after the last completed frame it accepts nothing (`C02.parse_sound` via
`torn_tail_rejected_by_current_parser`) — the torn tail is never mistaken for a frame. -/
theorem peer_resync_current (mode : OvMode) (sf : SumForm) (ep : Nat) (hep : ep < 7) :
    ∃ o, Gen.Torn.obs ep = some o ∧
    ∀ (evs : List (Ev Message)), (∀ e ∈ evs, e.Wf) →
      let c := run mlen o.facts evs Conn.init
      (∀ pre m post, c.done = pre ++ m :: post →
        Message.fromSlice Gen.headerSumForm sf mode
          (c.stream.drop ((pre.map Message.toVec).flatten.length)) = .ok m) ∧
      (∀ m', Message.fromSlice Gen.headerSumForm sf mode
          (c.stream.drop ((c.done.map Message.toVec).flatten.length)) ≠ .ok m') := by
  obtain ⟨o, ho, hw⟩ := whole_frames_endpoints ep hep
  refine ⟨o, ho, fun evs hwf => ?_⟩
  obtain ⟨hd, tail, hs, hshape, _⟩ := hw evs hwf
  intro c
  have hs' : c.stream = (c.done.map Message.toVec).flatten ++ tail := hs
  constructor
  · intro pre m post hsplit
    have hm : m.WF := hd m (by rw [show (run mlen o.facts evs Conn.init).done = c.done from rfl, hsplit]; simp)
    rw [hs', hsplit]
    simp only [List.map_append, List.map_cons, List.flatten_append, List.flatten_cons, List.append_assoc]
    rw [List.drop_left']
    · exact C02.parse_complete mode sf m hm _
    · rfl
  · intro m'
    rw [hs', List.drop_left' rfl]
    rcases hshape with h | ⟨m0, off, hm0, hlt, h⟩
    · subst h
      intro hp
      have := (C02.parse_sound mode sf _ m' hp).1
      simp at this
    · rw [h]; exact torn_tail_rejected_by_current_parser mode sf m0 hm0 off hlt m'

/-! ### each fact is necessary (model-level counterexamples, replayed on endpoints that lack a fact) -/

def m1 : Message := (Builder.mk 1 false 0 1 3 [47, 97] [1, 2, 3, 4, 5]).build
def m2 : Message := (Builder.mk 2 false 0 1 3 [47, 98] [9, 8, 7]).build

theorem m1_wf : m1.WF := Builder.build_wf _ (by decide) (by decide) (by decide) (by decide) (by decide)
theorem m2_wf : m2.WF := Builder.build_wf _ (by decide) (by decide) (by decide) (by decide) (by decide)

/-- The F5/F6/F7 shape: writer 0's frame is interrupted after 20 bytes, the connection stays in
service, writer 1's frame follows. -/
def tornSchedule : List (Ev Message) :=
  [.submit 0 m1, .progress 0 20, .interrupt 0, .submit 1 m2, .progress 1 1000]

/-- Without `failOnInterrupt` (lock discipline intact): a frame is completed *after* the torn one, the
connection is not failed, the stream is the 20 torn bytes followed by the whole second frame, and a
peer splitting by declared lengths recovers nothing — not even the completed frame. -/
theorem torn_without_fail :
    let c := run mlen ⟨true, false⟩ tornSchedule Conn.init
    (∀ e ∈ tornSchedule, e.Wf) ∧ c.failed = false ∧ c.lock = none ∧ c.done = [m2] ∧
    c.stream = m1.toVec.take 20 ++ m2.toVec ∧
    (parseFrames .checked .unchecked .checks 8 c.stream).1 = [] := by
  refine ⟨?_, by decide, by decide, by decide, by decide, by decide⟩
  intro e he
  simp only [tornSchedule, List.mem_cons, List.not_mem_nil, or_false] at he
  rcases he with h | h | h | h | h <;> subst h <;> first | exact m1_wf | exact m2_wf | trivial

/-- The same schedule on an endpoint that has both facts: nothing follows the torn frame. -/
theorem torn_with_fail :
    let c := run mlen both tornSchedule Conn.init
    c.failed = true ∧ c.done = [] ∧ c.stream = m1.toVec.take 20 := by
  refine ⟨by decide, by decide, by decide⟩

/-- Two writers whose writes alternate. -/
def interleavedSchedule : List (Ev Message) :=
  [.submit 0 m1, .submit 1 m2, .progress 0 30, .progress 1 30, .progress 0 1000, .progress 1 1000]

/-- Without `exclusive` (no interrupt at all, `failOnInterrupt` intact): both frames complete, the
connection is healthy, yet the stream is neither order of the two frames and splitting by declared
lengths recovers nothing. -/
theorem interleaved_without_lock :
    let c := run mlen ⟨false, true⟩ interleavedSchedule Conn.init
    c.failed = false ∧ c.done = [m1, m2] ∧
    c.stream = m1.toVec.take 30 ++ m2.toVec.take 30 ++ m1.toVec.drop 30 ++ m2.toVec.drop 30 ∧
    c.stream ≠ m1.toVec ++ m2.toVec ∧ c.stream ≠ m2.toVec ++ m1.toVec ∧
    (parseFrames .checked .unchecked .checks 8 c.stream).1 = [] := by
  refine ⟨by decide, by decide, by decide, by decide, by decide, by decide⟩

/-- The same schedule under the lock: writer 1's early write waits for the lock, the frames come out whole. -/
theorem interleaved_with_lock :
    let c := run mlen both interleavedSchedule Conn.init
    c.stream = m1.toVec ++ m2.toVec ∧ c.done = [m1, m2] ∧ c.lock = none := by
  refine ⟨by decide, by decide, by decide⟩

/-! ### the correspondence driver runs this very model -/

/-- `repe_model_torn` runs `step` on *described* frames (`LFrame`: builder inputs + tag and length of
the pattern body, bytes produced on demand) so that multi-MiB scripts are cheap.  That run is the run
of the theorems' model on the corresponding `MessageBuilder` messages: same stream bytes, same completed
frames, same `failed`, same lock — for every facts value and every event list. -/
theorem driver_run_is_model_run (f : Facts) (evs : List (Ev LFrame)) :
    let d := run LFrame.len f evs Conn.init
    let c := run mlen f (evs.map (Ev.map LFrame.message)) Conn.init
    d.streamWith LFrame.bytes = c.stream ∧ d.done.map LFrame.message = c.done ∧
    d.failed = c.failed ∧ d.lock = c.lock := by
  intro d c
  have hmap : d.map LFrame.message = c :=
    run_map LFrame.message LFrame.len mlen (fun m => (lframe_is_message m).2.symm) f evs Conn.init
  have hb : (fun m => Message.toVec (LFrame.message m)) = LFrame.bytes := by
    funext m; exact (lframe_is_message m).1.symm
  refine ⟨?_, ?_, ?_, ?_⟩
  · rw [← hmap, stream_eq_streamWith, streamWith_map, hb]
  · rw [← hmap]; rfl
  · rw [← hmap]; rfl
  · rw [← hmap]; rfl

/-- … and the frames it runs on are consistent, so `whole_frames` applies to its runs. -/
theorem driver_frames_consistent (l : LFrame) (hid : l.id < 2^64) (hqf : l.qfmt < 2^16) (hbf : l.bfmt < 2^16)
    (hlen : 48 + l.query.length + l.blen < 2^64) : l.message.WF := lframe_wf l hid hqf hbf hlen

/-! ### non-vacuity -/

/-- A schedule meeting the hypotheses of `whole_frames` with three writers, fragmentation, a completed
frame, an interrupt before the first byte (harmless) and an interrupt mid-frame. -/
def sampleSchedule : List (Ev Message) :=
  [.submit 0 m1, .submit 1 m2, .submit 2 m1, .progress 1 7, .progress 0 5, .interrupt 2, .progress 1 41,
   .progress 1 1000, .progress 0 50, .interrupt 0, .submit 2 m2, .progress 2 1000]

example : (∀ e ∈ sampleSchedule, e.Wf) ∧
    (run mlen both sampleSchedule Conn.init).done = [m2] ∧
    (run mlen both sampleSchedule Conn.init).failed = true ∧
    (run mlen both sampleSchedule Conn.init).stream = m2.toVec ++ m1.toVec.take 50 := by
  refine ⟨?_, by decide, by decide, by decide⟩
  intro e he
  simp only [sampleSchedule, List.mem_cons, List.not_mem_nil, or_false] at he
  rcases he with h | h | h | h | h | h | h | h | h | h | h | h <;> subst h <;>
    first | exact m1_wf | exact m2_wf | trivial

example : (run mlen both [.submit 0 m1, .progress 0 20] Conn.init).lock = some 0 := by decide
example : m1.toVec.length = 55 ∧ m2.toVec.length = 53 := by decide

end Repe.C05
