import RepeVerif.Lemmas.Router
import RepeVerif.Gen.Router
import RepeVerif.Props.C03
/-!
# C07 — All dispatch paths and route shapes give the same answer for the same request

> Handling a request through the copying path, the zero-copy borrowed path, or behind any
> forwarding middleware chain yields the same response, and middleware runs for every route whether
> it was registered before or after that route. An exactly registered path always wins over a
> mounted prefix; a mounted registry or struct receives exactly the paths equal to its prefix or
> extending it at a '/' boundary; and the segments a mounted struct sees are exactly the RFC 6901
> unescaped reference tokens of the remaining path, for paths of any depth.

clause → theorem
* facts of the current source the theorems are instantiated with ......... `C07.source_forms`
* middleware runs for every route, registered before or after ............ `C07.middleware_uniform`, `C07.middleware_order`, `C07.get_runs_all_middleware`
* behind any forwarding middleware chain: same response, same execution .. `C07.forwarding_transparent`, `C07.forwarding_pipeline`
* the call context (peer) reaches every link of a chain of any length ... `C07.ctx_reaches_every_link` (`C07.ctx_lost_without_forwarding`)
* borrowed path of a handler using the default = copying path ............ `C07.view_default_eq_owned`
* borrowed twin of the built-ins = owned twin (modulo serde/beve) ........ `C07.builtin_twins_agree`
* every route (owned, borrowed, middleware, blocking wrapper) agrees ..... `C07.same_answer`
* exactly registered path wins over any mount ............................ `C07.exact_wins`, `C07.exact_wins_history`
* a mount receives exactly prefix / prefix + "/" + rest .................. `C07.mount_matches_iff`, `C07.get_mount_sound`
* the mounted handler strips only the prefix ............................. `C07.pointer_for_strips_only_prefix`, `C07.relative_pointer_strips_only_prefix`
* struct segments = RFC 6901 tokens, any depth (stack and spill branch) .. `C07.segments_rfc6901`, `C07.struct_segments`, `C07.struct_segments_root`
* `replace("~1","/").replace("~0","~")` = unescape on well-formed tokens . `C07.replace_is_unescape` (`~01` regression: `C07.tilde01`)
* mounted struct: body gate, tokens handed to `repe_handle`, derive addressing `C07.mounted_struct_call`, `C07.derived_addresses_segments`, `C07.derived_read_after_write`, `C07.struct_and_adapter_gates`, `C07.nested_struct_sees_remaining_tokens`, `C07.nested_equals_direct_mount`
* composition with C03 (`found` of `route`/`respond` = this `Router.get`) .. `C07.found_iff_registered`, `C07.served_through_router`

Not proved (differential only): that `serde_json::from_slice` / `beve::from_slice` /
`beve::read_typed_slice` return the same value for the same bytes when called from the owned and
from the borrowed twin (they are the same functions on the same bytes; `Codec` is a parameter).
Malformed escapes (`~` not followed by `0`/`1`) are outside the quantifier (`EscWF`).
-/
namespace Repe.C07
open Repe.Router

/-- Facts re-extracted from `src/server.rs`: `Router::get` consults the exact map first, then the
registry mounts, then the struct mounts; `register_middleware` rebuilds all three collections and
every registrar wraps on registration; the owned and the borrowed decoder of every built-in pair
gate the same body-format codes onto the same decoders; `MiddlewarePipeline::execution` forwards
and neither wrapper overrides `handle_view`. -/
theorem source_forms :
    Gen.routerFacts.getOrder = [.exact, .registries, .structs] ∧
    Gen.routerFacts.Complete ∧
    Gen.handlerFacts.jsonOwned = Gen.handlerFacts.jsonView ∧
    Gen.handlerFacts.typedOwned = Gen.handlerFacts.typedView ∧
    Gen.handlerFacts.sliceOwned = Gen.handlerFacts.sliceView ∧
    Gen.handlerFacts.sliceRefOwned = Gen.handlerFacts.sliceRefView ∧
    Gen.handlerFacts.pipelineExecForwards = true ∧
    Gen.handlerFacts.pipelineViewDefault = true ∧ Gen.handlerFacts.offReaderViewDefault = true ∧
    Gen.handlerFacts.nextForwardsCtx = true ∧ Gen.handlerFacts.serversEchoViewQuery = true ∧
    Gen.handlerFacts.deriveTailTests = true ∧ Gen.handlerFacts.serveLoopsHaveNoExtraTimers = true := by
  decide

/-! ## middleware runs for every route -/

/-- After ANY sequence of registrations (routes, registry mounts, struct mounts, middleware, in any
order) every entry's dispatched middleware list is the router's middleware list. -/
theorem middleware_uniform (ops : List Op) (e : Router.Entry)
    (he : e ∈ (Router.run Gen.routerFacts {} ops).entries) :
    e.mws = (Router.run Gen.routerFacts {} ops).mws := by
  have hu := run_uniform Gen.routerFacts source_forms.2.1 ops {} ⟨by simp, by simp, by simp⟩
  rcases (mem_entries _ e).mp he with ⟨pe, hpe, rfl⟩ | ⟨pe, hpe, rfl⟩ | ⟨pe, hpe, rfl⟩
  · exact hu.1 pe hpe
  · exact hu.2.1 pe hpe
  · exact hu.2.2 pe hpe

/-- … and that list is every middleware ever registered, in registration order – so a route sees
the middleware registered before it and the middleware registered after it. -/
theorem middleware_order (ops : List Op) : (Router.run Gen.routerFacts {} ops).mws = mwsOf ops := by
  simpa using run_mws Gen.routerFacts ops {}

/-- What a request meets: whatever `Router::get` returns for whatever path, after whatever history,
is wrapped in every middleware ever registered, in registration order – before or after the route. -/
theorem get_runs_all_middleware (ops : List Op) (path : Str) (f : Found)
    (h : (Router.run Gen.routerFacts {} ops).get Gen.routerFacts path = some f) :
    f.entry.mws = mwsOf ops := by
  rw [middleware_uniform ops f.entry (get_mem_entries _ _ _ _ h), middleware_order]

example : ((Router.run Gen.routerFacts {}
    [.middleware 7, .struct "/s".toList 3, .middleware 8]).get Gen.routerFacts "/s/x".toList).map (·.entry.mws)
    = some [7, 8] := by decide

example : (Router.run Gen.routerFacts {}
    [.route "/a".toList 1, .middleware 7, .registry "/r".toList 2, .middleware 8, .struct "s".toList 3]).entries
    = [⟨1, [7, 8]⟩, ⟨2, [7, 8]⟩, ⟨3, [7, 8]⟩] := by decide

/-! ## forwarding middleware is transparent -/

/-- `Next::run` through a chain of forwarding middleware is the leaf call, with the context the
caller attached (or `handle` when there is none). -/
theorem forwarding_transparent {κ ρ} (h : Handler κ ρ) (mws : List (Mw κ ρ))
    (hf : ∀ m ∈ mws, Forwarding m) (req : Msg) :
    (∀ c, nextRun Gen.handlerFacts.nextForwardsCtx h (some c) mws req = h.handleCtx req c) ∧
    nextRun Gen.handlerFacts.nextForwardsCtx h none mws req = h.handle req := by
  rw [source_forms.2.2.2.2.2.2.2.2.2.1]
  exact ⟨fun c => nextRun_forwarding h (some c) mws hf req, nextRun_forwarding h none mws hf req⟩

/-- `Next::ctx()` / `Next::peer()` through chains of EVERY length: behind `n` middleware that look at
the context they are shown and forward, each of the `n` links sees exactly the caller's context
(the calling peer included: `peer() = ctx().and_then(|c| c.peer())`), and the leaf is entered with it. -/
theorem ctx_reaches_every_link {κ ρ} (h : Handler κ (List (Option κ) × ρ)) (ctx : Option κ) (n : Nat) (req : Msg) :
    let leaf := match ctx with
      | some c => h.handleCtx req c
      | none => h.handle req
    nextRun Gen.handlerFacts.nextForwardsCtx h ctx (List.replicate n spyMw) req =
      (List.replicate n ctx ++ leaf.1, leaf.2) := by
  rw [source_forms.2.2.2.2.2.2.2.2.2.1]
  exact nextRun_spies h ctx n req

/-- Why the extracted fact matters: were the inner `Next` rebuilt without the context, every link
would see `None` and the leaf would be entered through `handle`. -/
theorem ctx_lost_without_forwarding {κ ρ} (h : Handler κ (List (Option κ) × ρ)) (c : κ) (n : Nat) (req : Msg) :
    nextRun false h (some c) (List.replicate (n + 1) spyMw) req =
      (List.replicate (n + 1) none ++ (h.handle req).1, (h.handle req).2) :=
  nextRun_spies_dropped h c n req

/-- The dispatched form of an entry (`wrap_with_middlewares`, with the source's `execution` rule):
all three entry points give the leaf's answer, and the off-reader hint is preserved. -/
theorem forwarding_pipeline {κ ρ} (h : Handler κ ρ) (mws : List (Mw κ ρ))
    (hf : ∀ m ∈ mws, Forwarding m) (hv : h.handleView = defaultView h.handleCtx ∨ mws = []) :
    let d := wrapWith Gen.handlerFacts.pipelineExecForwards Gen.handlerFacts.nextForwardsCtx h mws
    (∀ req, d.handle req = h.handle req) ∧ (∀ req c, d.handleCtx req c = h.handleCtx req c) ∧
    (∀ v c, d.handleView v c = h.handleView v c) ∧ d.execution = h.execution := by
  intro d
  cases mws with
  | nil => exact ⟨fun _ => rfl, fun _ _ => rfl, fun _ _ => rfl, rfl⟩
  | cons m rest =>
    have hd : d = pipeline true true h (m :: rest) := by
      simp [d, wrapWith, source_forms.2.2.2.2.2.2.1, source_forms.2.2.2.2.2.2.2.2.2.1]
    rw [hd]
    refine ⟨fun req => nextRun_forwarding h none _ hf req,
            fun req c => nextRun_forwarding h (some c) _ hf req, fun v c => ?_, rfl⟩
    rcases hv with hv | hv
    · rw [hv]; exact nextRun_forwarding h (some c) _ hf v.toMessage
    · cases hv

example : Forwarding (fun (_ : Option Unit) req (k : Msg → Nat) => k req) := fun _ _ _ => rfl

/-! ## the borrowed path of the default = the copying path -/

/-- `handle_view`'s default (used by `MiddlewarePipeline`, `OffReaderHandler`, the context-aware,
struct and registry handlers): the answer for a view is the answer for its owned copy. -/
theorem view_default_eq_owned {κ ρ} (h : Handler κ ρ) (mws : List (Mw κ ρ)) (b b' : Bool) (v : View) (c : κ) :
    (pipeline b b' h mws).handleView v c = (pipeline b b' h mws).handleCtx v.toMessage c ∧
    (offReader h).handleView v c = (offReader h).handleCtx v.toMessage c ∧
    (offReader h).handleCtx v.toMessage c = h.handleCtx v.toMessage c ∧
    (offReader h).execution = .offReader :=
  ⟨rfl, rfl, rfl, rfl⟩

/-- The overridden borrowed twins of the built-in handlers (JSON, typed, typed-slice, borrowed
typed-slice): with the gates read from the source, the owned and the borrowed route give the same
response after the dispatch layer's echo rule – success, closure error, rejected body format and
decode error alike. -/
theorem builtin_twins_agree {κ ε V} (c : Codec ε V) (bf : Bytes) (code : ε → Nat) (text : ε → Bytes)
    (req : Msg) (ctx : κ) :
    let F := Gen.handlerFacts
    ∀ p ∈ [(F.jsonOwned, F.jsonView), (F.typedOwned, F.typedView), (F.sliceOwned, F.sliceView),
           (F.sliceRefOwned, F.sliceRefView)],
      dispatchOwned code text (builtin (κ := κ) p.1 p.2 c bf) req ctx =
      dispatchView code text (builtin (κ := κ) p.1 p.2 c bf) req.view ctx := by
  intro F p hp
  obtain ⟨h1, h2, h3, h4⟩ := source_forms.2.2
  have hg : p.1 = p.2 := by
    simp only [List.mem_cons, List.mem_nil_iff, or_false] at hp
    rcases hp with rfl | rfl | rfl | rfl
    · exact h1
    · exact h2
    · exact h3
    · exact h4.1
  unfold dispatchOwned dispatchView builtin defaultCtx
  rw [hg]
  exact builtin_twin p.2 c bf code text req

/-- All routes agree: a built-in handler reached directly, through the blocking wrapper, and/or
behind any chain of forwarding middleware, on the owned path or on the borrowed path, yields the
response of the plain borrowed path. -/
theorem same_answer {κ ε V} (g : Gate) (c : Codec ε V) (bf : Bytes) (code : ε → Nat) (text : ε → Bytes)
    (mws : List (Mw κ (Except ε Msg))) (hf : ∀ m ∈ mws, Forwarding m) (blocking : Bool) (req : Msg) (ctx : κ) :
    let leaf : Handler κ (Except ε Msg) := builtin g g c bf
    let raw := if blocking then offReader leaf else leaf
    let d := wrapWith Gen.handlerFacts.pipelineExecForwards Gen.handlerFacts.nextForwardsCtx raw mws
    (blocking = true ∨ mws ≠ [] →
      dispatchView code text d req.view ctx = dispatchOwned code text leaf req ctx) ∧
    dispatchOwned code text d req ctx = dispatchOwned code text leaf req ctx ∧
    dispatchOwned code text leaf req ctx = dispatchView code text leaf req.view ctx := by
  intro leaf raw d
  have hraw : (∀ r k, raw.handleCtx r k = leaf.handleCtx r k) := by
    intro r k; cases blocking <;> rfl
  have hd : ∀ r k, d.handleCtx r k = leaf.handleCtx r k := by
    intro r k
    cases mws with
    | nil => exact hraw r k
    | cons m rest =>
      have : d = pipeline true true raw (m :: rest) := by simp [d, wrapWith, source_forms.2.2.2.2.2.2.1, source_forms.2.2.2.2.2.2.2.2.2.1]
      rw [this]; exact (nextRun_forwarding raw (some k) _ hf r).trans (hraw r k)
  refine ⟨fun hb => ?_, ?_, ?_⟩
  · have hv : ∀ k, d.handleView req.view k = leaf.handleCtx req k := by
      intro k
      cases mws with
      | nil =>
        rcases hb with hb | hb
        · subst hb; rfl
        · exact absurd rfl hb
      | cons m rest =>
        have : d = pipeline true true raw (m :: rest) := by simp [d, wrapWith, source_forms.2.2.2.2.2.2.1, source_forms.2.2.2.2.2.2.2.2.2.1]
        rw [this]
        exact (nextRun_forwarding raw (some k) _ hf req.view.toMessage).trans (hraw _ k)
    unfold dispatchView dispatchOwned
    rw [hv ctx]
    cases leaf.handleCtx req ctx with
    | ok m => rfl
    | error e => exact (echo_err req _ _).symm
  · unfold dispatchOwned; rw [hd]
  · exact builtin_twin g c bf code text req

/-! ## exact routes win; mounts match at '/' boundaries -/

/-- `Router::get` with the source's lookup order: a path present in the exact map is answered from
the exact map, whatever mounts exist. -/
theorem exact_wins (r : Router) (path : Str) (e : Router.Entry) (h : lookupExact r.inner path = some e) :
    r.get Gen.routerFacts path = some ⟨.exact, path, e⟩ :=
  get_exact_first Gen.routerFacts _ source_forms.1 r path e h

/-- Over histories: once `path` is registered with handler `h`, any later registrations (mounts
whose prefix covers `path`, more middleware, other routes) leave `get path` at `h`. -/
theorem exact_wins_history (r : Router) (path : Str) (h : Nat) (ops : List Op)
    (hops : ∀ op ∈ ops, ¬ op.isRouteAt path) :
    ∃ mws, ((r.apply Gen.routerFacts (.route path h)).run Gen.routerFacts ops).get Gen.routerFacts path
      = some ⟨.exact, path, ⟨h, mws⟩⟩ := by
  have h0 : lookupExact (r.apply Gen.routerFacts (.route path h)).inner path
      = some ⟨h, (wrapAt Gen.routerFacts .exact r h).mws⟩ := by
    simp [Router.apply, lookupExact, wrapAt]
  obtain ⟨m', hm⟩ := run_keeps_exact Gen.routerFacts ops _ path h _ hops h0
  exact ⟨m', exact_wins _ path _ hm⟩

example : (Router.run Gen.routerFacts {}
    [.registry "".toList 1, .struct "/a".toList 2, .route "/a/b".toList 3, .registry "/a/b".toList 4]).get
      Gen.routerFacts "/a/b".toList = some ⟨.exact, "/a/b".toList, ⟨3, []⟩⟩ := by decide

/-- A mount (registry or struct: same test) with normalised prefix `p` receives exactly the paths
equal to `p` or extending it at a '/' boundary (everything when `p` is empty). -/
theorem mount_matches_iff (p path : Str) :
    mountMatches p path = true ↔ p = [] ∨ path = p ∨ ∃ r, path = p ++ '/' :: r :=
  mountMatches_iff p path

example : mountMatches "/api".toList "/apix/y".toList = false ∧ mountMatches "/api".toList "/api/x".toList = true ∧
    mountMatches "/api".toList "/api".toList = true ∧ mountMatches "/api".toList "/api/".toList = true ∧
    mountMatches "/api".toList "/ap".toList = false := by decide

/-- What `get` returns from a mount collection is a mount whose prefix matches at a boundary, and
it is the first such mount; nothing in the exact map had the path. -/
theorem get_mount_sound (r : Router) (path : Str) (f : Found) (h : r.get Gen.routerFacts path = some f)
    (hc : f.coll ≠ .exact) :
    lookupExact r.inner path = none ∧
    (f.pre = [] ∨ path = f.pre ∨ ∃ rest, path = f.pre ++ '/' :: rest) := by
  have hord := source_forms.1
  unfold Router.get at h
  rw [hord] at h
  simp only [List.findSome?_cons, List.findSome?_nil] at h
  cases he : lookupExact r.inner path with
  | some e => simp [Router.lookupIn, he] at h; subst h; exact absurd rfl hc
  | none =>
    refine ⟨rfl, ?_⟩
    simp only [Router.lookupIn, he, Option.map_none] at h
    cases hr : lookupMount r.registries path with
    | some pe =>
      simp only [hr, Option.map_some] at h
      cases h
      exact (mountMatches_iff _ _).mp (by simpa using List.find?_some hr)
    | none =>
      simp only [hr, Option.map_none] at h
      cases hs : lookupMount r.structs path with
      | some pe =>
        simp only [hs, Option.map_some] at h
        cases h
        exact (mountMatches_iff _ _).mp (by simpa using List.find?_some hs)
      | none => simp [hs] at h

/-- `RegisteredRegistry::pointer_for` answers exactly when the mount matches, and the pointer it
hands to the registry is the path with the prefix – and nothing else – removed ("/" for the mount
point itself). -/
theorem pointer_for_strips_only_prefix (p path : Str) :
    (pointerFor p path).isSome = mountMatches p path ∧
    ∀ q, pointerFor p path = some q →
      (p = [] ∧ q = if path = [] then ['/'] else path) ∨ (p ≠ [] ∧ path = p ∧ q = ['/']) ∨
      (p ≠ [] ∧ path ≠ p ∧ path = p ++ q ∧ ∃ r, q = '/' :: r) :=
  ⟨pointerFor_isSome p path, pointerFor_spec p path⟩

/-- `RegisteredStruct::relative_pointer`: same, with "" for the root itself. -/
theorem relative_pointer_strips_only_prefix (p path : Str) :
    (relativePointer p path).isSome = mountMatches p path ∧
    ∀ q, relativePointer p path = some q →
      (p = [] ∧ q = path) ∨ (p ≠ [] ∧ path = p ∧ q = []) ∨
      (p ≠ [] ∧ path ≠ p ∧ path = p ++ q ∧ ∃ r, q = '/' :: r) :=
  ⟨relativePointer_isSome p path, relativePointer_spec p path⟩

example : pointerFor "/api".toList "/api/x/y".toList = some "/x/y".toList ∧
    relativePointer "/api".toList "/api".toList = some [] ∧ pointerFor "/api".toList "/apix".toList = none := by decide

/-! ## composition with C03: the dispatch layer instantiated with this router

C03's `route` / `respond` (`Model/Dispatch.lean`) take `found` – "`router.get(path)` is `Some`" – as
a parameter. Here it is computed by this model's `Router.get` on the router built by ANY
registration history, and C03's theorems are used as they stand. -/

/-- `router.get(path).is_some()` for the router built by `ops`. -/
def routerFound (ops : List Op) (path : Str) : Bool :=
  ((Router.run Gen.routerFacts {} ops).get Gen.routerFacts path).isSome

/-- `found` as a function of the history: some registration covers the path – an exact route at it,
or a registry / struct mount whose normalised prefix matches at a '/' boundary. Later registrations
(middleware included) never un-serve a path. -/
theorem found_iff_registered (ops : List Op) (path : Str) :
    routerFound ops path = ops.any (Op.covers path) := by
  unfold routerFound
  rw [get_isSome_eq_covers _ source_forms.1, run_covers]
  simp [Router.covers]

/-- C03 ∘ C07: for a request in the current version whose query is a UTF-8 JSON pointer `path`,
served on any transport by the router built by any history `ops`:
* if some registration covers `path`, the request is dispatched, the handler that runs is the one
  `Router.get` resolves, wrapped in every middleware of the history, it is invoked exactly once, and a
  non-notify request gets exactly one response;
* otherwise the handler count is 0 and a non-notify request is answered MethodNotFound (6) with the
  request's id and query. -/
theorem served_through_router (ops : List Op) (path : Str) (t : Transport) (req : Req) (hview howned : HOut)
    (rejMsg : Bytes) (hv : req.header.version = 1) (hq : req.header.queryFormat = 1) :
    let found := routerFound ops path
    (ops.any (Op.covers path) = true →
      (∃ f, (Router.run Gen.routerFacts {} ops).get Gen.routerFacts path = some f ∧ f.entry.mws = mwsOf ops) ∧
      route Gen.codes req true found = .dispatch ∧
      (respond Gen.codes t req true found hview howned rejMsg).2 = 1 ∧
      (req.isNotify = false → ∃ m, (respond Gen.codes t req true found hview howned rejMsg).1 = some m) ∧
      (req.isNotify = true → (respond Gen.codes t req true found hview howned rejMsg).1 = none)) ∧
    (ops.any (Op.covers path) = false →
      route Gen.codes req true found = .reject 6 ∧
      (respond Gen.codes t req true found hview howned rejMsg).2 = 0 ∧
      (req.isNotify = false → ∃ m, (respond Gen.codes t req true found hview howned rejMsg).1 = some m ∧
        m.header.ec = 6 ∧ m.header.id = req.header.id ∧ m.query = req.query)) := by
  intro found
  have hfound : found = ops.any (Op.covers path) := found_iff_registered ops path
  have hroute := C03.reject_codes req true found
  simp only [hv, hq, ne_eq, not_true_eq_false, if_false, Bool.true_eq_false] at hroute
  constructor
  · intro hc
    have hf : found = true := hfound.trans hc
    have hr : route Gen.codes req true found = .dispatch := by rw [hroute]; simp [hf]
    refine ⟨?_, hr, ?_, fun hn => C03.one_response t req true found hview howned rejMsg hn,
            fun hn => C03.no_response_for_notify t req true found hview howned rejMsg hn⟩
    · have : ((Router.run Gen.routerFacts {} ops).get Gen.routerFacts path).isSome = true := hf
      obtain ⟨f, hget⟩ := Option.isSome_iff_exists.mp this
      exact ⟨f, hget, get_runs_all_middleware ops path f hget⟩
    · rw [C03.handler_once, hr]; rfl
  · intro hc
    have hf : found = false := hfound.trans hc
    have hr : route Gen.codes req true found = .reject 6 := by rw [hroute]; simp [hf]
    exact ⟨hr, C03.reject_never_invokes t req true found hview howned rejMsg 6 hr,
           fun hn => C03.reject_response t req true found hview howned rejMsg 6 hr hn⟩

example : routerFound [.middleware 1, .struct "/svc".toList 2, .registry "api/".toList 3] "/api/x".toList = true ∧
    routerFound [.middleware 1, .struct "/svc".toList 2, .registry "api/".toList 3] "/apix".toList = false ∧
    routerFound [.route "/svc2".toList 4] "/svc2".toList = true := by decide

/-! ## segments = RFC 6901 reference tokens, for paths of any depth -/

/-- `t.replace("~1","/").replace("~0","~")` is the RFC 6901 unescape scan on every token whose
escapes are well formed. -/
theorem replace_is_unescape (t : Str) (h : EscWF t) : replace01 t = unesc t := replace01_eq_unesc t h

/-- the regression case: `~01` is `~1`, not `/` (which `~0`-before-`~1` would produce) -/
theorem tilde01 : replace01 "~01".toList = "~1".toList ∧ unesc "~01".toList = "~1".toList ∧
    replace2 '~' '1' '/' (replace2 '~' '0' '~' "~01".toList) = "/".toList := by decide

/-- The segments `dispatch_struct_segments` passes to `RepeStruct::repe_handle` are the RFC 6901
reference tokens of the relative pointer – for every depth (the `STACK_SEGS`-slot stack branch, the
spill branch and the boundary between them are ordinary cases of the loop invariant), with empty
segments, and on both the escape-free fast path and the `json_pointer::parse` path. -/
theorem segments_rfc6901 (rel : Str) (h : EscWF rel) :
    dispatchSegments Gen.routerFacts.stackSegs rel = rfc6901 rel :=
  dispatchSegments_eq_rfc6901 _ rel h

/-- End to end for a struct mounted at normalised root `p`: a matching path is tokenised as the
RFC 6901 tokens of what follows the root. -/
theorem struct_segments (p rest : Str) (hp : p ≠ []) (h : EscWF rest) (hr : rest = [] ∨ ∃ r, rest = '/' :: r) :
    (relativePointer p (p ++ rest)).map (dispatchSegments Gen.routerFacts.stackSegs) = some (rfc6901 rest) := by
  have : relativePointer p (p ++ rest) = some rest := by
    unfold relativePointer
    rcases hr with rfl | ⟨r, rfl⟩
    · simp [hp]
    · have hne : ¬ (p ++ '/' :: r = p) := fun e => by
        have := congrArg List.length e; simp at this
      have hs : stripPrefix p (p ++ '/' :: r) = some ('/' :: r) := (stripPrefix_eq_some _ _ _).mpr rfl
      simp [hp, hne, hs]
  rw [this, Option.map_some, segments_rfc6901 rest h]

/-- … and for a struct mounted at the empty root (`""` or `"/"`): the whole request path is the
pointer. -/
theorem struct_segments_root (path : Str) (h : EscWF path) :
    (relativePointer [] path).map (dispatchSegments Gen.routerFacts.stackSegs) = some (rfc6901 path) := by
  simp [relativePointer, segments_rfc6901 path h]

example : normStructRoot "/".toList = [] ∧ normStructRoot [] = [] ∧
    (relativePointer [] "/a/b".toList).map (dispatchSegments 16) = some ["a".toList, "b".toList] := by decide

/-- non-vacuity and the named corner cases: "" ↦ [], "/" ↦ [""], empty segments, escapes, and a
20-segment path (spill branch) -/
example : dispatchSegments 16 [] = [] ∧ dispatchSegments 16 "/".toList = [[]] ∧
    dispatchSegments 16 "/a//b/".toList = ["a".toList, [], "b".toList, []] ∧
    dispatchSegments 16 "/a~1b/~01".toList = ["a/b".toList, "~1".toList] ∧
    (dispatchSegments 16 "/1/2/3/4/5/6/7/8/9/10/11/12/13/14/15/16/17/18/19/20".toList).length = 20 ∧
    EscWF "/a~1b/~01".toList := by
  refine ⟨by decide, by decide, by decide, by decide, by decide, ?_⟩
  exact (escWF_iff _).mp (by decide)

/-! ## what a mounted struct does with the segments (RegisteredStruct::handle + #[derive(RepeStruct)]) -/

/-- The generated `repe_handle` addresses exactly the tokens it was given: whatever it resolves a
request to (field read/write at any nesting depth, whole-(sub)struct read/write, method call), the
access path is the list of segments – nothing skipped, merged or re-interpreted. -/
theorem derived_addresses_segments (spec : Spec) (segs : List Str) (body : Bool) (a : Access)
    (h : resolve spec [] segs body = .ok a) : a.path = segs := by
  simpa using resolve_path segs spec [] body a h

/-- Read-after-write on a derived struct, at any nesting depth: a path that resolves to a writable
leaf accepts the value, a later read of the same path returns it, and every other leaf keeps its
value. -/
theorem derived_read_after_write (spec : Spec) (d : Bytes) (st : Store) (segs : List Str) (v : Bytes) (w : Bool)
    (p : List Str) (h : resolve spec [] segs true = .ok (.write p)) :
    let st' := (derivedHandle spec d st segs (some v) w).2
    (derivedHandle spec d st segs (some v) w).1 = .null ∧
    (derivedHandle spec d st' segs none w).1 = .value v ∧
    ∀ q, q ≠ segs → resolve spec [] q false = .ok (.read q) →
      (derivedHandle spec d st' q none w).1 = (derivedHandle spec d st q none w).1 := by
  have hp : p = segs := by simpa [Access.path] using resolve_path segs spec [] true _ h
  subst hp
  have hr := resolve_write_read p spec [] p h
  refine ⟨by simp [derivedHandle, h], ?_, ?_⟩
  · simp [derivedHandle, h, hr, store_get_set]
  · intro q hq hrq
    simp [derivedHandle, h, hrq, store_get_set_ne _ _ _ _ _ hq]

/-- Router → struct mount → derived struct, end to end: for a struct mounted at a normalised root
`p ≠ ""` and a request path `p ++ rest` with well-formed escapes, `RegisteredStruct::handle` hands
`repe_handle` the RFC 6901 tokens of `rest` (when the body gate lets the request through), so the
derived struct resolves the request against exactly those tokens. -/
theorem mounted_struct_call (p rest : Str) (hp : p ≠ []) (h : EscWF rest) (hr : rest = [] ∨ ∃ r, rest = '/' :: r)
    (bfmt : Nat) (body : Bytes) (decodes : Decoder → Bool) :
    let F := Gen.handlerFacts
    structCall Gen.routerFacts.stackSegs F.structGate F.structEmptyBodyIsRead p (p ++ rest) bfmt body decodes =
      if body = [] then .handle (rfc6901 rest) false
      else match F.structGate.lookup bfmt with
        | none => .invalidBody
        | some dec => if decodes dec then .handle (rfc6901 rest) true else .undecodable := by
  intro F
  have hs := struct_segments p rest hp h hr
  unfold structCall
  cases hrel : relativePointer p (p ++ rest) with
  | none => simp [hrel] at hs
  | some rel =>
    simp only [hrel, Option.map_some, Option.some.injEq] at hs
    have he : F.structEmptyBodyIsRead = true := by decide
    simp only [structBodyGate, he, Bool.true_and, hs]
    by_cases hb : body = []
    · simp [hb]
    · have : body.isEmpty = false := by simpa using hb
      simp only [this, Bool.false_eq_true, if_false, hb]
      cases F.structGate.lookup bfmt <;> rfl

/-- Through derive-generated dispatch: a hand-written `RepeStruct` reached through ANY chain of
`#[repe(nested)]` fields of derived structs is handed exactly the tokens that follow its own name –
every one of them, empty tokens included (a lone trailing `""` is one token, not "the struct
itself"). Together with `mounted_struct_call` / `segments_rfc6901`: nested under a mount at `p` via
fields `names` it sees what it would see mounted directly at `p/names…`. (The generated arms'
`tail` tests are the extracted fact `deriveTailTests`.) -/
theorem nested_struct_sees_remaining_tokens (names rest : List Str) (hn : names ≠ []) (hr : rest ≠ []) (body : Bool) :
    Gen.handlerFacts.deriveTailTests = true ∧
    resolve (chainSpec names) [] (names ++ rest) body = .ok (.foreign names rest) := by
  refine ⟨by decide, ?_⟩
  simpa using resolve_chain names hn [] rest hr body

/-- the two shapes agree: nested below a struct mounted at `p` vs mounted directly at `p ++ "/" ++ names…` -/
theorem nested_equals_direct_mount (p sub rest : Str) (names : List Str) (hp : p ≠ []) (hn : names ≠ [])
    (hsub : EscWF sub) (hsubs : ∃ r, sub = '/' :: r) (hnames : rfc6901 sub = names)
    (hrest : EscWF rest) (hrs : ∃ r, rest = '/' :: r)
    (hcat : rfc6901 (sub ++ rest) = names ++ rfc6901 rest) (hne : rfc6901 rest ≠ []) (body : Bool) :
    -- mounted at p, addressed through the nested fields
    ((relativePointer p (p ++ (sub ++ rest))).map fun rel =>
        resolve (chainSpec names) [] (dispatchSegments Gen.routerFacts.stackSegs rel) body)
      = some (.ok (.foreign names (rfc6901 rest))) ∧
    -- mounted directly at p ++ sub
    (relativePointer (p ++ sub) ((p ++ sub) ++ rest)).map (dispatchSegments Gen.routerFacts.stackSegs)
      = some (rfc6901 rest) := by
  obtain ⟨r1, rfl⟩ := hsubs
  obtain ⟨r2, rfl⟩ := hrs
  have hw : EscWF (('/' :: r1) ++ ('/' :: r2)) := escWF_append _ _ hsub hrest
  constructor
  · have h1 := struct_segments p (('/' :: r1) ++ ('/' :: r2)) hp hw (.inr ⟨r1 ++ '/' :: r2, rfl⟩)
    obtain ⟨rel, hrel, hseg⟩ := Option.map_eq_some_iff.mp h1
    rw [hrel, Option.map_some, hseg, hcat]
    exact congrArg some (nested_struct_sees_remaining_tokens names _ hn hne body).2
  · exact struct_segments (p ++ '/' :: r1) ('/' :: r2) (by simp) hrest (.inr ⟨r2, rfl⟩)

example : resolve (chainSpec ["outer".toList, "spy".toList]) [] ["outer".toList, "spy".toList, []] false
      = .ok (.foreign ["outer".toList, "spy".toList] [[]]) ∧
    resolve (chainSpec ["spy".toList]) [] ["spy".toList] false = .ok (.foreign ["spy".toList] []) ∧
    rfc6901 "/outer/spy/".toList = ["outer".toList, "spy".toList] ++ rfc6901 "/".toList := ⟨by rfl, by rfl, by decide⟩

/-- A lock that refuses (`LockError::Poisoned` after a panic under a std lock, or `LockError::Other`
from a user `Lockable`) never lets the request reach `repe_handle`; the body checks still come first. -/
theorem lock_refused_never_handles (S : Nat) (g : Gate) (e : Bool) (root path : Str) (bfmt : Nat) (body : Bytes)
    (decodes : Decoder → Bool) (segs : List Str) (b : Bool) :
    structCall S g e root path bfmt body decodes true ≠ .handle segs b := by
  unfold structCall
  cases relativePointer root path with
  | none => simp
  | some rel =>
    simp only [if_true]
    cases structBodyGate g e bfmt body with
    | none => simp
    | some o =>
      cases o with
      | none => simp
      | some d => by_cases hd : decodes d = true <;> simp [hd]

/-- the struct mount and the `JsonTypedHandler` adapter gate body formats exactly like the JSON/typed
decoders (facts): JSON and UTF-8 through serde_json, BEVE through beve, everything else InvalidBody -/
theorem struct_and_adapter_gates :
    Gen.handlerFacts.structGate = Gen.handlerFacts.jsonOwned ∧ Gen.handlerFacts.adapterGate = Gen.handlerFacts.typedOwned ∧
    Gen.handlerFacts.structEmptyBodyIsRead = true := by decide

/-- non-vacuity on `demoSpec` (plain field, read-only field, struct nested two levels deep, methods) -/
example : resolve demoSpec [] ["inner".toList, "deep".toList, "z".toList] true
      = .ok (.write ["inner".toList, "deep".toList, "z".toList]) ∧
    resolve demoSpec [] ["ro".toList] true = .error .bodyUnexpected ∧
    resolve demoSpec [] ["a".toList, "b".toList] false = .error .invalidSubpath ∧
    resolve demoSpec [] ["nope".toList] false = .error .invalidPath ∧
    resolve demoSpec [] ["echo".toList] false = .error .bodyExpected ∧
    resolve demoSpec [] [[]] false = .error .invalidPath := ⟨by rfl, by rfl, by rfl, by rfl, by rfl, by rfl⟩

end Repe.C07
