import RepeVerif.Lemmas.Svs
import RepeVerif.Lemmas.SvsCommit
import RepeVerif.Gen.Svs
/-!
# C09 — A pulled value stream reproduces the producer's bytes exactly and ends once

> For every payload, chunk size, buffer depth and compression choice, the concatenation of the chunks
> a consumer pulls is exactly the byte stream the producer emitted (after decompression, exactly the
> producer's logical bytes): nothing lost, duplicated or reordered. Exactly one pulled chunk, the
> final one, carries the end marker; an empty payload yields a single empty final chunk; pulling past
> the end or after release is an error; and a producer failure at any point surfaces as an error
> instead of an end marker.

clause → theorem
* facts read off `value_stream.rs` are the ones the theorems need ........ `source_facts` (+ `sinkOk`, `nextOk`, `wireOk`),
                                                                            `pull_source_form`, `pull_sequence_source`, `source_forms_recognised`
* chunking loses/duplicates/reorders nothing, any write fragmentation .... `sink_concat`, `sink_chunks_full`,
                                                                            `sink_fragmentation_independent`
* `produce` ⇒ `Chunk* ++ [End | Fail e]` (bare close when it vanishes) .... `produce_shape`
* pulls = the chunks, flags `false … false true`; empty ⇒ `([], true)` .... `pull_sequence`, `exactly_one_last`,
                                                                            `pull_concat`, `empty_payload`
* failure at any point / vanished producer: an error, never `last` ....... `fail_never_last`, `vanished_never_last`
* every depth (0 included), every interleaving: same results, no deadlock  `fifo_schedule_independent`,
                                                                            `no_deadlock`, `steps_terminate`,
                                                                            `stuck_means_stopped`, `policy_runs_complete`
* past the end / after release: an error ................................. `past_end_is_error`, `released_is_error`,
                                                                            `other_streams_untouched`
* concurrent `next`s on one id: schedule-independent outcomes, each chunk
  handed to at most one request, at most one `last` ...................... `concurrent_next`, `concurrent_at_most_one_last`
* consumer's concatenation = producer's bytes (sync and async pullers) ... `end_to_end`, `async_eq_sync`
* with compression, `decompress (compress x) = x` as a hypothesis ......... `end_to_end_compressed`
* a failing producer makes both pullers return the error ................. `end_to_end_failure`
* C10's wire scripts include every stream of this model; pull-to-file of a
  modelled stream publishes the producer's bytes / nothing on failure ..... `stream_refines_commit_script`,
                                                                            `commit_payload_of_stream`, `pulled_file_is_producers_bytes`,
                                                                            `failed_stream_publishes_nothing`

zstd (and its streaming decoder being the one-shot function) is a hypothesis, `sync_channel` is the
FIFO transition system `Sys` (`send`/`recv`/rendezvous `handoff`/`closed`), the REPE transport
between `NextHandler` and the client is C03/C04's subject (here: request `k` gets response `k`).
-/
namespace Repe.C09
open Repe.Svs

/-- What `extract/svs.py` read off the current `value_stream.rs`. -/
theorem source_facts : Gen.svsFacts = specFacts := by decide

/-- Every property-relevant statement of `value_stream.rs` the extractor anchors (the chunk-full test and
loop body of `ChunkSink::write`, `flush`, `flush_remaining`, `send_chunk`, the arms and the compression
match of `produce`, `Session::pull`/`recv`, the unknown-id / lock / `done` / remove branches of
`NextHandler`, id allocation, channel depth and compression tag of `OpenHandler`, `CancelHandler`'s remove,
`chunk_response`, `ChunkReader::fetch`/`read`, `pull_loop_async`, `ChannelReader::read`) has a form it
recognises.  An unrecognised form is listed instead of silently falling back to the defaults. -/
theorem source_forms_recognised : Gen.svsUnrecognised = [] := by decide

theorem sinkOk : Gen.svsFacts.SinkOk := ⟨by decide, by decide, by decide⟩
theorem nextOk : Gen.svsFacts.NextOk := ⟨by decide, by decide, by decide⟩
theorem wireOk : Gen.svsFacts.WireOk := ⟨by decide, by decide, by decide, by decide⟩
theorem failOk : Gen.svsFacts.failSendsFail = true := by decide

/-- The formats the `open` response reports: BEVE for the three serialising producers, raw binary
for the opaque reader producer. -/
theorem open_formats :
    Gen.svsFormats = [("complex", 1), ("reader", 0), ("typed", 1), ("value", 1)] := by decide

/-! ## the sink -/

/-- `concat (chunks ++ tail) = concat writes`, for any sequence of writes and flushes, both before
and after `flush_remaining`. -/
theorem sink_concat (c : Nat) (hc : 1 ≤ c) (evs : List Ev) :
    ∃ s, Sink.run Gen.svsFacts c {} evs = some s ∧
      s.out.flatten ++ s.buf = evBytes evs ∧
      (s.flushRemaining Gen.svsFacts).out.flatten = evBytes evs := by
  obtain ⟨s, h1, _, h3, h4⟩ := sink_run_chunks Gen.svsFacts sinkOk c hc evs
  exact ⟨s, h1, h3, h4.concat⟩

/-- Every emitted chunk has exactly `chunk_bytes` bytes and the carry is shorter, whatever the write
fragmentation and wherever `flush` is called (it is a no-op); the trailing partial chunk is pushed
once, non-empty; the counts are `n / c` full chunks and a tail of `n % c`. -/
theorem sink_chunks_full (c : Nat) (hc : 1 ≤ c) (evs : List Ev) :
    ∃ s, Sink.run Gen.svsFacts c {} evs = some s ∧
      (∀ ch ∈ s.out, ch.length = c) ∧ s.buf.length < c ∧
      s.out.length = (evBytes evs).length / c ∧ s.buf.length = (evBytes evs).length % c ∧
      (s.flushRemaining Gen.svsFacts).out = s.out ++ (if s.buf = [] then [] else [s.buf]) ∧
      (∀ ch ∈ (s.flushRemaining Gen.svsFacts).out, ch ≠ []) := by
  obtain ⟨s, h1, h2, h3, h4⟩ := sink_run_chunks Gen.svsFacts sinkOk c hc evs
  have hlen : s.out.length * c + s.buf.length = (evBytes evs).length := by
    rw [← h3, Sink.bytes, List.length_append, flatten_length_full s.out h2.2]
  obtain ⟨hk, ht⟩ := full_count hlen h2.1
  exact ⟨s, h1, h2.2, h2.1, hk, ht, Sink.flushRemaining_out _ sinkOk s, h4.nonempty⟩

example : Sink.run Gen.svsFacts 4 {} [.write [1, 2, 3], .flush, .write [4, 5, 6, 7, 8, 9, 10]]
    = some { buf := [9, 10], out := [[1, 2, 3, 4], [5, 6, 7, 8]] } := by decide

/-- The boundary of the quantifier: with `chunk_bytes = 0` (which the public `StreamOpts` allows)
the write loop never consumes a non-empty input — in the source it pushes empty chunks for ever; in
the model the fuel runs out whatever it is.  The property quantifies over chunk sizes ≥ 1 byte, so
this is reported as a robustness note (`fixes/svs-chunk-bytes-zero.diff`), not as a C09 violation. -/
theorem chunk_zero_spins (fuel : Nat) (out : List Bytes) (d : UInt8) (ds : Bytes) :
    writeLoop Gen.svsFacts 0 fuel { buf := [], out := out } (d :: ds) = none := by
  induction fuel generalizing out with
  | zero => rfl
  | succ n ih =>
    have hF : Gen.svsFacts.sinkFull = .ge := by decide
    simp only [writeLoop, hF, Cmp.test, List.length_nil, Nat.sub_self, Nat.zero_min, List.take_zero,
      List.append_nil, Nat.le_refl, decide_true, if_true, List.drop_zero, Sink.sendChunk]
    exact ih _

/-- The chunk sequence depends only on the bytes written, not on how they were split into writes. -/
theorem sink_fragmentation_independent (c : Nat) (hc : 1 ≤ c) (evs evs' : List Ev)
    (h : evBytes evs = evBytes evs') :
    produce Gen.svsFacts c evs .ok = produce Gen.svsFacts c evs' .ok := by
  obtain ⟨cs, h1, h2⟩ := produce_ok Gen.svsFacts sinkOk c hc evs
  obtain ⟨cs', h1', h2'⟩ := produce_ok Gen.svsFacts sinkOk c hc evs'
  rw [h] at h2
  rw [h1, h1', ChunksOf.unique h2 h2']

/-- `produce` always ends with exactly one `End` or `Fail`; a vanished producer leaves a bare close. -/
theorem produce_shape (c : Nat) (hc : 1 ≤ c) (evs : List Ev) :
    (∃ cs : List Bytes, produce Gen.svsFacts c evs .ok = some (cs.map .chunk ++ [.end]) ∧
        cs.flatten = evBytes evs) ∧
    (∀ e, ∃ cs : List Bytes, produce Gen.svsFacts c evs (.err e) = some (cs.map .chunk ++ [.fail e])) ∧
    (∃ cs : List Bytes, produce Gen.svsFacts c evs .vanish = some (cs.map .chunk)) := by
  refine ⟨?_, ?_, ?_⟩
  · obtain ⟨cs, h1, h2⟩ := produce_ok Gen.svsFacts sinkOk c hc evs
    exact ⟨cs, h1, h2.concat⟩
  · intro e
    obtain ⟨cs, h1, _⟩ := produce_err Gen.svsFacts sinkOk failOk c hc evs e
    exact ⟨cs, h1⟩
  · obtain ⟨cs, h1, _⟩ := produce_vanish Gen.svsFacts sinkOk c hc evs
    exact ⟨cs, h1⟩

/-! ## `Session::pull` -/

/-- For `cs.map Chunk ++ [End]` successive pulls give `cs` with flags `false … false true`
(`pullsOf`); for `[End]` exactly `([], true)`.  Stated for the source's `Session::pull` (big-step)
and for its small-step automaton. -/
theorem pull_sequence (cs : List Bytes) (dn : Bool) :
    pullAll (cs.length + 2) ⟨cs.map .chunk ++ [.end], none, dn⟩ = (pullsOf cs).map .ok ∧
    feedRun .fresh (cs.map .chunk ++ [.end]) = (pullsOf cs).map .ok ∧
    pullsOf [] = [([], true)] := by
  refine ⟨?_, feedRun_fresh_clean [] cs, rfl⟩
  rw [pullAll_eq_feedRun _ _ _ _ (by simp)]
  exact feedRun_fresh_clean [] cs

example : pullAll 5 ⟨[.chunk [1], .chunk [2], .chunk [3], .end], none, false⟩
    = [.ok ([1], false), .ok ([2], false), .ok ([3], true)] := by rfl

/-- Exactly one pulled chunk carries the end marker, and it is the final one. -/
theorem exactly_one_last (cs : List Bytes) :
    (pullsOf cs).map (·.2) = List.replicate (cs.length - 1) false ++ [true] ∧
    ((pullsOf cs).filter (·.2)).length = 1 := by
  refine ⟨pullsOf_flags cs, ?_⟩
  have h := pullsOf_flags cs
  have : ((pullsOf cs).filter (·.2)).length = (((pullsOf cs).map (·.2)).filter id).length := by
    rw [List.filter_map]; simp [Function.comp_def]
  rw [this, h]
  simp [List.filter_append]

/-- The pulled chunks concatenate to the stream; for a non-empty stream they are the chunks themselves. -/
theorem pull_concat (cs : List Bytes) :
    ((pullsOf cs).map (·.1)).flatten = cs.flatten ∧ (cs ≠ [] → (pullsOf cs).map (·.1) = cs) :=
  ⟨pullsOf_concat cs, pullsOf_chunks_of_ne_nil cs⟩

/-- An empty payload yields a single empty final chunk. -/
theorem empty_payload (c : Nat) (hc : 1 ≤ c) (evs : List Ev) (h : evBytes evs = []) :
    produce Gen.svsFacts c evs .ok = some [.end] ∧ feedRun .fresh [.end] = [.ok ([], true)] := by
  obtain ⟨cs, h1, h2⟩ := produce_ok Gen.svsFacts sinkOk c hc evs
  have : cs = [] := by
    cases cs with
    | nil => rfl
    | cons a r =>
      exfalso
      have hne := h2.nonempty a (List.mem_cons_self ..)
      have := h2.concat
      rw [h] at this
      simp at this
      exact hne this.1
  subst this
  exact ⟨h1, rfl⟩

/-- A producer failure after any number of chunks: no pull returns `last = true`, the final result is
the error, and the chunk held as lookahead is not delivered. -/
theorem fail_never_last (cs : List Bytes) (e : String) (dn : Bool) :
    pullAll (cs.length + 2) ⟨cs.map .chunk ++ [.fail e], none, dn⟩ = cs.dropLast.map nonlast ++ [.error e] ∧
    (∀ r ∈ feedRun .fresh (cs.map .chunk ++ [.fail e]), ∀ c, r ≠ .ok (c, true)) := by
  have hrun := feedRun_fresh_fail e [] cs
  refine ⟨?_, ?_⟩
  · rw [pullAll_eq_feedRun _ _ _ _ (by simp)]; exact hrun
  · intro r hr c
    rw [hrun] at hr
    rcases List.mem_append.mp hr with h | h
    · obtain ⟨x, _, hx⟩ := List.mem_map.mp h
      rw [← hx]; simp [nonlast]
    · simp at h; rw [h]; simp

/-- A producer that vanishes (bare channel close) is an error, not a terminus. -/
theorem vanished_never_last (cs : List Bytes) (dn : Bool) :
    pullAll (cs.length + 1) ⟨cs.map .chunk, none, dn⟩ = cs.dropLast.map nonlast ++ [.error vanished] := by
  rw [pullAll_eq_feedRun _ _ _ _ (by simp)]
  exact feedRun_fresh_vanish cs

example : pullAll 3 ⟨[.chunk [7]], none, false⟩ = [.error vanished] := by rfl

/-- `Session::pull` and `Session::recv` arm by arm, as `extract/svs.py` read them (an arm it does not
recognise becomes `.other`, which this theorem does not accept). -/
theorem pull_source_form : Gen.svsPull = specPull := by decide

/-- `pull_sequence`, `fail_never_last` and `vanished_never_last` for the arms read off the source. -/
theorem pull_sequence_source (cs : List Bytes) (e : String) (dn : Bool) :
    pullAllA Gen.svsPull (cs.length + 2) ⟨cs.map .chunk ++ [.end], none, dn⟩ = (pullsOf cs).map .ok ∧
    pullAllA Gen.svsPull (cs.length + 2) ⟨cs.map .chunk ++ [.fail e], none, dn⟩ = cs.dropLast.map nonlast ++ [.error e] ∧
    pullAllA Gen.svsPull (cs.length + 1) ⟨cs.map .chunk, none, dn⟩ = cs.dropLast.map nonlast ++ [.error vanished] := by
  rw [pull_source_form]
  simp only [pullAllA_spec]
  exact ⟨(pull_sequence cs dn).1, (fail_never_last cs e dn).1, vanished_never_last cs dn⟩


/-! ## the bounded channel -/

/-- Every depth `d ≥ 0`, every schedule of producer sends, handler receives and rendezvous:
the results the handler returns are a prefix of — and once it has stopped exactly — the results of
feeding it the sent sequence in order. -/
theorem fifo_schedule_independent (d : Nat) (msgs : List Msg) (sched : List Step) :
    let s := Sys.run d { toSend := msgs } sched
    s.out ++ feedRun s.cons (s.queue ++ s.toSend) = feedRun .fresh msgs ∧
    (s.cons = .stopped → s.out = feedRun .fresh msgs) := by
  have h := Sys.run_total d sched { toSend := msgs }
  simp only [Sys.total, List.nil_append] at h
  refine ⟨h, ?_⟩
  intro hs
  rw [hs, feedRun_stopped, List.append_nil] at h
  exact h

/-- While the handler has not stopped some step is enabled, at every depth. -/
theorem no_deadlock (d : Nat) (s : Sys) (h : s.cons ≠ .stopped) : ∃ st, (s.step d st).isSome :=
  Sys.progress d s h

/-- Every enabled step decreases a measure: maximal schedules are finite, and by `no_deadlock` they
end with the handler stopped. -/
theorem steps_terminate (d : Nat) (s s' : Sys) (st : Step) (h : s.step d st = some s') :
    s'.measure < s.measure := Sys.step_measure d s s' st h

/-- A schedule that can go no further has a stopped handler — so (with `fifo_schedule_independent`)
every maximal interleaving returns exactly the results of the sent sequence. -/
theorem stuck_means_stopped (d : Nat) (s : Sys) (h : ∀ st, s.step d st = none) : s.cons = .stopped := by
  apply Classical.byContradiction
  intro hc
  obtain ⟨st, hst⟩ := Sys.progress d s hc
  rw [h st] at hst
  simp at hst

/-- The three scheduling policies the model executable runs (producer first = slow consumer,
consumer first = slow producer, alternate) all run to completion and deliver the same results. -/
theorem policy_runs_complete (d : Nat) (p : Policy) (msgs : List Msg) :
    deliverMsgs d p msgs = feedRun .fresh msgs := by
  unfold deliverMsgs
  have ht := Sys.runPolicy_total d p (3 * msgs.length + 4) 0 { toSend := msgs }
  have hs := Sys.runPolicy_stops d p (3 * msgs.length + 4) 0 { toSend := msgs }
    (by simp [Sys.measure]; omega)
  simp only [Sys.total, List.nil_append] at ht
  rw [hs, feedRun_stopped, List.append_nil] at ht
  exact ht

example : (Sys.run 0 { toSend := [.chunk [1], .chunk [2], .end] } [.send, .handoff, .recv, .handoff, .handoff]).out
    = [.ok ([1], false), .ok ([2], true)] := by rfl

/-! ## `next` after the end, after release -/

/-- Past the end (after `last`) and after a failure every `next` is an error, for ever:
`n` requests get the pull results, then errors only. -/
theorem past_end_is_error (sv : Server) (msgs : List Msg) (n : Nat)
    (hn : (feedRun .fresh msgs).length ≤ n) :
    responses Gen.svsFacts sv msgs n = (feedRun .fresh msgs).map (respOfPull Gen.svsFacts) ++
      List.replicate (n - (feedRun .fresh msgs).length) .error := by
  rw [responses_eq _ nextOk, expected_ge _ _ (by simpa using hn)]
  simp

/-- After `cancel` the id is unknown: `next` is an error and stays one. -/
theorem released_is_error (sv : Server) (id : Nat) (n : Nat) :
    ((sv.cancel id).next Gen.svsFacts id).2 = .error ∧
    (Server.nexts Gen.svsFacts n (sv.cancel id) id).2 = List.replicate n .error := by
  have hfin : (sv.cancel id).Finished id := Or.inl (Server.get_remove sv id)
  exact ⟨(Server.next_finished _ nextOk _ id hfin).1, Server.nexts_finished _ nextOk id n _ hfin⟩

/-- `next`/`cancel` on one stream leave every other stream's session alone. -/
theorem other_streams_untouched (sv : Server) (id id' : Nat) (h : id' ≠ id) :
    ((sv.next Gen.svsFacts id).1.get id' = sv.get id') ∧ ((sv.cancel id).get id' = sv.get id') := by
  refine ⟨?_, Server.get_remove_other sv id id' h⟩
  unfold Server.next
  cases hg : sv.get id with
  | none => rfl
  | some s =>
    simp only []
    cases hl : s.locked Gen.svsFacts with
    | mk s' r =>
      cases r with
      | error e =>
        simp only []
        split
        · exact Server.get_remove_other sv id id' h
        · exact Server.get_put_other sv id id' _ h
      | ok v =>
        obtain ⟨c, last⟩ := v
        simp only []
        split
        · exact Server.get_remove_other sv id id' h
        · exact Server.get_put_other sv id id' _ h

/-! ## concurrent `next` requests on one stream -/

/-- Any number `k` of `next` requests for the same stream id (from any connections), any interleaving
of their three lock regions (table lookup, pull under the session lock, table removal) and of
`cancel`s:
* the outcomes of the session-lock regions, in lock order, are the **sequential** pull results of the
  delivered message sequence followed by errors — the schedule cannot change them;
* every request that got through the lock holds the outcome logged at its own index, different
  requests have different indices (each chunk is handed to at most one request), a framed response
  is the image of that outcome, and a request that found no table entry answers an error. -/
theorem concurrent_next (msgs : List Msg) (k : Nat) (sched : List Act) :
    let s := Conc.run Gen.svsFacts (Conc.init msgs k) sched
    s.log = padRes s.log.length (feedRun .fresh msgs) ∧ s.CallInv Gen.svsFacts := by
  have hlog := Conc.run_logInv Gen.svsFacts { rx := msgs } sched (Conc.init msgs k) ⟨rfl, rfl⟩
  obtain ⟨hi1, hi2⟩ := Conc.init_callInv Gen.svsFacts msgs k
  refine ⟨?_, Conc.run_callInv Gen.svsFacts sched _ hi1 hi2⟩
  have := hlog.1
  rw [lockedAll_spec Gen.svsFacts nextOk] at this
  exact this

/-- For a clean stream of chunks `cs`: across all concurrent requests the chunks handed out, in lock
order, are an initial segment of `pullsOf cs` — nothing twice, nothing skipped — and at most one
response carries `last`. -/
theorem concurrent_at_most_one_last (cs : List Bytes) (k : Nat) (sched : List Act) :
    let s := Conc.run Gen.svsFacts (Conc.init (cs.map .chunk ++ [.end]) k) sched
    (∃ m, s.log.filterMap okPair = (pullsOf cs).take m) ∧
    ((s.log.filterMap okPair).filter (·.2)).length ≤ 1 := by
  obtain ⟨h1, _⟩ := concurrent_next (cs.map .chunk ++ [.end]) k sched
  simp only [] at h1 ⊢
  rw [feedRun_fresh_clean [] cs] at h1
  have hp := padRes_okPairs (Conc.run Gen.svsFacts (Conc.init (cs.map .chunk ++ [.end]) k) sched).log.length (pullsOf cs)
  rw [← h1] at hp
  refine ⟨⟨_, hp⟩, ?_⟩
  rw [hp]
  have hsub : (((pullsOf cs).take (Conc.run Gen.svsFacts (Conc.init (cs.map .chunk ++ [.end]) k) sched).log.length).filter (·.2)).Sublist
      ((pullsOf cs).filter (·.2)) := (List.take_sublist _ _).filter _
  have := hsub.length_le
  rw [(exactly_one_last cs).2] at this
  exact this

example : (Conc.run Gen.svsFacts (Conc.init [.chunk [1], .chunk [2], .end] 3)
    [.call 0, .call 1, .call 1, .call 0, .call 2, .call 2, .call 0, .call 1, .cancel, .call 2]).log
    = [.ok ([1], false), .ok ([2], true), .error finishedMsg] := by rfl

/-! ## end to end -/

/-- Producer writes `evs` (any fragmentation, any flushes) at chunk size `c ≥ 1`; the channel has any
depth and runs any schedule to completion; the client issues `n` `next` requests (enough to reach the
end) on any server state; its consumer reads with any buffer sizes.  Both the blocking `ChunkReader`
and the async loop + `ChannelReader` hand the consumer exactly the producer's bytes. -/
theorem end_to_end (c : Nat) (hc : 1 ≤ c) (evs : List Ev) (sv : Server) (n : Nat)
    (hn : (evBytes evs).length / c + 1 ≤ n) (sizes : Nat → Nat) (hs : ∀ k, 1 ≤ sizes k) :
    ∃ msgs, produce Gen.svsFacts c evs .ok = some msgs ∧
      (∀ d sched, (Sys.run d { toSend := msgs } sched).cons = .stopped →
        (Sys.run d { toSend := msgs } sched).out = feedRun .fresh msgs) ∧
      syncPull Gen.svsFacts sizes (responses Gen.svsFacts sv msgs n) = some (evBytes evs) ∧
      asyncPull Gen.svsFacts (responses Gen.svsFacts sv msgs n) = some (evBytes evs) := by
  obtain ⟨cs, h1, h2⟩ := produce_ok Gen.svsFacts sinkOk c hc evs
  refine ⟨_, h1, fun d sched => (fifo_schedule_independent d _ sched).2, ?_⟩
  have hlen : ((pullsOf cs).map (fun p => respOfPull Gen.svsFacts (.ok p))).length ≤ n := by
    have := h2.length_le
    simp only [List.length_map, pullsOf_length]
    generalize (evBytes evs).length / c = q at *
    omega
  have hresp : responses Gen.svsFacts sv (cs.map .chunk ++ [.end]) n =
      (pullsOf cs).map (fun p => respOfPull Gen.svsFacts (.ok p)) ++
        List.replicate (n - ((pullsOf cs).map (fun p => respOfPull Gen.svsFacts (.ok p))).length) .error := by
    rw [responses_eq _ nextOk, feedRun_fresh_clean [] cs, List.map_map]
    exact expected_ge _ _ hlen
  rw [hresp, syncPull_eq _ _ hs, asyncPull_eq,
    tailBytes_clean _ _ wireOk.syncT wireOk.syncF, tailBytes_clean _ _ wireOk.asyncT wireOk.asyncF, h2.concat]
  simp

example : syncPull Gen.svsFacts (fun _ => 3)
    (responses Gen.svsFacts {} ((produce Gen.svsFacts 2 [.write [1, 2, 3, 4, 5]] .ok).getD []) 4)
    = some [1, 2, 3, 4, 5] := by decide

/-- With compression: the sink sees `compress payload` in whatever pieces the encoder writes; the
consumer's decoder sees the same bytes, so it returns `payload` — given `decompress ∘ compress = id`
(a hypothesis about zstd, not an axiom). -/
theorem end_to_end_compressed (compress decompress : Bytes → Bytes)
    (hz : ∀ x, decompress (compress x) = x)
    (payload : Bytes) (c : Nat) (hc : 1 ≤ c) (evs : List Ev) (hev : evBytes evs = compress payload)
    (sv : Server) (n : Nat) (hn : (compress payload).length / c + 1 ≤ n)
    (sizes : Nat → Nat) (hs : ∀ k, 1 ≤ sizes k) :
    ∃ msgs, produce Gen.svsFacts c evs .ok = some msgs ∧
      (syncPull Gen.svsFacts sizes (responses Gen.svsFacts sv msgs n)).map decompress = some payload ∧
      (asyncPull Gen.svsFacts (responses Gen.svsFacts sv msgs n)).map decompress = some payload := by
  obtain ⟨msgs, h1, _, h3, h4⟩ := end_to_end c hc evs sv n (by rw [hev]; exact hn) sizes hs
  exact ⟨msgs, h1, by rw [h3, hev]; simp [hz], by rw [h4, hev]; simp [hz]⟩

example : ∃ (compress decompress : Bytes → Bytes), (∀ x, decompress (compress x) = x) ∧ compress [1] ≠ [1] :=
  ⟨fun x => 0 :: x, fun x => x.tail, fun _ => rfl, by decide⟩

/-- Async reassembly = sync reassembly on *every* response list (well-formed or not): same bytes,
same error/no-error verdict. -/
theorem async_eq_sync (rs : List Resp) (sizes : Nat → Nat) (hs : ∀ k, 1 ≤ sizes k) :
    asyncPull Gen.svsFacts rs = syncPull Gen.svsFacts sizes rs := by
  rw [syncPull_eq _ _ hs, asyncPull_eq]
  have : Gen.svsFacts.asyncLastIs = Gen.svsFacts.syncLastIs := by decide
  rw [this]

/-- A producer that fails (or vanishes) after any number of writes: both pullers return the error,
never bytes — however many `next` requests they issue. -/
theorem end_to_end_failure (c : Nat) (hc : 1 ≤ c) (evs : List Ev) (e : BodyEnd) (he : e ≠ .ok)
    (sv : Server) (n : Nat) (sizes : Nat → Nat) (hs : ∀ k, 1 ≤ sizes k) :
    ∃ msgs, produce Gen.svsFacts c evs e = some msgs ∧
      (∀ r ∈ feedRun .fresh msgs, ∀ ch, r ≠ .ok (ch, true)) ∧
      syncPull Gen.svsFacts sizes (responses Gen.svsFacts sv msgs n) = none ∧
      asyncPull Gen.svsFacts (responses Gen.svsFacts sv msgs n) = none := by
  -- both failure shapes give `cs.dropLast` non-last results and then an error
  have key : ∀ (msgs : List Msg) (cs : List Bytes) (err : String),
      feedRun .fresh msgs = cs.dropLast.map nonlast ++ [.error err] →
      (∀ r ∈ feedRun .fresh msgs, ∀ ch, r ≠ .ok (ch, true)) ∧
      syncPull Gen.svsFacts sizes (responses Gen.svsFacts sv msgs n) = none ∧
      asyncPull Gen.svsFacts (responses Gen.svsFacts sv msgs n) = none := by
    intro msgs cs err hrun
    refine ⟨?_, ?_⟩
    · intro r hr ch
      rw [hrun] at hr
      rcases List.mem_append.mp hr with h | h
      · obtain ⟨x, _, hx⟩ := List.mem_map.mp h
        rw [← hx]; simp [nonlast]
      · simp at h; rw [h]; simp
    · have hexp : ∀ (m : Nat) (l : List Bytes),
          (tailBytes 1 (expected m (l.map (fun c => respOfPull Gen.svsFacts (nonlast c)) ++ [.error]))).2 = false := by
        intro m
        induction m with
        | zero => intro l; simp [expected, tailBytes]
        | succ m ih =>
          intro l
          cases l with
          | nil =>
            simp [expected, tailBytes]
          | cons a r =>
            have := ih r
            simp only [List.map_cons, List.cons_append, expected, respOfPull, nonlast, tailBytes]
            have hf : isLast 1 (lastQuery Gen.svsFacts false) = false := by decide
            simp only [hf, Bool.false_eq_true, if_false]
            exact this
      have hresp : responses Gen.svsFacts sv msgs n =
          expected n (cs.dropLast.map (fun c => respOfPull Gen.svsFacts (nonlast c)) ++ [.error]) := by
        rw [responses_eq _ nextOk, hrun]
        simp [List.map_append, List.map_map, respOfPull, Function.comp_def]
      have hs1 : Gen.svsFacts.syncLastIs = 1 := by decide
      have ha1 : Gen.svsFacts.asyncLastIs = 1 := by decide
      rw [syncPull_eq _ _ hs, asyncPull_eq, hs1, ha1, hresp, hexp]
      simp
  cases e with
  | ok => exact absurd rfl he
  | err msg =>
    obtain ⟨cs, h1, _⟩ := produce_err Gen.svsFacts sinkOk failOk c hc evs msg
    exact ⟨_, h1, key _ cs msg (feedRun_fresh_fail msg [] cs)⟩
  | vanish =>
    obtain ⟨cs, h1, _⟩ := produce_vanish Gen.svsFacts sinkOk c hc evs
    exact ⟨_, h1, key _ cs vanished (feedRun_fresh_vanish cs)⟩

example : syncPull Gen.svsFacts (fun _ => 1)
    (responses Gen.svsFacts {} ((produce Gen.svsFacts 2 [.write [1, 2, 3, 4, 5]] (.err "boom")).getD []) 6)
    = none := by decide

/-! ## composition with C10's commit model

C10 quantifies over abstract *wire scripts* (`Commit.Wire`: the answers to successive `next` calls).
Every response list of this model is such a script (`toWire`), C10's two readers read it exactly as
this model's readers do, and so C10's theorems apply to streams as C09 describes them: a pull-to-file
of a healthy stream publishes exactly the producer's bytes, a pull of a failed stream publishes nothing. -/

/-- Refinement: C10's specification-level reading `payload`, its blocking reader and its async loop
agree on `toWire rs` with this model's `syncPull` / `asyncPull`, for **every** response list `rs`. -/
theorem stream_refines_commit_script (rs : List Resp) (sizes : Nat → Nat) (hs : ∀ k, 1 ≤ sizes k) :
    Commit.payload (toWire Gen.svsFacts.syncLastIs rs) = syncPull Gen.svsFacts sizes rs ∧
    ((Commit.syncPullN none (toWire Gen.svsFacts.syncLastIs rs)).ok = true →
      some (Commit.syncPullN none (toWire Gen.svsFacts.syncLastIs rs)).bodies.flatten = syncPull Gen.svsFacts sizes rs) ∧
    ((Commit.asyncPull (toWire Gen.svsFacts.asyncLastIs rs)).ok = true →
      some (Commit.asyncPull (toWire Gen.svsFacts.asyncLastIs rs)).bodies.flatten = asyncPull Gen.svsFacts rs) := by
  refine ⟨?_, ?_, ?_⟩
  · rw [payload_toWire, syncPull_eq _ _ hs]
  · obtain ⟨h1, h2, _⟩ := syncPullN_toWire Gen.svsFacts.syncLastIs rs
    intro hok
    rw [syncPull_eq _ _ hs, h1, ← h2, hok]; rfl
  · obtain ⟨h1, h2⟩ := asyncPull_toWire Gen.svsFacts.asyncLastIs rs
    intro hok
    rw [asyncPull_eq, h1, ← h2, hok]; rfl

/-- Healthy stream ⇒ the script C10 sees has `payload = producer's bytes`. -/
theorem commit_payload_of_stream (c : Nat) (hc : 1 ≤ c) (evs : List Ev) (sv : Server) (n : Nat)
    (hn : (evBytes evs).length / c + 1 ≤ n) :
    ∃ msgs, produce Gen.svsFacts c evs .ok = some msgs ∧
      Commit.payload (toWire 1 (responses Gen.svsFacts sv msgs n)) = some (evBytes evs) := by
  obtain ⟨msgs, h1, _, h3, _⟩ := end_to_end c hc evs sv n hn (fun _ => 1) (fun _ => Nat.le_refl 1)
  refine ⟨msgs, h1, ?_⟩
  have := (stream_refines_commit_script (responses Gen.svsFacts sv msgs n) (fun _ => 1) (fun _ => Nat.le_refl 1)).1
  have hk : Gen.svsFacts.syncLastIs = 1 := by decide
  rw [hk] at this
  rw [this, h3]

/-- **C09 ∘ C10.**  Producer writes `evs` at chunk size `c ≥ 1`; the session, table and `next` handler
of this model answer the puller; the puller is any of C10's file pullers without a trailer, run by
C10's model with the canonical step order, on a script whose wire is that answer list and whose other
fields do not fail (open ok, tags compatible, verify accepts, rename and fsync succeed, no write
fault).  Then the call returns `Ok` and the destination holds exactly the producer's logical bytes
(`lg`: the bytes themselves, or their decoding when the puller decodes a zstd stream). -/
theorem pulled_file_is_producers_bytes (c : Nat) (hc : 1 ≤ c) (evs : List Ev) (sv : Server) (n : Nat)
    (hn : (evBytes evs).length / c + 1 ≤ n)
    (p : Commit.Puller) (s : Commit.Script) (codec : Commit.Codec) (fs₀ : Commit.FS) (lg : Bytes)
    (hwire : ∀ msgs, produce Gen.svsFacts c evs .ok = some msgs →
      s.wire = toWire 1 (responses Gen.svsFacts sv msgs n))
    (hopen : s.openOk = true) (htags : Commit.tagsOk p s = true)
    (hver : p.verifies = true → s.verifyOk = true) (hren : s.renameOk = true) (hsync : s.syncOk = true)
    (hstop : s.stop = none) (hwf : s.writeFault = none) (htr : p.hasTrailer = false) (hcreate : s.createOk = true)
    (hdec : (if p.decodes && s.comp == .zstd then codec.dec (evBytes evs) else some (evBytes evs)) = some lg) :
    (Commit.run Commit.canonical p s codec).ret = .ok ∧
    Commit.runOps fs₀ (Commit.run Commit.canonical p s codec).ops = { dest := some lg, tmp := none } := by
  obtain ⟨msgs, h1, h2⟩ := commit_payload_of_stream c hc evs sv n hn
  have hw := hwire msgs h1
  have hexp : Commit.expected p s codec = some lg := by
    unfold Commit.expected
    have hv : (!p.verifies || s.verifyOk) = true := by
      cases hp : p.verifies with
      | false => rfl
      | true => simp [hver hp]
    have hpay : Commit.payloadN (if p.usesWriteFile = true then s.stop else none) s.wire = some (evBytes evs) := by
      rw [hstop]
      have : (if p.usesWriteFile = true then (none : Option Nat) else none) = none := by split <;> rfl
      rw [this, hw]
      exact h2
    simp only [hopen, Commit.preOk, htags, hcreate, hv, hren, hsync, Bool.and_self, if_true, hpay, hdec, htr,
      Bool.false_eq_true, if_false, hwf, Commit.fit]
  obtain ⟨a, b⟩ := Commit.run_of_expected_some p s codec lg hexp
  rw [a]
  exact ⟨rfl, by rw [Commit.run_successOps, b]⟩

/-- non-vacuity: `pull_to_file` of a five-byte writer stream at chunk size 2 on a fresh server -/
example :
    Commit.runOps ⟨some [9], none⟩ (Commit.run Commit.canonical .file
      { openOk := true, comp := .none, beve := false,
        wire := toWire 1 (responses Gen.svsFacts {} ((produce Gen.svsFacts 2 [.write [1, 2, 3, 4, 5]] .ok).getD []) 4),
        stop := none, verifyOk := true, trailer := 0, renameOk := true } ⟨fun _ => none, fun x => x⟩).ops
      = { dest := some [1, 2, 3, 4, 5], tmp := none } := by decide

/-- … and when the producer fails or vanishes, whatever else the script says: `Err`, destination
untouched (no `rename` among the operations). -/
theorem failed_stream_publishes_nothing (c : Nat) (hc : 1 ≤ c) (evs : List Ev) (e : BodyEnd) (he : e ≠ .ok)
    (sv : Server) (n : Nat) (p : Commit.Puller) (s : Commit.Script) (codec : Commit.Codec) (fs₀ : Commit.FS)
    (hwire : ∀ msgs, produce Gen.svsFacts c evs e = some msgs →
      s.wire = toWire 1 (responses Gen.svsFacts sv msgs n))
    (hstop : s.stop = none) :
    (Commit.run Commit.canonical p s codec).ret = .err ∧
    (Commit.runOps fs₀ (Commit.run Commit.canonical p s codec).ops).dest = fs₀.dest := by
  obtain ⟨msgs, h1, _, h3, _⟩ := end_to_end_failure c hc evs e he sv n (fun _ => 1) (fun _ => Nat.le_refl 1)
  have hw := hwire msgs h1
  have hpay : Commit.payload s.wire = none := by
    have := (stream_refines_commit_script (responses Gen.svsFacts sv msgs n) (fun _ => 1) (fun _ => Nat.le_refl 1)).1
    have hk : Gen.svsFacts.syncLastIs = 1 := by decide
    rw [hk] at this
    rw [hw, this, h3]
  have hexp : Commit.expected p s codec = none := by
    unfold Commit.expected
    have : Commit.payloadN (if p.usesWriteFile = true then s.stop else none) s.wire = none := by
      rw [hstop]
      have : (if p.usesWriteFile = true then (none : Option Nat) else none) = none := by split <;> rfl
      rw [this]; exact hpay
    rw [this]
    split <;> rfl
  obtain ⟨a, _, cc⟩ := Commit.run_of_expected_none p s codec hexp
  exact ⟨a, Commit.dest_of_noRename _ _ cc⟩

end Repe.C09
