import RepeVerif.Lemmas.Wire
import RepeVerif.Gen.Wire
/-!
# C01 — Wire frames: canonical 48-byte layout, lossless round trip, one encoding

> Every message serializes to exactly 48 little-endian header bytes in the REPE v1 field order,
> followed by the query bytes and then the body bytes, with the header's total length equal to 48
> plus both payload lengths; parsing those bytes returns an identical message, preserving every
> header field including reserved bits and unknown format codes. Every way the library can emit the
> same logical message (buffered, streamed, in-place reuse of the body buffer, blocking or async,
> client side or server side) produces byte-identical output.

clause → theorem
* 48 LE header bytes in REPE v1 order ........ `C01.layout_is_spec`, `C01.header_is_48_bytes`, `C01.header_fields_le`
* then query, then body ...................... `C01.frame_shape`
* length = 48 + |q| + |b| .................... `C01.build_consistent`, `C01.streaming_patches_lengths`
* parse returns an identical message ......... `C01.header_round_trip`, `C01.message_round_trip`
* one encoding ............................... `C01.one_encoding`
* every emission route byte-identical ........ `C01.routes_agree`, `C01.server_echo_routes_agree`,
                                               `C01.source_routes_agree` (write sequences re-read from the source),
                                               `C01.streaming_prefix`, `C01.async_server_frame_agrees`,
                                               `C01.error_response_paths_agree`, `C01.response_paths_agree`
* the model transcribes the current source .... `C01.source_shapes` (in-place steps, length patches, builder, stamping,
                                               echo rule, server call sites; re-extracted on every run)
* stream read-back returns the frame .......... `C01.stream_round_trip`, `C01.stream_pipelined_round_trip`
* streamed slice writers, any header argument  `C01.slice_writer_frame`, `C01.slice_writer_eq_builder`, `C01.slice_writers_set_beve_fact`
* `serialized_len` = emitted length ........... `C01.serialized_len_is_frame_length`

All theorems hold for every header field value in its full range (reserved bits, unknown format
codes, any version/notify byte), every query and body, every capacity of the body buffer.
-/
namespace Repe.C01

/-- The layout tables read off `Header::encode` and `Header::decode` in the current source are the
REPE v1 layout (and the constants are the specification's). Re-checked against `/repo` on every run. -/
theorem layout_is_spec :
    Gen.encodeLayout = specLayout ∧ Gen.decodeLayout = specLayout ∧
    Gen.headerSize = 48 ∧ Gen.repeSpec = REPE_SPEC ∧ Gen.repeVersion = REPE_VERSION := by decide

theorem header_is_48_bytes (h : Header) : h.encode.length = 48 := encode_length h

/-- Explicit field order and widths; each field little-endian (`leBytes`, see `le_byte`). -/
theorem header_fields_le (h : Header) : h.encode =
    leBytes 8 h.length ++ leBytes 2 h.spec ++ leBytes 1 h.version ++ leBytes 1 h.notify ++
    leBytes 4 h.reserved ++ leBytes 8 h.id ++ leBytes 8 h.queryLength ++ leBytes 8 h.bodyLength ++
    leBytes 2 h.queryFormat ++ leBytes 2 h.bodyFormat ++ leBytes 4 h.ec := encode_eq_fields h

/-- Byte `i` of an `n`-byte little-endian field is `(v / 256^i) % 256`. -/
theorem le_byte (n v i : Nat) (hi : i < n) :
    (leBytes n v)[i]'(by simpa using hi) = UInt8.ofNat ((v / 256 ^ i) % 256) := by
  induction n generalizing v i with
  | zero => omega
  | succ n ih =>
    cases i with
    | zero => simp [leBytes]
    | succ i =>
      simp only [leBytes, List.getElem_cons_succ]
      rw [ih (v / 256) i (by omega), Nat.pow_succ, Nat.div_div_eq_div_mul, Nat.mul_comm]

theorem frame_shape (m : Message) : m.toVec = m.header.encode ++ m.query ++ m.body := rfl

theorem frame_length (m : Message) : m.toVec.length = 48 + m.query.length + m.body.length :=
  toVec_length m

/-- Header round trip through the *current* decode (whatever its sum form and build profile). -/
theorem header_round_trip (mode : OvMode) (h : Header) (hr : h.InRange) (hs : h.spec = REPE_SPEC)
    (hlen : h.length = 48 + h.queryLength + h.bodyLength) :
    Header.decode Gen.headerSumForm mode h.encode = .ok h := by
  simpa using decode_encode_append Gen.headerSumForm mode h hr hs hlen []

/-- Message round trip: owned and borrowed parsers, plain and exact variants. -/
theorem message_round_trip (mode : OvMode) (m : Message) (wf : m.WF) :
    Message.fromSlice Gen.headerSumForm Gen.sliceSumForm mode m.toVec = .ok m ∧
    Message.fromSlice Gen.headerSumForm Gen.viewSumForm mode m.toVec = .ok m ∧
    Message.fromSliceExact Gen.headerSumForm Gen.sliceSumForm mode m.toVec = .ok m ∧
    Message.fromSliceExact Gen.headerSumForm Gen.viewSumForm mode m.toVec = .ok m :=
  ⟨fromSlice_toVec _ _ _ m wf, fromSlice_toVec _ _ _ m wf,
   fromSliceExact_toVec _ _ _ m wf, fromSliceExact_toVec _ _ _ m wf⟩

/-- One encoding: any 48 bytes whose raw field parse is `h` are exactly `h.encode`. -/
theorem one_encoding (bs : Bytes) (hl : 48 ≤ bs.length) :
    (Header.parse bs).encode = bs.take 48 := encode_parse bs hl

theorem build_consistent (b : Builder) (hid : b.id < 2^64) (hec : b.ec < 2^32)
    (hqf : b.queryFormat < 2^16) (hbf : b.bodyFormat < 2^16)
    (hlen : 48 + b.query.length + b.body.length < 2^64) :
    b.build.WF ∧ b.build.header.length = 48 + b.query.length + b.body.length :=
  ⟨Builder.build_wf b hid hec hqf hbf hlen, rfl⟩

theorem streaming_patches_lengths (h : Header) (q body : Bytes) :
    writeMessageStreaming h q body =
      (Message.mk (h.patchLengths q.length body.length) q body).toVec ∧
    (h.patchLengths q.length body.length).length = 48 + q.length + body.length :=
  ⟨streaming_eq_toVec h q body, rfl⟩

/-- Every emission route of a consistent message gives `to_vec`'s bytes: three-write streaming
(`write_to`, `write_message`, `write_message_async`), `into_wire_bytes` for **every** capacity of the
body buffer (in-place and fresh-buffer branches), and `write_message_streaming`. -/
theorem routes_agree (m : Message) (wf : m.WF) (cap : Nat) :
    m.writeTo = m.toVec ∧ m.intoWireBytes cap = m.toVec ∧
    writeMessageStreaming m.header m.query m.body = m.toVec :=
  ⟨writeTo_eq_toVec m, intoWireBytes_eq_toVec m cap, streaming_of_wf m wf⟩

/-- Server side: the TCP servers' echo framing and the WebSocket servers' stamping + `into_wire_bytes`
emit the same bytes for the same response and request query. -/
theorem server_echo_routes_agree (resp : Message) (wf : resp.WF) (reqQuery : Bytes) (cap : Nat) :
    serverFrame resp reqQuery = (stampResponseQuery resp reqQuery).intoWireBytes cap := by
  rw [intoWireBytes_eq_toVec]; exact serverFrame_eq_stamped resp wf reqQuery

/-! ### coverage-audit pass: routes and shapes tied to the current source -/

/-- The write sequences the extractor reads off `to_vec`, `write_to`, `write_message`,
`write_message_async`, the fresh-buffer branch of `into_wire_bytes` and the async server's
`write_view_response` (header, then query, then body; each guarded by `is_empty` or not) emit `to_vec`.
An unrecognised statement in one of those functions becomes `.unknown` and this theorem fails. -/
theorem source_routes_agree (m : Message) :
    emitParts Gen.toVecParts m = m.toVec ∧ emitParts Gen.writeToParts m = m.toVec ∧
    emitParts Gen.writeMessageParts m = m.toVec ∧ emitParts Gen.writeMessageAsyncParts m = m.toVec ∧
    emitParts Gen.freshBufferParts m = m.toVec ∧ emitParts Gen.viewResponseParts m = m.toVec :=
  ⟨emitParts_ok _ (by decide) m, emitParts_ok _ (by decide) m, emitParts_ok _ (by decide) m,
   emitParts_ok _ (by decide) m, emitParts_ok _ (by decide) m, emitParts_ok _ (by decide) m⟩

/-- `write_message_streaming` writes header and query itself, then hands the sink to the body callback. -/
theorem streaming_prefix (m : Message) : emitParts Gen.streamingParts m ++ m.body = m.toVec :=
  emitParts_prefix_ok _ (by decide) m

/-- The statement-by-statement shape of the functions the model transcribes is the one in the current
source: in-place branch of `into_wire_bytes` (capacity test `>=`, resize, guarded `copy_within`, header,
guarded query), the three unconditional length patches of `write_message_streaming`, the two of
`write_view_response`, `MessageBuilder::build` + `Header::new`, the guard and patches of
`stamp_response_query`, `response_echo_query`, the two error-response constructors, the servers' call
sites (both pass the echoed query; the blocking one passes `resp.body.len()`), and `Header::decode`
returning exactly the parsed fields. Any other shape is extracted as `false`. -/
theorem source_shapes :
    Gen.inPlaceShape = true ∧ Gen.streamingPatches = true ∧ Gen.viewResponsePatches = true ∧
    Gen.buildShape = true ∧ Gen.stampShape = true ∧ Gen.echoShape = true ∧
    Gen.errorLikeShape = true ∧ Gen.errorUnstampedShape = true ∧
    Gen.serverEchoCall = true ∧ Gen.asyncServerEchoCalls = true ∧ Gen.decodeReturnsParsed = true := by
  decide

/-- Async TCP server (`write_view_response`, which keeps the header's own `body_length`) and blocking
TCP server (`write_message_streaming`, which patches it from `body.len()`) frame a consistent response
identically, and identically to the WebSocket server. -/
theorem async_server_frame_agrees (resp : Message) (wf : resp.WF) (reqQuery : Bytes) (cap : Nat) :
    asyncServerFrame resp reqQuery = serverFrame resp reqQuery ∧
    asyncServerFrame resp reqQuery = (stampResponseQuery resp reqQuery).intoWireBytes cap := by
  refine ⟨asyncServerFrame_eq_serverFrame resp wf reqQuery, ?_⟩
  rw [asyncServerFrame_eq_serverFrame resp wf reqQuery]
  exact server_echo_routes_agree resp wf reqQuery cap

/-- Owned (`create_error_response_like`) and borrowing (`…_unstamped_view` + stamp) error paths build the
same message; it is consistent. -/
theorem error_response_paths_agree (reqId : Nat) (reqQuery : Bytes) (code : Nat) (msg : Bytes) :
    stampResponseQuery (createErrorResponseUnstamped reqId code msg) reqQuery =
      createErrorResponseLike reqId reqQuery code msg :=
  stamp_unstamped_error reqId reqQuery code msg

theorem error_response_consistent (reqId : Nat) (reqQuery : Bytes) (code : Nat) (msg : Bytes)
    (hid : reqId < 2^64) (hc : code < 2^32) (hlen : 48 + reqQuery.length + msg.length < 2^64) :
    (createErrorResponseLike reqId reqQuery code msg).WF :=
  createErrorResponseLike_wf reqId reqQuery code msg hid hc hlen

example : (createErrorResponseLike 7 [47, 120] 6 [110, 111]).WF :=
  error_response_consistent 7 [47, 120] 6 [110, 111] (by decide) (by decide) (by decide)

/-- `create_response` = `create_response_unstamped` + `stamp_response_query` (the crate's own unit test,
for every id, format, query and body). -/
theorem response_paths_agree (reqId reqQf : Nat) (reqQuery : Bytes) (bf : Nat) (body : Bytes) :
    stampResponseQuery (createResponseUnstamped reqId reqQf bf body) reqQuery =
      createResponse reqId reqQf reqQuery bf body :=
  stamp_unstamped_response reqId reqQf reqQuery bf body

/-- The streamed slice writers, for **every** header passed in (stale lengths, any pre-set body format, error code,
notify, reserved, id): the frame is `to_vec` of the message with the three lengths patched and the body format BEVE —
what the buffered route (`MessageBuilder::body_typed_slice` + `write_message`) emits for the same id / formats / query. -/
theorem slice_writer_frame (h : Header) (q payload : Bytes) :
    writeMessageSlice h q payload =
      (Message.mk (({ h with bodyFormat := BEVE_FORMAT } : Header).patchLengths q.length payload.length) q payload).toVec ∧
    (({ h with bodyFormat := BEVE_FORMAT } : Header).patchLengths q.length payload.length).bodyFormat = BEVE_FORMAT :=
  ⟨streaming_eq_toVec _ q payload, rfl⟩

/-- … and that is the builder's frame when the header is the builder's header. -/
theorem slice_writer_eq_builder (b : Builder) (hbf : b.bodyFormat = BEVE_FORMAT) (stale : Header)
    (hs : stale.spec = REPE_SPEC) (hv : stale.version = REPE_VERSION) (hn : stale.notify = (if b.notify then 1 else 0))
    (hr : stale.reserved = 0) (hi : stale.id = b.id) (hq : stale.queryFormat = b.queryFormat) (he : stale.ec = b.ec) :
    writeMessageSlice stale b.query b.body = b.build.toVec := by
  rw [(slice_writer_frame stale b.query b.body).1]
  cases stale
  simp_all [Builder.build, Header.patchLengths, Message.toVec]

/-- The source sets the format unconditionally (re-read on every run; a guarded assignment is extracted as `false`). -/
theorem slice_writers_set_beve_fact : Gen.sliceWritersSetBeve = true := by decide

example : writeMessageSlice ⟨7, 0x1507, 1, 0, 0, 5, 99, 99, 1, 0xFFFF, 0⟩ [47] [3, 4] =
    (Message.mk ⟨51, 0x1507, 1, 0, 0, 5, 1, 2, 1, 1, 0⟩ [47] [3, 4]).toVec := by decide

theorem serialized_len_is_frame_length (m : Message) : m.serializedLen = m.toVec.length :=
  serializedLen_eq m

/-- Round trip through the stream readers: what `read_message` returns is the message, what
`read_message_into` leaves in the (reused) buffer is exactly the wire frame — blocking and async. -/
theorem stream_round_trip (mode : OvMode) (m : Message) (wf : m.WF) (rest : Bytes)
    (hsz : 48 + m.query.length + m.body.length < 2^62) :
    readMessage Gen.headerSumForm Gen.readAlloc mode (m.toVec ++ rest) = .ok m ∧
    readMessage Gen.headerSumForm Gen.asyncReadAlloc mode (m.toVec ++ rest) = .ok m ∧
    readMessageInto Gen.headerSumForm Gen.readIntoSumForm Gen.readIntoAlloc mode (m.toVec ++ rest) = .ok m.toVec ∧
    readMessageInto Gen.headerSumForm Gen.asyncReadIntoSumForm Gen.asyncReadIntoAlloc mode (m.toVec ++ rest) = .ok m.toVec := by
  have h1 : Gen.readAlloc = .fallible := by decide
  have h2 : Gen.asyncReadAlloc = .fallible := by decide
  have h3 : Gen.readIntoAlloc = .fallible := by decide
  have h4 : Gen.asyncReadIntoAlloc = .fallible := by decide
  rw [h1, h2, h3, h4]
  exact ⟨readMessage_complete _ mode m wf rest (by omega) (by omega),
         readMessage_complete _ mode m wf rest (by omega) (by omega),
         readMessageInto_complete _ _ mode m wf rest hsz, readMessageInto_complete _ _ mode m wf rest hsz⟩

/-- Several frames written back to back and read with one reader and one reused buffer come back as
exactly those frames, in order (long frame first or not). -/
theorem stream_pipelined_round_trip (mode : OvMode) (ms : List Message) (tail : Bytes)
    (hms : ∀ m ∈ ms, m.WF ∧ 48 + m.query.length + m.body.length < 2^62) :
    readSeq (readMessageInto Gen.headerSumForm Gen.readIntoSumForm Gen.readIntoAlloc mode) ms.length
      ((ms.map Message.toVec).flatten ++ tail) = (ms.map Message.toVec, tail) ∧
    readSeq (readMessageInto Gen.headerSumForm Gen.asyncReadIntoSumForm Gen.asyncReadIntoAlloc mode) ms.length
      ((ms.map Message.toVec).flatten ++ tail) = (ms.map Message.toVec, tail) := by
  have h3 : Gen.readIntoAlloc = .fallible := by decide
  have h4 : Gen.asyncReadIntoAlloc = .fallible := by decide
  rw [h3, h4]
  exact ⟨readSeq_frames _ ms tail fun m hm rest => readMessageInto_complete _ _ mode m (hms m hm).1 rest (hms m hm).2,
         readSeq_frames _ ms tail fun m hm rest => readMessageInto_complete _ _ mode m (hms m hm).1 rest (hms m hm).2⟩

/-- Non-vacuity: a concrete consistent message with reserved bits and unknown format codes set. -/
example : (Message.mk ⟨48+2+3, 0x1507, 7, 200, 0xdeadbeef, 2^64-1, 2, 3, 999, 65535, 77⟩
    [1,2] [3,4,5]).WF := by
  refine ⟨⟨?_,?_,?_,?_,?_,?_,?_,?_,?_,?_,?_⟩, ?_, ?_, ?_, ?_⟩ <;> decide

end Repe.C01
