import RepeVerif.Lemmas.Mux
import RepeVerif.Gen.Mux
/-!
# C06 — A dead or misbehaving connection fails calls promptly: no hang, no residue

> If the connection closes, resets or delivers a malformed frame, every call in flight on that client
> returns an error and every later call on it returns an error rather than blocking forever, and a
> notification subscriber sees end-of-stream. A call that times out or is cancelled leaves nothing
> behind: its late response is discarded without affecting other calls, and the client keeps serving
> other calls correctly.

Model: `Model/Mux.lean` (the same transition system as C04).  A connection failure of any kind is the
reader's `readErr` event (EOF, reset, malformed header, WebSocket close/text: every error arm of the
reader loop enters `fail_all_pending`); `failStep` then executes the statements of `fail_all_pending`
one by one in the order re-extracted from the source (`Gen.Mux.*Cfg.failOrder`), interleaved
arbitrarily with every caller's steps.  "Blocked" = a caller that has written its request, has not
given up and has nothing in its channel: the only caller step that is not enabled.  Wall-clock
promptness is not modelled: "promptly" = within a bounded number of the caller's own steps
(`call_rank`).

clause → theorem
* no hang: a blocked caller always has a live sender that the
  reader will use ............................................... `no_orphan_waiter` (needs a good fail-all order and
                                                                  register-before-write: `source_orders`)
* after the failure path ran, nobody is blocked ................. `reader_done_no_blocked`, `reader_done_pending_unwritten`,
                                                                  `quiescent_pending_empty`
* every call in flight returns an error (never a late response) . `in_flight_calls_get_errors`, `failure_is_permanent`
* a call registering after the drain fails at its write ......... `late_caller_fails`; counter-example for the other
                                                                  order: `late_caller_hangs_if_drain_first`
* every later call returns an error without blocking ............ `later_calls_error`, `unregistered_call_outcome`, `unregistered_call_fails`,
                                                                  `dead_connection_outcome(_by_client)`, `call_rank_decreases`
* a WebSocket Close / Text message is a connection failure ...... `ws_close_or_text_is_failure`, `ws_ping_pong_inert`
* subscriber sees end-of-stream ................................. `subscriber_eof` (`ws_takes_notify_sender`)
* timeout / cancellation leave nothing behind ................... `timeout_no_residue`, `cancel_no_residue`,
                                                                  `returned_call_has_no_entry` (`removal_facts`)
* the late response is discarded, others unaffected ............. `late_response_inert`
* the client keeps serving other calls .......................... `others_still_served`
* the model's shape (reader removes on match, loop ends after
  the failure path) is what the source does ..................... `model_premises`
-/
namespace Repe.C06
open Repe.Mux

/-- A caller that can make no step of its own: request written, not abandoned, nothing received. -/
def Blocked (s : State) (c : Nat) : Prop :=
  (s.calls c).pc = .active ∧ (s.calls c).wrote = true ∧ (s.calls c).chan = []

/-- What the proofs need from the source, re-extracted on every run: in all three clients
`fail_all_pending` drains the map, and every drain happens when late callers can no longer get through
(`goodOrder`: the writer is already shut, or the same critical section marks the connection failed so
that later registrations are refused — `closeAndDrain`), and the call path registers before it writes. -/
theorem source_orders :
    ∀ cfg ∈ Gen.Mux.all, goodOrder false false cfg.failOrder = true ∧ cfg.regBeforeWrite = true ∧
      FailStep.sendErrors ∈ cfg.failOrder := by decide

/-- Timeout path, guard `Drop` and failed write all remove the entry (re-extracted). -/
theorem removal_facts : ∀ cfg ∈ Gen.Mux.all, AllRemove cfg := by
  intro cfg h
  simp only [Gen.Mux.all, List.mem_cons, List.mem_nil_iff, or_false] at h
  rcases h with h | h | h <;> subst h <;> exact ⟨rfl, rfl, rfl⟩

/-- The WebSocket client drops the subscriber's sender in `fail_all_pending` (re-extracted). -/
theorem ws_takes_notify_sender : FailStep.takeNotify ∈ Gen.Mux.wsCfg.failOrder := by decide

/-- Premises of the model's shape: the reader removes the entry it matched and its loop ends after
`fail_all_pending` (re-extracted; `step` is written accordingly). -/
theorem model_premises : ∀ cfg ∈ Gen.Mux.all, cfg.matchRemoves = true ∧ cfg.readerStops = true := by decide

/-- **No orphan waiter** (the no-hang invariant).  In every reachable state — every interleaving of
callers, reader and failure path — a blocked caller's sender is alive: it is in the pending map and
the reader has not yet done its last drain (so it will be matched or drained), or the reader holds
it (matched and about to deliver / drained and about to fail it). -/
theorem no_orphan_waiter (cfg : Cfg) (hgo : goodOrder false false cfg.failOrder = true) (hrbw : cfg.regBeforeWrite = true)
    (s : State) (hs : Reachable cfg s) (c : Nat) (hb : Blocked s c) :
    ((s.calls c).id ∈ ids s.pending ∧ ¬ PostDrain s) ∨ (s.calls c).id ∈ ids (heldEntries s) := by
  obtain ⟨hpc, hw, hch⟩ := hb
  have hI := hs.inv.1
  rcases hs.inv.2 c hpc (wrote_reg hrbw hs c hw) hch with ht | ht
  · left
    refine ⟨ht, fun hp => ?_⟩
    obtain ⟨d, hd⟩ := mem_ids.1 ht
    have ho := hI.ownP _ hd
    have hdc := hI.inj d c ho.1 (by rw [hpc]; simp) ho.2.1
    subst hdc
    have := (hs.dinv hgo hrbw).unwritten hp _ hd
    rw [hw] at this; cases this
  · right; exact ht

example : Blocked (run Gen.Mux.asyncCfg State.init [.alloc 0, .register 0, .write 0]) 0 := by
  refine ⟨?_, ?_, ?_⟩ <;> decide

/-- Once the failure path has run to its end nobody is blocked: every call in flight has an error
(or its earlier response) in its channel or has returned. -/
theorem reader_done_no_blocked (cfg : Cfg) (hgo : goodOrder false false cfg.failOrder = true) (hrbw : cfg.regBeforeWrite = true)
    (s : State) (hs : Reachable cfg s) (g : Nat) (hf : s.reader = .finished g) (c : Nat) : ¬ Blocked s c := by
  intro hb
  rcases no_orphan_waiter cfg hgo hrbw s hs c hb with h | h
  · exact h.2 (by simp [PostDrain, hf])
  · simp [heldEntries, hf, ids] at h

/-- …the entries still in the map then belong to calls that have not written yet (their write will
fail, `late_caller_fails`, and remove the entry), and writes fail or registrations are refused. -/
theorem reader_done_pending_unwritten (cfg : Cfg) (hgo : goodOrder false false cfg.failOrder = true)
    (hrbw : cfg.regBeforeWrite = true) (s : State) (hs : Reachable cfg s) (g : Nat) (hf : s.reader = .finished g) :
    guarded s = true ∧ ∀ e ∈ s.pending, (s.calls e.2).wrote = false ∧ (s.calls e.2).reg = true :=
  ⟨(hs.dinv hgo hrbw).fin g hf,
   fun e he => ⟨(hs.dinv hgo hrbw).unwritten (by simp [PostDrain, hf]) e he, (hs.inv.1.ownP e he).2.2⟩⟩

/-- …and when no call is in progress the map is empty (`reader_done_pending_empty` of DESIGN.md). -/
theorem quiescent_pending_empty (cfg : Cfg) (hrm : AllRemove cfg) (s : State) (hs : Reachable cfg s)
    (hq : ∀ c, (s.calls c).pc = .idle ∨ ∃ o, (s.calls c).pc = .returned o) : s.pending = [] := by
  cases hp : s.pending with
  | nil => rfl
  | cons e r =>
    have he : e ∈ s.pending := by rw [hp]; exact List.mem_cons_self
    have ho := hs.inv.1.ownP e he
    rcases hq e.2 with h | ⟨o, h⟩
    · exact absurd h ho.1
    · have := hs.noResidue hrm e.2 o h
      rw [ho.2.1] at this
      exact absurd (mem_ids_of_mem he) this

/-- After the failure was noticed, a call that had not received its response never receives one:
whatever it returns is an error.  (Its response can no longer be matched: the reader never reads again.) -/
theorem in_flight_calls_get_errors (cfg : Cfg) (s : State) (hf : Failed s) (c : Nat)
    (hnr : ∀ f, Msg.resp f ∉ (s.calls c).chan) (hpc : ∀ f, (s.calls c).pc ≠ .returned (.resp f)) (evs : List Ev) (f : Frame) :
    ((run cfg s evs).calls c).pc ≠ .returned (.resp f) := by
  induction evs generalizing s with
  | nil => exact hpc f
  | cons e r ih =>
    exact ih (step cfg s e) (failed_step cfg s e hf) (no_resp_after_failure cfg s e c hf hnr)
      (no_resp_return_step e c hnr hpc)

/-- The failure is permanent: the reader never returns to reading. -/
theorem failure_is_permanent (cfg : Cfg) (s : State) (hf : Failed s) (evs : List Ev) : Failed (run cfg s evs) := by
  induction evs generalizing s with
  | nil => exact hf
  | cons e r ih => exact ih (step cfg s e) (failed_step cfg s e hf)

/-- A call that has not registered yet, on a client where writes fail or registrations are refused:
its next own steps (register, write, cleanup) end with an error, never in a blocking step, and leave
the pending map as it was. -/
theorem unregistered_call_outcome (cfg : Cfg) (hrbw : cfg.regBeforeWrite = true) (hrm : cfg.writeErrRemoves = true)
    (s : State) (hI : Inv cfg s) (hg : guarded s = true) (c : Nat)
    (hpc : (s.calls c).pc = .active) (hreg : (s.calls c).reg = false) (hw : (s.calls c).wrote = false) :
    ((run cfg s [.register c, .write c, .cleanup c]).calls c).pc =
      .returned (if s.regClosed then .connErr else .writeErr) ∧
    (run cfg s [.register c, .write c, .cleanup c]).pending = s.pending := by
  have hnot : (s.calls c).id ∉ ids s.pending := by
    intro hm
    obtain ⟨d, hd⟩ := mem_ids.1 hm
    have ho := hI.ownP _ hd
    have := hI.inj d c ho.1 (by rw [hpc]; simp) ho.2.1
    subst this; have h2 := ho.2.2; simp only at h2; rw [hreg] at h2; cases h2
  have herase : List.filter (fun e => e.1 != (s.calls c).id) s.pending = s.pending := erase_of_not_mem hnot
  by_cases hrc : s.regClosed = true
  · constructor <;> simp [run, step, canRegister, canWrite, hpc, hreg, hw, hrbw, hrc, setCall]
  · have hshut : s.writerShut = true := by
      simp only [guarded, Bool.or_eq_true] at hg
      rcases hg with hg | hg
      · exact hg
      · exact absurd hg hrc
    constructor <;>
      simp [run, step, canRegister, canWrite, hpc, hreg, hw, hrbw, hrc, hnot, hshut, removes, hrm, setCall,
        Abandon.outcome, erase, herase]

/-- …in particular it is one of the two error classes. -/
theorem unregistered_call_fails (cfg : Cfg) (hrbw : cfg.regBeforeWrite = true) (hrm : cfg.writeErrRemoves = true)
    (s : State) (hI : Inv cfg s) (hg : guarded s = true) (c : Nat)
    (hpc : (s.calls c).pc = .active) (hreg : (s.calls c).reg = false) (hw : (s.calls c).wrote = false) :
    (∃ o, (o = .connErr ∨ o = .writeErr) ∧
      ((run cfg s [.register c, .write c, .cleanup c]).calls c).pc = .returned o) ∧
    (run cfg s [.register c, .write c, .cleanup c]).pending = s.pending := by
  have h := unregistered_call_outcome cfg hrbw hrm s hI hg c hpc hreg hw
  refine ⟨⟨_, ?_, h.1⟩, h.2⟩
  cases s.regClosed <;> simp

/-- **Late caller.**  Once the reader has done its last drain, a call that has not registered yet
cannot get through: either its registration is refused (`closeAndDrain`) or its write fails
(shutdown-before-drain); it returns an error within three own steps. (A call that registered before the
drain was drained and has its error waiting, `no_orphan_waiter`.) -/
theorem late_caller_fails (cfg : Cfg) (hgo : goodOrder false false cfg.failOrder = true) (hrbw : cfg.regBeforeWrite = true)
    (hrm : cfg.writeErrRemoves = true)
    (s : State) (hs : Reachable cfg s) (hp : PostDrain s) (c : Nat)
    (hpc : (s.calls c).pc = .active) (hreg : (s.calls c).reg = false) (hw : (s.calls c).wrote = false) :
    ∃ o, (o = .connErr ∨ o = .writeErr) ∧
      ((run cfg s [.register c, .write c, .cleanup c]).calls c).pc = .returned o :=
  (unregistered_call_fails cfg hrbw hrm s hs.inv.1 (postDrain_guarded (hs.dinv hgo hrbw) hp) c hpc hreg hw).1

/-- The theorem fails for drain-before-shutdown: a call registers and writes between the two
statements and then waits for ever although the failure path has finished. -/
theorem late_caller_hangs_if_drain_first :
    ((run { Gen.Mux.blockingCfg with failOrder := [.drainPending, .shutdownWriter, .sendErrors] } State.init
        [.alloc 0, .readErr, .failStep, .register 0, .write 0, .failStep, .failStep, .failStep]).calls 0)
      = { pc := .active, id := 1, reg := true, wrote := true, chan := [] } ∧
    (run { Gen.Mux.blockingCfg with failOrder := [.drainPending, .shutdownWriter, .sendErrors] } State.init
        [.alloc 0, .readErr, .failStep, .register 0, .write 0, .failStep, .failStep, .failStep]).reader = .finished 0 := by
  decide

/-- **Later calls.**  On a client whose failure path has finished, a new call runs
alloc → register (refused) or alloc → register → write (fails) → cleanup and returns an error; it
never reaches a blocking step, and leaves the pending map as it found it. -/
theorem later_calls_error (cfg : Cfg) (hgo : goodOrder false false cfg.failOrder = true) (hrbw : cfg.regBeforeWrite = true)
    (hrm : cfg.writeErrRemoves = true)
    (s : State) (hs : Reachable cfg s) (g : Nat) (hf : s.reader = .finished g) (c : Nat) (hc : (s.calls c).pc = .idle) :
    (∃ o, (o = .connErr ∨ o = .writeErr) ∧
      ((run cfg s [.alloc c, .register c, .write c, .cleanup c]).calls c).pc = .returned o) ∧
    (run cfg s [.alloc c, .register c, .write c, .cleanup c]).pending = s.pending := by
  have hs1 := hs.step (.alloc c)
  have h1 : step cfg s (.alloc c) = setCall { s with nextId := s.nextId + 1 } c { pc := .active, id := s.nextId } := by
    simp [step, hc]
  have hg : guarded (step cfg s (.alloc c)) = true := by
    rw [h1]; simpa [guarded] using (hs.dinv hgo hrbw).fin g hf
  have := unregistered_call_fails cfg hrbw hrm (step cfg s (.alloc c)) hs1.inv.1 hg c
    (by rw [h1]; simp) (by rw [h1]; simp) (by rw [h1]; simp)
  have hp : (step cfg s (.alloc c)).pending = s.pending := by rw [h1]; rfl
  simpa [run, hp] using this

/-- **What a call on a dead connection returns** (for the fleet model, C19): once the failure path has
finished, a new call returns exactly one error class, fixed by the client's `fail_all_pending`:
"refused at registration" (`connErr`) if that function marks the connection failed together with the
drain (`closeAndDrain`), else "write failed" (`writeErr`); never a response, never a timeout, never a
blocking step. -/
theorem dead_connection_outcome (cfg : Cfg) (hgo : goodOrder false false cfg.failOrder = true) (hrbw : cfg.regBeforeWrite = true)
    (hrm : cfg.writeErrRemoves = true)
    (s : State) (hs : Reachable cfg s) (g : Nat) (hf : s.reader = .finished g) (c : Nat) (hc : (s.calls c).pc = .idle) :
    ((run cfg s [.alloc c, .register c, .write c, .cleanup c]).calls c).pc =
      .returned (if FailStep.closeAndDrain ∈ cfg.failOrder then .connErr else .writeErr) := by
  have hs1 := hs.step (.alloc c)
  have h1 : step cfg s (.alloc c) = setCall { s with nextId := s.nextId + 1 } c { pc := .active, id := s.nextId } := by
    simp [step, hc]
  have hg : guarded (step cfg s (.alloc c)) = true := by
    rw [h1]; simpa [guarded] using (hs.dinv hgo hrbw).fin g hf
  have hout := (unregistered_call_outcome cfg hrbw hrm (step cfg s (.alloc c)) hs1.inv.1 hg c
    (by rw [h1]; simp) (by rw [h1]; simp) (by rw [h1]; simp)).1
  have hrc : (step cfg s (.alloc c)).regClosed = s.regClosed := by rw [h1]; rfl
  have hiff : s.regClosed = true ↔ FailStep.closeAndDrain ∈ cfg.failOrder :=
    ⟨hs.cinv.only, hs.cinv.fin g hf⟩
  simp only [run, List.foldl_cons, List.foldl_nil] at hout ⊢
  rw [hout, hrc]
  by_cases hm : FailStep.closeAndDrain ∈ cfg.failOrder
  · simp [hm, hiff.2 hm]
  · have : s.regClosed = false := by
      cases hx : s.regClosed
      · rfl
      · exact absurd (hiff.1 hx) hm
    simp [hm, this]

/-- Per client kind, from the re-extracted `fail_all_pending`: the blocking client's dead-connection
error is the failed write; the async and WebSocket clients refuse at registration. -/
theorem dead_connection_outcome_by_client :
    (FailStep.closeAndDrain ∈ Gen.Mux.blockingCfg.failOrder) = False ∧
    FailStep.closeAndDrain ∈ Gen.Mux.asyncCfg.failOrder ∧ FailStep.closeAndDrain ∈ Gen.Mux.wsCfg.failOrder := by
  refine ⟨by simp; decide, by decide, by decide⟩

example : (run Gen.Mux.wsCfg State.init (.readErr :: List.replicate 12 .failStep)).reader = .finished 0 := by
  decide

/-- **WebSocket control messages** (`decode_websocket_frame`, re-extracted): a Close or a Text message
ends the connection exactly like a read error — the reader enters the failure path, to which every
theorem above applies — whether or not the peer also closes the TCP socket; Ping and Pong change nothing. -/
theorem ws_close_or_text_is_failure (s : State) (hr : s.reader = .idle) :
    ctlStep Gen.Mux.wsCfg s Gen.Mux.wsClose = step Gen.Mux.wsCfg s .readErr ∧
    ctlStep Gen.Mux.wsCfg s Gen.Mux.wsText = step Gen.Mux.wsCfg s .readErr ∧
    Failed (ctlStep Gen.Mux.wsCfg s Gen.Mux.wsClose) ∧ Failed (ctlStep Gen.Mux.wsCfg s Gen.Mux.wsText) := by
  have h1 : Gen.Mux.wsClose = .fail := by decide
  have h2 : Gen.Mux.wsText = .fail := by decide
  rw [h1, h2]
  refine ⟨rfl, rfl, ?_, ?_⟩ <;> simp [ctlStep, step, hr, Failed]

/-- The model has no clock: the only way a connection fails is a read error (`readErr`). Premise: the
response loops, the failure path and `connect` set no timer, deadline or socket read timeout of their own
(re-extracted; any such arm is a pessimistic fact), so a slow peer is never taken for a dead one. -/
theorem readers_have_no_timer : Gen.Mux.readersHaveNoTimer = [true, true, true] := by decide

/-- Dropping a handle of the WebSocket client closes the connection only when it was the last one
(`Drop for WebSocketClient`, re-extracted): the other handles keep being served. In the model handles are
not objects at all — this is the premise that makes that sound. -/
theorem ws_drop_closes_only_last_handle : Gen.Mux.wsDropClosesOnlyLast = true := by decide

theorem ws_ping_pong_inert (s : State) :
    ctlStep Gen.Mux.wsCfg s Gen.Mux.wsPing = s ∧ ctlStep Gen.Mux.wsCfg s Gen.Mux.wsPong = s := by
  have h1 : Gen.Mux.wsPing = .ignore := by decide
  have h2 : Gen.Mux.wsPong = .ignore := by decide
  rw [h1, h2]; exact ⟨rfl, rfl⟩

/-- Number of own steps a call still needs before it returns. -/
def callRank (k : Call) : Nat :=
  match k.pc with
  | .idle => 5
  | .active => (if k.reg then 0 else 1) + (if k.wrote then 0 else 1) + 2
  | .abandoning _ => 1
  | .returned _ => 0

/-- Every enabled own step of a call strictly decreases its rank (≤ 5): a call that is never blocked
returns within five of its own steps. -/
theorem call_rank_decreases (cfg : Cfg) (s : State) (c : Nat) (e : Ev)
    (he : e = .alloc c ∨ e = .register c ∨ e = .write c ∨ e = .writeFail c ∨ e = .recv c ∨ e = .timeout c ∨
      e = .cancel c ∨ e = .cleanup c) :
    step cfg s e = s ∨ callRank ((step cfg s e).calls c) < callRank (s.calls c) := by
  rcases he with h | h | h | h | h | h | h | h <;> subst h <;> simp only [step] <;> (repeat' split) <;>
    first
      | (left; rfl)
      | (right; simp_all [callRank, setCall, canRegister, canWrite] <;> (repeat' split) <;> simp_all <;> omega)

/-- **Subscriber end-of-stream.**  When the failure path (which contains `takeNotify`) has finished,
no subscription made before the failure was noticed still has its sender: its receiver yields `None`
after the frames already queued.  (A re-subscription on the dead client gets a fresh generation.) -/
theorem subscriber_eof (cfg : Cfg) (ht : FailStep.takeNotify ∈ cfg.failOrder) (s : State) (hs : Reachable cfg s)
    (g0 : Nat) (hf : s.reader = .finished g0) : ∀ g, s.sub = some g → g0 ≤ g :=
  ((hs.sinv ht).fin g0 hf).2

example : (run Gen.Mux.wsCfg State.init (.subscribe :: .readErr :: List.replicate 12 .failStep)).sub = none := by
  decide

/-- A call that has returned — normally, by timeout, by cancellation or with a write error — has no
entry in the pending map, in every reachable state and hence at every later time. -/
theorem returned_call_has_no_entry (cfg : Cfg) (hrm : AllRemove cfg) (s : State) (hs : Reachable cfg s) (c : Nat) (o : Outcome)
    (h : (s.calls c).pc = .returned o) : (s.calls c).id ∉ ids s.pending :=
  hs.noResidue hrm c o h

/-- **Timeout leaves no residue**: the cleanup step of a timed-out call removes exactly its own entry. -/
theorem timeout_no_residue (cfg : Cfg) (hrm : cfg.timeoutRemoves = true) (s : State) (c : Nat)
    (hpc : (s.calls c).pc = .abandoning .timedOut) (hreg : (s.calls c).reg = true) :
    (s.calls c).id ∉ ids (step cfg s (.cleanup c)).pending ∧
    (∀ e, e.1 ≠ (s.calls c).id → (e ∈ (step cfg s (.cleanup c)).pending ↔ e ∈ s.pending)) ∧
    ((step cfg s (.cleanup c)).calls c).pc = .returned .timedOut ∧
    (∀ d, d ≠ c → (step cfg s (.cleanup c)).calls d = s.calls d) := by
  simp only [step, hpc, removes, hrm, hreg, Bool.and_self, if_true, setCall_pending, Abandon.outcome]
  refine ⟨not_mem_ids_erase_self _ _, fun e he => ?_, by simp, fun d hd => by simp [setCall, hd]⟩
  rw [mem_erase]; exact ⟨fun h => h.1, fun h => ⟨h, he⟩⟩

/-- **Cancellation leaves no residue** (guard `Drop`), whether the call was cancelled before or after
registering, before or after writing. -/
theorem cancel_no_residue (cfg : Cfg) (hrm : cfg.cancelRemoves = true) (s : State) (hs : Reachable cfg s) (c : Nat)
    (hpc : (s.calls c).pc = .abandoning .cancelled) :
    (s.calls c).id ∉ ids (step cfg s (.cleanup c)).pending ∧
    (∀ e, e.1 ≠ (s.calls c).id → (e ∈ (step cfg s (.cleanup c)).pending ↔ e ∈ s.pending)) ∧
    ((step cfg s (.cleanup c)).calls c).pc = .returned .cancelled := by
  have hI := hs.inv.1
  simp only [step, hpc, removes, hrm, Bool.true_and, setCall_pending, Abandon.outcome]
  refine ⟨?_, fun e he => ?_, by simp⟩
  · split
    · exact not_mem_ids_erase_self _ _
    · rename_i hreg
      intro hm
      obtain ⟨d, hd⟩ := mem_ids.1 hm
      have ho := hI.ownP _ hd
      have := hI.inj d c ho.1 (by rw [hpc]; simp) ho.2.1
      subst this; exact hreg ho.2.2
  · split
    · rw [mem_erase]; exact ⟨fun h => h.1, fun h => ⟨h, he⟩⟩
    · rfl

example : (run Gen.Mux.asyncCfg State.init [.alloc 0, .register 0, .write 0, .cancel 0, .cleanup 0]).pending = [] := by decide

/-- **The late response is discarded.**  A frame carrying the id of a call that has returned (by
timeout, cancellation, error or normally) changes nothing, at any later time. -/
theorem late_response_inert (cfg : Cfg) (hrm : AllRemove cfg) (s : State) (hs : Reachable cfg s) (c : Nat) (o : Outcome)
    (h : (s.calls c).pc = .returned o) (evs : List Ev) (f : Frame) (hid : f.id = (s.calls c).id)
    (hn : (cfg.notifyAware && f.notify) = false) :
    step cfg (run cfg s evs) (.rmatch f) = run cfg s evs := by
  have hs' := hs.run evs
  have hret := returned_stable_run cfg s evs c o h
  have hidst : ((run cfg s evs).calls c).id = (s.calls c).id := by
    clear hret hs'
    induction evs generalizing s with
    | nil => rfl
    | cons e r ih =>
      have hst := id_stable cfg s e c (by rw [h]; simp)
      have := ih (step cfg s e) (hs.step e) (returned_stable cfg s e c o h) (by rw [hst.1]; exact hid)
      simpa [run, hst.1] using this
  have hnot := hs'.noResidue hrm c o hret
  rw [hidst, ← hid] at hnot
  simp only [step]
  split
  · simp [hn, lookup_none.2 hnot]
  · rfl

/-- **The client keeps serving.**  After any history in which calls timed out or were cancelled (the
connection itself being alive: the reader is between frames), a waiting call still gets its response:
C04's `no_lost_response` holds in every reachable state. -/
theorem others_still_served (cfg : Cfg) (hrbw : cfg.regBeforeWrite = true) (s : State) (hs : Reachable cfg s)
    (d : Nat) (f : Frame) (hr : s.reader = .idle) (hpc : (s.calls d).pc = .active) (hw : (s.calls d).wrote = true)
    (hch : (s.calls d).chan = []) (hid : f.id = (s.calls d).id) (hn : (cfg.notifyAware && f.notify) = false) :
    ((run cfg s [.rmatch f, .deliver, .recv d]).calls d).pc = .returned (.resp f) := by
  have hI := hs.inv.1
  have hreg := wrote_reg hrbw hs d hw
  have hmem : ∃ x, (f.id, x) ∈ s.pending := by
    rcases hs.inv.2 d hpc hreg hch with ht | ht
    · rw [← hid] at ht; exact mem_ids.1 ht
    · simp [heldEntries, hr, ids] at ht
  obtain ⟨x, hx⟩ := hmem
  have hxd : x = d := by
    have ho := hI.ownP _ hx
    exact hI.inj x d ho.1 (by rw [hpc]; simp) (by rw [ho.2.1]; exact hid)
  subst hxd
  have hl := lookup_of_mem hI.nodupP hx
  have e1 : step cfg s (.rmatch f) = { s with pending := erase s.pending f.id, reader := .holding x f } := by
    simp [step, hr, hn, hl]
  have e2 : step cfg { s with pending := erase s.pending f.id, reader := .holding x f } .deliver
      = push { s with pending := erase s.pending f.id, reader := .idle } x (.resp f) := by
    simp [step]
  simp only [run, List.foldl_cons, List.foldl_nil, e1, e2]
  simp [step, push, hpc, hw, hreg, hch, outcomeOf, hid]

example : ((run Gen.Mux.blockingCfg State.init
    [.alloc 0, .register 0, .write 0, .timeout 0, .cleanup 0, .alloc 1, .register 1, .write 1,
     .rmatch ⟨1, false, 0⟩, .deliver, .rmatch ⟨2, false, 1⟩, .deliver, .recv 1]).calls 1).pc
    = .returned (.resp ⟨2, false, 1⟩) := by decide

end Repe.C06
