import RepeVerif.Lemmas.LifecycleRegistry
import RepeVerif.Gen.Lifecycle
import RepeVerif.Props.C16
/-!
# C15 — Connection lifecycle hooks fire once, in order, on every exit path

> For every accepted WebSocket connection the disconnect callbacks run exactly once, whether it ends
> by clean close, abrupt socket loss, protocol violation, malformed frame, handler or
> connect-callback panic, embedder cancellation or drain-deadline abort, and never for a connection
> whose handshake failed; with a peer registry attached, the peer and its aliases are present from
> connect until then and absent afterwards. Notifications queued by connect callbacks reach the wire
> before any response, and handlers still running when the connection ends observe cancellation.

The model (`Model/Lifecycle.lean`) is the connection task `accept_and_serve` →
`handle_connection_with_config` as a transition system: the task's program counter (`Phase`), the
drop guard (`unarmed → armed → dropped`), the connection token, the outbound channel (FIFO) with its
writer task, the off-reader handlers, and as moves (`Act`) everything the task and its environment
can do — every reader exit cause, a panic in any connect hook or inline handler, the parent token
being cancelled, the task being aborted at any await point, the writer failing.  A *run* is any
sequence of enabled moves from `init`; "every maximal run" = every reachable state whose phase is
`done` (the task has returned, unwound, or been dropped); the theorems are invariants proved by
induction over runs, so they hold for every schedule and every length.

Where the guard is declared, what its `Drop` does first, and whether the writer handle aborts on
drop are facts re-extracted from the source into `Gen.Lifecycle.facts`; the theorems are stated for
configurations carrying exactly those facts (`source_facts`, by `decide`), and the examples at the
end show that each fact is needed (with it flipped the model has a run violating the clause).

clause → theorem
* disconnect callbacks run exactly once per accepted connection,
  on every exit path, after all its connect callbacks ......... `trace_shape`, `disconnect_exactly_once`,
                                                               `no_disconnect_while_live`, `exit_paths_reach_done`
* never for a connection whose handshake failed ................ `handshake_failure_no_hooks`; which upgrades fail the path check:
                                                               `path_validator_accepts_exactly_normalised`, `path_validator_root`,
                                                               `normalize_path_shape`
* cancel precedes the disconnect callbacks ...................... `cancel_before_disconnect_hooks`
* handlers still running when the connection ends observe
  cancellation .................................................. `running_handlers_see_cancel`
* notifications queued by connect callbacks reach the wire
  before any response ........................................... `connect_notifies_first`
* with a peer registry attached the peer and its aliases are
  present from connect until disconnect and absent afterwards ... `registry_presence` (uses C18's invariant and
                                                               step equations; every interleaving with calls made
                                                               for other peers)
* a parked off-reader handler holding a permit when the
  connection ends (composition with C16) ........................ `parked_handlers_cancelled_and_slots_freed` (uses `C16.exit_frees_slot`,
                                                               `C16.all_exited_running_zero`)
* cancel while the reader is suspended in a send / idle, whatever
  the writer does ................................................ `cancel_ends_suspended_reader` (+ `released_before_writer_drain`)
* (supporting) the writer task does not outlive the connection
  task; registry entry is released before the writer is awaited . `writer_torn_down_with_task`, `released_before_writer_drain`

Not modelled / trusted: Rust's drop and unwind semantics and tokio's abort-at-await (a dropped future
drops its live locals; exercised by the correspondence runs), a disconnect hook that panics.
-/
namespace Repe.C15
open Repe.Lifecycle

/- `Props/C16.lean` (imported for the composition theorem at the end) brings the off-reader model's
`Repe.St`, `Repe.Ev`, `Repe.step`, `Repe.run` into scope; inside this namespace the bare names mean the
lifecycle model's. -/
abbrev St := Lifecycle.St
abbrev Ev := Lifecycle.Ev
abbrev step := Lifecycle.step
abbrev run := Lifecycle.run

/-- The source has the placement the theorems need (re-checked against the regenerated facts). -/
theorem source_facts : Gen.Lifecycle.facts.ok = true := by decide

/-- **Shape of the hook trace.**  Whatever the schedule, once the task of an accepted connection is
gone the user callbacks have seen exactly: connect hooks `0 … k-1` in order (`k` = how many were
started; `k = nConn` unless one of them panicked), then the token cancelled, then every disconnect
hook `0 … nDisc-1` in order, each once, each seeing the token cancelled. -/
theorem trace_shape (c : Cfg) (hc : c.F = Gen.Lifecycle.facts) (s : St) (hr : Reachable c s)
    (ha : s.accepted = true) (hd : s.phase = .done) :
    s.started ≤ c.nConn ∧ s.trace = connects s.started ++ .cancel :: disconnects c.nDisc := by
  have hF : c.F.ok = true := hc ▸ source_facts
  have h := hinv_reachable hF hr
  have hp := h.phase ha
  simp only [hd, PhaseOk] at hp
  have := h.shape ha
  simp only [hp, if_true] at this
  exact ⟨h.le, this⟩

/-- **Exactly once.**  Every maximal run of an accepted connection has exactly one invocation of each
registered disconnect hook (and none of an unregistered index), at most one of each connect hook, and
every connect invocation it has precedes every disconnect invocation. -/
theorem disconnect_exactly_once (c : Cfg) (hc : c.F = Gen.Lifecycle.facts) (s : St) (hr : Reachable c s)
    (ha : s.accepted = true) (hd : s.phase = .done) :
    (∀ i, s.trace.countP (Ev.isDisc i) = if i < c.nDisc then 1 else 0) ∧
    (∀ i, s.trace.countP (Ev.isConn i) = if i < s.started then 1 else 0) ∧
    (∀ pre e post, s.trace = pre ++ e :: post → e.isDisconnect = true →
      (∀ x ∈ post, x.isConnect = false) ∧ ∀ j, j < s.started → .connect j ∈ pre) := by
  obtain ⟨_, hs⟩ := trace_shape c hc s hr ha hd
  refine ⟨fun i => ?_, fun i => ?_, fun pre e post heq he => ?_⟩
  · rw [hs, List.countP_append, List.countP_cons, count_disc_connects, count_disc_disconnects]
    simp [Ev.isDisc]
  · rw [hs, List.countP_append, List.countP_cons, count_conn_connects, count_conn_disconnects]
    simp [Ev.isConn]
  · obtain ⟨h1, _, h3, _⟩ := shape_order s.started c.nDisc pre e post (hs ▸ heq) he
    exact ⟨fun x hx => (h1 x hx).1, h3⟩

/-- … and not before the end: as long as the guard has not dropped (in particular in every phase up
to and including the reader loop) no disconnect hook has run. -/
theorem no_disconnect_while_live (c : Cfg) (hc : c.F = Gen.Lifecycle.facts) (s : St) (hr : Reachable c s)
    (hg : s.guard ≠ .dropped) : ∀ i, s.trace.countP (Ev.isDisc i) = 0 := by
  have hF : c.F.ok = true := hc ▸ source_facts
  have h := hinv_reachable hF hr
  intro i
  cases ha : s.accepted with
  | false => simp [(h.pre ha).1]
  | true =>
    have := h.shape ha
    simp only [hg, if_false, List.append_nil] at this
    rw [this, count_disc_connects]

/-- **Failed handshake.**  A connection that was never accepted (the handshake failed, or the task was
aborted while still in the handshake) has no hook event at all, in any state of any run. -/
theorem handshake_failure_no_hooks (c : Cfg) (hc : c.F = Gen.Lifecycle.facts) (s : St) (hr : Reachable c s)
    (ha : s.accepted = false) : s.trace = [] ∧ s.guard = .unarmed ∧ s.started = 0 := by
  have hF : c.F.ok = true := hc ▸ source_facts
  have h := hinv_reachable hF hr
  obtain ⟨h1, h2, h3, _⟩ := h.pre ha
  exact ⟨h1, h2, h3⟩

/-- … and an accepted connection is one whose handshake move was `handshakeOk`: after `handshakeFail`
(or an abort during the handshake) the connection stays unaccepted for the rest of every run. -/
theorem failed_handshake_stays_unaccepted (c : Cfg) (a : Act) (as : List Act) (s : St)
    (h : a = .handshakeFail ∨ a = .abort) (hr : run c init (a :: as) = some s) : s.accepted = false := by
  have hstep : ∀ s a s', (s.accepted = false ∧ s.phase = .done) → step c s a = some s' →
      (s'.accepted = false ∧ s'.phase = .done) := by
    intro s a s' ⟨h1, h2⟩ hs
    have ts := trySend_fields c s
    cases a <;> simp only [step, Lifecycle.step, h2] at hs <;> (repeat' split at hs) <;> (try (simp at hs)) <;>
      (try (obtain ⟨_, hs⟩ := hs)) <;> (try subst hs) <;> simp_all [enqueue]
  simp only [run, Lifecycle.run] at hr
  rcases h with rfl | rfl
  · have : Lifecycle.step c init .handshakeFail = some { init with phase := .done } := rfl
    rw [this] at hr
    exact (run_preserves (P := fun s => s.accepted = false ∧ s.phase = .done) hstep ⟨rfl, rfl⟩ hr).1
  · have : Lifecycle.step c init .abort = some (teardown c init) := rfl
    rw [this] at hr
    have e : (teardown c init).accepted = false ∧ (teardown c init).phase = .done := by
      simp [teardown, dropGuard, init]
    exact (run_preserves (P := fun s => s.accepted = false ∧ s.phase = .done) hstep e hr).1

/-- **Cancel first.**  In every maximal run of an accepted connection the guard's `cancel()` comes
before every disconnect hook, and every disconnect hook sees the token cancelled. -/
theorem cancel_before_disconnect_hooks (c : Cfg) (hc : c.F = Gen.Lifecycle.facts) (s : St) (hr : Reachable c s)
    (ha : s.accepted = true) (hd : s.phase = .done) :
    .cancel ∈ s.trace ∧
    ∀ pre e post, s.trace = pre ++ e :: post → e.isDisconnect = true →
      .cancel ∈ pre ∧ (∀ x ∈ post, x ≠ .cancel) ∧ ∃ i, e = .disconnect i true := by
  obtain ⟨_, hs⟩ := trace_shape c hc s hr ha hd
  refine ⟨by simp [hs], fun pre e post heq he => ?_⟩
  obtain ⟨h1, h2, _, h4⟩ := shape_order s.started c.nDisc pre e post (hs ▸ heq) he
  exact ⟨h2, fun x hx => (h1 x hx).2, h4⟩

/-- **Handlers see the cancellation.**  Once the guard has dropped — in particular in every state in
which the task of an accepted connection is gone — the connection token is cancelled, it stays
cancelled along every continuation of the run, and it is the token every handler of the connection
(parked or running, inline or off-reader) reads through `ctx.is_cancelled()`. -/
theorem running_handlers_see_cancel (c : Cfg) (hc : c.F = Gen.Lifecycle.facts) (s : St) (hr : Reachable c s)
    (ha : s.accepted = true) (hd : s.phase = .done) :
    seenByHandlers s = true ∧
    ∀ as s', run c s as = some s' → seenByHandlers s' = true ∧ s'.phase = .done := by
  have hF : c.F.ok = true := hc ▸ source_facts
  have h := hinv_reachable hF hr
  have hp := h.phase ha
  simp only [hd, PhaseOk] at hp
  have ht : s.token = true := h.tok hp
  refine ⟨ht, fun as s' hrun => ?_⟩
  have hstep : ∀ s a s', (s.token = true ∧ s.phase = .done) → step c s a = some s' →
      (s'.token = true ∧ s'.phase = .done) := by
    intro s a s' ⟨h1, h2⟩ hs
    refine ⟨token_step s a s' h1 hs, ?_⟩
    have ts := trySend_fields c s
    cases a <;> simp only [step, Lifecycle.step, h2] at hs <;> (repeat' split at hs) <;> (try (simp at hs)) <;>
      (try (obtain ⟨_, hs⟩ := hs)) <;> (try subst hs) <;> simp_all [enqueue]
  exact run_preserves (P := fun s => s.token = true ∧ s.phase = .done) hstep ⟨ht, hd⟩ hrun

/-- The same at the moment it matters for a handler that is still running: as soon as any disconnect
hook has been invoked, the token is cancelled. -/
theorem cancelled_once_disconnecting (c : Cfg) (hc : c.F = Gen.Lifecycle.facts) (s : St) (hr : Reachable c s)
    (i : Nat) (h : s.trace.countP (Ev.isDisc i) ≠ 0) : seenByHandlers s = true := by
  have hF : c.F.ok = true := hc ▸ source_facts
  have hi := hinv_reachable hF hr
  by_cases hg : s.guard = .dropped
  · exact hi.tok hg
  · exact absurd (no_disconnect_while_live c hc s hr hg i) h

/-- **Connect-hook notifies first.**  In every state of every run, on the wire no response precedes
a notify queued by a connect hook: the outbound channel is a FIFO the writer drains in order
(possibly with gaps: a refused notify), connect hooks enqueue only before the `select!` over the
reader is entered, and responses are enqueued only by the reader or by handlers it spawned. -/
theorem connect_notifies_first (c : Cfg) (hc : c.F = Gen.Lifecycle.facts) (s : St) (hr : Reachable c s) :
    s.wire.Pairwise NotifyFirst ∧ s.wire.Sublist s.log ∧
    ∀ pre f post, s.wire = pre ++ f :: post → f.isConnNotify = true → ∀ x ∈ pre, x.isResponse = false := by
  have hR : c.F.hooksBeforeReader = true := by rw [hc]; decide
  have hw := winv_reachable hR hr
  have hsub : s.wire.Sublist s.log := List.Sublist.trans (List.sublist_append_left _ _) hw.sub
  have hp : s.wire.Pairwise NotifyFirst := List.Pairwise.sublist hsub hw.ord
  refine ⟨hp, hsub, fun pre f post heq hf x hx => ?_⟩
  rw [heq, List.pairwise_append] at hp
  have := hp.2.2 x hx f (by simp)
  simp only [NotifyFirst, hf, and_true] at this
  simpa using this

/-- Everything a connect hook managed to queue while the channel had room is in the accepted-frame
log ahead of every response: the log itself is ordered, not only its delivered part. -/
theorem log_ordered (c : Cfg) (hc : c.F = Gen.Lifecycle.facts) (s : St) (hr : Reachable c s) :
    s.log.Pairwise NotifyFirst :=
  (winv_reachable (by rw [hc]; decide) hr).ord

/-- **The writer goes with the task** (needs `AbortOnDrop`): once the task of an accepted connection is
gone, its writer task has finished or has been aborted. -/
theorem writer_torn_down_with_task (c : Cfg) (hc : c.F = Gen.Lifecycle.facts) (s : St) (hr : Reachable c s)
    (ha : s.accepted = true) (hd : s.phase = .done) : s.writer = .finished ∨ s.writer = .aborted := by
  have hA : c.F.abortOnDrop = true := by rw [hc]; decide
  have hW : c.F.writerBeforeGuard = true := by rw [hc]; decide
  exact (rinv_reachable hA hW hr).gone ha hd

/-- **The writer runs for as long as the connection is served** (needs the writer to be spawned before
the guard, i.e. before any hook or handler can queue a frame): in every state of an accepted
connection the writer task has been spawned, so every queued frame can be taken (`writerSend` is
enabled whenever the queue is non-empty and the writer has not failed). -/
theorem writer_runs_while_served (c : Cfg) (hc : c.F = Gen.Lifecycle.facts) (s : St) (hr : Reachable c s)
    (ha : s.accepted = true) : s.writer ≠ .notSpawned := by
  have hA : c.F.abortOnDrop = true := by rw [hc]; decide
  have hW : c.F.writerBeforeGuard = true := by rw [hc]; decide
  exact (rinv_reachable hA hW hr).spawned ha

/-- **Released before the writer is awaited** (needs the guard to be a local of the reader's block):
while the task waits for its writer, the disconnect hooks have already run. -/
theorem released_before_writer_drain (c : Cfg) (hc : c.F = Gen.Lifecycle.facts) (s : St) (hr : Reachable c s)
    (hd : s.phase = .draining) : s.guard = .dropped ∧ s.token = true := by
  have hF : c.F.ok = true := hc ▸ source_facts
  have h := hinv_reachable hF hr
  have ha : s.accepted = true := by
    cases ha : s.accepted with
    | true => rfl
    | false => have := (h.pre ha).2.2.2; simp [hd] at this
  have hp := h.phase ha
  simp only [hd, PhaseOk] at hp
  exact ⟨hp.2, h.tok hp.2⟩

/-- **Registry presence.**  Let `with_peer_registry` be registered first (connect hook 0 inserts the
peer, disconnect hook 0 removes it) and let connect hook `j+1` alias `keys[j]` to the peer.  Take any
state `s` of any run of the connection, and any interleaving `items` of the hook events seen so far
(`s.trace`) with whole registry calls made on behalf of other peers (`Foreign`: they do not
insert/remove/alias this peer id nor re-point one of its keys), starting from any registry state
`r0` that satisfies C18's invariant and does not contain the peer.  Then

* from the first connect hook until the guard drops, the registry returns the peer's handle for its
  id and for every key aliased so far;
* once the guard has dropped — in particular when the task is gone — the id is absent, no key
  resolves to it, and nothing is listed under it;
* before the first connect hook (and for a failed handshake, always) the peer is absent. -/
theorem registry_presence (c : Cfg) (hc : c.F = Gen.Lifecycle.facts) (s : St) (hr : Reachable c s)
    (id tag : Nat) (keys : List Peers.Key) (hn : c.nConn = keys.length + 1) (hdisc : 1 ≤ c.nDisc)
    (r0 : Peers.State) (hI : Peers.Inv r0) (h0 : Peers.get r0 id = none)
    (items : List Item) (hproj : items.filterMap Item.evOf = s.trace)
    (hf : ∀ op, Item.foreign op ∈ items → Foreign id keys op) :
    let r := regRun id tag keys r0 items
    Peers.Inv r ∧
    (1 ≤ s.started → s.guard ≠ .dropped →
      Peers.get r id = some ⟨id, tag⟩ ∧ ∀ k ∈ keys.take (s.started - 1), Peers.getBy r k = some ⟨id, tag⟩) ∧
    ((s.guard = .dropped ∨ s.started = 0) →
      Peers.get r id = none ∧ Peers.aliasesFor r id = [] ∧ ∀ k t, Peers.getBy r k ≠ some ⟨id, t⟩) := by
  intro r
  have hF : c.F.ok = true := hc ▸ source_facts
  have h := hinv_reachable hF hr
  have hag0 : Agrees id tag keys r0 .absent := by
    simp only [Agrees]
    cases hl : Peers.lookup id r0.peers with
    | none => rfl
    | some t => simp [Peers.get, hl] at h0
  obtain ⟨hag, hI'⟩ := agrees_run (id := id) (tag := tag) (keys := keys) items hI hag0 hf
  rw [hproj] at hag
  have hle : s.started ≤ keys.length + 1 := hn ▸ h.le
  -- the presence state of the trace
  have hpres : List.foldl (presStep keys) .absent s.trace =
      if s.guard = .dropped ∨ s.started = 0 then .absent else .present (keys.take (s.started - 1)) := by
    cases ha : s.accepted with
    | false =>
      obtain ⟨h1, _, h3, _⟩ := h.pre ha
      simp [h1, h3]
    | true =>
      have hs := h.shape ha
      rw [hs, List.foldl_append]
      have hc := presOf_connects keys s.started hle
      unfold presOf at hc
      rw [hc]
      by_cases hg : s.guard = .dropped
      · simp only [hg, if_true, true_or, List.foldl_cons]
        have : ∀ p, presStep keys p Ev.cancel = p := by intro p; cases p <;> rfl
        rw [this, presStep_disconnects]
        have : ¬ c.nDisc = 0 := by omega
        simp [this]
      · simp [hg]
  rw [hpres] at hag
  refine ⟨hI', fun h1 hg => ?_, fun hcase => ?_⟩
  · have : ¬ (s.guard = .dropped ∨ s.started = 0) := by
      intro hx; rcases hx with hx | hx
      · exact hg hx
      · omega
    rw [if_neg this] at hag
    exact agrees_present hag
  · rw [if_pos hcase] at hag
    exact agrees_absent hI' hag

/-! ### every exit path of the quantifier is a run of the model (non-vacuity), with its trace -/

/-- Two connect hooks, two disconnect hooks, channel capacity 2, a parent token. -/
def demo : Cfg := ⟨Gen.Lifecycle.facts, 2, 2, 2, true⟩

def hooksOk : List Act := [.handshakeOk, .hookStart, .hookNotify 0, .hookReturn, .hookStart, .hookReturn, .enterReader]

def fullTrace : List Ev := [.connect 0, .connect 1, .cancel, .disconnect 0 true, .disconnect 1 true]

/-- the trace and phase reached by a schedule -/
def outcome (c : Cfg) (as : List Act) : Option (Phase × List Ev) := (run c init as).map (fun s => (s.phase, s.trace))

theorem exit_paths_reach_done :
    -- reader exit causes, from the idle reader
    (∀ cause : Cause, outcome demo (hooksOk ++ [.readerExit cause, .writerFinish, .writerJoined]) = some (.done, fullTrace)) ∧
    -- inline handler panic
    outcome demo (hooksOk ++ [.recvInline, .inlinePanic]) = some (.done, fullTrace) ∧
    -- panic in the second connect hook: both disconnect hooks still run, after the connects that happened
    outcome demo [.handshakeOk, .hookStart, .hookReturn, .hookStart, .hookPanic] = some (.done, fullTrace) ∧
    -- panic in the first connect hook
    outcome demo [.handshakeOk, .hookStart, .hookPanic] =
      some (.done, [.connect 0, .cancel, .disconnect 0 true, .disconnect 1 true]) ∧
    -- embedder cancellation with an off-reader handler parked
    outcome demo (hooksOk ++ [.recvOff 7, .parentCancel, .selectCancelled, .writerFinish, .writerJoined]) = some (.done, fullTrace) ∧
    -- cancellation while the reader is blocked on a full outbound channel
    outcome demo (hooksOk ++ [.recvInline, .inlineReturn (some 1), .recvInline, .inlineReturn (some 2),
        .parentCancel, .selectCancelled, .writerSend, .writerFinish, .writerJoined]) = some (.done, fullTrace) ∧
    -- task aborted while reading, while blocked on the channel, while awaiting the writer
    outcome demo (hooksOk ++ [.abort]) = some (.done, fullTrace) ∧
    outcome demo (hooksOk ++ [.recvInline, .inlineReturn (some 1), .recvInline, .inlineReturn (some 2), .abort]) = some (.done, fullTrace) ∧
    outcome demo (hooksOk ++ [.readerExit .close, .abort]) = some (.done, fullTrace) ∧
    -- writer failure (socket gone under a queued response): the reader's blocked send fails
    outcome demo (hooksOk ++ [.recvInline, .inlineReturn (some 1), .recvInline, .inlineReturn (some 2),
        .writerFail, .sendClosed, .writerJoined]) = some (.done, fullTrace) ∧
    -- failed handshake, and abort during the handshake: nothing
    outcome demo [.handshakeFail] = some (.done, []) ∧
    outcome demo [.abort] = some (.done, []) := by
  refine ⟨fun cause => by cases cause <;> decide, ?_⟩
  decide

/-- a run in which the blocked reader really is blocked (the phase the quantifier calls "outbound queue
non-empty") and a connect-hook notify is on the wire before the first response -/
example : (run demo init (hooksOk ++ [.recvInline, .inlineReturn (some 1), .recvInline, .inlineReturn (some 2),
      .writerSend, .sendUnblocked, .writerSend])).map (fun s => (s.phase, s.wire, s.queue)) =
    some (.reading, [.connNotify 0 0, .response 1], [.response 2]) := by decide

/-- the hypotheses of `registry_presence` are satisfiable: a connection with one alias hook, another
peer connecting and leaving in between -/
example :
    let items : List Item := [.ev (.connect 0), .foreign (.insert 9 90), .ev (.connect 1), .foreign (.alias 9 "other"),
      .foreign (.remove 9)]
    let r := regRun 4 40 ["tok"] Peers.State.empty items
    Peers.get r 4 = some ⟨4, 40⟩ ∧ Peers.getBy r "tok" = some ⟨4, 40⟩ ∧ Peers.getBy r "other" = none := by decide

example :
    let items : List Item := [.ev (.connect 0), .ev (.connect 1), .ev .cancel, .ev (.disconnect 0 true), .ev (.disconnect 1 true)]
    let r := regRun 4 40 ["tok"] Peers.State.empty items
    Peers.get r 4 = none ∧ Peers.getBy r "tok" = none := by decide

/-! ### each extracted fact is needed: with it flipped the model has a violating run -/

def withFacts (F : Facts) : Cfg := ⟨F, 2, 2, 2, true⟩

/-- guard declared after the hook loops: a panicking connect hook leaves no disconnect at all -/
example : outcome (withFacts { Facts.good with guardBeforeHooks := false }) [.handshakeOk, .hookStart, .hookReturn, .hookStart, .hookPanic] =
    some (.done, [.connect 0, .connect 1]) := by decide

/-- hooks before `cancel()` in `Drop`: the disconnect hooks see an un-cancelled token -/
example : outcome (withFacts { Facts.good with cancelBeforeHooks := false }) (hooksOk ++ [.readerExit .close]) =
    some (.draining, [.connect 0, .connect 1, .disconnect 0 false, .disconnect 1 false, .cancel]) := by decide

/-- guard at function scope: the task waits for its writer with the peer still registered -/
example : (run (withFacts { Facts.good with guardInReaderBlock := false }) init (hooksOk ++ [.readerExit .close])).map
    (fun s => (s.phase, s.guard, s.token)) = some (.draining, .armed, false) := by decide

/-- the reader started before the hook loops are over: a response overtakes a connect-hook notify -/
example : (run (withFacts { Facts.good with hooksBeforeReader := false }) init
      [.handshakeOk, .hookStart, .hookReturn, .earlyResponse 1, .hookStart, .hookNotify 0, .hookReturn,
       .writerSend, .writerSend]).map (fun s => s.wire) = some [.response 1, .connNotify 1 0] := by decide

/-- writer spawned only after the guard (after the block): a connect-hook panic loses every queued
notify — no writer ever exists — and while the connection is served nothing reaches the wire -/
example : (run (withFacts { Facts.good with writerBeforeGuard := false }) init
      [.handshakeOk, .hookStart, .hookNotify 0, .hookPanic]).map (fun s => (s.writer, s.queue, s.wire)) =
    some (.notSpawned, [.connNotify 0 0], []) := by decide
example : run (withFacts { Facts.good with writerBeforeGuard := false }) init
      [.handshakeOk, .hookStart, .hookNotify 0, .hookReturn, .writerSend] = none := by decide

/-- no `AbortOnDrop`: an aborted task leaves its writer running -/
example : (run (withFacts { Facts.good with abortOnDrop := false }) init (hooksOk ++ [.abort])).map
    (fun s => (s.phase, s.writer)) = some (.done, .signalled) := by decide

/-! ### cancel and reader-detected end while the writer is blocked -/

/-- **Cancel reaches a suspended reader.**  In every reachable state whose token is cancelled and whose
reader is parked — idle in `next()` or suspended in `outbound_tx.send` on a full channel, whatever the
writer is doing (jammed against a peer that does not read, failed, …) — the `select!`'s cancelled arm
is enabled, and taking it drops the guard at once: the token stays cancelled, every disconnect hook
runs (each once, after the connects), and only then does the task wait for its writer.  (The token is
raced against the whole reader future: fact `cancelRacesWholeReader`.) -/
theorem cancel_ends_suspended_reader (c : Cfg) (hc : c.F = Gen.Lifecycle.facts) (s : St) (hr : Reachable c s)
    (ht : s.token = true) (hp : s.phase = .reading ∨ ∃ id, s.phase = .sendBlocked id) :
    Gen.Lifecycle.cancelRacesWholeReader = true ∧
    ∃ s', step c s .selectCancelled = some s' ∧ s'.phase = .draining ∧ s'.guard = .dropped ∧ s'.token = true ∧
      s'.trace = s.trace ++ .cancel :: disconnects c.nDisc := by
  refine ⟨by decide, ?_⟩
  have hF : c.F.ok = true := hc ▸ source_facts
  obtain ⟨_, _, hib, _, hcb, _⟩ := facts_ok hF
  have h := hinv_reachable hF hr
  have ha : s.accepted = true := by
    cases ha : s.accepted with
    | true => rfl
    | false =>
      have := (h.pre ha).2.2.2
      rcases hp with hp | ⟨id, hp⟩ <;> simp [hp] at this
  have hph := h.phase ha
  have hg : s.guard = .armed := by
    rcases hp with hp | ⟨id, hp⟩ <;> simp only [hp, PhaseOk] at hph <;> exact hph.2
  have hx : (exitBlock c s).phase = .draining ∧ (exitBlock c s).guard = .dropped ∧ (exitBlock c s).token = true ∧
      (exitBlock c s).trace = s.trace ++ .cancel :: disconnects c.nDisc := by
    unfold exitBlock
    simp [hib, dropGuard_armed c s hg, dropEvents_good c.F hcb]
  refine ⟨exitBlock c s, ?_, hx.1, hx.2.1, hx.2.2.1, hx.2.2.2⟩
  rcases hp with hp | ⟨id, hp⟩ <;> simp [step, Lifecycle.step, ht, hp]

/-- the hypotheses are satisfiable with the reader really suspended: channel of capacity 2 full, writer not
draining, parent token cancelled -/
example : (run demo init (hooksOk ++ [.recvInline, .inlineReturn (some 1), .recvInline, .inlineReturn (some 2), .parentCancel])).map
    (fun s => (s.phase, s.token, s.queue.length)) = some (.sendBlocked 2, true, 2) := by decide

/-- The connection task and the reader loop contain no timer, sleep, timeout or retry arm, and the
`select!` over the reader has exactly its two arms (re-extracted): the model's reader has no move that
a clock could trigger, so a peer that stalls mid-handshake or mid-frame for any length of time is just a
longer stay in `handshake` / `reading` — no hook event (`no_disconnect_while_live`). -/
theorem no_timers_in_connection_task : Gen.Lifecycle.noTimersInConnectionLoops = true := by decide

/-! ### one identity per connection, hooks in registration order -/

/-- **Distinct identities.**  Connections accepted concurrently get pairwise distinct `PeerId`s: the id is
one atomic `fetch_add` on the shared counter (re-extracted from the source), so "exactly once per
accepted connection" is exactly once per id, and a registry entry belongs to one live connection. -/
theorem concurrent_accepts_get_distinct_ids :
    Gen.Lifecycle.peerIdFetchAdd = true ∧ ∀ c n, (mintIds c n).Nodup ∧ (mintIds c n).length = n :=
  ⟨by decide, fun c n => ⟨by simp [mintIds, List.nodup_range'], by simp [mintIds]⟩⟩

/-- **Registration order.**  Every registrar appends to its chain and `with_peer_registry` goes through
the ordinary registrars (re-extracted), so the model's hook index is the registration index: a callback
registered before `with_peer_registry` runs before the registry's insert / remove, one registered after
it runs after (the driver and the harness place `with_peer_registry` at every position). -/
theorem hooks_run_in_registration_order : Gen.Lifecycle.hooksInRegistrationOrder = true := by decide

/-! ### which handshakes are accepted: `normalize_path` + `WebSocketPathValidator` -/

/-- The model of the path check and of the error report is the code's: the validator answers `Ok` exactly
under `request.uri().path() == self.expected`, `normalize_path` has the three modelled branches, and
`accept_and_serve` reports once per outcome (re-extracted from the source on every run). -/
theorem handshake_source_forms :
    Gen.Lifecycle.pathCheckExact = true ∧ Gen.Lifecycle.normalizeThreeBranches = true ∧
    Gen.Lifecycle.oneErrorReportPerOutcome = true := by decide

/-- **Path validator.**  Every spelling of a configured path `b` — with or without the leading slash,
with any number of trailing slashes — accepts exactly the request path `/b` (compared verbatim: a
request for `/b/` is rejected), so exactly those upgrades become accepted connections with hooks. -/
theorem path_validator_accepts_exactly_normalised (b : List Char) (hb0 : b ≠ []) (hh : b.head? ≠ some '/')
    (hl : b.getLast? ≠ some '/') (lead : Bool) (k : Nat) (req : List Char) :
    pathAccepted ((if lead then ['/'] else []) ++ b ++ List.replicate k '/') req = true ↔ req = '/' :: b := by
  have key : normalizePath ((if lead then ['/'] else []) ++ b ++ List.replicate k '/') = '/' :: b := by
    obtain ⟨x, xs, rfl⟩ := List.exists_cons_of_ne_nil hb0
    have hx : x ≠ '/' := by simpa using hh
    cases lead with
    | true =>
      have hl' : ('/' :: x :: xs).getLast? ≠ some '/' := by simpa [List.getLast?_cons_cons] using hl
      have := trimSlashes_append_replicate ('/' :: x :: xs) k hl'
      simp only [List.cons_append, List.nil_append, if_true] at this ⊢
      simp [normalizePath, this]
    | false =>
      have := trimSlashes_append_replicate (x :: xs) k hl
      simp only [List.cons_append, List.nil_append] at this ⊢
      simp [normalizePath, this, hx]
  unfold pathAccepted
  rw [key]
  simp

/-- the root: an empty or `/` configured path accepts exactly `/` -/
theorem path_validator_root (req : List Char) :
    (pathAccepted [] req = true ↔ req = ['/']) ∧ (pathAccepted ['/'] req = true ↔ req = ['/']) := by
  simp [pathAccepted, normalizePath]

/-- what `normalize_path` can return: `/`, or something that starts with `/` and does not end with one,
or — only for a configured path made of two or more slashes — the empty string, which no request path
equals (such a server accepts nothing; recorded in notes/C15.md, harmless for the property). -/
theorem normalize_path_shape (p : List Char) :
    normalizePath p = ['/'] ∨ normalizePath p = [] ∨
    ((normalizePath p).head? = some '/' ∧ (normalizePath p).getLast? ≠ some '/') := by
  unfold normalizePath
  split
  · exact Or.inl rfl
  · split
    · rename_i hh
      cases ht : trimSlashes p with
      | nil => exact Or.inr (Or.inl rfl)
      | cons x xs =>
        have hx := trimSlashes_head p x xs ht
        rw [hh] at hx
        refine Or.inr (Or.inr ⟨by simpa using hx.symm, ht ▸ trimSlashes_no_trailing p⟩)
    · cases ht : trimSlashes p with
      | nil => exact Or.inl rfl
      | cons x xs =>
        refine Or.inr (Or.inr ⟨rfl, ?_⟩)
        rw [List.getLast?_cons_cons, ← ht]
        exact trimSlashes_no_trailing p

example : pathAccepted "repe/".toList "/repe".toList = true ∧ pathAccepted "/repe".toList "/repe/".toList = false ∧
    normalizePath "//".toList = [] ∧ normalizePath "a/b//".toList = "/a/b".toList := by decide

/-! ### composition with C16: a parked off-reader handler holding a permit when the connection ends

`Model/OffReader.lean` (C16) is the permit bookkeeping of the same connection: `Repe.St.running` are the
handlers `spawn_off_reader` admitted, each holding one of the connection's permits.  The lifecycle
model's `handlers` are their ids.  When the connection task is gone the blocking threads live on. -/

/-- Every handler the lifecycle model says is still running is a running handler of the off-reader
bookkeeping `o`. -/
def CoupledOff (s : St) (o : Repe.St) : Bool :=
  s.handlers.all (fun h => o.running.any (fun r => r.id == h))

/-- **Parked handlers after the end.**  Take any state in which the task of an accepted connection is
gone, with off-reader bookkeeping `o` satisfying C16's invariant.  Every handler `h` still running
(parked or not) (1) reads a cancelled token through `ctx.is_cancelled()`, now and along every
continuation; (2) can return in any way: its return is a move of the lifecycle model (its response is
discarded — the writer is gone — and nothing else changes) and (3) by C16's `exit_frees_slot` that
return (value, error or panic) frees its slot: one fewer handler runs, C16's invariant is kept, and
with a cap the permit count drops by one; (4) once all of them have returned no permit is held
(`all_exited_running_zero`). -/
theorem parked_handlers_cancelled_and_slots_freed (c : Cfg) (hc : c.F = Gen.Lifecycle.facts) (s : St)
    (hr : Reachable c s) (ha : s.accepted = true) (hd : s.phase = .done)
    (o : Repe.St) (hi : Repe.Inv o) (hco : CoupledOff s o = true)
    (h : Nat) (hh : h ∈ s.handlers) (k : Repe.ExitKind) (resp : Option Nat) :
    seenByHandlers s = true ∧
    (∀ as s', run c s as = some s' → seenByHandlers s' = true) ∧
    (∃ s', step c s (.offFinish h resp) = some s' ∧ s'.handlers = s.handlers.erase h ∧ s'.wire = s.wire ∧
      s'.log = s.log ∧ s'.trace = s.trace ∧ seenByHandlers s' = true) ∧
    (let o' := Repe.step Gen.offFacts o (.exit h k)
     o'.running.length + 1 = o.running.length ∧ Repe.Inv o' ∧
     ∀ cap, o.cap = some cap → o'.permits + 1 = o.permits ∧ o'.running.length < cap) ∧
    (∀ ks : Repe.Run → Repe.ExitKind,
      let o' := Repe.run Gen.offFacts o (o.running.map (fun r => Repe.Ev.exit r.id (ks r)))
      o'.running = [] ∧ ∀ cap, o.cap = some cap → o'.permits = 0) := by
  obtain ⟨h1, h2⟩ := running_handlers_see_cancel c hc s hr ha hd
  have hw := writer_torn_down_with_task c hc s hr ha hd
  have hrun : ∃ r ∈ o.running, r.id = h := by
    simp only [CoupledOff, List.all_eq_true, List.any_eq_true, beq_iff_eq] at hco
    exact hco h hh
  have hclosed : chanOpen { s with handlers := s.handlers.erase h } = false := by
    rcases hw with hw | hw <;> simp [chanOpen, hw, hd]
  refine ⟨h1, fun as s' hrn => (h2 as s' hrn).1, ?_, C16.exit_frees_slot o hi h k hrun, fun ks => ?_⟩
  · cases resp with
    | none => exact ⟨{ s with handlers := s.handlers.erase h }, by simp [step, Lifecycle.step, hh], rfl, rfl, rfl, rfl, h1⟩
    | some id => exact ⟨{ s with handlers := s.handlers.erase h }, by simp [step, Lifecycle.step, hh, hclosed], rfl, rfl, rfl, rfl, h1⟩
  · have := C16.all_exited_running_zero o hi ks
    exact ⟨this.1, this.2.1⟩

/-- the hypotheses are satisfiable: embedder cancellation with handler 7 parked, holding one of two permits -/
example :
    let s := (run demo init (hooksOk ++ [.recvOff 7, .parentCancel, .selectCancelled, .writerFinish, .writerJoined])).getD init
    let o := Repe.run Gen.offFacts (Repe.St.init (some 2)) [.arrive ⟨7, .blocking, false, false, 0⟩]
    s.phase = .done ∧ s.accepted = true ∧ 7 ∈ s.handlers ∧ CoupledOff s o = true ∧ o.permits = 1 := by decide

end Repe.C15
