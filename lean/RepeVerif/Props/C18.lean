import RepeVerif.Lemmas.Peers
namespace Repe.C18
open Repe.Peers

theorem alias_absent_peer_rejected (s : State) (id : Nat) (k : Key) (h : s.present id = false) :
    alias s id k = (s, false) := by
  simp [alias, h]

end Repe.C18
