import RepeVerif.Lemmas.Peers
import RepeVerif.Lemmas.PeersLifecycle
import RepeVerif.Gen.Peers
/-!
# C18 — The peer registry and its aliases stay mutually consistent

> For every history of peer insertions, removals and alias assignments, including re-pointing a key
> to another peer and concurrent callers, looking a key up returns a peer exactly when that key was
> last assigned to a peer that is still present, each peer's alias list holds exactly the keys
> currently pointing at it in assignment order, and removing a peer removes all and only its own
> keys. A broadcast delivers exactly one notification with the given path, body and format to each
> peer present at the moment of the call and reports one result per such peer.

clause → theorem
* for every history (unbounded) ........................ `inv_preserved`, `refines_spec` (induction over the op list)
* keys unique across peers (the spec's side condition) . `spec_keys_unique`
* lookup ⇔ last assignment to a still-present peer ...... `lookup_iff_last_assignment_still_present`
                                                          (`Hist.of` = the history read without maps; `history_reading`)
* alias list = exactly the keys pointing at the peer,
  in assignment order, no duplicates .................... `alias_list_exact_in_order`, `key_for_is_first_alias`
* remove removes all and only its own keys .............. `remove_purges_exactly_own_keys`
* no dangling alias for an absent peer .................. `alias_absent_peer_rejected`
* broadcast: one notification (path, body, format) and
  one result per peer present at the call ............... `broadcast_one_per_present_peer`
* concurrent callers .................................... `single_section_ops` (every method = one lock region,
                                                          re-extracted from the source; every interleaving of whole
                                                          calls is a sequential history, to which all of the above apply)

Deepening pass (second table; same clauses, stated on positions of the history and on the entry points
users call, plus the rest of `src/peer.rs`):
* lookup ⇔ an accepted, owner-changing `alias p k` at some position, `p` not removed since, no later
  accepted `alias q k` ......................................... `lookup_iff_assigned_since` (`AssignedSince`, no fold)
* alias list = keys assigned since some position, ordered by
  those positions ............................................. `alias_list_by_assignment_calls`
* presence = inserted and not removed since .................... `present_iff_inserted_and_not_removed`
* remove / broadcast on the state after *any* history .......... `remove_after_any_history`, `broadcast_entry_points`
* the four `broadcast_notify_*` entry points incl. encoder
  error, format codes re-read from the source .................. `broadcast_entry_points`
* `PeerHandle::send_notify/is_connected`, `CallContext` ........ `handle_forwards_to_its_sink`, `plain_contexts_never_cancel`
* `insert`'s contract: minted / distinct ids never re-insert;
  what exactly happens outside the contract .................... `minted_ids_respect_contract`, `distinct_ids_respect_contract`,
                                                                 `reinsert_outside_contract`
* forms of the source branches the model mirrors ............... `source_forms`
* composition with C15's lifecycle model ....................... `lifecycle_runs_are_registry_histories`

The model (`Model/Peers.lean`) mirrors `RegistryInner`'s three maps and the branches of
`alias`/`remove`/`get_by`/`key_for`/`aliases_for`/`broadcast_each`.  Re-inserting a present id is
outside `insert`'s documented contract (`debug_assert!`); the theorems nevertheless hold for such
histories too (the model overwrites the handle like the code does, see `reinsert_outside_contract`),
the correspondence runs do not generate them.
-/
namespace Repe.C18
open Repe.Peers

/-- The invariant (forward map = inverse of the reverse index, no duplicate keys, only present
owners, one entry per peer id) holds after every history, whatever the sinks answer. -/
theorem inv_preserved (answer : Handle → SendResult) (h : List Op) :
    Inv (run answer State.empty h).1 := inv_run answer inv_empty h

/-- Every concrete operation returns what the abstract specification returns and commutes with the
abstraction map — for every history. -/
theorem refines_spec (answer : Handle → SendResult) (h : List Op) :
    abs (run answer State.empty h).1 = (Spec.run answer [] h).1 ∧
    (run answer State.empty h).2 = (Spec.run answer [] h).2 :=
  run_refines answer inv_empty h

/-- … and from every state that satisfies the invariant, for every continuation. -/
theorem refines_spec_from (answer : Handle → SendResult) (s : State) (hI : Inv s) (h : List Op) :
    abs (run answer s h).1 = (Spec.run answer (abs s) h).1 ∧
    (run answer s h).2 = (Spec.run answer (abs s) h).2 ∧ Inv (run answer s h).1 :=
  ⟨(run_refines answer hI h).1, (run_refines answer hI h).2, inv_run answer hI h⟩

/-- In the abstract state reached by any history a key is listed by at most one peer, peers are
listed once, and no list repeats a key. -/
theorem spec_keys_unique (answer : Handle → SendResult) (h : List Op) :
    let a := (Spec.run answer [] h).1
    (a.map (·.id)).Nodup ∧ (∀ p ∈ a, p.keys.Nodup) ∧
    ∀ p ∈ a, ∀ q ∈ a, ∀ k, k ∈ p.keys → k ∈ q.keys → p.id = q.id := by
  intro a
  have hI := inv_preserved answer h
  have ha : a = abs (run answer State.empty h).1 := (refines_spec answer h).1.symm
  rw [ha]
  refine ⟨?_, ?_, ?_⟩
  · simp only [abs, List.map_map]; exact hI.nodup
  · intro p hp
    simp only [abs, List.mem_map] at hp
    obtain ⟨e, _, rfl⟩ := hp
    exact hI.keysNodup e.1
  · intro p hp q hq k hkp hkq
    simp only [abs, List.mem_map] at hp hq
    obtain ⟨e, _, rfl⟩ := hp
    obtain ⟨f, _, rfl⟩ := hq
    have h1 := (hI.fwd k e.1).2 hkp
    have h2 := (hI.fwd k f.1).2 hkq
    rw [h1] at h2
    exact Option.some.inj h2

/-- How `Hist.of` reads a history, call by call (this *is* its definition; stated for the reader):
an accepted `alias q k` (q present, k not already q's) makes q the owner of k as of this call;
`remove q` forgets q and every key it owned; nothing else changes who owns what. -/
theorem history_reading (h : List Op) (op : Op) : Hist.of (h ++ [op]) = (Hist.of h).step op := by
  simp [Hist.of, List.foldl_append]

/-- **Lookup.** After any history, `get_by(k)` returns a peer exactly when `k` was last assigned to a
peer that is still present, and then it returns that peer's handle. -/
theorem lookup_iff_last_assignment_still_present (h : List Op) (k : Key) :
    (getBy (after h) k = match (Hist.of h).owner k with
                         | some p => get (after h) p
                         | none => none) ∧
    (∀ p, (Hist.of h).owner k = some p → (Hist.of h).present p = true ∧ (after h).present p = true) ∧
    (∀ p, (∃ t, getBy (after h) k = some ⟨p, t⟩) ↔ (Hist.of h).owner k = some p) := by
  have c := coupled_after h
  have hpres : ∀ p, (Hist.of h).owner k = some p → (after h).present p = true := by
    intro p hp
    rw [← c.owner] at hp
    have hin := (c.inv.fwd k p).1 hp
    cases hq : (after h).present p with
    | true => rfl
    | false => rw [c.inv.owners p hq] at hin; cases hin
  refine ⟨?_, fun p hp => ⟨by rw [← c.present]; exact hpres p hp, hpres p hp⟩, fun p => ?_⟩
  · unfold getBy; rw [c.owner]; cases (Hist.of h).owner k <;> rfl
  · unfold getBy; rw [c.owner]
    constructor
    · rintro ⟨t, ht⟩
      cases ho : (Hist.of h).owner k with
      | none => rw [ho] at ht; cases ht
      | some q =>
        rw [ho] at ht
        simp only [Peers.get] at ht
        cases hl : lookup q (after h).peers with
        | none => rw [hl] at ht; cases ht
        | some t' => rw [hl] at ht; simp at ht; rw [ht.1]
    · intro ho
      have := hpres p ho
      rw [ho]
      simp only [State.present] at this
      cases hl : lookup p (after h).peers with
      | none => rw [hl] at this; cases this
      | some t => exact ⟨t, by simp [Peers.get, hl]⟩

/-- **Alias lists.** After any history, `aliases_for(p)` holds exactly the keys currently pointing at
`p`, each once, ordered by the call at which each key's current assignment was made. -/
theorem alias_list_exact_in_order (h : List Op) (p : Nat) :
    (∀ k, k ∈ aliasesFor (after h) p ↔ (Hist.of h).owner k = some p) ∧
    (aliasesFor (after h) p).Nodup ∧
    (aliasesFor (after h) p).Pairwise (fun a b => (Hist.of h).since a < (Hist.of h).since b) := by
  have c := coupled_after h
  exact ⟨fun k => by rw [← c.owner]; exact (c.inv.fwd k p).symm, c.inv.keysNodup p, c.sorted p⟩

/-- `key_for` is the first element of `aliases_for` (the earliest surviving assignment). -/
theorem key_for_is_first_alias (s : State) (p : Nat) : keyFor s p = (aliasesFor s p).head? := by
  unfold keyFor aliasesFor; cases lookup p s.index <;> rfl

/-- **Remove.** From any reachable state, `remove(p)` returns `p`'s handle, makes exactly the keys
that pointed at `p` unresolvable, leaves every other key's lookup, every other peer and every
other peer's alias list untouched, and leaves nothing listed under `p`. -/
theorem remove_purges_exactly_own_keys (s : State) (hI : Inv s) (p : Nat) :
    (remove s p).2 = get s p ∧
    (∀ k, getBy (remove s p).1 k = if (getBy s k).map (·.id) = some p then none else getBy s k) ∧
    aliasesFor (remove s p).1 p = [] ∧ get (remove s p).1 p = none ∧
    (∀ q, q ≠ p → aliasesFor (remove s p).1 q = aliasesFor s q ∧ get (remove s p).1 q = get s q) := by
  obtain ⟨hret, hpeers, hA, hK⟩ := remove_eqs hI p
  have hget : ∀ q, get (remove s p).1 q = if q = p then none else get s q := by
    intro q
    simp only [Peers.get, hpeers, lookup_erase]
    by_cases h : p = q
    · simp [h]
    · simp [h, Ne.symm h]
  refine ⟨hret, fun k => ?_, by simp [hK], by simp [hget], fun q hq => ⟨by simp [hK, hq], by simp [hget, hq]⟩⟩
  unfold getBy
  rw [hA]
  cases ha : lookup k s.aliases with
  | none => simp
  | some q =>
    by_cases hq : q = p
    · subst hq
      have hin := (hI.fwd k q).1 ha
      have hp : s.present q = true := by
        cases hp : s.present q with
        | true => rfl
        | false => rw [hI.owners q hp] at hin; cases hin
      simp only [State.present] at hp
      cases hl : lookup q s.peers with
      | none => rw [hl] at hp; cases hp
      | some t => simp [Peers.get, hl]
    · have : ¬ (some q = some p) := fun e => hq (Option.some.inj e)
      simp only [this, if_false, hget, hq]
      cases hl : lookup q s.peers with
      | none => simp [Peers.get, hl]
      | some t => simp [Peers.get, hl, hq]

/-- **Alias on an absent peer** is rejected and changes nothing (no dangling alias). -/
theorem alias_absent_peer_rejected (s : State) (p : Nat) (k : Key) (h : s.present p = false) :
    alias s p k = (s, false) := alias_absent s p k h

/-- … and on a present peer it is accepted, `k` then resolves to `p`, and `p` lists `k` last unless it
already listed it. -/
theorem alias_present_peer_accepted (s : State) (hI : Inv s) (p : Nat) (k : Key) (h : s.present p = true) :
    (alias s p k).2 = true ∧ getBy (alias s p k).1 k = get s p ∧
    aliasesFor (alias s p k).1 p =
      if k ∈ aliasesFor s p then aliasesFor s p else aliasesFor s p ++ [k] := by
  obtain ⟨hret, hpeers, hA, hK⟩ := alias_present hI k h
  refine ⟨hret, ?_, ?_⟩
  · unfold getBy; rw [hA]; simp [Peers.get, hpeers]
  · rw [hK]; by_cases hin : k ∈ aliasesFor s p <;> simp [hin]

/-- **Broadcast.** From any reachable state: the sinks that are sent to are exactly the handles of the
peers present at the call (each once: ids are distinct and `get` returns that very handle), every
delivery carries the caller's path, format and body, and the result map has exactly one entry per
present peer, holding that peer's sink's answer. The registry state is not changed. -/
theorem broadcast_one_per_present_peer (s : State) (hI : Inv s) (path : String) (fmt : Nat) (body : Bytes)
    (answer : Handle → SendResult) :
    let r := broadcast s path fmt body answer
    r.1.map (·.to) = snapshot s ∧
    ((snapshot s).map (·.id)).Nodup ∧
    (∀ hd, hd ∈ snapshot s ↔ get s hd.id = some hd) ∧
    (∀ d ∈ r.1, d.path = path ∧ d.fmt = fmt ∧ d.body = body) ∧
    r.2 = (snapshot s).map (fun hd => (hd.id, answer hd)) ∧
    (step answer s (.broadcast path fmt body)).1 = s := by
  intro r
  have hnd : ((snapshot s).map (·.id)).Nodup := by
    simp only [snapshot, List.map_map]; exact hI.nodup
  have hid : ∀ l : List Handle, l.map ((fun x : Delivery => x.to) ∘ fun h => ⟨h, path, fmt, body⟩) = l :=
    fun l => by induction l <;> simp_all
  refine ⟨by simp only [r, broadcast, List.map_map]; exact hid _, hnd, fun hd => ?_, ?_, rfl, rfl⟩
  · obtain ⟨i, t⟩ := hd
    simp only [snapshot, List.mem_map, Peers.get]
    constructor
    · rintro ⟨e, he, heq⟩
      obtain ⟨a, b⟩ := e
      simp only [Handle.mk.injEq] at heq
      obtain ⟨rfl, rfl⟩ := heq
      have : lookup a s.peers = some b := lookup_of_mem_nodup hI.nodup he
      simp [this]
    · intro hg
      cases hl : lookup i s.peers with
      | none => rw [hl] at hg; cases hg
      | some t' =>
        rw [hl] at hg
        simp at hg
        subst hg
        exact ⟨(i, t'), lookup_mem hl, rfl⟩
  · intro d hd
    simp only [r, broadcast, List.mem_map] at hd
    obtain ⟨_, _, rfl⟩ := hd
    exact ⟨rfl, rfl, rfl⟩

/-! ### concurrent callers -/

/-- Every method of `PeerRegistry` that touches the maps takes the registry lock exactly once (fact
re-extracted from the source on every run) and `broadcast_each` takes its snapshot through one such
method and sends outside the lock. Hence a concurrent execution is an interleaving of whole calls,
i.e. some sequential history `m`, and for every such `m` the invariant, the refinement and all the
corollaries above hold. -/
theorem single_section_ops :
    (Gen.Peers.lockCalls.all (fun e => e.2 == 1) = true ∧
     ["len", "get", "alias", "get_by", "key_for", "aliases_for", "insert", "remove", "peers"].all
        (fun m => Gen.Peers.lockCalls.any (fun e => e.1 == m)) = true ∧
     Gen.Peers.broadcastLockCalls = 0 ∧ Gen.Peers.broadcastSnapshotCalls = 1 ∧
     Gen.Peers.broadcastLoopsOverSnapshot = true) ∧
    ∀ (answer : Handle → SendResult) (ts : List (List Op)) (m : List Op), Merge ts m →
      Inv (run answer State.empty m).1 ∧
      abs (run answer State.empty m).1 = (Spec.run answer [] m).1 ∧
      (run answer State.empty m).2 = (Spec.run answer [] m).2 :=
  ⟨by decide, fun answer _ m _ => ⟨inv_preserved answer m, refines_spec answer m⟩⟩

/-! ### non-vacuity: concrete histories -/

/-- two peers, a key re-pointed from 0 to 1, a second key, then the new owner removed -/
def demo : List Op :=
  [.insert 0 10, .insert 1 11, .alias 0 "a", .alias 0 "b", .alias 1 "a", .alias 1 "c", .alias 7 "z"]

example : getBy (after demo) "a" = some ⟨1, 11⟩ := by decide
example : aliasesFor (after demo) 0 = ["b"] ∧ aliasesFor (after demo) 1 = ["a", "c"] := by decide
example : (Hist.of demo).owner "a" = some 1 ∧ (Hist.of demo).since "a" = 4 ∧ (Hist.of demo).since "c" = 5 := by decide
example : getBy (after (demo ++ [.remove 1])) "a" = none ∧ getBy (after (demo ++ [.remove 1])) "b" = some ⟨0, 10⟩ := by decide
example : Inv (after demo) := (coupled_after demo).inv
example : (after demo).present 7 = false ∧ (after demo).present 1 = true := by decide
example : (broadcast (after demo) "/p" 2 [1, 2] (fun _ => .ok)).2 = [(1, .ok), (0, .ok)] := by decide
example : Merge [[.insert 0 1, .alias 0 "a"], [.remove 0]] [.insert 0 1, .remove 0, .alias 0 "a"] :=
  .pick _ 0 _ _ _ rfl (.pick _ 1 _ _ _ rfl (.pick _ 0 _ _ _ rfl (.done _ (by simp))))

/-! ## Deepening pass: declarative history statements, entry points, contract, source forms, composition -/

/-- **Lookup, declaratively.** `get_by(k)` returns (a handle of) peer `p` after history `h` iff some call
`h[n] = alias p k` was accepted (p present then) and changed k's owner, no later call removed `p`, and no
later accepted `alias q k` re-pointed the key — positions in the history, no auxiliary fold. -/
theorem lookup_iff_assigned_since (h : List Op) (k : Key) (p : Nat) :
    (∃ t, getBy (after h) k = some ⟨p, t⟩) ↔ ∃ n, AssignedSince h k p n := by
  rw [(lookup_iff_last_assignment_still_present h k).2.2 p]
  constructor
  · intro ho; exact ⟨_, (owner_since_iff h k p _).1 ⟨ho, rfl⟩⟩
  · rintro ⟨n, ha⟩; exact ((owner_since_iff h k p n).2 ha).1

/-- **Alias lists, declaratively.** `k ∈ aliases_for(p)` iff `k` has been assigned to `p` since some call
`n` (as above); and if `a` precedes `b` in the list then `a`'s assignment call precedes `b`'s. -/
theorem alias_list_by_assignment_calls (h : List Op) (p : Nat) :
    (∀ k, k ∈ aliasesFor (after h) p ↔ ∃ n, AssignedSince h k p n) ∧
    (aliasesFor (after h) p).Pairwise
      (fun a b => ∀ na nb, AssignedSince h a p na → AssignedSince h b p nb → na < nb) := by
  obtain ⟨hmem, _, hsorted⟩ := alias_list_exact_in_order h p
  refine ⟨fun k => ?_, hsorted.imp ?_⟩
  · rw [hmem k]
    constructor
    · intro ho; exact ⟨_, (owner_since_iff h k p _).1 ⟨ho, rfl⟩⟩
    · rintro ⟨n, ha⟩; exact ((owner_since_iff h k p n).2 ha).1
  · intro a b hab na nb ha hb
    rw [← ((owner_since_iff h a p na).2 ha).2, ← ((owner_since_iff h b p nb).2 hb).2]
    exact hab

/-- **Presence, declaratively.** `get(p)` is `Some` after `h` iff some call inserted `p` and no later call
removed it. -/
theorem present_iff_inserted_and_not_removed (h : List Op) (p : Nat) :
    (after h).present p = true ↔ ∃ h1 t h2, h = h1 ++ Op.insert p t :: h2 ∧ ∀ op ∈ h2, op ≠ Op.remove p := by
  rw [(coupled_after h).present p]; exact present_iff_inserted_not_removed h p

/-- `remove` / `broadcast` on the state reached by *any* history (no invariant hypothesis left). -/
theorem remove_after_any_history (h : List Op) (p : Nat) :
    (remove (after h) p).2 = get (after h) p ∧
    (∀ k, getBy (remove (after h) p).1 k =
      if (getBy (after h) k).map (·.id) = some p then none else getBy (after h) k) ∧
    aliasesFor (remove (after h) p).1 p = [] ∧
    (∀ q, q ≠ p → aliasesFor (remove (after h) p).1 q = aliasesFor (after h) q ∧
                  get (remove (after h) p).1 q = get (after h) q) := by
  obtain ⟨a, b, c, _, d⟩ := remove_purges_exactly_own_keys (after h) (inv_after h) p
  exact ⟨a, b, c, d⟩

/-- **The four public broadcast entry points.** `broadcast_notify_json/_beve/_utf8/_raw` after any history:
if the encoder fails nothing is sent and the call is an error; otherwise exactly one notification goes
to each present peer's sink, carrying the caller's path, the once-encoded bytes and the helper's
format code (json 2, beve 1, utf8 3, raw: the caller's), and the result map has one entry per present
peer with that sink's answer.  The format codes and the shape of the send loop are re-read from the
source on every run. -/
theorem broadcast_entry_points (h : List Op) (hlp : Helper) (path : String) (encoded : Option Bytes)
    (answer : Handle → SendResult) :
    (Gen.Peers.helperFormat = [("broadcast_notify_json", some fmtJson), ("broadcast_notify_beve", some fmtBeve),
        ("broadcast_notify_utf8", some fmtUtf8), ("broadcast_notify_raw", none)] ∧
     Gen.Peers.broadcastLoopGuards = 0 ∧ Gen.Peers.broadcastResultInserts = 1 ∧
     Gen.Peers.broadcastSnapshotCalls = 1 ∧ Gen.Peers.broadcastLoopsOverSnapshot = true) ∧
    (encoded = none → broadcastNotify (after h) hlp path encoded answer = none) ∧
    (∀ b, encoded = some b → ∃ r, broadcastNotify (after h) hlp path encoded answer = some r ∧
      r.1.map (·.to) = snapshot (after h) ∧
      (∀ hd, hd ∈ snapshot (after h) ↔ get (after h) hd.id = some hd) ∧
      ((snapshot (after h)).map (·.id)).Nodup ∧
      (∀ d ∈ r.1, d.path = path ∧ d.body = b ∧
        d.fmt = match hlp with | .json => 2 | .beve => 1 | .utf8 => 3 | .raw f => f) ∧
      r.2 = (snapshot (after h)).map (fun hd => (hd.id, answer hd))) := by
  refine ⟨by decide, fun e => by rw [e]; rfl, fun b e => ?_⟩
  subst e
  have hb := broadcast_one_per_present_peer (after h) (inv_after h) path (hlp.body b).bodyFormat (hlp.body b).bytes answer
  refine ⟨_, rfl, hb.1, hb.2.2.1, hb.2.1, fun d hd => ?_, hb.2.2.2.2.1⟩
  obtain ⟨h1, h2, h3⟩ := hb.2.2.2.1 d hd
  refine ⟨h1, ?_, ?_⟩
  · rw [h3]; cases hlp <;> rfl
  · rw [h2]; cases hlp <;> rfl

/-- `PeerHandle::send_notify` / `is_connected` hand the call to the handle's own sink, unchanged. -/
theorem handle_forwards_to_its_sink (answer : Handle → SendResult) (connected : Handle → Bool) (hd : Handle)
    (path : String) (nb : NotifyBody) :
    (hd.sendNotify answer path nb).1 = ⟨hd, path, nb.bodyFormat, nb.bytes⟩ ∧
    (hd.sendNotify answer path nb).2 = answer hd ∧ hd.isConnected connected = connected hd :=
  ⟨rfl, rfl, rfl⟩

/-- `CallContext::new` / `detached` carry the method and the peer they were given and never report
cancellation (only the crate-private `with_cancel` attaches a signal). -/
theorem plain_contexts_never_cancel (m : String) (hd : Handle) :
    (CallContext.new m hd).method = m ∧ (CallContext.new m hd).peer = some hd ∧
    (CallContext.detached m).method = m ∧ (CallContext.detached m).peer = none ∧
    (CallContext.new m hd).isCancelled = false ∧ (CallContext.detached m).isCancelled = false ∧
    (CallContext.new m hd).cancelledResolves = false ∧ (CallContext.detached m).cancelledResolves = false ∧
    ∀ fired, (CallContext.withCancel m hd fired).isCancelled = fired :=
  ⟨rfl, rfl, rfl, rfl, rfl, rfl, rfl, rfl, fun _ => rfl⟩

/-! ### the `insert` contract -/

/-- **With the contract.** Ids minted by `next_peer_id` (one counter shared by every clone of the registry
and every server wired to it) never repeat within 2^64 mints; a history whose inserted ids are pairwise
distinct and initially absent — in particular one that inserts only freshly minted ids — respects the
documented contract at every `insert`, so the `debug_assert!` never fires. -/
theorem minted_ids_respect_contract (answer : Handle → SendResult) (counter n : Nat) (hc : counter + n ≤ 2 ^ 64)
    (s : State) (h : List Op) (hids : insertedIds h = mintN counter n)
    (hfresh : ∀ id ∈ mintN counter n, s.present id = false) :
    mintN counter n = List.range' counter n ∧ (mintN counter n).Nodup ∧ ContractOk answer s h :=
  ⟨mintN_eq_range counter n hc, mintN_nodup counter n hc,
   distinct_fresh_inserts_respect_contract answer s h (hids ▸ mintN_nodup counter n hc) (hids ▸ hfresh)⟩

theorem distinct_ids_respect_contract (answer : Handle → SendResult) (h : List Op)
    (hnd : (insertedIds h).Nodup) : ContractOk answer State.empty h :=
  distinct_fresh_inserts_respect_contract answer State.empty h hnd (fun _ _ => rfl)

/-- **Without the contract** (`insert` of an id that is present, reachable state): the stored handle is
replaced and *nothing else* changes: every alias of the old handle now resolves to the new one, lists,
other peers and `len` are untouched, and the invariant still holds — so every theorem of this file
applies to such histories as well; what is lost is only "a handle stays the one that was inserted".
In a debug build the `debug_assert!` fires after this update, with the lock already released. -/
theorem reinsert_outside_contract (h : List Op) (id t0 t : Nat) (hp : get (after h) id = some ⟨id, t0⟩) :
    get (insert (after h) id t) id = some ⟨id, t⟩ ∧
    (∀ q, q ≠ id → get (insert (after h) id t) q = get (after h) q) ∧
    (∀ q, aliasesFor (insert (after h) id t) q = aliasesFor (after h) q) ∧
    len (insert (after h) id t) = len (after h) ∧
    (∀ k ∈ aliasesFor (after h) id, getBy (insert (after h) id t) k = some ⟨id, t⟩) ∧
    Inv (insert (after h) id t) ∧
    insertPanics (after h) id true = true ∧ insertPanics (after h) id false = false := by
  have hl := (get_eq_some_iff _ _ _).1 hp
  obtain ⟨a, b, c, _, d, e⟩ := reinsert_present (inv_after h) hl t
  exact ⟨a, b, c, d, e, inv_insert (inv_after h) id t, by simp [insertPanics, State.present, hl], by simp [insertPanics]⟩

/-! ### parameters the property does not depend on (coverage audit) -/

/-- Who is sent to and which results come back do not depend on the path, the body or the format of a
broadcast, and the registry state after any history does not depend on what the sinks answer. (Keys
and peer ids are opaque throughout: every theorem of this file quantifies over arbitrary `String` keys
and `Nat` ids and uses only their decidable equality.) -/
theorem broadcast_receivers_independent_of_payload (s : State) (answer : Handle → SendResult)
    (p1 p2 : String) (f1 f2 : Nat) (b1 b2 : Bytes) :
    (broadcast s p1 f1 b1 answer).1.map (·.to) = (broadcast s p2 f2 b2 answer).1.map (·.to) ∧
    (broadcast s p1 f1 b1 answer).2 = (broadcast s p2 f2 b2 answer).2 := by
  simp [broadcast, List.map_map, Function.comp]

theorem state_independent_of_sink_answers (a b : Handle → SendResult) (h : List Op) :
    (run a State.empty h).1 = (run b State.empty h).1 := run_state_indep_of_answers a b State.empty h

/-- **Observers.** Every read-only call (`get`, `get_by`, `key_for`, `aliases_for`, `len`, and a broadcast,
whose sends run outside the registry) leaves the registry state exactly as it was: however many
observers run, and however often, the history that determines every answer is the history of
`insert`/`remove`/`alias` calls alone. -/
theorem observers_leave_state (answer : Handle → SendResult) (s : State) (op : Op)
    (h : ∀ id t, op ≠ .insert id t) (h' : ∀ id, op ≠ .remove id) (h'' : ∀ id k, op ≠ .alias id k) :
    (step answer s op).1 = s := by
  cases op with
  | insert id t => exact absurd rfl (h id t)
  | remove id => exact absurd rfl (h' id)
  | alias id k => exact absurd rfl (h'' id k)
  | get _ => rfl
  | getBy _ => rfl
  | keyFor _ => rfl
  | aliasesFor _ => rfl
  | len => rfl
  | broadcast _ _ _ => rfl

example : (step (fun _ => .ok) (after demo) (.getBy "a")).1 = after demo :=
  observers_leave_state _ _ _ (fun _ _ e => by cases e) (fun _ e => by cases e) (fun _ _ e => by cases e)

/-! ### source forms -/

/-- The branches of `alias`, `remove`, `key_for`, `get_by` in the current source have the forms the model
mirrors (re-extracted on every run; a recognised deviating form — `swap_remove`, the forward insert
before the presence check, no same-owner early return, detaching from the wrong list, `insert(0, …)`,
`last()`, a reverse-index entry left behind, a purge guard other than the ownership comparison, a `lock()`
that unwraps a poisoned mutex instead of recovering the guard, any timer / sleep / timeout / retry / thread
hand-off inside `impl PeerRegistry` (the model has no notion of time: a send takes as long as the sink takes) —
makes this theorem fail). Dropping the defensive ownership comparison in `remove` altogether is accepted: under
the invariant it always succeeds (`Lemmas.remove_eqs`). -/
theorem source_forms :
    Gen.Peers.aliasPresenceCheckFirst = true ∧ Gen.Peers.aliasSameOwnerEarlyReturn = true ∧
    Gen.Peers.aliasDetachesPrevOwner = true ∧ Gen.Peers.aliasDetachForm = "retain" ∧
    Gen.Peers.aliasPushForm = "push" ∧ Gen.Peers.removeDropsPeer = true ∧
    Gen.Peers.removeTakesIndexEntry = true ∧
    (Gen.Peers.removePurgeGuard = "forward_eq_id" ∨ Gen.Peers.removePurgeGuard = "none") ∧
    Gen.Peers.keyForPick = "first" ∧ Gen.Peers.getByThroughPeers = true ∧
    Gen.Peers.lockRecoversPoison = true ∧ Gen.Peers.registryTimersOrThreads = 0 := by decide

/-! ### composition with the connection lifecycle (C15) -/

open Repe.Lifecycle in
/-- **Composition (C15 ∘ C18).** Whatever the WebSocket server's connect/disconnect hooks of
`with_peer_registry` (and handshake hooks that alias) do to a registry, interleaved in any way with
arbitrary calls made for other peers (C15's `regRun`, used as defined there), is a C18 history: the
registry state is `run` of the corresponding call list. Hence, starting from any reachable registry, the
result is reachable, satisfies the invariant, and abstracts to the specification's run — no invariant
hypothesis is needed by a client of this theorem. -/
theorem lifecycle_runs_are_registry_histories (id tag : Nat) (keys : List Key) (items : List Item)
    (r0 : State) (hr : Reachable r0) :
    regRun id tag keys r0 items = (run (fun _ => .ok) r0 (items.flatMap (opsOfItem id tag keys))).1 ∧
    Reachable (regRun id tag keys r0 items) ∧ Inv (regRun id tag keys r0 items) ∧
    abs (regRun id tag keys r0 items) =
      (Spec.run (fun _ => .ok) (abs r0) (items.flatMap (opsOfItem id tag keys))).1 := by
  have key : ∀ (r : State), regRun id tag keys r items =
      (run (fun _ => .ok) r (items.flatMap (opsOfItem id tag keys))).1 := by
    induction items with
    | nil => intro r; rfl
    | cons it items ih =>
      intro r
      have hstep : regStep id tag keys r it = (run (fun _ => .ok) r (opsOfItem id tag keys it)).1 := by
        cases it with
        | foreign op => rfl
        | ev e =>
          cases e with
          | cancel => rfl
          | connect i =>
            cases i with
            | zero => rfl
            | succ j =>
              simp only [regStep, regEffect, opsOfItem]
              cases keys[j]? <;> rfl
          | disconnect i b =>
            cases i with
            | zero => rfl
            | succ j => rfl
      simp only [regRun, List.foldl_cons, List.flatMap_cons, Peers.run_append] at ih ⊢
      rw [hstep]; exact ih _
  rw [key r0]
  have hreach := reachable_run (fun _ => .ok) hr (items.flatMap (opsOfItem id tag keys))
  exact ⟨rfl, hreach, inv_of_reachable hreach, (run_refines _ (inv_of_reachable hr) _).1⟩

/-- non-vacuity for the new hypotheses -/
example : AssignedSince demo "a" 1 4 :=
  ⟨[.insert 0 10, .insert 1 11, .alias 0 "a", .alias 0 "b"], [.alias 1 "c", .alias 7 "z"], rfl, rfl,
   by decide, by decide, by decide, by
     intro h2a q h2b e
     rcases h2a with _ | ⟨x, _ | ⟨y, _ | ⟨z, r⟩⟩⟩ <;> simp at e⟩
example : insertedIds demo = mintN 0 2 ∧ (insertedIds demo).Nodup ∧ 0 + 2 ≤ 2 ^ 64 := by decide
example : get (after demo) 1 = some ⟨1, 11⟩ := by decide
example : Reachable (after demo) := ⟨_, demo, rfl⟩
example : broadcastNotify (after demo) .utf8 "/p" (some [104, 105]) (fun _ => .ok) =
    some ([⟨⟨1, 11⟩, "/p", 3, [104, 105]⟩, ⟨⟨0, 10⟩, "/p", 3, [104, 105]⟩], [(1, .ok), (0, .ok)]) := by decide

end Repe.C18
