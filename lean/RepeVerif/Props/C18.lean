import RepeVerif.Lemmas.Peers
import RepeVerif.Gen.Peers
/-!
# C18 — The peer registry and its aliases stay mutually consistent

> For every history of peer insertions, removals and alias assignments, including re-pointing a key
> to another peer and concurrent callers, looking a key up returns a peer exactly when that key was
> last assigned to a peer that is still present, each peer's alias list holds exactly the keys
> currently pointing at it in assignment order, and removing a peer removes all and only its own
> keys. A broadcast delivers exactly one notification with the given path, body and format to each
> peer present at the moment of the call and reports one result per such peer.

clause → theorem
* for every history (unbounded) ........................ `inv_preserved`, `refines_spec` (induction over the op list)
* keys unique across peers (the spec's side condition) . `spec_keys_unique`
* lookup ⇔ last assignment to a still-present peer ...... `lookup_iff_last_assignment_still_present`
                                                          (`Hist.of` = the history read without maps; `history_reading`)
* alias list = exactly the keys pointing at the peer,
  in assignment order, no duplicates .................... `alias_list_exact_in_order`, `key_for_is_first_alias`
* remove removes all and only its own keys .............. `remove_purges_exactly_own_keys`
* no dangling alias for an absent peer .................. `alias_absent_peer_rejected`
* broadcast: one notification (path, body, format) and
  one result per peer present at the call ............... `broadcast_one_per_present_peer`
* concurrent callers .................................... `single_section_ops` (every method = one lock region,
                                                          re-extracted from the source; every interleaving of whole
                                                          calls is a sequential history, to which all of the above apply)

The model (`Model/Peers.lean`) mirrors `RegistryInner`'s three maps and the branches of
`alias`/`remove`/`get_by`/`key_for`/`aliases_for`/`broadcast_each`.  Re-inserting a present id is
outside `insert`'s documented contract (`debug_assert!`); the theorems nevertheless hold for such
histories too (the model overwrites the handle like the code does), the correspondence runs do not
generate them.
-/
namespace Repe.C18
open Repe.Peers

/-- The invariant (forward map = inverse of the reverse index, no duplicate keys, only present
owners, one entry per peer id) holds after every history, whatever the sinks answer. -/
theorem inv_preserved (answer : Handle → SendResult) (h : List Op) :
    Inv (run answer State.empty h).1 := inv_run answer inv_empty h

/-- Every concrete operation returns what the abstract specification returns and commutes with the
abstraction map — for every history. -/
theorem refines_spec (answer : Handle → SendResult) (h : List Op) :
    abs (run answer State.empty h).1 = (Spec.run answer [] h).1 ∧
    (run answer State.empty h).2 = (Spec.run answer [] h).2 :=
  run_refines answer inv_empty h

/-- … and from every state that satisfies the invariant, for every continuation. -/
theorem refines_spec_from (answer : Handle → SendResult) (s : State) (hI : Inv s) (h : List Op) :
    abs (run answer s h).1 = (Spec.run answer (abs s) h).1 ∧
    (run answer s h).2 = (Spec.run answer (abs s) h).2 ∧ Inv (run answer s h).1 :=
  ⟨(run_refines answer hI h).1, (run_refines answer hI h).2, inv_run answer hI h⟩

/-- In the abstract state reached by any history a key is listed by at most one peer, peers are
listed once, and no list repeats a key. -/
theorem spec_keys_unique (answer : Handle → SendResult) (h : List Op) :
    let a := (Spec.run answer [] h).1
    (a.map (·.id)).Nodup ∧ (∀ p ∈ a, p.keys.Nodup) ∧
    ∀ p ∈ a, ∀ q ∈ a, ∀ k, k ∈ p.keys → k ∈ q.keys → p.id = q.id := by
  intro a
  have hI := inv_preserved answer h
  have ha : a = abs (run answer State.empty h).1 := (refines_spec answer h).1.symm
  rw [ha]
  refine ⟨?_, ?_, ?_⟩
  · simp only [abs, List.map_map]; exact hI.nodup
  · intro p hp
    simp only [abs, List.mem_map] at hp
    obtain ⟨e, _, rfl⟩ := hp
    exact hI.keysNodup e.1
  · intro p hp q hq k hkp hkq
    simp only [abs, List.mem_map] at hp hq
    obtain ⟨e, _, rfl⟩ := hp
    obtain ⟨f, _, rfl⟩ := hq
    have h1 := (hI.fwd k e.1).2 hkp
    have h2 := (hI.fwd k f.1).2 hkq
    rw [h1] at h2
    exact Option.some.inj h2

/-- How `Hist.of` reads a history, call by call (this *is* its definition; stated for the reader):
an accepted `alias q k` (q present, k not already q's) makes q the owner of k as of this call;
`remove q` forgets q and every key it owned; nothing else changes who owns what. -/
theorem history_reading (h : List Op) (op : Op) : Hist.of (h ++ [op]) = (Hist.of h).step op := by
  simp [Hist.of, List.foldl_append]

/-- **Lookup.** After any history, `get_by(k)` returns a peer exactly when `k` was last assigned to a
peer that is still present, and then it returns that peer's handle. -/
theorem lookup_iff_last_assignment_still_present (h : List Op) (k : Key) :
    (getBy (after h) k = match (Hist.of h).owner k with
                         | some p => get (after h) p
                         | none => none) ∧
    (∀ p, (Hist.of h).owner k = some p → (Hist.of h).present p = true ∧ (after h).present p = true) ∧
    (∀ p, (∃ t, getBy (after h) k = some ⟨p, t⟩) ↔ (Hist.of h).owner k = some p) := by
  have c := coupled_after h
  have hpres : ∀ p, (Hist.of h).owner k = some p → (after h).present p = true := by
    intro p hp
    rw [← c.owner] at hp
    have hin := (c.inv.fwd k p).1 hp
    cases hq : (after h).present p with
    | true => rfl
    | false => rw [c.inv.owners p hq] at hin; cases hin
  refine ⟨?_, fun p hp => ⟨by rw [← c.present]; exact hpres p hp, hpres p hp⟩, fun p => ?_⟩
  · unfold getBy; rw [c.owner]; cases (Hist.of h).owner k <;> rfl
  · unfold getBy; rw [c.owner]
    constructor
    · rintro ⟨t, ht⟩
      cases ho : (Hist.of h).owner k with
      | none => rw [ho] at ht; cases ht
      | some q =>
        rw [ho] at ht
        simp only [Peers.get] at ht
        cases hl : lookup q (after h).peers with
        | none => rw [hl] at ht; cases ht
        | some t' => rw [hl] at ht; simp at ht; rw [ht.1]
    · intro ho
      have := hpres p ho
      rw [ho]
      simp only [State.present] at this
      cases hl : lookup p (after h).peers with
      | none => rw [hl] at this; cases this
      | some t => exact ⟨t, by simp [Peers.get, hl]⟩

/-- **Alias lists.** After any history, `aliases_for(p)` holds exactly the keys currently pointing at
`p`, each once, ordered by the call at which each key's current assignment was made. -/
theorem alias_list_exact_in_order (h : List Op) (p : Nat) :
    (∀ k, k ∈ aliasesFor (after h) p ↔ (Hist.of h).owner k = some p) ∧
    (aliasesFor (after h) p).Nodup ∧
    (aliasesFor (after h) p).Pairwise (fun a b => (Hist.of h).since a < (Hist.of h).since b) := by
  have c := coupled_after h
  exact ⟨fun k => by rw [← c.owner]; exact (c.inv.fwd k p).symm, c.inv.keysNodup p, c.sorted p⟩

/-- `key_for` is the first element of `aliases_for` (the earliest surviving assignment). -/
theorem key_for_is_first_alias (s : State) (p : Nat) : keyFor s p = (aliasesFor s p).head? := by
  unfold keyFor aliasesFor; cases lookup p s.index <;> rfl

/-- **Remove.** From any reachable state, `remove(p)` returns `p`'s handle, makes exactly the keys
that pointed at `p` unresolvable, leaves every other key's lookup, every other peer and every
other peer's alias list untouched, and leaves nothing listed under `p`. -/
theorem remove_purges_exactly_own_keys (s : State) (hI : Inv s) (p : Nat) :
    (remove s p).2 = get s p ∧
    (∀ k, getBy (remove s p).1 k = if (getBy s k).map (·.id) = some p then none else getBy s k) ∧
    aliasesFor (remove s p).1 p = [] ∧ get (remove s p).1 p = none ∧
    (∀ q, q ≠ p → aliasesFor (remove s p).1 q = aliasesFor s q ∧ get (remove s p).1 q = get s q) := by
  obtain ⟨hret, hpeers, hA, hK⟩ := remove_eqs hI p
  have hget : ∀ q, get (remove s p).1 q = if q = p then none else get s q := by
    intro q
    simp only [Peers.get, hpeers, lookup_erase]
    by_cases h : p = q
    · simp [h]
    · simp [h, Ne.symm h]
  refine ⟨hret, fun k => ?_, by simp [hK], by simp [hget], fun q hq => ⟨by simp [hK, hq], by simp [hget, hq]⟩⟩
  unfold getBy
  rw [hA]
  cases ha : lookup k s.aliases with
  | none => simp
  | some q =>
    by_cases hq : q = p
    · subst hq
      have hin := (hI.fwd k q).1 ha
      have hp : s.present q = true := by
        cases hp : s.present q with
        | true => rfl
        | false => rw [hI.owners q hp] at hin; cases hin
      simp only [State.present] at hp
      cases hl : lookup q s.peers with
      | none => rw [hl] at hp; cases hp
      | some t => simp [Peers.get, hl]
    · have : ¬ (some q = some p) := fun e => hq (Option.some.inj e)
      simp only [this, if_false, hget, hq]
      cases hl : lookup q s.peers with
      | none => simp [Peers.get, hl]
      | some t => simp [Peers.get, hl, hq]

/-- **Alias on an absent peer** is rejected and changes nothing (no dangling alias). -/
theorem alias_absent_peer_rejected (s : State) (p : Nat) (k : Key) (h : s.present p = false) :
    alias s p k = (s, false) := alias_absent s p k h

/-- … and on a present peer it is accepted, `k` then resolves to `p`, and `p` lists `k` last unless it
already listed it. -/
theorem alias_present_peer_accepted (s : State) (hI : Inv s) (p : Nat) (k : Key) (h : s.present p = true) :
    (alias s p k).2 = true ∧ getBy (alias s p k).1 k = get s p ∧
    aliasesFor (alias s p k).1 p =
      if k ∈ aliasesFor s p then aliasesFor s p else aliasesFor s p ++ [k] := by
  obtain ⟨hret, hpeers, hA, hK⟩ := alias_present hI k h
  refine ⟨hret, ?_, ?_⟩
  · unfold getBy; rw [hA]; simp [Peers.get, hpeers]
  · rw [hK]; by_cases hin : k ∈ aliasesFor s p <;> simp [hin]

/-- **Broadcast.** From any reachable state: the sinks that are sent to are exactly the handles of the
peers present at the call (each once: ids are distinct and `get` returns that very handle), every
delivery carries the caller's path, format and body, and the result map has exactly one entry per
present peer, holding that peer's sink's answer. The registry state is not changed. -/
theorem broadcast_one_per_present_peer (s : State) (hI : Inv s) (path : String) (fmt : Nat) (body : Bytes)
    (answer : Handle → SendResult) :
    let r := broadcast s path fmt body answer
    r.1.map (·.to) = snapshot s ∧
    ((snapshot s).map (·.id)).Nodup ∧
    (∀ hd, hd ∈ snapshot s ↔ get s hd.id = some hd) ∧
    (∀ d ∈ r.1, d.path = path ∧ d.fmt = fmt ∧ d.body = body) ∧
    r.2 = (snapshot s).map (fun hd => (hd.id, answer hd)) ∧
    (step answer s (.broadcast path fmt body)).1 = s := by
  intro r
  have hnd : ((snapshot s).map (·.id)).Nodup := by
    simp only [snapshot, List.map_map]; exact hI.nodup
  have hid : ∀ l : List Handle, l.map ((fun x : Delivery => x.to) ∘ fun h => ⟨h, path, fmt, body⟩) = l :=
    fun l => by induction l <;> simp_all
  refine ⟨by simp only [r, broadcast, List.map_map]; exact hid _, hnd, fun hd => ?_, ?_, rfl, rfl⟩
  · obtain ⟨i, t⟩ := hd
    simp only [snapshot, List.mem_map, Peers.get]
    constructor
    · rintro ⟨e, he, heq⟩
      obtain ⟨a, b⟩ := e
      simp only [Handle.mk.injEq] at heq
      obtain ⟨rfl, rfl⟩ := heq
      have : lookup a s.peers = some b := lookup_of_mem_nodup hI.nodup he
      simp [this]
    · intro hg
      cases hl : lookup i s.peers with
      | none => rw [hl] at hg; cases hg
      | some t' =>
        rw [hl] at hg
        simp at hg
        subst hg
        exact ⟨(i, t'), lookup_mem hl, rfl⟩
  · intro d hd
    simp only [r, broadcast, List.mem_map] at hd
    obtain ⟨_, _, rfl⟩ := hd
    exact ⟨rfl, rfl, rfl⟩

/-! ### concurrent callers -/

/-- Every method of `PeerRegistry` that touches the maps takes the registry lock exactly once (fact
re-extracted from the source on every run) and `broadcast_each` takes its snapshot through one such
method and sends outside the lock. Hence a concurrent execution is an interleaving of whole calls,
i.e. some sequential history `m`, and for every such `m` the invariant, the refinement and all the
corollaries above hold. -/
theorem single_section_ops :
    (Gen.Peers.lockCalls.all (fun e => e.2 == 1) = true ∧
     ["len", "get", "alias", "get_by", "key_for", "aliases_for", "insert", "remove", "peers"].all
        (fun m => Gen.Peers.lockCalls.any (fun e => e.1 == m)) = true ∧
     Gen.Peers.broadcastLockCalls = 0 ∧ Gen.Peers.broadcastSnapshotCalls = 1 ∧
     Gen.Peers.broadcastLoopsOverSnapshot = true) ∧
    ∀ (answer : Handle → SendResult) (ts : List (List Op)) (m : List Op), Merge ts m →
      Inv (run answer State.empty m).1 ∧
      abs (run answer State.empty m).1 = (Spec.run answer [] m).1 ∧
      (run answer State.empty m).2 = (Spec.run answer [] m).2 :=
  ⟨by decide, fun answer _ m _ => ⟨inv_preserved answer m, refines_spec answer m⟩⟩

/-! ### non-vacuity: concrete histories -/

/-- two peers, a key re-pointed from 0 to 1, a second key, then the new owner removed -/
def demo : List Op :=
  [.insert 0 10, .insert 1 11, .alias 0 "a", .alias 0 "b", .alias 1 "a", .alias 1 "c", .alias 7 "z"]

example : getBy (after demo) "a" = some ⟨1, 11⟩ := by decide
example : aliasesFor (after demo) 0 = ["b"] ∧ aliasesFor (after demo) 1 = ["a", "c"] := by decide
example : (Hist.of demo).owner "a" = some 1 ∧ (Hist.of demo).since "a" = 4 ∧ (Hist.of demo).since "c" = 5 := by decide
example : getBy (after (demo ++ [.remove 1])) "a" = none ∧ getBy (after (demo ++ [.remove 1])) "b" = some ⟨0, 10⟩ := by decide
example : Inv (after demo) := (coupled_after demo).inv
example : (after demo).present 7 = false ∧ (after demo).present 1 = true := by decide
example : (broadcast (after demo) "/p" 2 [1, 2] (fun _ => .ok)).2 = [(1, .ok), (0, .ok)] := by decide
example : Merge [[.insert 0 1, .alias 0 "a"], [.remove 0]] [.insert 0 1, .remove 0, .alias 0 "a"] :=
  .pick _ 0 _ _ _ rfl (.pick _ 1 _ _ _ rfl (.pick _ 0 _ _ _ rfl (.done _ (by simp))))

end Repe.C18
