import RepeVerif.Lemmas.Beve
import RepeVerif.Gen.Numeric
import RepeVerif.Gen.Wire
/-!
# C08 — Bulk numeric bodies are bit-identical to the generic encoding and decode exactly

> For every numeric element type and every non-empty slice (NaN payloads, infinities and extreme
> integers included) the bulk-encoded body is byte-identical to the generic serialized encoding of the
> same vector; for every slice, the empty one included, each of the two decoders reads the other
> encoder's output, the decoded elements are bit-for-bit the originals, and the streaming writers emit
> the same frames as the buffered builders. The alignment-padded form, sent to a borrowing bulk route,
> yields the same elements wherever the frame lands in memory, borrowed when aligned and copied
> otherwise, for every query length, and a body of the wrong element type or format is rejected rather
> than reinterpreted.

Elements are opaque byte blocks (`List Bytes`; `Vec t w xs`: a `BeveTypedSlice` element type, every block
`w` bytes, fewer than 2^62 elements — the capacity of BEVE's SIZE — and a payload that fits `usize`), so
"bit-for-bit" is equality of blocks and NaN payloads, infinities and extreme integers are just blocks.
`Gen.numericFacts` are re-extracted from `/repo` on every run (`extract/numeric.py`).

clause → theorem
* SIZE codec ..................................... `size_roundtrip`, `sizeLen_eq` (`size_62_bits_sharp`)
* bulk body = generic body (non-empty) ........... `bulk_eq_generic_nonempty`, `complex_bulk_eq_generic_nonempty`
  (the generic side is the *model* of beve's serde output; the three-way byte comparison in the
  `numeric` family validates it on the real encoders)
* each decoder reads the other encoder, ∅ incl. .. `generic_reads_bulk`, `bulk_reads_generic`, `bulk_reads_bulk`
  and the complex twins `complex_generic_reads_bulk`, `complex_bulk_reads_generic`, `complex_roundtrip`
* decoded elements are the originals ............. `typed_roundtrip`, `complex_roundtrip`, `typed_size_closed_form`, `complex_size_closed_form`
* streaming writers = buffered builders .......... `streaming_eq_buffered`, `complex_streaming_eq_buffered`
* aligned form: payload offset ................... `base_congruent_to_frame_offset`, `aligned_payload_offset`, `aligned_size_closed_form`
* same elements wherever the frame lands ......... `aligned_roundtrip`, `aligned_owned_eq_borrowed`, `aligned_route_any_address`
* borrowed when aligned, copied otherwise ........ `aligned_owned_eq_borrowed`, `aligned_route_any_address`
* marker dispatch cannot misroute ................ `marker_is_beve's`, `regular_never_marker`, `regular_body_on_ref_route`
* wrong element type rejected .................... `wrong_type_rejected`, `wrong_form_rejected`
* wrong body format rejected ..................... `wrong_format_rejected`
* builder sequences: the last setter wins ........ `last_setter_wins`
* aligned request as a wire frame (with C01) ..... `aligned_frame_any_capacity`
* the client entry points send that frame ........ `client_aligned_request_is_builder_frame`, `client_aligned_request_borrowable`, `client_bulk_request_is_regular`
* the dependency's layout constants .............. `beve_layout_constants`
* a whole call echoes the vector ................. `call_echo`
-/
namespace Repe.C08
open Repe Repe.Beve

abbrev F : Facts := Gen.numericFacts

/-- Every anchor of the property in the current source has one of the forms the extractor recognises at
the spot the facts are read from; the theorems below are about exactly those facts. -/
theorem anchors_recognised : F.unrecognised = [] := by decide

/-! ### SIZE -/

theorem size_roundtrip (n : Nat) (hn : n < 2^62) (rest : Bytes) :
    readSize (writeSize n ++ rest) = .ok (n, rest) := readSize_writeSize n hn rest

theorem sizeLen_eq (n : Nat) : (writeSize n).length = sizeLen n := writeSize_length n

/-- The bound is sharp: the 8-byte form holds 62 bits, 2^62 reads back as 0. -/
theorem size_62_bits_sharp : readSize (writeSize (2^62)) = .ok (0, []) := by decide

example : readSize (writeSize 16384 ++ [7]) = .ok (16384, [7]) := by decide

/-- Both sides of every width boundary of the codec (2^6, 2^14, 2^30) and the largest count. -/
example : ([63, 64, 16383, 16384, 2^30 - 1, 2^30, 2^62 - 1].map fun n =>
      ((writeSize n).length, readSize (writeSize n) == .ok (n, []))) =
    [(1, true), (2, true), (2, true), (4, true), (4, true), (8, true), (8, true)] := by decide

/-! ### regular and complex arrays -/

theorem typed_roundtrip {t : ElemTy} {xs : List Bytes} (v : Vec t t.width xs) (rest : Bytes) :
    readTyped t (encodeTyped t xs ++ rest) = .ok xs := by
  simpa using readTyped_encode (t := t) v rest

theorem typed_size_closed_form {t : ElemTy} {xs : List Bytes} (hb : Blocks t.width xs) :
    (encodeTyped t xs).length = typedSliceSize t xs.length := by
  simp [encodeTyped, encodeTypedRaw_length, typedSliceSize, hb.flatten_length]

theorem complex_roundtrip {t : ElemTy} {xs : List Bytes} (v : Vec t (2 * t.width) xs) (rest : Bytes) :
    readComplex t (encodeComplex t xs ++ rest) = .ok xs := by
  simpa using readComplex_encode (t := t) v rest

theorem complex_size_closed_form {t : ElemTy} {xs : List Bytes} (hb : Blocks (2 * t.width) xs) :
    (encodeComplex t xs).length = complexSliceSize t xs.length := by
  simp [encodeComplex, encodeComplexRaw_length, complexSliceSize, hb.flatten_length]

/-- Non-vacuity: three f32 elements — a signalling NaN with payload, -inf, the largest finite. -/
example : Vec ⟨0, 2⟩ 4 [[0x01, 0x00, 0x80, 0x7f], [0x00, 0x00, 0x80, 0xff], [0xff, 0xff, 0x7f, 0x7f]] :=
  ⟨by decide, by decide, by decide, by decide⟩

example : readTyped ⟨0, 2⟩ (encodeTyped ⟨0, 2⟩ [[0x01, 0x00, 0x80, 0x7f], [0x00, 0x00, 0x80, 0xff]]) =
    .ok [[0x01, 0x00, 0x80, 0x7f], [0x00, 0x00, 0x80, 0xff]] := by decide

/-! ### bulk vs generic encoder, cross decoding -/

theorem bulk_eq_generic_nonempty (t : ElemTy) (xs : List Bytes) (h : xs ≠ []) :
    bodyTypedSlice t xs = encodeGeneric t xs := by
  cases xs with
  | nil => exact absurd rfl h
  | cons x xs => simp [bodyTypedSlice, encodeGeneric, encodeGenericRaw, encodeTyped]

theorem complex_bulk_eq_generic_nonempty (t : ElemTy) (xs : List Bytes) (h : xs ≠ []) :
    bodyComplexSlice t xs = encodeGenericComplex t xs := by
  cases xs with
  | nil => exact absurd rfl h
  | cons x xs => simp [bodyComplexSlice, encodeGenericComplex, encodeGenericComplexRaw, encodeComplex]

/-- The generic decoder reads the bulk encoder's output, the empty vector included. -/
theorem generic_reads_bulk {t : ElemTy} {xs : List Bytes} (v : Vec t t.width xs) :
    readGeneric t (bodyTypedSlice t xs) = .ok xs := by
  unfold readGeneric bodyTypedSlice
  rw [if_neg (encodeTyped_ne_emptyGeneric v.valid xs)]
  simpa using typed_roundtrip v []

theorem complex_generic_reads_bulk {t : ElemTy} {xs : List Bytes} (v : Vec t (2 * t.width) xs) :
    readGenericComplex t (bodyComplexSlice t xs) = .ok xs := by
  unfold readGenericComplex bodyComplexSlice
  rw [if_neg (encodeComplex_ne_emptyGeneric t xs)]
  simpa using complex_roundtrip v []

/-- The bulk decoder reads the bulk encoder's output (whatever the facts say about `05 00`). -/
theorem bulk_reads_bulk (G : Facts) {t : ElemTy} {xs : List Bytes} (v : Vec t t.width xs) :
    decodeTypedSlice G BEVE t (bodyTypedSlice t xs) = .ok xs := by
  have h := typed_roundtrip v []
  simp only [List.append_nil, readTyped] at h
  have hne : ¬ (G.emptyGeneric = true ∧ encodeTyped t xs = emptyGenericArray) :=
    fun hh => encodeTypedRaw_ne_emptyGeneric v.valid _ _ hh.2
  unfold decodeTypedSlice decodeTypedSliceRaw bulkReadTypedRaw bodyTypedSlice formatOk
  rw [if_neg hne]
  cases hr : readTypedRaw t (encodeTyped t xs) with
  | error e => rw [hr] at h; simp [Except.map] at h
  | ok r => rw [hr] at h; simpa [BEVE, liftB, Except.map] using h

private theorem bulk_reads_generic_of (G : Facts) (hg : G.emptyGeneric = true)
    {t : ElemTy} {xs : List Bytes} (v : Vec t t.width xs) :
    decodeTypedSlice G BEVE t (encodeGeneric t xs) = .ok xs := by
  cases xs with
  | nil =>
    simp [decodeTypedSlice, decodeTypedSliceRaw, bulkReadTypedRaw, encodeGeneric, encodeGenericRaw,
      formatOk, BEVE, hg, liftB, Except.map, chunks]
  | cons x xs =>
    have := bulk_reads_bulk G v
    simpa [encodeGeneric, encodeGenericRaw, bodyTypedSlice, encodeTyped] using this

/-- The bulk decoder of the *current source* reads the generic encoder's output, the empty vector
included.  (Fails to check while the decoders hand serde's `05 00` straight to `beve::read_typed_slice`.) -/
theorem bulk_reads_generic {t : ElemTy} {xs : List Bytes} (v : Vec t t.width xs) :
    decodeTypedSlice F BEVE t (encodeGeneric t xs) = .ok xs :=
  bulk_reads_generic_of F (by decide) v

theorem complex_bulk_reads_bulk (G : Facts) {t : ElemTy} {xs : List Bytes} (v : Vec t (2 * t.width) xs) :
    decodeComplexSlice G BEVE t (bodyComplexSlice t xs) = .ok xs := by
  have h := complex_roundtrip v []
  simp only [List.append_nil, readComplex] at h
  have hne : ¬ (G.emptyGeneric = true ∧ encodeComplex t xs = emptyGenericArray) :=
    fun hh => encodeComplexRaw_ne_emptyGeneric _ _ _ hh.2
  unfold decodeComplexSlice decodeComplexSliceRaw bulkReadComplexRaw bodyComplexSlice formatOk
  rw [if_neg hne]
  cases hr : readComplexRaw t (encodeComplex t xs) with
  | error e => rw [hr] at h; simp [Except.map] at h
  | ok r => rw [hr] at h; simpa [BEVE, liftB, Except.map] using h

private theorem complex_bulk_reads_generic_of (G : Facts) (hg : G.emptyGeneric = true)
    {t : ElemTy} {xs : List Bytes} (v : Vec t (2 * t.width) xs) :
    decodeComplexSlice G BEVE t (encodeGenericComplex t xs) = .ok xs := by
  cases xs with
  | nil =>
    simp [decodeComplexSlice, decodeComplexSliceRaw, bulkReadComplexRaw, encodeGenericComplex,
      encodeGenericComplexRaw, formatOk, BEVE, hg, liftB, Except.map, chunks]
  | cons x xs =>
    have := complex_bulk_reads_bulk G v
    simpa [encodeGenericComplex, encodeGenericComplexRaw, bodyComplexSlice, encodeComplex] using this

theorem complex_bulk_reads_generic {t : ElemTy} {xs : List Bytes} (v : Vec t (2 * t.width) xs) :
    decodeComplexSlice F BEVE t (encodeGenericComplex t xs) = .ok xs :=
  complex_bulk_reads_generic_of F (by decide) v

/-- Why the fact matters: with decoders that hand serde's empty vector `05 00` straight to
`beve::read_typed_slice` (`emptyGeneric := false`), the bulk decoder rejects what the generic encoder
produced for `Vec::<f64>::new()`; with the fact set it reads the empty vector. -/
example : decodeTypedSlice { F with emptyGeneric := false } BEVE ⟨0, 3⟩ (encodeGeneric ⟨0, 3⟩ []) =
    .error (.beve .invalidType) := by decide
example : decodeTypedSlice { F with emptyGeneric := true } BEVE ⟨0, 3⟩ (encodeGeneric ⟨0, 3⟩ []) = .ok [] := by
  decide

/-- Non-vacuity (complex): two `Complex<i16>` elements, blocks of width 4. -/
example : Vec ⟨1, 1⟩ (2 * (ElemTy.mk 1 1).width) [[0x00, 0x80, 0xff, 0x7f], [1, 0, 0xff, 0xff]] :=
  ⟨by decide, by decide, by decide, by decide⟩

/-! ### aligned form -/

/-- The base offset the builder pads for is congruent (mod 16, hence modulo every element alignment)
to the payload's real position in the frame, header + query, for every query length.  Stated on the
coefficients of the extracted sum, so `HEADER_SIZE + query.len()` passes and a sum that drops the
query term does not. -/
theorem base_congruent_to_frame_offset (q : Nat) : baseOffset F.baseTerms q % 16 = (48 + q) % 16 :=
  baseOffset_congr F.baseTerms (by decide) (by decide) q

/-- For every query length, element type and element count the payload of the aligned body starts at a
frame offset that is a multiple of the element alignment. -/
theorem aligned_payload_offset {t : ElemTy} {xs : List Bytes} (v : Vec t t.width xs) (q : Nat) :
    ∃ p, parseAligned t (bodyAlignedTypedSlice F t q xs) = .ok p ∧
      (48 + q + p.dataOffset) % t.align = 0 ∧ p.len = xs.length ∧ p.data = xs.flatten := by
  refine ⟨⟨xs.length, alignedDataOffset t xs.length (baseOffset F.baseTerms q), xs.flatten⟩, ?_, ?_, rfl, rfl⟩
  · have := parseAligned_encode' (t := t) v (baseOffset F.baseTerms q) []
    simpa [bodyAlignedTypedSlice] using this
  · exact aligned_of_congr v.valid _ _ _ (base_congruent_to_frame_offset q)
      (alignedDataOffset_aligned t xs.length _)

theorem aligned_size_closed_form {t : ElemTy} {xs : List Bytes} (hb : Blocks t.width xs) (base : Nat) :
    (encodeAligned t xs base).length = alignedSliceSize t xs.length base := by
  simp [encodeAligned, encodeAlignedRaw_length, alignedSliceSize, alignedDataOffset, alignedPad,
    hb.flatten_length]

/-- The owned reader returns the elements at every base the body was padded for. -/
theorem aligned_roundtrip {t : ElemTy} {xs : List Bytes} (v : Vec t t.width xs) (base : Nat) (rest : Bytes) :
    readAligned t (encodeAligned t xs base ++ rest) = .ok xs := by
  simpa using readAligned_encode (t := t) v base rest

/-- The marker constant repe dispatches on is the byte beve's aligned encoder writes. -/
theorem marker_is_beve's : UInt8.ofNat F.marker = alignedMarker := by decide

private theorem ref_body_aligned (G : Facts) (hm : UInt8.ofNat G.marker = alignedMarker)
    {t : ElemTy} {xs : List Bytes} (v : Vec t t.width xs) (base addr : Nat) :
    decodeTypedSliceRefBody G t addr (encodeAligned t xs base) =
      .ok (if (addr + alignedDataOffset t xs.length base) % t.align = 0 then .borrowed xs else .owned xs) := by
  have h1 := readAlignedRef_encode (t := t) v base addr []
  have h2 := readAligned_encode (t := t) v base []
  simp only [List.append_nil, if_true] at h1 h2
  unfold decodeTypedSliceRefBody
  have hh : (encodeAligned t xs base).head? = some (UInt8.ofNat G.marker) := by
    rw [hm]; simp [encodeAligned, encodeAlignedRaw]
  rw [if_pos hh, h1, h2]
  by_cases ha : (addr + alignedDataOffset t xs.length base) % t.align = 0
  · simp [ha]
  · simp [ha, Except.map]

/-- Whatever absolute address the aligned body lands at — every receive-buffer misalignment — the
borrowing decoder hands over the same elements: borrowed exactly when the payload address is a
multiple of the element alignment, copied otherwise. -/
theorem aligned_owned_eq_borrowed {t : ElemTy} {xs : List Bytes} (v : Vec t t.width xs) (base addr : Nat) :
    ∃ i, decodeTypedSliceRefBody F t addr (encodeAligned t xs base) = .ok i ∧ i.elems = xs ∧
      (i.isBorrowed = true ↔ (addr + alignedDataOffset t xs.length base) % t.align = 0) := by
  refine ⟨_, ref_body_aligned F marker_is_beve's v base addr, ?_, ?_⟩
  · split <;> rfl
  · by_cases ha : (addr + alignedDataOffset t xs.length base) % t.align = 0
    · simp [ha, SliceInput.isBorrowed]
    · simp [ha, SliceInput.isBorrowed]

/-- End to end: a request built by `body_aligned_typed_slice` behind a `q`-byte query, the whole frame
at buffer address `a`.  The borrowing route calls the handler with the original elements for every
`a`; it borrows exactly when `a` is a multiple of the element alignment. -/
theorem aligned_route_any_address {t : ElemTy} {xs : List Bytes} (v : Vec t t.width xs) (q a : Nat) :
    sliceRefHandler F t BEVE (a + 48 + q) (bodyAlignedTypedSlice F t q xs) =
      .called (if a % t.align = 0 then .borrowed xs else .owned xs) := by
  have hs : serverFormatOk F BEVE = true := by decide
  unfold sliceRefHandler bodyAlignedTypedSlice
  rw [hs, if_pos rfl, ref_body_aligned F marker_is_beve's v]
  have h0 := aligned_of_congr v.valid _ _ _ (base_congruent_to_frame_offset q)
    (alignedDataOffset_aligned t xs.length (baseOffset F.baseTerms q))
  have e : (a + 48 + q + alignedDataOffset t xs.length (baseOffset F.baseTerms q)) % t.align = a % t.align := by
    rw [show a + 48 + q + alignedDataOffset t xs.length (baseOffset F.baseTerms q) =
      a + (48 + q + alignedDataOffset t xs.length (baseOffset F.baseTerms q)) by omega]
    rw [Nat.add_mod, h0, Nat.add_zero, Nat.mod_mod]
  rw [e]

/-- Receive-buffer misalignments 0..7 of an 8-aligned buffer, f64: borrowed only at 0. -/
example : (List.range 8).map (fun a => (sliceRefHandler F ⟨0, 3⟩ BEVE (a + 48 + 5)
      (bodyAlignedTypedSlice F ⟨0, 3⟩ 5 [[1, 2, 3, 4, 5, 6, 7, 8]])) ==
        .called (if a = 0 then .borrowed [[1, 2, 3, 4, 5, 6, 7, 8]] else .owned [[1, 2, 3, 4, 5, 6, 7, 8]])) =
    List.replicate 8 true := by decide

/-! ### the marker dispatch cannot misroute -/

theorem regular_never_marker {t : ElemTy} (hv : t.Valid) :
    typedHeader t ≠ alignedMarker ∧ typedHeader t ≠ UInt8.ofNat F.marker := by
  rw [marker_is_beve's]; exact ⟨typedHeader_ne_marker hv, typedHeader_ne_marker hv⟩

/-- A regular typed array on the borrowing route is always read by the regular reader and copied,
wherever it lands. -/
theorem regular_body_on_ref_route {t : ElemTy} {xs : List Bytes} (v : Vec t t.width xs) (addr : Nat) :
    sliceRefHandler F t BEVE addr (bodyTypedSlice t xs) = .called (.owned xs) := by
  have hs : serverFormatOk F BEVE = true := by decide
  have hh : ¬ (bodyTypedSlice t xs).head? = some (UInt8.ofNat F.marker) := by
    simp only [bodyTypedSlice, encodeTyped, encodeTypedRaw, List.head?_cons, Option.some.injEq]
    exact (regular_never_marker v.valid).2
  have hb := bulk_reads_bulk F v
  unfold sliceRefHandler decodeTypedSliceRefBody
  rw [hs, if_pos rfl, if_neg hh]
  unfold decodeTypedSlice decodeTypedSliceRaw formatOk at hb
  unfold bulkReadTyped
  cases hr : bulkReadTypedRaw F t (bodyTypedSlice t xs) with
  | error e => rw [hr] at hb; simp [BEVE, liftB, Except.map] at hb
  | ok r => rw [hr] at hb; simp [BEVE, liftB, Except.map] at hb; simp [Except.map, hb]

/-! ### wrong element type, wrong wire form, wrong body format -/

private theorem no_empty (G : Facts) {b : Bytes} (h : b ≠ emptyGenericArray) :
    ¬ (G.emptyGeneric = true ∧ b = emptyGenericArray) := fun hh => h hh.2

/-- A well-formed body of another element type is rejected by every bulk decoder and route — the
owned fallback of the borrowing route does not swallow the mismatch. -/
theorem wrong_type_rejected {t t' : ElemTy} (hne : t ≠ t') {xs : List Bytes} (addr base : Nat) :
    (Vec t' t'.width xs →
      decodeTypedSlice F BEVE t (bodyTypedSlice t' xs) = .error (.beve .mismatch) ∧
      sliceHandler F t BEVE (bodyTypedSlice t' xs) = .err .mismatch ∧
      sliceRefHandler F t BEVE addr (bodyTypedSlice t' xs) = .err .mismatch ∧
      sliceRefHandler F t BEVE addr (encodeAligned t' xs base) = .err .mismatch) ∧
    (Vec t' (2 * t'.width) xs →
      decodeComplexSlice F BEVE t (bodyComplexSlice t' xs) = .error (.beve .mismatch)) := by
  have hs : serverFormatOk F BEVE = true := by decide
  have hf : formatOk F.typedGuard BEVE = true := by decide
  have hfc : formatOk F.complexGuard BEVE = true := by decide
  constructor
  · intro v
    have h1 := readTypedRaw_encode (t := t) v.valid xs.length xs.flatten []
      (v.len_lt t'.width_pos) v.blocks.flatten_length v.bytes
    simp only [List.append_nil, hne, if_false] at h1
    have hraw : bulkReadTypedRaw F t (bodyTypedSlice t' xs) = .error .mismatch := by
      unfold bulkReadTypedRaw bodyTypedSlice
      rw [if_neg (no_empty F (encodeTyped_ne_emptyGeneric v.valid xs))]; exact h1
    have hm : ¬ (bodyTypedSlice t' xs).head? = some (UInt8.ofNat F.marker) := by
      simp only [bodyTypedSlice, encodeTyped, encodeTypedRaw, List.head?_cons, Option.some.injEq]
      exact (regular_never_marker v.valid).2
    have ha1 := readAlignedRef_encode (t := t) v base addr []
    have ha2 := readAligned_encode (t := t) v base []
    simp only [List.append_nil, hne, if_false] at ha1 ha2
    have hma : (encodeAligned t' xs base).head? = some (UInt8.ofNat F.marker) := by
      rw [marker_is_beve's]; simp [encodeAligned, encodeAlignedRaw]
    refine ⟨?_, ?_, ?_, ?_⟩
    · simp [decodeTypedSlice, decodeTypedSliceRaw, hf, hraw, liftB, Except.map]
    · simp [sliceHandler, hs, bulkReadTyped, hraw, Except.map]
    · simp [sliceRefHandler, hs, decodeTypedSliceRefBody, hm, bulkReadTyped, hraw, Except.map]
    · simp [sliceRefHandler, hs, decodeTypedSliceRefBody, hma, ha1, ha2, Except.map]
  · intro v
    have h1 := readComplexRaw_encode (t := t) v.valid xs.length xs.flatten []
      (v.len_lt (by have := t'.width_pos; omega)) v.blocks.flatten_length v.bytes
    simp only [List.append_nil, hne, if_false] at h1
    have hraw : bulkReadComplexRaw F t (bodyComplexSlice t' xs) = .error .mismatch := by
      unfold bulkReadComplexRaw bodyComplexSlice
      rw [if_neg (no_empty F (encodeComplex_ne_emptyGeneric t' xs))]; exact h1
    simp [decodeComplexSlice, decodeComplexSliceRaw, hfc, hraw, liftB, Except.map]

/-- The three wire forms are distinct types: the regular decoder and the bulk route reject an aligned
body and a complex body of the *same* element type, and the complex decoder rejects a regular one. -/
theorem wrong_form_rejected {t : ElemTy} (hv : t.Valid) (n : Nat) (p : Bytes) (base : Nat) :
    (∃ e, decodeTypedSlice F BEVE t (encodeAlignedRaw t n p base) = .error (.beve e)) ∧
    (∃ e, sliceHandler F t BEVE (encodeAlignedRaw t n p base) = .err e) ∧
    (∃ e, decodeTypedSlice F BEVE t (encodeComplexRaw t n p) = .error (.beve e)) ∧
    (∃ e, decodeComplexSlice F BEVE t (encodeTypedRaw t n p) = .error (.beve e)) := by
  have ⟨_, _⟩ := hv.bounds
  have hs : serverFormatOk F BEVE = true := by decide
  have hf : formatOk F.typedGuard BEVE = true := by decide
  have hfc : formatOk F.complexGuard BEVE = true := by decide
  have hm : alignedMarker.toNat = 92 := by decide
  have hx : (0x1E : UInt8).toNat = 30 := by decide
  have r1 : readTypedRaw t (encodeAlignedRaw t n p base) = .error .mismatch := by
    simp only [encodeAlignedRaw, readTypedRaw, checkNumericHeader, hm]
    have : ¬ (92 / 8 % 4 = t.cls) := by omega
    simp [this, bind, Except.bind]
  have r2 : readTypedRaw t (encodeComplexRaw t n p) = .error .invalidType := by
    simp [encodeComplexRaw, complexHeader, readTypedRaw, checkNumericHeader, hx, bind, Except.bind]
  have r3 : readComplexRaw t (encodeTypedRaw t n p) = .error .invalidType := by
    have h1 := typedHeader_toNat hv
    have : ¬ ((t.code * 32 + t.cls * 8 + 4) % 8 = 6) := by omega
    simp [encodeTypedRaw, readComplexRaw, h1, this]
  refine ⟨⟨.mismatch, ?_⟩, ⟨.mismatch, ?_⟩, ⟨.invalidType, ?_⟩, ⟨.invalidType, ?_⟩⟩
  · simp [decodeTypedSlice, decodeTypedSliceRaw, hf, bulkReadTypedRaw,
      no_empty F (encodeAlignedRaw_ne_emptyGeneric t n p base), r1, liftB, Except.map]
  · simp [sliceHandler, hs, bulkReadTyped, bulkReadTypedRaw,
      no_empty F (encodeAlignedRaw_ne_emptyGeneric t n p base), r1, Except.map]
  · simp [decodeTypedSlice, decodeTypedSliceRaw, hf, bulkReadTypedRaw,
      no_empty F (encodeComplexRaw_ne_emptyGeneric t n p), r2, liftB, Except.map]
  · simp [decodeComplexSlice, decodeComplexSliceRaw, hfc, bulkReadComplexRaw,
      no_empty F (encodeTypedRaw_ne_emptyGeneric hv n p), r3, liftB, Except.map]

/-- Whatever the bytes, a body whose header does not say `Beve` is rejected by the decoders
(`UnexpectedBodyFormat`) and by both bulk routes (`InvalidBody`), never read. -/
theorem wrong_format_rejected (fmt : Nat) (hf : fmt ≠ BEVE) (t : ElemTy) (body : Bytes) (addr : Nat) :
    decodeTypedSlice F fmt t body = .error .unexpectedBodyFormat ∧
    decodeComplexSlice F fmt t body = .error .unexpectedBodyFormat ∧
    sliceHandler F t fmt body = .reject INVALID_BODY ∧
    sliceRefHandler F t fmt addr body = .reject INVALID_BODY := by
  have g1 : F.typedGuard = true := by decide
  have g2 : F.complexGuard = true := by decide
  have g3 : F.serverGuards = true := by decide
  have hb : (fmt == BEVE) = false := by simpa using hf
  refine ⟨?_, ?_, ?_, ?_⟩
  · simp [decodeTypedSlice, decodeTypedSliceRaw, formatOk, g1, hb, Except.map]
  · simp [decodeComplexSlice, decodeComplexSliceRaw, formatOk, g2, hb, Except.map]
  · simp [sliceHandler, serverFormatOk, g3, hb]
  · simp [sliceRefHandler, serverFormatOk, g3, hb]

example : (2 : Nat) ≠ BEVE ∧ decodeTypedSlice F 2 ⟨0, 3⟩ (encodeTyped ⟨0, 3⟩ [[1, 2, 3, 4, 5, 6, 7, 8]]) =
    .error .unexpectedBodyFormat := by decide

/-- Wrong element type, concretely: an f32 array offered to an f64 decoder / route, both wire forms. -/
example : decodeTypedSlice F BEVE ⟨0, 3⟩ (bodyTypedSlice ⟨0, 2⟩ [[1, 2, 3, 4], [5, 6, 7, 8]]) = .error (.beve .mismatch) ∧
    sliceRefHandler F ⟨0, 3⟩ BEVE 0 (encodeAligned ⟨0, 2⟩ [[1, 2, 3, 4], [5, 6, 7, 8]] 52) = .err .mismatch := by decide

/-! ### streaming writers -/

/-- `write_message_typed_slice(w, h, q, xs)` emits the frame of the message the buffered builder
makes from the same id / notify / error code / query format, query and slice — for every header the
caller passes (its length fields and body format are overwritten). -/
theorem streaming_eq_buffered (h : Header) (q : Bytes) {t : ElemTy} {xs : List Bytes}
    (hb : Blocks t.width xs) (hs : h.spec = REPE_SPEC) (hv : h.version = REPE_VERSION)
    (hr : h.reserved = 0) (nf : Bool) (hn : h.notify = if nf then 1 else 0) :
    writeMessageTypedSlice h q t xs =
      (sliceBuilder h.id nf h.ec h.queryFormat q (bodyTypedSlice t xs)).build.toVec ∧
    writeMessageTypedSlice h q t xs =
      writeMessageStreaming { h with bodyFormat := BEVE } q (bodyTypedSlice t xs) := by
  have hl := typed_size_closed_form hb
  constructor
  · cases h
    simp only at hs hv hr hn
    subst hs hv hr hn
    simp only [writeMessageTypedSlice, writeMessageTypedSliceRaw, sliceBuilder,
      Builder.build, Header.patchLengths, bodyTypedSlice, ← hl]
    cases q <;> simp [encodeTyped, Message.toVec] <;> rfl
  · simp only [writeMessageTypedSlice, writeMessageTypedSliceRaw, writeMessageStreaming, bodyTypedSlice, ← hl]
    rfl

/-- Non-vacuity: a caller header with stale length fields and another body format meets the hypotheses. -/
example : let h : Header := ⟨7, REPE_SPEC, REPE_VERSION, 1, 0, 99, 9, 11, 1, 3, 4096⟩
    h.spec = REPE_SPEC ∧ h.version = REPE_VERSION ∧ h.reserved = 0 ∧ h.notify = (if true then 1 else 0) ∧
    writeMessageTypedSlice h [0x2f, 0x61] ⟨2, 1⟩ [[1, 2], [3, 4]] =
      (sliceBuilder 99 true 4096 1 [0x2f, 0x61] (bodyTypedSlice ⟨2, 1⟩ [[1, 2], [3, 4]])).build.toVec := by decide

theorem complex_streaming_eq_buffered (h : Header) (q : Bytes) {t : ElemTy} {xs : List Bytes}
    (hb : Blocks (2 * t.width) xs) (hs : h.spec = REPE_SPEC) (hv : h.version = REPE_VERSION)
    (hr : h.reserved = 0) (nf : Bool) (hn : h.notify = if nf then 1 else 0) :
    writeMessageComplexSlice h q t xs =
      (sliceBuilder h.id nf h.ec h.queryFormat q (bodyComplexSlice t xs)).build.toVec ∧
    writeMessageComplexSlice h q t xs =
      writeMessageStreaming { h with bodyFormat := BEVE } q (bodyComplexSlice t xs) := by
  have hl := complex_size_closed_form hb
  constructor
  · cases h
    simp only at hs hv hr hn
    subst hs hv hr hn
    simp only [writeMessageComplexSlice, writeMessageComplexSliceRaw, sliceBuilder,
      Builder.build, Header.patchLengths, bodyComplexSlice, ← hl]
    cases q <;> simp [encodeComplex, Message.toVec] <;> rfl
  · simp only [writeMessageComplexSlice, writeMessageComplexSliceRaw, writeMessageStreaming,
      bodyComplexSlice, ← hl]
    rfl

/-! ### composition with the wire model (C01): the aligned request as a frame -/

/-- The request `Message::builder().id(..)…query_bytes(q).body_aligned_typed_slice(xs).build()`. -/
def alignedRequest (id : Nat) (nf : Bool) (ec qf : Nat) (q : Bytes) (t : ElemTy) (xs : List Bytes) : Message :=
  (sliceBuilder id nf ec qf q (bodyAlignedTypedSlice F t q.length xs)).build

/-- `body_aligned_typed_slice` reserves `HEADER_SIZE + query.len()` of headroom so that
`into_wire_bytes` frames in place.  Whatever capacity the body buffer ends up with (in-place branch or
fresh buffer — C01's `intoWireBytes`), the wire bytes are `to_vec`'s; every parser of the current
source (C01's `fromSlice`, owned and view sum forms, both build profiles) returns the request; and in
those bytes the element block sits, bit for bit, at a frame offset that is a multiple of the element
alignment. -/
theorem aligned_frame_any_capacity {t : ElemTy} {xs : List Bytes} (v : Vec t t.width xs)
    (id : Nat) (nf : Bool) (ec qf : Nat) (q : Bytes) (cap : Nat) (mode : OvMode)
    (hid : id < 2^64) (hec : ec < 2^32) (hqf : qf < 2^16)
    (hlen : 48 + q.length + (bodyAlignedTypedSlice F t q.length xs).length < 2^64) :
    let m := alignedRequest id nf ec qf q t xs
    let off := 48 + q.length + alignedDataOffset t xs.length (baseOffset F.baseTerms q.length)
    m.intoWireBytes cap = m.toVec ∧
    Message.fromSlice Gen.headerSumForm Gen.sliceSumForm mode (m.intoWireBytes cap) = .ok m ∧
    Message.fromSlice Gen.headerSumForm Gen.viewSumForm mode (m.intoWireBytes cap) = .ok m ∧
    ((m.intoWireBytes cap).drop off).take (xs.length * t.width) = xs.flatten ∧
    off % t.align = 0 := by
  intro m off
  have wf : m.WF := Builder.build_wf _ hid hec hqf (by show BEVE < 2^16; decide) hlen
  have e := intoWireBytes_eq_toVec m cap
  refine ⟨e, ?_, ?_, ?_, ?_⟩
  · rw [e]; exact fromSlice_toVec _ _ _ m wf
  · rw [e]; exact fromSlice_toVec _ _ _ m wf
  · rw [e]
    have hb : m.toVec = (m.header.encode ++ q) ++ bodyAlignedTypedSlice F t q.length xs := rfl
    have hl : (m.header.encode ++ q).length = 48 + q.length := by simp
    rw [hb, show off = (m.header.encode ++ q).length +
      alignedDataOffset t xs.length (baseOffset F.baseTerms q.length) by rw [hl]]
    rw [← List.drop_drop, List.drop_left]
    unfold bodyAlignedTypedSlice encodeAligned
    rw [encodeAlignedRaw_drop, ← v.blocks.flatten_length, List.take_length]
  · exact aligned_of_congr v.valid _ _ _ (base_congruent_to_frame_offset q.length)
      (alignedDataOffset_aligned t xs.length _)

/-- Non-vacuity: a 5-byte path, two f64, capacity smaller and larger than the frame. -/
example : let m := alignedRequest 7 false 0 1 [0x2f, 1, 2, 3, 4] ⟨0, 3⟩ [[1, 2, 3, 4, 5, 6, 7, 8], [9, 9, 9, 9, 9, 9, 9, 9]]
    m.intoWireBytes 0 = m.toVec ∧ m.intoWireBytes 4096 = m.toVec ∧ m.toVec.length = 48 + 5 + 3 + 1 + 7 + 16 := by
  decide

/-! ### builder sequences -/

/-- The last body setter wins: whatever bodies (and body capacities) earlier setters left on the
builder, the message is the one a fresh builder makes with the last setter alone — `body_bytes`, which
does not touch the format, keeps the format of the setters before it. -/
theorem last_setter_wins (id : Nat) (q : Bytes) (queryAfter : Bool) (ss : List Setter) (s : Setter) :
    (buildSeq F id q queryAfter (ss ++ [s])).body = (buildSeq F id q queryAfter [s]).body ∧
    ((∀ b, s ≠ .bytes b) → buildSeq F id q queryAfter (ss ++ [s]) = buildSeq F id q queryAfter [s]) := by
  constructor
  · simp only [buildSeq, List.foldl_append, List.foldl_cons, List.foldl_nil, Builder.build]
    cases s <;> rfl
  · intro h
    simp only [buildSeq, List.foldl_append, List.foldl_cons, List.foldl_nil]
    cases s <;> first | rfl | exact absurd rfl (h _)

example : (buildSeq F 7 [0x2f] false [.typed ⟨0, 3⟩ [[1, 2, 3, 4, 5, 6, 7, 8], [9, 9, 9, 9, 9, 9, 9, 9]], .typed ⟨2, 0⟩ [[5]]]).body =
    [0x14, 0x04, 5] := by decide

/-! ### the client entry points -/

/-- Every aligned entry point of both clients (`call_typed_slice_aligned`, `…_with_timeout`) puts on
the wire exactly the frame the buffered builder makes with the query set first — read off the current
source: the order of the builder steps in `call_with_body_and_timeout` and the builder method each
entry point reaches. -/
theorem client_aligned_request_is_builder_frame (timeout : Bool) (t : ElemTy) (id : Nat) (path : Bytes)
    (xs : List Bytes) :
    clientRequest F F.syncClient .aligned timeout t id path xs = alignedRequest id false 0 1 path t xs ∧
    clientRequest F F.asyncClient .aligned timeout t id path xs = alignedRequest id false 0 1 path t xs := by
  have h1 : F.syncClient.queryFirst = true ∧ F.syncClient.alignedPlain = .aligned ∧
      F.syncClient.alignedTimeout = .aligned := by decide
  have h2 : F.asyncClient.queryFirst = true ∧ F.asyncClient.alignedPlain = .aligned ∧
      F.asyncClient.alignedTimeout = .aligned := by decide
  cases timeout <;> simp [clientRequest, clientBody, alignedRequest, h1, h2]

/-- … so, served by the borrowing route from a receive buffer at address `a`, the request of every
aligned entry point is borrowed exactly when `a` is a multiple of the element alignment, for every
path length — and its frame survives `into_wire_bytes` at any capacity. -/
theorem client_aligned_request_borrowable {t : ElemTy} {xs : List Bytes} (v : Vec t t.width xs)
    (timeout : Bool) (id : Nat) (path : Bytes) (a : Nat) (C : ClientFacts)
    (hC : C = F.syncClient ∨ C = F.asyncClient) :
    let m := clientRequest F C .aligned timeout t id path xs
    sliceRefHandler F t m.header.bodyFormat (a + 48 + path.length) m.body =
      .called (if a % t.align = 0 then .borrowed xs else .owned xs) := by
  intro m
  have hm : m = alignedRequest id false 0 1 path t xs := by
    rcases hC with rfl | rfl
    · exact (client_aligned_request_is_builder_frame timeout t id path xs).1
    · exact (client_aligned_request_is_builder_frame timeout t id path xs).2
  rw [hm]
  exact aligned_route_any_address v path.length a

/-- The bulk entry points send the regular form, the serde one the generic form; the response of both
bulk routes is framed by `body_typed_slice`. -/
theorem client_bulk_request_is_regular (timeout : Bool) (t : ElemTy) (qlen : Nat) (xs : List Bytes) :
    clientBody F F.syncClient .bulk timeout t qlen xs = bodyTypedSlice t xs ∧
    clientBody F F.asyncClient .bulk timeout t qlen xs = bodyTypedSlice t xs ∧
    F.respBulk = true := by
  have h1 : F.syncClient.bulkPlain = .regular ∧ F.syncClient.bulkTimeout = .regular := by decide
  have h2 : F.asyncClient.bulkPlain = .regular ∧ F.asyncClient.bulkTimeout = .regular := by decide
  refine ⟨?_, ?_, by decide⟩ <;> cases timeout <;> simp [clientBody, h1, h2]

/-- What goes wrong otherwise (seeded C08-B): a client that applies the body closure before the query
pads for offset 48; with a 3-byte path the f64 payload is then borrowed at base 5, not at base 0. -/
example : let C : ClientFacts := { F.syncClient with queryFirst := false }
    let m := clientRequest F C .aligned true ⟨0, 3⟩ 1 [0x2f, 0x61, 0x62] [[1, 2, 3, 4, 5, 6, 7, 8]]
    sliceRefHandler F ⟨0, 3⟩ m.header.bodyFormat (0 + 48 + 3) m.body = .called (.owned [[1, 2, 3, 4, 5, 6, 7, 8]]) ∧
    sliceRefHandler F ⟨0, 3⟩ m.header.bodyFormat (5 + 48 + 3) m.body = .called (.borrowed [[1, 2, 3, 4, 5, 6, 7, 8]]) := by
  decide

/-! ### the dependency's layout constants -/

/-- The layout constants the model hard-codes are the ones in the beve crate source the lock file
names (header type / class codes, aligned marker, complex extension byte, the empty generic array, the
three SIZE threshold ladders, and the table of `BeveTypedSlice` implementors with their widths). -/
theorem beve_layout_constants :
    let B := Gen.beveFacts
    UInt8.ofNat (B.alignedDiscriminator * 32 + B.arrayBoolOrString * 8 + B.typeTypedArray) = alignedMarker ∧
    [UInt8.ofNat (B.extComplex * 8 + B.typeExtension)] = (complexHeader ⟨0, 0⟩).take 1 ∧
    [UInt8.ofNat B.typeGenericArray, 0] = emptyGenericArray ∧
    (B.typeTypedArray, B.arrayFloat, B.arraySigned, B.arrayUnsigned) = (4, 0, 1, 2) ∧
    B.sizeThresholds = [[6, 14, 30], [6, 14, 30], [6, 14, 30]] ∧
    (∀ i ∈ B.impls, (ElemTy.mk i.1 i.2.1).Valid ∧ (ElemTy.mk i.1 i.2.1).width = i.2.2) ∧
    (∀ cls, cls < 4 → ∀ code, code < 8 →
      ((ElemTy.mk cls code).Valid ↔ (B.impls.map fun i => (i.1, i.2.1)).contains (cls, code) = true)) := by
  decide

/-! ### a whole call -/

private theorem bulkReadTyped_bulk (G : Facts) {t : ElemTy} {xs : List Bytes} (v : Vec t t.width xs) :
    bulkReadTyped G t (encodeTyped t xs) = .ok xs := by
  have h := typed_roundtrip v []
  simp only [List.append_nil, readTyped] at h
  unfold bulkReadTyped bulkReadTypedRaw
  rw [if_neg (fun hh => encodeTyped_ne_emptyGeneric v.valid xs hh.2)]
  exact h

private theorem bulkReadTyped_generic (G : Facts) (hg : G.emptyGeneric = true) {t : ElemTy}
    {xs : List Bytes} (v : Vec t t.width xs) : bulkReadTyped G t (encodeGeneric t xs) = .ok xs := by
  cases xs with
  | nil => simp [bulkReadTyped, bulkReadTypedRaw, encodeGeneric, encodeGenericRaw, hg, Except.map, chunks]
  | cons x xs =>
    have := bulkReadTyped_bulk G v
    simpa [encodeGeneric, encodeGenericRaw, encodeTyped] using this

private theorem readGeneric_generic {t : ElemTy} {xs : List Bytes} (v : Vec t t.width xs) :
    readGeneric t (encodeGeneric t xs) = .ok xs := by
  cases xs with
  | nil => simp [readGeneric, encodeGeneric, encodeGenericRaw]
  | cons x xs =>
    have := generic_reads_bulk v
    simpa [encodeGeneric, encodeGenericRaw, bodyTypedSlice, encodeTyped] using this

private theorem generic_head_ne_marker {t : ElemTy} (hv : t.Valid) (xs : List Bytes) :
    ¬ (encodeGeneric t xs).head? = some (UInt8.ofNat F.marker) := by
  rw [marker_is_beve's]
  cases xs with
  | nil => show ¬ emptyGenericArray.head? = some alignedMarker; decide
  | cons x xs =>
    simp only [encodeGeneric, encodeGenericRaw, List.length_cons, Nat.add_one_ne_zero, if_false,
      encodeTypedRaw, List.head?_cons, Option.some.injEq]
    exact typedHeader_ne_marker hv

/-- A call echoes the vector bit for bit — the empty one included — for every client helper against
every route that understands its wire form (the aligned form pairs with the borrowing route only),
every path length, and wherever the request lands in the server's receive buffer. -/
theorem call_echo {t : ElemTy} {xs : List Bytes} (v : Vec t t.width xs) (k : ClientKind) (r : RouteKind)
    (q addr : Nat) (hc : k = .aligned → r = .sliceRef) :
    call F k r t q addr xs = .ok xs := by
  have hs : serverFormatOk F BEVE = true := by decide
  have hg : F.emptyGeneric = true := by decide
  have dB := bulk_reads_bulk F v
  have dG := bulk_reads_generic v
  have gB := generic_reads_bulk v
  have gG := readGeneric_generic v
  have rB := bulkReadTyped_bulk F v
  have rG := bulkReadTyped_generic F hg v
  have hmB : ¬ (encodeTyped t xs).head? = some (UInt8.ofNat F.marker) := by
    simp only [encodeTyped, encodeTypedRaw, List.head?_cons, Option.some.injEq]
    exact (regular_never_marker v.valid).2
  have hmG := generic_head_ne_marker v.valid xs
  have hA := ref_body_aligned F marker_is_beve's v (baseOffset F.baseTerms q) addr
  cases k <;> cases r
  · simp [call, serve, requestBody, clientDecode, sliceHandler, hs, bodyTypedSlice, rB, SliceInput.elems] at dB ⊢
    simp [dB]
  · simp [call, serve, requestBody, clientDecode, sliceRefHandler, decodeTypedSliceRefBody, hs, bodyTypedSlice,
      hmB, rB, Except.map, SliceInput.elems] at dB ⊢
    simp [dB]
  · simp [call, serve, requestBody, clientDecode, bodyTypedSlice] at gB dG ⊢
    simp [gB, dG]
  · exact absurd (hc rfl) (by decide)
  · have he : (if (addr + alignedDataOffset t xs.length (baseOffset F.baseTerms q)) % t.align = 0
        then SliceInput.borrowed xs else SliceInput.owned xs).elems = xs := by split <;> rfl
    simp [call, serve, requestBody, clientDecode, sliceRefHandler, hs, bodyAlignedTypedSlice, hA,
      bodyTypedSlice, he] at dB ⊢
    simp [dB]
  · exact absurd (hc rfl) (by decide)
  · simp [call, serve, requestBody, clientDecode, sliceHandler, hs, rG, SliceInput.elems, bodyTypedSlice, liftB] at gB ⊢
    simp [gB]
  · simp [call, serve, requestBody, clientDecode, sliceRefHandler, decodeTypedSliceRefBody, hs, hmG, rG,
      Except.map, SliceInput.elems, bodyTypedSlice, liftB] at gB ⊢
    simp [gB]
  · simp [call, serve, requestBody, clientDecode, gG, liftB]

/-- The side condition is needed: the aligned form is a distinct BEVE type, a plain bulk route answers
`ParseError` — and with it the call goes through, borrowed or not. -/
example : call F .aligned .slice ⟨0, 3⟩ 5 0 [[1, 2, 3, 4, 5, 6, 7, 8]] = .error (.server PARSE_ERROR) ∧
    call F .aligned .sliceRef ⟨0, 3⟩ 5 3 [[1, 2, 3, 4, 5, 6, 7, 8]] = .ok [[1, 2, 3, 4, 5, 6, 7, 8]] ∧
    call F .serde .sliceRef ⟨0, 3⟩ 5 3 [] = .ok [] := by decide

end Repe.C08
