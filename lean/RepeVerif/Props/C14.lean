import RepeVerif.Lemmas.Registry
import RepeVerif.Lemmas.RegistryRouter
import RepeVerif.Gen.Registry
/-!
# C14 — The registry behaves as a JSON tree addressed by RFC 6901 pointers

> For every sequence of registrations, merges, reads, writes and calls the registry answers as a plain
> JSON document plus a set of callables would: a successful write to a non-root pointer is returned by
> the next read of that pointer and changes nothing at unrelated pointers (a root write merges the
> object's keys), a request with an empty body never mutates, and a callable is invoked exactly once,
> with the supplied body, only for a non-empty body at exactly its escape-normalised pointer. Pointer
> tokens round-trip through escaping, malformed pointers are rejected with the not-found class of
> error, mounting under a prefix only strips that prefix, and concurrent requests are serialised:
> every outcome equals some sequential order.

The model (`Model/Registry.lean`) is `src/registry.rs` branch by branch: a registry is a JSON document
(`Reg.root`), a finite map of callables keyed by canonical pointer (`Reg.funcs`) and – for stating
"invoked exactly once" – the log of calls made (`Reg.log`).  `rc` below is the extracted fact "the
write-lock section of the body-bearing dispatch looks the function map up again".

clause → theorem
* tokens round-trip through escaping ........................ `escape_unescape`, `unescape_escape_wf`, `pointer_roundtrip`
* escape-normalised key; borrowed fast path not observable .. `canonical_key_fast_path`
* malformed ⇒ InvalidPointer ⇒ MethodNotFound, no mutation ... `malformed_is_not_found`, `malformed_never_mutates`, `invalid_pointer_code`
* write then read returns the value ......................... `read_after_write`
* … and changes nothing at unrelated pointers ............... `write_frame`, `write_frame_strong`
* registrations and merges answer as the document would ...... `registration_reads_back`, `malformed_registration_rejected`
* a root write merges the object's keys ..................... `root_write_merges`, `root_write_keeps_other_keys`, `root_never_callable`
* an empty body never mutates ............................... `empty_body_never_mutates`
* callable invoked exactly once, with the body, only at its key `call_exactly_once`
* mounting only strips the prefix ........................... `mount_strips_only_prefix`, `mount_boundary`,
  `mount_handle_is_dispatch`, `mount_never_mutates_without_body`, `decode_body_cases`, `body_format_codes`,
  `source_shape_facts`; composed with C07's router: `mount_rules_are_the_router_model`, `routed_request_is_dispatch`
* single-section API calls are atomic (facts) ............... `lock_region_facts`, `atomic_ops_linearizable`
* concurrent requests are serialised ........................ `dispatch_write_linearizable_partial` (always),
  `dispatch_linearizable` (full statement; applies when the extracted fact `recheckUnderWriteLock` is
  `true`), `linearizable_current` (the strongest of the two that the current source supports)
* `json_pointer::parse/evaluate` agree with RFC 6901 / the registry  `json_pointer_parse_rfc6901`, `json_pointer_evaluate`

Why the full concurrency statement needs the re-check: `f8_witness` is a schedule of the two-section
model without re-check whose outcome no sequential order produces (finding F8 of DESIGN.md §9).
-/
namespace Repe.C14
open Repe

/-- the extracted lock-region fact the model is instantiated with -/
abbrev rc : Bool := Gen.Registry.recheckUnderWriteLock

/-! ### pointer syntax -/

theorem escape_unescape (t : Tok) : unescapeToken (escapeToken t) = some t := by
  rw [unescapeToken_eq_scan]; exact unescScan_escape t

/-- Strict unescaping succeeds only on well-formed tokens, and those re-escape to the same text
(a reference token never contains a raw `/`: tokens are the pieces between slashes). -/
theorem unescape_escape_wf (t u : Tok) (ht : ∀ c ∈ t, c ≠ '/') (h : unescapeToken t = some u) :
    escapeToken u = t := by
  rw [unescapeToken_eq_scan] at h; exact escape_of_unescScan t u ht h

example : unescapeToken ['a', '~', '1', 'b', '~', '0'] = some ['a', '/', 'b', '~'] := by decide
example : escapeToken ['a', '/', 'b', '~'] = ['a', '~', '1', 'b', '~', '0'] := by decide
example : unescapeToken ['a', '~', '2'] = none ∧ unescapeToken ['a', '~'] = none := by decide

/-- The function-map key computed by `canonical_key` is parse-then-re-escape on EVERY input – same
value, same errors; the borrowed fast path for escape-free pointers cannot be observed. -/
theorem canonical_key_fast_path (p : Ptr) : canonicalKey p = (parsePointer p).map canonicalPointer :=
  canonicalKey_eq p

example : (canonicalKey ['/', 'a', '/', 'b']).toOption = some ['/', 'a', '/', 'b'] ∧
    (canonicalKey ['/', 'a', '~', '1', 'b', '/', '~', '0']).toOption = some ['/', 'a', '~', '1', 'b', '/', '~', '0'] ∧
    (canonicalKey ([] : List Char)).toOption = some ['/'] ∧ (canonicalKey ['/', '/']).toOption = some ['/', '/'] := by
  decide

/-- Whole pointers round-trip too: parsing the canonical text of a token list gives the list back
(all non-root lists except the single empty token: the pointer `/` is read as the root by this
crate), and a canonical pointer is its own function-map key. -/
theorem pointer_roundtrip (segs : List Tok) (hne : segs ≠ []) (h1 : segs ≠ [[]]) :
    parsePointer (canonicalPointer segs) = .ok segs ∧
    canonicalKey (canonicalPointer segs) = .ok (canonicalPointer segs) := by
  have h := parse_canonical segs hne h1
  exact ⟨h, by rw [canonical_key_fast_path, h]; rfl⟩

example : (parsePointer (canonicalPointer [['a', '/', 'b'], [], ['~']])).toOption = some [['a', '/', 'b'], [], ['~']] ∧
    canonicalPointer [['a', '/', 'b'], [], ['~']] = ['/', 'a', '~', '1', 'b', '/', '/', '~', '0'] := by decide

/-- `RegistryError::InvalidPointer.code()` is `MethodNotFound` (= 6), read off the current source. -/
theorem invalid_pointer_code :
    lookupStr "InvalidPointer" Gen.Registry.registryErrorCode = some "MethodNotFound" ∧
    RErr.invalidPointer.code Gen.Registry.registryErrorCode Gen.Registry.errorCodes = some 6 ∧
    RErr.pathNotFound.code Gen.Registry.registryErrorCode Gen.Registry.errorCodes = some 6 ∧
    RErr.invalidArrayIndex.code Gen.Registry.registryErrorCode Gen.Registry.errorCodes = some 6 ∧
    RErr.arrayIndexOutOfBounds.code Gen.Registry.registryErrorCode Gen.Registry.errorCodes = some 6 := by
  decide

/-- A non-empty pointer without a leading `/`, or with a reference token carrying a bad `~` escape,
is `InvalidPointer` for both the tree walk and the function-map key. -/
theorem malformed_is_not_found :
    (∀ (c : Char) (rest : List Char), c ≠ '/' →
      parsePointer (c :: rest) = .error .invalidPointer ∧ canonicalKey (c :: rest) = .error .invalidPointer) ∧
    (∀ (rest : List Char) (t : Tok), rest ≠ [] → t ∈ splitOn '/' rest → unescapeToken t = none →
      parsePointer ('/' :: rest) = .error .invalidPointer ∧ canonicalKey ('/' :: rest) = .error .invalidPointer) := by
  constructor
  · intro c rest hc
    have h := parsePointer_no_slash c rest hc
    exact ⟨h, by rw [canonical_key_fast_path, h]; rfl⟩
  · intro rest t hne ht hbad
    rw [unescapeToken_eq_scan] at hbad
    have h := parsePointer_bad_token rest hne t ht hbad
    exact ⟨h, by rw [canonical_key_fast_path, h]; rfl⟩

example : (parsePointer ['a', '/', 'b']).toOption = none ∧ (parsePointer ['/', 'a', '/', 'b', '~', '2']).toOption = none ∧
    (parsePointer ['/', 'a', '/', 'b', '~', '1']).toOption = some [['a'], ['b', '/']] := by decide

/-- … and such a request is answered with that error whatever the body, and changes nothing. -/
theorem malformed_never_mutates (r : Bool) (reg : Reg) (p : Ptr) (body : Option J) (e : RErr)
    (h : parsePointer p = .error e) :
    reg.dispatch r p body = (reg, .error e) ∧ reg.readValue p = .error e := by
  have hk : canonicalKey p = .error e := by rw [canonical_key_fast_path, h]; rfl
  refine ⟨?_, by simp [Reg.readValue, h]⟩
  cases body with
  | none => simp [Reg.dispatch, Reg.dispatchRead, hk]
  | some v => simp [Reg.dispatch, Reg.dispatchBody, Reg.dispatchLookup, hk]

/-! ### the tree -/

/-- A successful body-bearing request at a non-root pointer that is not a callable is a write: it
reports the canonical pointer, and the next read of that pointer (through `dispatch` or `read_value`)
returns exactly the written value. -/
theorem read_after_write (r : Bool) (reg reg' : Reg) (p : Ptr) (v w : J) (segs : List Tok)
    (hnc : reg.callableAt p = none) (hp : parsePointer p = .ok segs) (hne : segs ≠ [])
    (h : reg.dispatch r p (some v) = (reg', .ok w)) :
    w = okWrite (canonicalPointer segs) ∧
    reg'.dispatch r p none = (reg', .ok v) ∧ reg'.readValue p = .ok v := by
  rw [dispatch_some_of_not_callable r reg p v hnc] at h
  unfold Reg.writeAt at h
  rw [hp] at h
  match segs, hne, h with
  | t :: ts, _, h =>
    simp only at h
    cases hs : setPointer reg.root (t :: ts) v with
    | error e => simp [hs] at h
    | ok root' =>
      simp [hs] at h
      obtain ⟨hreg, hw⟩ := h
      subst hreg
      have hres := resolve_setPointer reg.root (t :: ts) v root' hs
      have hk : canonicalKey p = .ok (canonicalPointer (t :: ts)) := by
        rw [canonical_key_fast_path, hp]; rfl
      have hf : fget (canonicalPointer (t :: ts)) reg.funcs = none := by
        simpa [Reg.callableAt, hk] using hnc
      refine ⟨hw.symm, ?_, ?_⟩
      · simp [Reg.dispatch, Reg.dispatchRead, hk, hf, hp, hres]
      · simp [Reg.readValue, hp, hres]

example :
    (⟨.obj [(['a'], .obj [])], [], []⟩ : Reg).callableAt ['/', 'a', '/', 'b'] = none ∧
    (parsePointer ['/', 'a', '/', 'b']).toOption = some [['a'], ['b']] ∧
    (((⟨.obj [(['a'], .obj [])], [], []⟩ : Reg).dispatch false ['/', 'a', '/', 'b'] (some (.num "1"))).2.isOk = true) := by
  decide

/-- Frame: such a write changes nothing that is read at a pointer which leaves the written path at
some token – `t` on the written path, `u` on the other, where `t` and `u` cannot address the same
child (they differ as keys and are not the same array index, e.g. `1`, `01`, `+1`).  Callables and
the call log are untouched as well. -/
theorem write_frame (r : Bool) (reg reg' : Reg) (p q : Ptr) (v w : J)
    (pre : List Tok) (t u : Tok) (ps qs : List Tok)
    (hnc : reg.callableAt p = none)
    (hp : parsePointer p = .ok (pre ++ t :: ps)) (hq : parsePointer q = .ok (pre ++ u :: qs))
    (hd : ¬ sameSlot t u)
    (h : reg.dispatch r p (some v) = (reg', .ok w)) :
    (reg'.dispatch r q none).2 = (reg.dispatch r q none).2 ∧ reg'.readValue q = reg.readValue q ∧
    reg'.funcs = reg.funcs ∧ reg'.log = reg.log := by
  rw [dispatch_some_of_not_callable r reg p v hnc] at h
  have hfl := writeAt_log reg p v
  rw [h] at hfl
  unfold Reg.writeAt at h
  rw [hp] at h
  have hne : pre ++ t :: ps ≠ [] := by simp
  match hsegs : pre ++ t :: ps, hne, h with
  | t0 :: ts0, _, h =>
    simp only at h
    cases hs : setPointer reg.root (t0 :: ts0) v with
    | error e => simp [hs] at h
    | ok root' =>
      simp [hs] at h
      obtain ⟨hreg, _⟩ := h
      subst hreg
      rw [← hsegs] at hs
      have hfr := resolve_setPointer_frame pre t u ps qs reg.root v root' hd hs
      refine ⟨?_, ?_, hfl.2, hfl.1⟩
      · simp only [Reg.dispatch, Reg.dispatchRead]
        cases hk : canonicalKey q with
        | error e => rfl
        | ok key => simp only [hq, hfr]
      · simp only [Reg.readValue, hq, hfr]

/-- Frame at full strength: where the two pointers part the tokens only have to differ; they must not
be the same array index only if the node at which they part IS an array (under an object `1` and `01`
are different keys). -/
theorem write_frame_strong (r : Bool) (reg reg' : Reg) (p q : Ptr) (v w : J)
    (pre : List Tok) (t u : Tok) (ps qs : List Tok)
    (hnc : reg.callableAt p = none)
    (hp : parsePointer p = .ok (pre ++ t :: ps)) (hq : parsePointer q = .ok (pre ++ u :: qs))
    (hne : t ≠ u)
    (harr : ∀ a, resolveRef reg.root pre = .ok (.arr a) → ¬ ∃ i, parseUsize t = some i ∧ parseUsize u = some i)
    (h : reg.dispatch r p (some v) = (reg', .ok w)) :
    (reg'.dispatch r q none).2 = (reg.dispatch r q none).2 ∧ reg'.readValue q = reg.readValue q := by
  rw [dispatch_some_of_not_callable r reg p v hnc] at h
  have hfl := writeAt_log reg p v
  rw [h] at hfl
  unfold Reg.writeAt at h
  rw [hp] at h
  have hne' : pre ++ t :: ps ≠ [] := by simp
  match hsegs : pre ++ t :: ps, hne', h with
  | t0 :: ts0, _, h =>
    simp only at h
    cases hs : setPointer reg.root (t0 :: ts0) v with
    | error e => simp [hs] at h
    | ok root' =>
      simp [hs] at h
      obtain ⟨hreg, _⟩ := h
      subst hreg
      rw [← hsegs] at hs
      have hfr := resolve_setPointer_frame' pre t u ps qs reg.root v root' hne harr hs
      refine ⟨?_, ?_⟩
      · simp only [Reg.dispatch, Reg.dispatchRead]
        cases hk : canonicalKey q with
        | error e => rfl
        | ok key => simp only [hq, hfr]
      · simp only [Reg.readValue, hq, hfr]

/-- `register_value` at a non-root path: whatever was there, the value is read back at that path
(missing or non-object ancestors having been made objects); `merge_at` at a non-root path succeeds only
on an existing object, whose fields it extends (`root_write_keeps_other_keys` applies to `omerge`), and a
failed merge changes nothing; malformed registration paths are refused without any change. -/
theorem registration_reads_back (reg : Reg) (path : Ptr) (segs : List Tok)
    (hs : parseRegistrationPath path = .ok segs) (hne : segs ≠ []) :
    (∀ v p, parsePointer p = .ok segs →
      (reg.registerValue path v).2 = unitOk ∧ (reg.registerValue path v).1.readValue p = .ok v) ∧
    (∀ o, (∃ old, resolveRef reg.root segs = .ok (.obj old) ∧ (reg.mergeAt path o).2 = unitOk ∧
            resolveRef (reg.mergeAt path o).1.root segs = .ok (.obj (omerge o old))) ∨
          (∃ e, reg.mergeAt path o = (reg, .error e))) := by
  match segs, hne with
  | t :: ts, _ =>
    constructor
    · intro v p hp
      simp only [Reg.registerValue, hs, Reg.readValue, hp]
      exact ⟨trivial, resolve_regInsert reg.root (t :: ts) v (by simp)⟩
    · intro o
      simp only [Reg.mergeAt, hs]
      cases hm : mergeAtPtr reg.root (t :: ts) o with
      | error e => exact .inr ⟨e, rfl⟩
      | ok root' =>
        obtain ⟨old, h1, h2⟩ := resolve_mergeAtPtr reg.root root' (t :: ts) o hm
        exact .inl ⟨old, h1, rfl, h2⟩

theorem malformed_registration_rejected (reg : Reg) (path : Ptr) (e : RErr)
    (h : parseRegistrationPath path = .error e) (v : J) (f : Fn) (o : Obj) :
    reg.registerValue path v = (reg, .error e) ∧ reg.registerFunction path f = (reg, .error e) ∧
    reg.mergeAt path o = (reg, .error e) := by
  simp [Reg.registerValue, Reg.registerFunction, Reg.mergeAt, h]

example : (parseRegistrationPath ['a', '~', '2']).toOption = none ∧
    (parseRegistrationPath ['a', '/', 'b']).toOption = some [['a'], ['b']] := by decide

example : ¬ sameSlot ['a'] ['b'] ∧ ¬ sameSlot ['1'] ['2'] ∧
    sameSlot ['0', '1'] ['+', '1'] := by
  have ea : parseUsize ['a'] = none := by decide
  have e1 : parseUsize ['1'] = some 1 := by decide
  have e2 : parseUsize ['2'] = some 2 := by decide
  refine ⟨?_, ?_, .inr ⟨1, by decide, by decide⟩⟩
  · rintro (h | ⟨i, h1, _⟩)
    · exact absurd h (by decide)
    · rw [ea] at h1; cases h1
  · rintro (h | ⟨i, h1, h2⟩)
    · exact absurd h (by decide)
    · rw [e1] at h1; rw [e2] at h2; cases h1; cases h2

/-- A body-bearing request at the root (`""` or `"/"`, never a callable) with an object body inserts
the body's fields into the root object (the last binding of a key wins; every other key keeps its
value; a non-object root is first replaced by `{}`); a non-object body is refused and nothing changes. -/
theorem root_write_merges (r : Bool) (reg : Reg) (p : Ptr) (hp : p = [] ∨ p = ['/'])
    (hnc : fget ['/'] reg.funcs = none) :
    (∀ o : Obj, ∃ reg' o',
      reg.dispatch r p (some (.obj o)) = (reg', .ok (okWrite ['/'])) ∧
      reg'.funcs = reg.funcs ∧ reg'.log = reg.log ∧ reg'.root = .obj o' ∧
      ∀ k, oget k o' = o.foldl (fun acc kv => if kv.1 = k then some kv.2 else acc) (oget k reg.root.asObj)) ∧
    (∀ v : J, v.isObj = false → reg.dispatch r p (some v) = (reg, .error .rootWriteRequiresObject)) := by
  have hk : canonicalKey p = .ok ['/'] := by
    rcases hp with h | h <;> subst h <;> rfl
  have hpp : parsePointer p = .ok [] := by
    rcases hp with h | h <;> subst h <;> rfl
  have hc : reg.callableAt p = none := by simp [Reg.callableAt, hk, hnc]
  constructor
  · intro o
    refine ⟨{ reg with root := .obj (omerge o reg.root.asObj) }, omerge o reg.root.asObj, ?_, rfl, rfl, rfl,
      fun k => oget_omerge k o reg.root.asObj⟩
    rw [dispatch_some_of_not_callable r reg p _ hc]
    simp [Reg.writeAt, hpp]
  · intro v hv
    rw [dispatch_some_of_not_callable r reg p v hc]
    cases v <;> simp_all [Reg.writeAt, J.isObj]

/-- The hypothesis of `root_write_merges` holds in every reachable state: the key `/` is free in the
fresh registry and no API call ever binds it ("no function can register at the root"). -/
theorem root_never_callable (r : Bool) :
    fget ['/'] ({} : Reg).funcs = none ∧
    ∀ (reg : Reg) (op : Op), fget ['/'] reg.funcs = none → fget ['/'] (reg.apply r op).1.funcs = none :=
  ⟨rfl, fun reg op h => root_key_free_preserved r reg op h⟩

/-- A key the body does not mention keeps its value under a root write. -/
theorem root_write_keeps_other_keys (k : Key) (o dst : Obj) (h : ∀ kv ∈ o, kv.1 ≠ k) :
    oget k (omerge o dst) = oget k dst := by
  rw [oget_omerge, foldl_keep k o _ h]

/-- A request with an empty body – `dispatch(p, None)`, `read_value(p)` – never changes the tree, the
callables or the call log. -/
theorem empty_body_never_mutates (r : Bool) (reg : Reg) (p : Ptr) :
    (reg.dispatch r p none).1 = reg ∧ (reg.apply r (.read p)).1 = reg ∧ (reg.apply r (.disp p none)).1 = reg :=
  ⟨rfl, rfl, rfl⟩

/-- `dispatch(p, body)` invokes a callable exactly once, with the supplied body, when the body is
non-empty and the escape-normalised `p` is a registered key – the tree is then untouched and the
callable's own result is the answer; in every other case no callable is invoked. -/
theorem call_exactly_once (r : Bool) (reg : Reg) (p : Ptr) (body : Option J) :
    match body, reg.callableAt p with
    | some v, some f =>
        reg.dispatch r p body = ({ reg with log := reg.log ++ [(f.tag, v)] }, f.ret v)
    | _, _ => (reg.dispatch r p body).1.log = reg.log ∧ (reg.dispatch r p body).1.funcs = reg.funcs := by
  cases body with
  | none => exact ⟨rfl, rfl⟩
  | some v =>
    cases hc : reg.callableAt p with
    | some f => simp only; rw [dispatch_some_of_callable r reg p v f hc]; rfl
    | none => simp only; rw [dispatch_some_of_not_callable r reg p v hc]; exact writeAt_log reg p v

/-- The key a callable is found under is the parse-then-re-escape form of the request pointer, and the
key it was stored under is the same form of the registration path: `~0`/`~1` spellings and a missing
leading slash at registration do not matter, nothing else matches. -/
theorem callable_key (reg : Reg) (path : Ptr) (f : Fn) (segs : List Tok)
    (hs : parseRegistrationPath path = .ok segs) (hne : segs ≠ []) (p : Ptr) :
    let reg' := (reg.registerFunction path f).1
    (parsePointer p = .ok segs → reg'.callableAt p = some f) ∧
    (∀ segs', parsePointer p = .ok segs' → canonicalPointer segs' ≠ canonicalPointer segs →
      reg'.callableAt p = reg.callableAt p) := by
  have hreg : (reg.registerFunction path f).1 =
      { reg with root := ensureParent reg.root segs, funcs := fset (canonicalPointer segs) f reg.funcs } := by
    unfold Reg.registerFunction; rw [hs]
    match segs, hne with
    | t :: ts, _ => rfl
  have fget_fset : ∀ (k k' : Key) (l : List (Key × Fn)),
      fget k' (fset k f l) = if k = k' then some f else fget k' l := by
    intro k k' l
    induction l with
    | nil => by_cases h : k = k' <;> simp [fset, fget, h]
    | cons hd tl ih =>
      obtain ⟨a, b⟩ := hd
      by_cases h : k = k'
      · subst h; unfold fset; split
        · rename_i e; subst e; simp [fget]
        · rename_i e; simp [fget, e, ih]
      · unfold fset; split
        · rename_i e; subst e; simp [fget, h]
        · simp [fget, ih, h]
  simp only [hreg]
  constructor
  · intro hp
    simp [Reg.callableAt, canonical_key_fast_path, hp, Except.map, fget_fset]
  · intro segs' hp hne'
    simp [Reg.callableAt, canonical_key_fast_path, hp, Except.map, fget_fset, Ne.symm hne']

/-! ### the mount -/

/-- `pointer_for` only strips the (normalised) prefix: the pointer handed to the registry is the path
itself under the empty prefix, `/` for the prefix itself, and otherwise the remainder of the path after
the prefix – which must begin at a `/` boundary. -/
theorem mount_strips_only_prefix (pre path ptr : List Char) (h : pointerFor pre path = some ptr) :
    (pre = [] ∧ path = [] ∧ ptr = ['/']) ∨ (pre = [] ∧ path ≠ [] ∧ ptr = path) ∨
    (pre ≠ [] ∧ path = pre ∧ ptr = ['/']) ∨ (pre ≠ [] ∧ ∃ rest, path = pre ++ '/' :: rest ∧ ptr = '/' :: rest) :=
  pointerFor_sound pre path ptr h

/-- Below the prefix at a `/` boundary the remainder is passed on unchanged; a path that merely
starts with the prefix's characters (`/apix` for `/api`) is not routed to the registry at all. -/
theorem mount_boundary (pre rest : List Char) (hpre : pre ≠ []) :
    pointerFor pre (pre ++ '/' :: rest) = some ('/' :: rest) ∧
    ∀ c, c ≠ '/' → pointerFor pre (pre ++ c :: rest) = none ∧ entryMatches pre (pre ++ c :: rest) = false :=
  ⟨pointerFor_below pre rest hpre, fun c hc => pointerFor_non_boundary pre rest c hpre hc⟩

example : mountPointer [['/', 'a', 'p', 'i']] ['/', 'a', 'p', 'i', '/', 'a', '~', '1', 'b'] = some (some ['/', 'a', '~', '1', 'b']) ∧
    mountPointer [['/', 'a', 'p', 'i']] ['/', 'a', 'p', 'i', 'x'] = none ∧
    mountPointer [['a', 'p', 'i', '/']] ['/', 'a', 'p', 'i'] = some (some ['/']) := by decide

/-! ### the mounted handler: `Registry::decode_body`, `RegisteredRegistry::handle` / `handle_with_ctx` -/

/-- Shapes re-read from the source on every run (an unrecognised form gives `false` and breaks this):
`parse_pointer` and `canonical_key` both refuse a non-empty pointer without leading `/`; the root write
checks that the body is an object BEFORE `ensure_object_root` may replace the root; `decode_body` tests for
the empty body first; `pointer_for` strips the prefix once (`strip_prefix`, `/` boundary); `handle` and
`handle_with_ctx` are `pointer_for`, `decode_body`, one `dispatch`, in that order. -/
theorem source_shape_facts :
    Gen.Registry.parsePointerRequiresSlash = true ∧ Gen.Registry.canonicalKeyRequiresSlash = true ∧
    Gen.Registry.rootWriteChecksBodyFirst = true ∧ Gen.Registry.decodeEmptyBodyFirst = true ∧
    Gen.Registry.pointerForStripsOnce = true ∧ Gen.Registry.handleOrder = true := by decide

/-- The format codes the model's `decodeBody` tests are constants.rs's `BodyFormat` discriminants; every
body error of the registry is answered `InvalidBody` (4). -/
theorem body_format_codes :
    Gen.Registry.bodyFormats = [("RawBinary", fmtRaw), ("Beve", fmtBeve), ("Json", fmtJson), ("Utf8", fmtUtf8)] ∧
    RErr.unsupportedBodyFormat.code Gen.Registry.registryErrorCode Gen.Registry.errorCodes = some 4 ∧
    RErr.invalidUtf8.code Gen.Registry.registryErrorCode Gen.Registry.errorCodes = some 4 ∧
    RErr.json.code Gen.Registry.registryErrorCode Gen.Registry.errorCodes = some 4 ∧
    RErr.beve.code Gen.Registry.registryErrorCode Gen.Registry.errorCodes = some 4 ∧
    RErr.rootWriteRequiresObject.code Gen.Registry.registryErrorCode Gen.Registry.errorCodes = some 4 ∧
    lookupStr "InvalidBody" Gen.Registry.errorCodes = some 4 := by decide

/-- `decode_body`: an empty body is "no body" under EVERY format code (so it is a read); raw bytes become
an array of numbers; text becomes a string; an unknown format with a body is an error. -/
theorem decode_body_cases (d : Decoders) (fmt : Nat) (body : Bytes) :
    (body = [] → decodeBody d fmt body = .ok none) ∧
    (body ≠ [] → fmt = fmtRaw → decodeBody d fmt body = .ok (some (.arr (body.map fun b => .num (toString b.toNat))))) ∧
    (body ≠ [] → fmt = fmtUtf8 → ∀ s, d.utf8 body = some s → decodeBody d fmt body = .ok (some (.str s))) ∧
    (body ≠ [] → fmt ≠ fmtRaw → fmt ≠ fmtBeve → fmt ≠ fmtJson → fmt ≠ fmtUtf8 →
      decodeBody d fmt body = .error .unsupportedBodyFormat) := by
  refine ⟨fun h => by subst h; rfl, ?_, ?_, ?_⟩
  · intro hne hf; subst hf
    have : body.isEmpty = false := by cases body <;> simp_all
    simp [decodeBody, this, fmtRaw, fmtJson, fmtBeve, fmtUtf8]
  · intro hne hf s hs; subst hf
    have : body.isEmpty = false := by cases body <;> simp_all
    simp [decodeBody, this, fmtJson, fmtBeve, fmtUtf8, hs]
  · intro hne h0 h1 h2 h3
    have : body.isEmpty = false := by cases body <;> simp_all
    simp [decodeBody, this, h0, h1, h2, h3]

/-- A request through the mounted handler IS `dispatch` at the stripped pointer with the decoded body –
same new registry, the value or the error's code as the response. -/
theorem mount_handle_is_dispatch (d : Decoders) (code : RErr → Nat) (nf : Nat) (r : Bool) (reg : Reg)
    (pre path ptr : List Char) (fmt : Nat) (body : Bytes) (b : Option J)
    (hp : pointerFor pre path = some ptr) (hb : decodeBody d fmt body = .ok b) :
    reg.handleAt d code nf r pre path fmt body =
      ((reg.dispatch r ptr b).1, regRespond code (reg.dispatch r ptr b).2) := by
  simp [Reg.handleAt, hp, hb]

/-- Through the mount, too, an empty body never mutates (whatever its format code), and neither does a
request that is not below the prefix or whose body does not decode; the latter two are answered
MethodNotFound and the decode error's code (InvalidBody by `body_format_codes`). -/
theorem mount_never_mutates_without_body (d : Decoders) (code : RErr → Nat) (nf : Nat) (r : Bool) (reg : Reg)
    (pre path : List Char) (fmt : Nat) (body : Bytes) :
    (body = [] → (reg.handleAt d code nf r pre path fmt body).1 = reg) ∧
    (pointerFor pre path = none → reg.handleAt d code nf r pre path fmt body = (reg, ⟨nf, none⟩)) ∧
    (∀ ptr e, pointerFor pre path = some ptr → decodeBody d fmt body = .error e →
      reg.handleAt d code nf r pre path fmt body = (reg, ⟨code e, none⟩)) := by
  refine ⟨?_, fun h => by simp [Reg.handleAt, h], fun ptr e hp he => by simp [Reg.handleAt, hp, he]⟩
  intro hb; subst hb
  unfold Reg.handleAt
  cases hp : pointerFor pre path with
  | none => rfl
  | some ptr => simp [decodeBody, Reg.dispatch]

example : decodeBody ⟨fun _ => none, fun _ => none, fun _ => none⟩ 999 [] = .ok none ∧
    decodeBody ⟨fun _ => none, fun _ => none, fun _ => none⟩ 999 [1] = .error .unsupportedBodyFormat ∧
    (pointerFor ['/', 'a'] ['/', 'a', '/', 'b'] = some ['/', 'b']) := ⟨rfl, rfl, by decide⟩

/-! ### composition with C07 (the router) -/

/-- The mount rules of this model are C07's: same prefix normalisation, same match test, same
`pointer_for`; and the prefix list this model mounts IS a C07 router built by `with_registry` calls –
`Router::get` of that router, with the extracted lookup order, selects the mount `routerFind` selects. -/
theorem mount_rules_are_the_router_model (pre path : List Char) (prefixes : List (List Char)) (h : Nat) :
    normalizePrefix pre = Router.normRegistryPrefix pre ∧
    entryMatches pre path = Router.mountMatches pre path ∧
    pointerFor pre path = Router.pointerFor pre path ∧
    ((Router.Router.run Gen.routerFacts {} (prefixes.map fun p => Router.Op.registry p h)).get
        Gen.routerFacts path).map (·.pre) = routerFind prefixes path :=
  ⟨normalizePrefix_eq_router pre, entryMatches_eq_router pre path, pointerFor_eq_router pre path,
   routerFind_eq_router_get prefixes h path⟩

/-- COMPOSITION (uses `C07.get_mount_sound`, `C07.mount_matches_iff`, `C07.pointer_for_strips_only_prefix`):
for ANY router history of C07's model – exact routes, struct mounts, middleware, several registries –
whenever `Router::get path` selects a registry mount, that mount's handler does not answer "not below
prefix": it dispatches the registry at the pointer obtained by removing exactly the mount's prefix, with
the decoded body, and answers with that dispatch's value or error code. -/
theorem routed_request_is_dispatch (rt : Router.Router) (path : List Char) (f : Router.Found)
    (hget : rt.get Gen.routerFacts path = some f) (hc : f.coll = .registries)
    (d : Decoders) (code : RErr → Nat) (nf : Nat) (r : Bool) (reg : Reg) (fmt : Nat) (body : Bytes)
    (b : Option J) (hb : decodeBody d fmt body = .ok b) :
    ∃ ptr, pointerFor f.pre path = some ptr ∧
      reg.handleAt d code nf r f.pre path fmt body =
        ((reg.dispatch r ptr b).1, regRespond code (reg.dispatch r ptr b).2) ∧
      ((f.pre = [] ∧ ptr = if path = [] then ['/'] else path) ∨ (f.pre ≠ [] ∧ path = f.pre ∧ ptr = ['/']) ∨
       (f.pre ≠ [] ∧ path ≠ f.pre ∧ path = f.pre ++ ptr ∧ ∃ rest, ptr = '/' :: rest)) := by
  have hne : f.coll ≠ .exact := by rw [hc]; decide
  have hm := (C07.get_mount_sound rt path f hget hne).2
  have hmm : Router.mountMatches f.pre path = true := (C07.mount_matches_iff f.pre path).mpr hm
  have hsome := (C07.pointer_for_strips_only_prefix f.pre path).1
  rw [hmm] at hsome
  cases hp : Router.pointerFor f.pre path with
  | none => simp [hp] at hsome
  | some ptr =>
    have hp' : pointerFor f.pre path = some ptr := by rw [pointerFor_eq_router]; exact hp
    exact ⟨ptr, hp', mount_handle_is_dispatch d code nf r reg f.pre path ptr fmt body b hp' hb,
      (C07.pointer_for_strips_only_prefix f.pre path).2 ptr hp⟩

example : ((Router.Router.run Gen.routerFacts {}
    [.route ['/', 'x'] 1, .registry ['a', 'p', 'i', '/'] 2, .struct ['/', 's'] 3]).get Gen.routerFacts
      ['/', 'a', 'p', 'i', '/', 'k']).map (fun f => (f.coll, f.pre)) = some (.registries, ['/', 'a', 'p', 'i']) := by
  decide

/-! ### `src/json_pointer.rs` -/

/-- On every well-formed pointer (leading `/`, tokens the strict scanner accepts) the replace-based
`json_pointer::parse` yields exactly the RFC 6901 tokens the registry parser yields. -/
theorem json_pointer_parse_rfc6901 (rest : List Char) (segs : List Tok) (hne : rest ≠ [])
    (h : parsePointer ('/' :: rest) = .ok segs) : jpParse ('/' :: rest) = segs := by
  unfold parsePointer at h
  have : ¬ (('/' :: rest) = [] ∨ ('/' :: rest) = ['/']) := by simp [hne]
  rw [if_neg this] at h
  simp only at h
  cases hm : mapOpt unescapeToken (splitOn '/' rest) with
  | none => simp [hm] at h
  | some s =>
    simp [hm] at h; subst h
    simp only [jpParse, List.cons_ne_nil, if_false]
    exact mapOpt_map_eq unescapeToken jpUnescape _ _
      (fun x y hxy => jpUnescape_of_unescScan x y (by rw [← unescapeToken_eq_scan]; exact hxy)) hm

/-- `json_pointer::evaluate` walks the tree as the registry does (`None` where the registry errs). -/
theorem json_pointer_evaluate (v : J) (segs : List Tok) :
    jpWalk v segs = (resolveRef v segs).toOption := by
  induction segs generalizing v with
  | nil => simp [jpWalk, resolveRef_nil, Except.toOption]
  | cons t ts ih =>
    cases v with
    | obj o =>
      rw [jpWalk, resolveRef_obj]
      cases oget t o with
      | none => rfl
      | some c => exact ih c
    | arr a =>
      rw [jpWalk, resolveRef_arr]
      cases hi : parseUsize t with
      | none => simp [Except.toOption]
      | some i =>
        simp only
        cases hc : a[i]? with
        | none => simp [Except.toOption]
        | some c => simp only; exact ih c
    | null => simp [jpWalk, resolveRef, Except.toOption]
    | bool b => simp [jpWalk, resolveRef, Except.toOption]
    | num s => simp [jpWalk, resolveRef, Except.toOption]
    | str s => simp [jpWalk, resolveRef, Except.toOption]

/-! ### concurrency -/

/-- Facts re-extracted from the source: every public method except the body-bearing dispatch takes
the lock exactly once, as its first statement, and holds it to the end (one critical section = one
atomic step of the model); the read-only dispatch is one read-lock block; the body-bearing dispatch
reads the function map in its own read-lock block and only then takes the write lock – once, held over the
whole mutation (`writeSectionSingle`); no callable is invoked while a guard is alive (`callOutsideLock`: a
callable may call back into the registry); a poisoned lock is recovered (`poisonRecovered`: the Drop of a
replaced callable runs under the write lock and may panic); there is no timer, timeout, sleep or non-blocking lock
attempt in registry.rs (`noTimers`: every lock acquisition blocks until granted, nothing is retried or given up);
`serde_json::Map` is sorted (no `preserve_order`). -/
theorem lock_region_facts :
    Gen.Registry.singleSection.all (·.2) = true ∧
    Gen.Registry.singleSection.map (·.1) =
      ["set_root", "register_value", "merge_root", "merge_at", "register_function_arc", "read_value"] ∧
    Gen.Registry.readDispatchSingleSection = true ∧ Gen.Registry.lookupThenWriteLock = true ∧
    Gen.Registry.writeSectionSingle = true ∧ Gen.Registry.callOutsideLock = true ∧
    Gen.Registry.poisonRecovered = true ∧ Gen.Registry.noTimers = true ∧
    Gen.Registry.mapSorted = true := by decide

/-- Every API call that is one critical section is linearizable by construction: any schedule made
of such calls only (any number of threads, any interleaving) IS a sequential execution – same
results, same final registry. -/
theorem atomic_ops_linearizable (r : Bool) (c : Conf) (evs : List Ev) (o : StepOut)
    (hat : ∀ e ∈ evs, ∃ t op, e = .atomic t op) (h : runConc r c evs = some o) :
    runSeq r c.reg o.lin = (o.conf.reg, o.results) ∧ o.lin.length = evs.length := by
  have hclean : ∀ (c : Conf) (evs : List Ev), (∀ e ∈ evs, ∃ t op, e = .atomic t op) →
      allCommitsClean r c evs = true := by
    intro c evs
    induction evs generalizing c with
    | nil => intro _; rfl
    | cons e es ih =>
      intro hat
      obtain ⟨t, op, he⟩ := hat e (by simp)
      subst he
      simp only [allCommitsClean, commitClean, Bool.true_and]
      split
      · rfl
      · exact ih _ (fun e he => hat e (by simp [he]))
  refine ⟨runConc_sim r c evs o h (.inr (hclean c evs hat)), ?_⟩
  clear hclean
  induction evs generalizing c o with
  | nil => simp [runConc] at h; subst h; rfl
  | cons e es ih =>
    obtain ⟨t, op, he⟩ := hat e (by simp)
    subst he
    simp only [runConc] at h
    cases hs : stepConc r c (.atomic t op) with
    | none => simp [hs] at h
    | some o1 =>
      simp only [hs] at h
      cases hr : runConc r o1.conf es with
      | none => simp [hr] at h
      | some o2 =>
        simp [hr] at h; subst h
        have h1 : o1.lin.length = 1 := by
          simp only [stepConc] at hs
          split at hs
          · cases hs
          · simp at hs; subst hs; rfl
        simp [h1, ih o1.conf o2 (fun e he => hat e (by simp [he])) hr]; omega

/-- The body-bearing dispatch is two critical sections.  PROVED FOR THE MODEL INSTANTIATED WITH THE
EXTRACTED FACT, whatever its value: every schedule of lock-region steps (any threads, any
interleaving, atomic calls and two-section dispatches mixed) in which no commit section finds a
callable registered at its key – i.e. no `register_function` of that same key ran between the two
sections of a body-bearing dispatch – equals the sequential execution of its linearisation: same
results (in completion order), same final registry; each call linearises at one of its own steps.

FULL STATEMENT (`dispatch_linearizable` below): the same without the side condition.  It is false for
the two-section dispatch without re-check (`f8_witness`). -/
theorem dispatch_write_linearizable_partial (c : Conf) (evs : List Ev) (o : StepOut)
    (h : runConc rc c evs = some o) (hclean : allCommitsClean rc c evs = true) :
    runSeq rc c.reg o.lin = (o.conf.reg, o.results) :=
  runConc_sim rc c evs o h (.inr hclean)

/-- FULL STATEMENT: when the write-lock section re-checks the function map (the extracted fact is
`true` – the source after `fixes/F8-registry-recheck.diff`), EVERY schedule of lock-region steps
equals the sequential execution of its linearisation. -/
theorem dispatch_linearizable (hfact : Gen.Registry.recheckUnderWriteLock = true)
    (c : Conf) (evs : List Ev) (o : StepOut) (h : runConc rc c evs = some o) :
    runSeq rc c.reg o.lin = (o.conf.reg, o.results) :=
  runConc_sim rc c evs o h (.inl hfact)

/-- What the current source supports: the full statement if the fact is `true`, else the partial one. -/
theorem linearizable_current (c : Conf) (evs : List Ev) (o : StepOut) (h : runConc rc c evs = some o) :
    (if Gen.Registry.recheckUnderWriteLock then True else allCommitsClean rc c evs = true) →
    runSeq rc c.reg o.lin = (o.conf.reg, o.results) := by
  intro hc
  by_cases hf : Gen.Registry.recheckUnderWriteLock = true
  · exact dispatch_linearizable hf c evs o h
  · have key : ∀ (b : Bool) (P : Prop), ¬ b = true → (if b then True else P) → P := by
      intro b P hb hp; cases b
      · exact hp
      · exact absurd rfl hb
    exact dispatch_write_linearizable_partial c evs o h (key _ _ hf hc)

/-- The linearisation respects real time: every call is placed at the step of its own thread that
delivers its result, so calls appear in completion order. -/
theorem linearization_points (r : Bool) (c : Conf) (e : Ev) (o : StepOut) (h : stepConc r c e = some o) :
    o.lin.map (·.1) = o.results.map (·.1) ∧ ∀ x ∈ o.lin, x.1 = evThread e :=
  stepConc_lin_own r c e o h

/-! #### F8: the schedule the side condition excludes -/

def f8Root : J := .obj [(['a'], .num "5")]
def f8Schedule : List Ev :=
  [.lookup 0 ['/', 'a', '/', 'b'] (.num "1"), .atomic 1 (.regFunc ['/', 'a', '/', 'b'] ⟨7, none⟩), .commit 0]

/-- Without the re-check, thread 0's `dispatch("/a/b", 1)` racing thread 1's
`register_function("/a/b")` on `{"a":5}` answers `{"status":"ok"}` with nothing logged – while in
the order dispatch;register the write fails (`a` is not an object) and in the order
register;dispatch the callable is invoked.  With the re-check the racing schedule calls. -/
theorem f8_witness :
    (∃ o, runConc false ⟨{ root := f8Root }, []⟩ f8Schedule = some o ∧
      o.results.map (fun x => (x.1, x.2.isOk)) = [(1, true), (0, true)] ∧ o.conf.reg.log.length = 0) ∧
    ((runSeq false { root := f8Root } [(0, .disp ['/', 'a', '/', 'b'] (some (.num "1"))), (1, .regFunc ['/', 'a', '/', 'b'] ⟨7, none⟩)]).2.map
        (fun x => (x.1, x.2.isOk)) = [(0, false), (1, true)]) ∧
    ((runSeq false { root := f8Root } [(1, .regFunc ['/', 'a', '/', 'b'] ⟨7, none⟩), (0, .disp ['/', 'a', '/', 'b'] (some (.num "1")))]).1.log.length = 1) ∧
    (∃ o, runConc true ⟨{ root := f8Root }, []⟩ f8Schedule = some o ∧ o.conf.reg.log.length = 1) := by
  refine ⟨⟨_, rfl, by decide, by decide⟩, by decide, by decide, ⟨_, rfl, by decide⟩⟩

/-- non-vacuity of the partial theorem: a schedule with a two-section write and interleaved atomic
calls whose commit is clean -/
example : allCommitsClean false ⟨{ root := .obj [(['a'], .obj [])] }, []⟩
    [.lookup 0 ['/', 'a', '/', 'b'] (.num "1"), .atomic 1 (.disp ['/', 'a'] none), .commit 0] = true ∧
    (runConc false ⟨{ root := .obj [(['a'], .obj [])] }, []⟩
      [.lookup 0 ['/', 'a', '/', 'b'] (.num "1"), .atomic 1 (.disp ['/', 'a'] none), .commit 0]).isSome = true := by
  decide

end Repe.C14
