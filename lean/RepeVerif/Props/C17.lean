import RepeVerif.Lemmas.Limits
import RepeVerif.Gen.Limits
import RepeVerif.Props.C03
/-!
# C17 — No outbound WebSocket message exceeds the assumed peer limit

> With an assumed peer frame limit configured (at least large enough to carry an error reply) no
> binary message larger than the limit is ever sent by a server, proxy or client: an oversized
> response is replaced by an internal-error response bearing the same request id, an oversized
> notification is dropped and reported, an oversized client request fails locally with a too-large
> error, and in every case the connection stays usable. Messages at or below the limit are delivered
> unchanged.

clause → theorem
* the facts read off the current source are the ones the property needs ... `C17.source_facts`
* the guard measures exactly the bytes that are framed .................... `C17.len_closed_form`
* no binary message larger than the limit (one message) ................... `C17.never_exceeds`, `C17.never_exceeds_fits`
* … on every server path, for every queue of outbound messages ............ `C17.writer_never_exceeds`
* … proxy ................................................................. `C17.proxy_never_exceeds`
* … client (request and notify) ........................................... `C17.client_never_exceeds`
* oversized response → internal error, same id, not a notify .............. `C17.oversize_response_replaced`
* oversized notification dropped and reported ............................. `C17.oversize_notify_dropped_and_reported`, `C17.every_refusal_reported`
* oversized client request fails locally, connection state unchanged ...... `C17.client_refuses_locally`
* at or below the limit: delivered unchanged .............................. `C17.at_or_below_unchanged`, `C17.no_limit_unchanged`, `C17.writer_under_limit_identity`, `C17.client_at_or_below_sent`
* the connection stays usable ............................................. `C17.writer_continues` (the writer loop handles
  every later message exactly as if the refused one had not been queued); exercised end to end by the
  correspondence family (a further request is answered after every case)

`text size limit` (the replacement's message text) is a parameter: the property's premise "limit at
least large enough to carry an error reply" is the hypothesis `48 + (text size L).length ≤ L`.
All theorems are for every message (any header field values, query, body), every limit, every buffer
capacity, every queue.
-/
namespace Repe.C17

/-- The guard's comparison, the measured length expressions, the reporting / drop / id-carrying
statements of `frame_outbound`, the replacement's error code, "nothing is sent that did not come out of
`frame_outbound`" and the client's check-before-send order — as re-extracted from `/repo` on this
run — are what the property needs. -/
theorem source_facts : Gen.limitFacts = specLimitFacts := by decide

variable (limit : Option Nat) (text : Nat → Nat → Bytes) (m : Message) (cap rcap : Nat)

/-- The length `frame_outbound` checks is the length of the frame it would send. -/
theorem len_closed_form :
    frameLen Gen.limitFacts.lenTerms m = 48 + m.query.length + m.body.length ∧
    frameLen Gen.limitFacts.lenTerms m = (m.intoWireBytes cap).length ∧
    frameLen Gen.limitFacts.clientLenTerms m = m.toVec.length := by
  rw [source_facts]
  simp [specLimitFacts, frameLen, intoWireBytes_eq_toVec, toVec_length]

/-- Whatever `frame_outbound` hands to the socket is either the original frame, and then within the
limit, or the replacement response (whose size is `48 + |text|`). -/
theorem never_exceeds (L : Nat) (bs : Bytes)
    (h : (frameOutbound Gen.limitFacts (some L) text m cap rcap).wire = some bs) :
    (bs = m.toVec ∧ bs.length ≤ L) ∨
    (bs = (replacementMsg Gen.limitFacts m.header.id (text m.toVec.length L)).toVec ∧
      bs.length = 48 + (text m.toVec.length L).length ∧ L < m.toVec.length) := by
  rw [source_facts] at h ⊢
  unfold frameOutbound at h
  rw [decide_spec] at h
  simp only at h
  by_cases hle : 48 + m.query.length + m.body.length ≤ L
  · rw [if_pos hle] at h
    simp only [Option.some.injEq] at h
    left
    rw [← h, intoWireBytes_eq_toVec]
    exact ⟨rfl, by rw [toVec_length]; exact hle⟩
  · rw [if_neg hle] at h
    by_cases hn : m.header.notify = 0
    · simp only [hn, ne_eq, not_true_eq_false, if_false, Option.some.injEq] at h
      right
      rw [← h, intoWireBytes_eq_toVec, toVec_length m]
      exact ⟨rfl, replacementMsg_toVec_length _ _, by omega⟩
    · simp [hn] at h

/-- Under the property's premise (the limit can carry the error reply) nothing larger than the limit
leaves `frame_outbound`. -/
theorem never_exceeds_fits (L : Nat) (bs : Bytes)
    (hfit : 48 + (text m.toVec.length L).length ≤ L)
    (h : (frameOutbound Gen.limitFacts (some L) text m cap rcap).wire = some bs) :
    bs.length ≤ L := by
  rcases never_exceeds text m cap rcap L bs h with ⟨_, h2⟩ | ⟨_, h2, _⟩
  · exact h2
  · omega

example : (frameOutbound Gen.limitFacts (some 60) (fun _ _ => [1, 2, 3])
    ⟨{ Header.zero with id := 7 }, [47, 97], List.replicate 50 0⟩ 0 0).wire =
    some ((replacementMsg specLimitFacts 7 [1, 2, 3]).toVec) := by decide

/-- At or below the limit the frame is delivered unchanged (and nothing is reported). -/
theorem at_or_below_unchanged (L : Nat) (hle : 48 + m.query.length + m.body.length ≤ L) :
    frameOutbound Gen.limitFacts (some L) text m cap rcap = ⟨some m.toVec, []⟩ := by
  rw [source_facts]
  unfold frameOutbound
  rw [decide_spec]
  simp [hle, intoWireBytes_eq_toVec]

/-- With no assumed limit every frame is delivered unchanged. -/
theorem no_limit_unchanged :
    frameOutbound Gen.limitFacts none text m cap rcap = ⟨some m.toVec, []⟩ := by
  rw [source_facts]
  unfold frameOutbound
  rw [decide_spec]
  simp [intoWireBytes_eq_toVec]

/-- An oversized response (notify byte 0) is replaced by a response whose header — as the peer parses
it from the bytes on the wire — carries the same id, the internal-error code as defined by the
current `ErrorCode` enum, and a clear notify flag; the refusal is reported with the measured size. -/
theorem oversize_response_replaced (L : Nat) (hn : m.header.notify = 0)
    (hgt : L < 48 + m.query.length + m.body.length)
    (hid : m.header.id < 2^64) (hl : 48 + (text m.toVec.length L).length < 2^64) :
    ∃ (bs : Bytes) (r : Message), frameOutbound Gen.limitFacts (some L) text m cap rcap =
        ⟨some bs, [⟨m.query, 48 + m.query.length + m.body.length, L⟩]⟩ ∧
      bs = r.toVec ∧ r.WF ∧ Header.parse bs = r.header ∧
      r.header.id = m.header.id ∧ r.header.ec = Gen.codes.internalError ∧ r.header.ec = 9 ∧
      r.header.notify = 0 ∧ r.query = [] ∧ r.body = text m.toVec.length L := by
  refine ⟨_, replacementMsg specLimitFacts m.header.id (text m.toVec.length L), ?_, rfl, ?_, ?_, ?_⟩
  · rw [source_facts]
    unfold frameOutbound
    rw [decide_spec]
    have : ¬ 48 + m.query.length + m.body.length ≤ L := by omega
    simp [this, hn, intoWireBytes_eq_toVec, specLimitFacts, toVec_length]
  · exact replacementMsg_wf _ _ hid hl
  · have wf := replacementMsg_wf m.header.id (text m.toVec.length L) hid hl
    unfold Message.toVec
    rw [List.append_assoc]
    exact parse_encode_append _ wf.inRange _
  · rw [replacementMsg_spec]
    have hc : specCodes.internalError = Gen.codes.internalError := by decide
    refine ⟨rfl, hc, rfl, rfl, rfl, rfl⟩

example : (2 : Nat) < 48 + ([1] : Bytes).length + ([] : Bytes).length := by decide

/-- An oversized notification (notify byte ≠ 0) is not sent and is reported once, with its method
(query bytes), the measured size and the limit. -/
theorem oversize_notify_dropped_and_reported (L : Nat) (hn : m.header.notify ≠ 0)
    (hgt : L < 48 + m.query.length + m.body.length) :
    frameOutbound Gen.limitFacts (some L) text m cap rcap =
      ⟨none, [⟨m.query, 48 + m.query.length + m.body.length, L⟩]⟩ := by
  rw [source_facts]
  unfold frameOutbound
  rw [decide_spec]
  have : ¬ 48 + m.query.length + m.body.length ≤ L := by omega
  simp [this, hn, specLimitFacts]

/-- Every refusal, of a response or of a notification, is reported exactly once; a delivery never is. -/
theorem every_refusal_reported (L : Nat) :
    (frameOutbound Gen.limitFacts (some L) text m cap rcap).reports =
      if L < m.toVec.length then [⟨m.query, m.toVec.length, L⟩] else [] := by
  rw [toVec_length]
  by_cases hle : 48 + m.query.length + m.body.length ≤ L
  · rw [at_or_below_unchanged text m cap rcap L hle, if_neg (by omega)]
  · rw [if_pos (by omega)]
    by_cases hn : m.header.notify = 0
    · rw [source_facts]; unfold frameOutbound; rw [decide_spec]; simp [hle, hn, specLimitFacts]
    · rw [oversize_notify_dropped_and_reported text m cap rcap L hn (by omega)]

/-- The messages built by `WsPeerSink::send_notify` (handler pushes through `ctx.peer()` and registry
broadcasts) have a set notify byte, so an oversized one is dropped, never replaced. -/
theorem pushed_notify_oversize_dropped (L : Nat) (method body : Bytes) (bfmt : Nat)
    (hgt : L < 48 + method.length + body.length) :
    (frameOutbound Gen.limitFacts (some L) text (notifyMessage method bfmt body) cap rcap).wire = none := by
  rw [oversize_notify_dropped_and_reported text _ cap rcap L (by simp [notifyMessage, Builder.build])
    (by simpa [notifyMessage, Builder.build] using hgt)]

/-! ### every server path: the writer task -/

/-- **Every** queue of outbound messages — inline responses, off-reader responses, saturation and
panic replies, handler-pushed notifies, registry broadcasts, in any interleaving — is turned by the
writer task into binary messages none of which exceeds the limit (premise: the limit can carry the
error reply for each refused response). -/
theorem writer_never_exceeds (L : Nat) (qs : List Queued)
    (hfit : ∀ q ∈ qs, 48 + (text q.msg.toVec.length L).length ≤ L) :
    ∀ bs ∈ (writerRun Gen.limitFacts (some L) text qs).1, bs.length ≤ L := by
  intro bs hbs
  rw [writerRun_wire _ (by rw [source_facts]; rfl)] at hbs
  obtain ⟨q, hq, hw⟩ := List.mem_filterMap.mp hbs
  exact never_exceeds_fits text q.msg q.cap q.rcap L bs (hfit q hq) hw

/-- If every queued message is at or below the limit (or there is no limit) the writer sends exactly
the queued frames, in order, byte for byte, and reports nothing. -/
theorem writer_under_limit_identity (qs : List Queued)
    (hle : ∀ L, limit = some L → ∀ q ∈ qs, q.msg.toVec.length ≤ L) :
    writerRun Gen.limitFacts limit text qs = (qs.map (·.msg.toVec), []) := by
  induction qs with
  | nil => rfl
  | cons q rest ih =>
    have ih' := ih (fun L hL q' hq' => hle L hL q' (List.mem_cons_of_mem _ hq'))
    have hq : frameOutbound Gen.limitFacts limit text q.msg q.cap q.rcap = ⟨some q.msg.toVec, []⟩ := by
      cases limit with
      | none => exact no_limit_unchanged text q.msg q.cap q.rcap
      | some L =>
        have := hle L rfl q (List.mem_cons_self ..)
        rw [toVec_length] at this
        exact at_or_below_unchanged text q.msg q.cap q.rcap L this
    have hg : Gen.limitFacts.writerGuarded = true := by rw [source_facts]; rfl
    simp only [writerRun, hg, if_true, ih', hq, List.map_cons, List.nil_append]

/-- The connection stays usable: a refused message changes nothing for the messages queued after it —
the writer's output for `q :: rest` is its output for `rest` with at most the one replacement frame in
front (no frame at all for a dropped notify). -/
theorem writer_continues (q : Queued) (rest : List Queued) :
    (writerRun Gen.limitFacts limit text (q :: rest)).1 =
      (frameOutbound Gen.limitFacts limit text q.msg q.cap q.rcap).wire.toList ++
        (writerRun Gen.limitFacts limit text rest).1 := by
  have hg : Gen.limitFacts.writerGuarded = true := by rw [source_facts]; rfl
  simp only [writerRun, hg, if_true]
  cases (frameOutbound Gen.limitFacts limit text q.msg q.cap q.rcap).wire <;> rfl

/-- Proxy: a forwarded upstream response obeys the same bound. -/
theorem proxy_never_exceeds (L : Nat) (bs : Bytes)
    (hfit : 48 + (text m.toVec.length L).length ≤ L)
    (h : proxyForward Gen.limitFacts (some L) text m cap rcap = some bs) : bs.length ≤ L := by
  have hg : Gen.limitFacts.writerGuarded = true := by rw [source_facts]; rfl
  simp only [proxyForward, hg, if_true] at h
  exact never_exceeds_fits text m cap rcap L bs hfit h

/-! ### client -/

/-- An oversized client request fails locally with `MessageTooLarge { size, limit }`; nothing is handed
to the socket and the set of pending requests is what it was (the connection is as before). -/
theorem client_refuses_locally (L : Nat) (st : ClientSt) (hgt : L < m.toVec.length) :
    clientCall Gen.limitFacts (some L) st m = (st, .tooLarge m.toVec.length L) ∧
    clientNotify Gen.limitFacts (some L) st m = (st, .tooLarge m.toVec.length L) := by
  rw [source_facts]
  have hh : Cmp.holds .gt (48 + m.query.length + m.body.length) L = true := by
    rw [toVec_length] at hgt; simp [Cmp.holds]; omega
  constructor
  · simp [clientCall, clientWrite, checkOutbound, specLimitFacts, frameLen, hh, toVec_length]
  · simp [clientNotify, clientWrite, checkOutbound, specLimitFacts, frameLen, hh, toVec_length]

/-- At or below the limit (or without one) the client sends exactly the frame. -/
theorem client_at_or_below_sent (st : ClientSt) (hle : ∀ L, limit = some L → m.toVec.length ≤ L) :
    clientCall Gen.limitFacts limit st m =
      ({ pending := m.header.id :: st.pending, wire := st.wire ++ [m.toVec] }, .ok) ∧
    clientNotify Gen.limitFacts limit st m = ({ st with wire := st.wire ++ [m.toVec] }, .ok) := by
  rw [source_facts]
  have hc : checkOutbound .gt limit (48 + m.query.length + m.body.length) = none := by
    cases limit with
    | none => rfl
    | some L =>
      have := hle L rfl
      rw [toVec_length] at this
      have h' : ¬ (48 + m.query.length + m.body.length > L) := by omega
      simp [checkOutbound, Cmp.holds, h']
  constructor
  · simp [clientCall, clientWrite, specLimitFacts, frameLen, hc]
  · simp [clientNotify, clientWrite, specLimitFacts, frameLen, hc]

/-- For every sequence of client calls and notifies, every binary message handed to the socket is
within the limit. -/
theorem client_never_exceeds (L : Nat) (ops : List (Bool × Message)) (st : ClientSt)
    (h0 : ∀ bs ∈ st.wire, bs.length ≤ L) :
    ∀ bs ∈ (ops.foldl (fun s (o : Bool × Message) =>
        (if o.1 then clientNotify Gen.limitFacts (some L) s o.2
         else clientCall Gen.limitFacts (some L) s o.2).1) st).wire, bs.length ≤ L := by
  induction ops generalizing st with
  | nil => simpa using h0
  | cons o rest ih =>
    simp only [List.foldl_cons]
    apply ih
    by_cases hgt : L < o.2.toVec.length
    · have := client_refuses_locally o.2 L st hgt
      cases o.1 <;> simp [this.1, this.2] <;> exact h0
    · have := client_at_or_below_sent (some L) o.2 st (fun L' hL => by cases hL; omega)
      cases o.1 <;> simp [this.1, this.2] <;> intro bs hbs <;> rcases hbs with hbs | hbs
      · exact h0 bs hbs
      · subst hbs; omega
      · exact h0 bs hbs
      · subst hbs; omega

example : ∃ (st : ClientSt) (m : Message), (5 : Nat) < m.toVec.length ∧ st.pending = [3] :=
  ⟨⟨[3], []⟩, ⟨Header.zero, [], []⟩, by decide, rfl⟩

/-! ### composition with C03 (dispatch): the guard preserves "exactly one response per request" -/

/-- Any well-formed response with a clear notify byte comes out of `frame_outbound` as exactly one
frame that the peer parses to the **same id** — the original frame or its replacement. -/
theorem guard_keeps_id (hn : m.header.notify = 0) (wf : m.WF)
    (hl : ∀ L, limit = some L → 48 + (text m.toVec.length L).length < 2^64) :
    ∃ bs, (frameOutbound Gen.limitFacts limit text m cap rcap).wire = some bs ∧ wireId bs = m.header.id := by
  cases limit with
  | none =>
    refine ⟨m.toVec, by rw [no_limit_unchanged], ?_⟩
    unfold wireId Message.toVec; rw [List.append_assoc]; rw [parse_encode_append _ wf.inRange]
  | some L =>
    by_cases hle : 48 + m.query.length + m.body.length ≤ L
    · refine ⟨m.toVec, by rw [at_or_below_unchanged text m cap rcap L hle], ?_⟩
      unfold wireId Message.toVec; rw [List.append_assoc]; rw [parse_encode_append _ wf.inRange]
    · obtain ⟨bs, r, hfr, _, _, hp, hid, _⟩ :=
        oversize_response_replaced text m cap rcap L hn (by omega) wf.inRange.id (hl L rfl)
      exact ⟨bs, by rw [hfr], by unfold wireId; rw [hp, hid]⟩

/-- **C03 ∘ C17, one request.** Take C03's `respond` on a WebSocket transport (inline or off-reader):
a notify request puts nothing on the wire; a non-notify request whose response is well-formed with a
clear notify byte (true of every response C03's helpers build, see `C03.response_id`; for a handler's
own message it is the handler contract) puts **exactly one** frame on the wire, and that frame carries
the id of C03's response — whether or not the guard had to replace it. -/
theorem guard_preserves_one_response (t : Transport) (req : Req) (utf8 found : Bool) (hview howned : HOut)
    (rejMsg : Bytes)
    (hok : ∀ r, (respond Gen.codes t req utf8 found hview howned rejMsg).1 = some r →
      r.header.notify = 0 ∧ r.WF ∧ ∀ L, limit = some L → 48 + (text r.toVec.length L).length < 2^64) :
    (req.isNotify = true → (respond Gen.codes t req utf8 found hview howned rejMsg).1 = none) ∧
    (req.isNotify = false → ∃ r bs, (respond Gen.codes t req utf8 found hview howned rejMsg).1 = some r ∧
      (frameOutbound Gen.limitFacts limit text r cap rcap).wire = some bs ∧ wireId bs = r.header.id) := by
  refine ⟨C03.no_response_for_notify t req utf8 found hview howned rejMsg, ?_⟩
  intro hn
  obtain ⟨r, hr⟩ := C03.one_response t req utf8 found hview howned rejMsg hn
  obtain ⟨h1, h2, h3⟩ := hok r hr
  obtain ⟨bs, hb, hid⟩ := guard_keeps_id limit text r cap rcap h1 h2 h3
  exact ⟨r, bs, hr, hb, hid⟩

/-- For an error response built by the dispatch layer (rejection or handler error) the id on the wire
is the **request's** id (uses `C03.response_id`). -/
theorem guarded_error_response_has_request_id (t : Transport) (req : Req) (utf8 found : Bool)
    (code : Nat) (msg rejMsg : Bytes) (hn : req.isNotify = false) (r : Message)
    (hr : (respond Gen.codes t req utf8 found (.err code msg) (.err code msg) rejMsg).1 = some r)
    (hnot : r.header.notify = 0) (wf : r.WF)
    (hl : ∀ L, limit = some L → 48 + (text r.toVec.length L).length < 2^64) :
    ∃ bs, (frameOutbound Gen.limitFacts limit text r cap rcap).wire = some bs ∧ wireId bs = req.header.id := by
  obtain ⟨bs, hb, hid⟩ := guard_keeps_id limit text r cap rcap hnot wf hl
  exact ⟨bs, hb, by rw [hid, C03.response_id t req utf8 found rejMsg hn code msg r hr]⟩

/-- **C03 ∘ C17, a whole connection.** Feed the responses C03's connection loop produces for any
sequence of requests (`serveSeq`, = `filterMap respond` by `C03.inline_order`) to the writer task: if every
response has a clear notify byte and is well-formed, the writer emits exactly one frame per response, in
the same order, the k-th frame carrying the k-th response's id. -/
theorem connection_one_frame_per_response (t : Transport) (steps : List Step)
    (hall : ∀ r ∈ (serveSeq Gen.codes t steps [] 0).1, r.header.notify = 0 ∧ r.WF ∧
      ∀ L, limit = some L → 48 + (text r.toVec.length L).length < 2^64) :
    let resps := steps.filterMap (fun s => (respond Gen.codes t s.req s.utf8 s.found s.hview s.howned).1)
    (serveSeq Gen.codes t steps [] 0).1 = resps ∧
    ((writerRun Gen.limitFacts limit text (resps.map (fun r => ⟨r, 0, 0⟩))).1.map wireId) =
      resps.map (·.header.id) := by
  have hio := C03.inline_order t steps
  simp only
  refine ⟨by rw [hio], ?_⟩
  rw [hio] at hall
  simp only at hall
  generalize steps.filterMap (fun s => (respond Gen.codes t s.req s.utf8 s.found s.hview s.howned).1) = resps at hall
  induction resps with
  | nil => rfl
  | cons r rest ih =>
    obtain ⟨h1, h2, h3⟩ := hall r (List.mem_cons_self ..)
    obtain ⟨bs, hb, hid⟩ := guard_keeps_id limit text r 0 0 h1 h2 h3
    rw [List.map_cons, writer_continues, hb]
    simp only [Option.toList, List.cons_append, List.nil_append, List.map_cons, hid]
    rw [ih (fun x hx => hall x (List.mem_cons_of_mem _ hx))]

example : (Builder.mk 7 false 0 1 2 [47, 97] [49]).build.WF ∧ (Builder.mk 7 false 0 1 2 [47, 97] [49]).build.header.notify = 0 :=
  ⟨Builder.build_wf _ (by decide) (by decide) (by decide) (by decide) (by decide), rfl⟩

/-! ### where the limit comes from: `WebSocketLimits`, constructors, defaults -/

/-- The construction and plumbing facts read off the source: `Default` = the two default constants with the
assumed limit equal to the default *frame* size, `unlimited()` clears everything, each setter sets its
own field, the guard reads `assumed_peer_frame_limit`, the transport gets only the two incoming fields,
and server / proxy / client hand the configured value (or `default()`) to their guard. -/
theorem config_facts :
    let c := Gen.configFacts
    c.defaultIsDefaults = true ∧ c.unlimitedIsNone = true ∧ c.settersSetOwnField = true ∧
    c.guardReadsAssumed = true ∧ c.transportGetsIncomingOnly = true ∧ c.serverThreadsLimits = true ∧
    c.proxyThreadsLimits = true ∧ c.clientThreadsLimits = true := by decide

/-- An endpoint constructed without limits (`WebSocketServer::new`, `proxy_connection`,
`WebSocketClient::connect`) guards at `DEFAULT_MAX_FRAME_SIZE` (whatever its value; 16 MiB today). -/
theorem endpoints_without_limits_guard_at_default (ep : Endpoint) :
    effectiveLimit Gen.configFacts ep none = some Gen.configFacts.defaultFrame := by
  obtain ⟨h1, _, _, h4, _, h6, h7, h8⟩ := config_facts
  cases ep <;> simp [effectiveLimit, LimitsExpr.eval, defaultLimits, h1, h4, h6, h7, h8]

/-- With explicit limits the guard works with exactly the configured assumption: the last
`with_assumed_peer_frame_limit(b)` wins, a literal's own field otherwise, `unlimited()` switches the
guard off, and the incoming-side fields never influence it. -/
theorem explicit_limits_are_used (ep : Endpoint) (e : LimitsExpr) (b : Option Nat) (l : WsLimits) :
    effectiveLimit Gen.configFacts ep (some (.assumed e b)) = b ∧
    effectiveLimit Gen.configFacts ep (some (.lit l)) = l.assumedPeer ∧
    effectiveLimit Gen.configFacts ep (some .unlimited) = none ∧
    effectiveLimit Gen.configFacts ep (some (.lit { l with maxIncomingFrame := b, maxIncomingMessage := b })) =
      l.assumedPeer := by
  obtain ⟨_, h2, h3, h4, _, h6, h7, h8⟩ := config_facts
  cases ep <;> simp [effectiveLimit, LimitsExpr.eval, withAssumed, unlimitedLimits, h2, h3, h4, h6, h7, h8]

/-- The assumed peer limit is repe's own: it never reaches the transport's configuration, and setting
it leaves the transport's read-side thresholds alone. -/
theorem assumed_limit_not_in_transport_config (l : WsLimits) (b : Option Nat) :
    transportConfig Gen.configFacts l = (l.maxIncomingFrame, l.maxIncomingMessage) ∧
    transportConfig Gen.configFacts (withAssumed Gen.configFacts l b) = transportConfig Gen.configFacts l := by
  obtain ⟨_, _, h3, _, h5, _⟩ := config_facts
  simp [transportConfig, withAssumed, h3, h5]

/-- **End to end, server / proxy / client, any configuration expression.** Whatever limits expression the
endpoint was built with (or none), every binary message it sends is within the assumption that
expression evaluates to (premise: that limit can carry the error reply). -/
theorem configured_endpoint_never_exceeds (given : Option LimitsExpr) (L : Nat) (qs : List Queued)
    (ops : List (Bool × Message))
    (hs : effectiveLimit Gen.configFacts .server given = some L)
    (hfit : ∀ q ∈ qs, 48 + (text q.msg.toVec.length L).length ≤ L)
    (hfitm : 48 + (text m.toVec.length L).length ≤ L) :
    (∀ bs ∈ (writerRun Gen.limitFacts (effectiveLimit Gen.configFacts .server given) text qs).1, bs.length ≤ L) ∧
    (∀ bs, proxyForward Gen.limitFacts (effectiveLimit Gen.configFacts .proxy given) text m cap rcap = some bs →
      bs.length ≤ L) ∧
    (∀ bs ∈ (ops.foldl (fun s (o : Bool × Message) =>
        (if o.1 then clientNotify Gen.limitFacts (effectiveLimit Gen.configFacts .client given) s o.2
         else clientCall Gen.limitFacts (effectiveLimit Gen.configFacts .client given) s o.2).1) ⟨[], []⟩).wire,
      bs.length ≤ L) := by
  have hsame : ∀ ep, effectiveLimit Gen.configFacts ep given = some L := by
    obtain ⟨_, _, _, h4, _, h6, h7, h8⟩ := config_facts
    intro ep
    have : effectiveLimit Gen.configFacts ep given = effectiveLimit Gen.configFacts .server given := by
      cases ep <;> simp [effectiveLimit, h4, h6, h7, h8]
    rw [this, hs]
  refine ⟨?_, ?_, ?_⟩
  · rw [hs]; exact writer_never_exceeds text L qs hfit
  · intro bs hb; rw [hsame .proxy] at hb; exact proxy_never_exceeds text m cap rcap L bs hfitm hb
  · rw [hsame .client]; exact client_never_exceeds L ops ⟨[], []⟩ (by simp)

example : effectiveLimit Gen.configFacts .server (some (.assumed .dflt (some 4096))) = some 4096 ∧
    effectiveLimit Gen.configFacts .client none = some (16 <<< 20) := by decide

end Repe.C17
