import RepeVerif.Lemmas.Mux
import RepeVerif.Gen.Mux
import RepeVerif.Props.C03
/-!
# C04 — Multiplexed calls each receive their own response, whatever the order

> When many calls share one client connection (blocking, async or WebSocket client) each call returns
> exactly the response whose id equals its own request's id, never another call's, for every order in
> which the server answers, including interleaved responses with unknown ids, duplicated responses,
> and server-pushed notifications that reuse an in-flight id (those go only to the notification
> subscriber). A batch call returns results positionally aligned with its requests, and all request
> ids issued on one connection are distinct.

Model: `Model/Mux.lean` — one transition system for the three clients, parametrised by the facts
`Gen.Mux.blockingCfg / asyncCfg / wsCfg` re-extracted from src/client.rs, src/async_client.rs,
src/websocket_client.rs.  `run cfg State.init evs` for an arbitrary `evs : List Ev` is an arbitrary
interleaving of any number of callers (alloc / register / write / recv / timeout / cancel / cleanup),
the reader (match under the lock, deliver outside it, the failure path) and the server's frames
(`rmatch f` carries an arbitrary frame), so every theorem below holds for every schedule and every
reply order at that granularity, with no bound on callers, frames or length.

clause → theorem
* all request ids issued on one connection are distinct ........ `ids_distinct`, `ids_below_2_64`
* each call returns the response whose id equals its own ........ `delivery_matches`, `validate_never_mismatch`
* never another call's / at most one ............................ `never_anothers_response`, `at_most_one_delivery`,
                                                                  `result_is_final`
* unknown ids are inert ......................................... `unknown_or_duplicate_inert`
* duplicated responses are inert ................................ `duplicate_is_unknown`, `duplicate_stays_unknown`
                                                                  (`reader_removes_on_match` from the source)
* notifications reusing an in-flight id go only to the subscriber `notify_to_subscriber_only`, `notify_never_delivered`
                                                                  (for a notify-aware client; `ws_is_notify_aware` from the source;
                                                                  the TCP clients have no subscriber and treat every frame as a
                                                                  response: `tcp_clients_not_notify_aware`)
* a response is not lost ........................................ `no_lost_response` (needs register-before-write:
                                                                  `registers_before_write` from the source; witness
                                                                  `lost_response_if_write_first` for the other order)
* batch results positionally aligned ............................ `batch_aligned`
* composed with C03's server (`serveSeq`/`respond`): each call
  returns the response to its own request ....................... `own_response_from_c03_server`,
                                                                  `c03_response_carries_request_id`, `c03_responses_not_shared`
-/
namespace Repe.C04
open Repe.Mux

/-- Every state reached by any interleaving (`Reachable cfg s ↔ ∃ evs, s = run cfg State.init evs`)
satisfies the safety invariant and the "a waiting caller has a live sender" invariant. -/
theorem reachable_inv (cfg : Cfg) (evs : List Ev) :
    Inv cfg (run cfg State.init evs) ∧ Live (run cfg State.init evs) :=
  Reachable.inv ⟨evs, rfl⟩

/-- Ids of started calls are pairwise distinct, in every reachable state. -/
theorem ids_distinct (cfg : Cfg) (s : State) (hs : Reachable cfg s) (c d : Nat) :
    (s.calls c).pc ≠ .idle → (s.calls d).pc ≠ .idle → c ≠ d → (s.calls c).id ≠ (s.calls d).id :=
  fun hc hd hne heq => hne (hs.inv.1.inj c d hc hd heq)

/-- …and, as long as fewer than 2^64 − 1 steps happened, every issued id fits the 64-bit counter
without wrapping (the model's ids are unbounded naturals). -/
theorem ids_below_2_64 (cfg : Cfg) (evs : List Ev) (c : Nat) (hlen : evs.length < 2 ^ 64 - 1) :
    ((run cfg State.init evs).calls c).pc ≠ .idle → ((run cfg State.init evs).calls c).id < 2 ^ 64 := by
  intro hc
  have h1 := (reachable_inv cfg evs).1.fresh c hc
  have h2 := nextId_run cfg State.init evs
  simp only [State.init] at h2 h1 ⊢
  omega

example : ((run Gen.Mux.blockingCfg State.init [.alloc 0, .skip, .alloc 1]).calls 1).id = 3 := by decide

/-- A call that returned a response returned one whose id is its own request's id. -/
theorem delivery_matches (cfg : Cfg) (s : State) (hs : Reachable cfg s) (c : Nat) (f : Frame) :
    (s.calls c).pc = .returned (.resp f) → f.id = (s.calls c).id :=
  fun h => (hs.inv.1.res c f h).1

/-- The clients' own `validate_response` id check never fires. -/
theorem validate_never_mismatch (cfg : Cfg) (s : State) (hs : Reachable cfg s) (c : Nat) :
    (s.calls c).pc ≠ .returned .idMismatch :=
  Reachable.induction (P := fun s => (s.calls c).pc ≠ .returned .idMismatch)
    (by simp [State.init]) (fun s e hr ih => mismatch_step hr.inv.1 e c ih) hs

/-- Two different calls never return the same frame: a response reaches at most one caller. -/
theorem never_anothers_response (cfg : Cfg) (s : State) (hs : Reachable cfg s) (c d : Nat) (f : Frame) :
    (s.calls c).pc = .returned (.resp f) → (s.calls d).pc = .returned (.resp f) → c = d := by
  intro hc hd
  have hI := hs.inv.1
  exact hI.inj c d (by rw [hc]; simp) (by rw [hd]; simp) ((hI.res c f hc).1.symm.trans (hI.res d f hd).1)

/-- A caller's one-shot channel receives at most one message, ever (response or failure). -/
theorem at_most_one_delivery (cfg : Cfg) (s : State) (hs : Reachable cfg s) (c : Nat) :
    (s.calls c).chan.length ≤ 1 :=
  hs.inv.1.chanLen c

/-- …and what a call returned is final. -/
theorem result_is_final (cfg : Cfg) (s : State) (evs : List Ev) (c : Nat) (o : Mux.Outcome)
    (h : (s.calls c).pc = .returned o) : ((run cfg s evs).calls c).pc = .returned o :=
  returned_stable_run cfg s evs c o h

example : ((run Gen.Mux.asyncCfg State.init
    [.alloc 0, .register 0, .write 0, .rmatch ⟨1, false, 7⟩, .deliver, .rmatch ⟨1, false, 8⟩, .deliver, .recv 0]).calls 0).pc
    = .returned (.resp ⟨1, false, 7⟩) := by decide

/-- A frame whose id is not pending (unknown id, or a duplicate of an answered request) changes
nothing at all: no caller, no other pending entry, not the reader. -/
theorem unknown_or_duplicate_inert (cfg : Cfg) (s : State) (f : Frame)
    (hn : (cfg.notifyAware && f.notify) = false) (hu : f.id ∉ ids s.pending) :
    step cfg s (.rmatch f) = s ∧ (s.reader = .idle → step cfg (step cfg s (.rmatch f)) .deliver = s) := by
  have h1 : step cfg s (.rmatch f) = s := by
    simp only [step]
    split
    · simp only [hn]
      rw [lookup_none.2 hu]
      simp
    · rfl
  refine ⟨h1, fun hr => ?_⟩
  rw [h1]; simp [step, hr]

/-- After a response was matched its id is no longer pending: a duplicate is an unknown frame. -/
theorem duplicate_is_unknown (cfg : Cfg) (s : State) (f : Frame) (c : Nat) :
    s.reader = .idle → lookup s.pending f.id = some c → (cfg.notifyAware && f.notify) = false →
    f.id ∉ ids (step cfg s (.rmatch f)).pending := by
  intro hr hl hn
  simp only [step, hr, hn, hl]
  exact not_mem_ids_erase_self _ _

/-- …and it stays unknown for ever: the entry of a registered call never comes back once removed. -/
theorem duplicate_stays_unknown (cfg : Cfg) (s : State) (hs : Reachable cfg s) (evs : List Ev) (c : Nat) :
    (s.calls c).pc ≠ .idle → (s.calls c).reg = true → (s.calls c).id ∉ ids s.pending →
    (s.calls c).id ∉ ids (run cfg s evs).pending := by
  induction evs generalizing s with
  | nil => intro _ _ h; exact h
  | cons e r ih =>
    intro hpc hreg hn
    have hst := id_stable cfg s e c hpc
    have := ih (step cfg s e) (hs.step e) hst.2.1 (hst.2.2 hreg)
      (by rw [hst.1]; exact consumed_step hs.inv.1 e c hpc hreg hn)
    simpa [run, hst.1] using this

/-- A notify-aware client (notify flag tested before the pending map): a frame with the notify flag
never touches a caller or the pending map, even when its id is in flight; it goes to the subscriber
queue (or is dropped when nobody subscribed). -/
theorem notify_to_subscriber_only (cfg : Cfg) (s : State) (f : Frame)
    (ha : cfg.notifyAware = true) (hf : f.notify = true) (hr : s.reader = .idle) :
    (step cfg (step cfg s (.rmatch f)) .deliver).calls = s.calls ∧
    (step cfg (step cfg s (.rmatch f)) .deliver).pending = s.pending ∧
    (step cfg (step cfg s (.rmatch f)) .deliver).reader = .idle ∧
    (step cfg (step cfg s (.rmatch f)) .deliver).subQueue =
      (match s.sub with | some g => s.subQueue ++ [(g, f)] | none => s.subQueue) := by
  simp only [step, hr, ha, hf, Bool.and_self]
  cases hs : s.sub <;> simp [hr]

/-- …in every reachable state of a notify-aware client no caller has received or returned a notify frame. -/
theorem notify_never_delivered (cfg : Cfg) (s : State) (hs : Reachable cfg s) (c : Nat) (f : Frame)
    (ha : cfg.notifyAware = true) :
    ((s.calls c).pc = .returned (.resp f) → f.notify = false) ∧
    (Msg.resp f ∈ (s.calls c).chan → f.notify = false) :=
  ⟨fun h => (hs.inv.1.res c f h).2 ha, fun h => (hs.inv.1.chanId c f h).2 ha⟩

/-- Premise of the model's `rmatch` step: the reader *removes* the entry it matched
(`pending.remove(&id)`, re-extracted for all three clients). -/
theorem reader_removes_on_match : ∀ cfg ∈ Gen.Mux.all, cfg.matchRemoves = true := by decide

/-- Premise of the model's `write` step (the request is on the wire when `write_request` returns, so a
response to it can follow): the flush is unconditional in the TCP clients, the WebSocket client uses
`send` (re-extracted; an absent or conditional flush is read as "may not flush"). -/
theorem requests_are_flushed : Gen.Mux.writeFlushes = [true, true, true] := by decide

/-- Premise of the model's `rmatch` step (a frame is read as a whole, and the next read starts at the next
frame boundary): the response loops have no timer, sleep or deadline arm of their own that could
interrupt a partly read frame (`Gen.Mux.readersHaveNoTimer`, re-extracted; any such arm is a pessimistic
fact). "Each call gets its own response" depends on the reader never resuming inside a frame. -/
theorem reader_never_resumes_inside_a_frame : Gen.Mux.readersHaveNoTimer = [true, true, true] := by decide

/-- The WebSocket client is notify-aware (fact re-extracted from `spawn_response_loop`). -/
theorem ws_is_notify_aware : Gen.Mux.wsCfg.notifyAware = true := by decide

/-- The TCP clients do not look at the notify flag (no subscriber exists there): recorded so that a
source change shows up here. -/
theorem tcp_clients_not_notify_aware :
    Gen.Mux.blockingCfg.notifyAware = false ∧ Gen.Mux.asyncCfg.notifyAware = false := by decide

example : ((run Gen.Mux.wsCfg State.init
    [.subscribe, .alloc 0, .register 0, .write 0, .rmatch ⟨1, true, 5⟩, .deliver, .rmatch ⟨1, false, 6⟩, .deliver, .recv 0]).calls 0).pc
    = .returned (.resp ⟨1, false, 6⟩) := by decide

/-- All three clients insert the pending entry before writing the request (re-extracted). -/
theorem registers_before_write : ∀ cfg ∈ Gen.Mux.all, cfg.regBeforeWrite = true := by decide

/-- In a reachable state of a client that registers before it writes, a call whose request is written
and that has not yet got anything still has its entry (or the reader is holding its sender). -/
theorem written_call_has_sender (cfg : Cfg) (s : State) (hs : Reachable cfg s) (c : Nat)
    (hrbw : cfg.regBeforeWrite = true) :
    (s.calls c).pc = .active → (s.calls c).wrote = true → (s.calls c).chan = [] → hasToken s c :=
  fun hpc hw hch => hs.inv.2 c hpc (wrote_reg hrbw hs c hw) hch

/-- **No lost response.**  Register-before-write: in a reachable state where the reader is between
frames, call `c` has written its request, has not timed out / been cancelled and has nothing yet, the
next frame carrying `c`'s id (and not diverted as a notify) is matched, delivered to `c`, and `c`
returns it. -/
theorem no_lost_response (cfg : Cfg) (s : State) (hs : Reachable cfg s) (c : Nat) (f : Frame)
    (hrbw : cfg.regBeforeWrite = true) :
    s.reader = .idle → (s.calls c).pc = .active → (s.calls c).wrote = true → (s.calls c).chan = [] →
    f.id = (s.calls c).id → (cfg.notifyAware && f.notify) = false →
    ((run cfg s [.rmatch f, .deliver, .recv c]).calls c).pc = .returned (.resp f) := by
  intro hr hpc hw hch hid hn
  have hI := hs.inv.1
  have hreg := wrote_reg hrbw hs c hw
  have htok := hs.inv.2 c hpc hreg hch
  have hmem : ∃ d, (f.id, d) ∈ s.pending := by
    rcases htok with ht | ht
    · rw [← hid] at ht; exact mem_ids.1 ht
    · simp [heldEntries, hr, ids] at ht
  obtain ⟨d, hd⟩ := hmem
  have hdc : d = c := by
    have ho := hI.ownP _ hd
    exact hI.inj d c ho.1 (by rw [hpc]; simp) (by rw [ho.2.1]; exact hid)
  subst hdc
  have hl := lookup_of_mem hI.nodupP hd
  have e1 : step cfg s (.rmatch f) = { s with pending := erase s.pending f.id, reader := .holding d f } := by
    simp [step, hr, hn, hl]
  have e2 : step cfg { s with pending := erase s.pending f.id, reader := .holding d f } .deliver
      = push { s with pending := erase s.pending f.id, reader := .idle } d (.resp f) := by
    simp [step]
  simp only [run, List.foldl_cons, List.foldl_nil, e1, e2]
  simp [step, push, hpc, hw, hreg, hch, outcomeOf, hid]

example : ((run Gen.Mux.blockingCfg State.init
    [.alloc 0, .alloc 1, .register 1, .register 0, .write 0, .write 1, .rmatch ⟨2, false, 9⟩, .deliver, .recv 1]).calls 1).pc
    = .returned (.resp ⟨2, false, 9⟩) := by decide

/-- Why the order matters: a client that wrote first and registered afterwards loses a response that
arrives in between (the call then waits for ever). -/
theorem lost_response_if_write_first :
    ((run { Gen.Mux.blockingCfg with regBeforeWrite := false } State.init
        [.alloc 0, .write 0, .rmatch ⟨1, false, 0⟩, .deliver, .register 0, .recv 0]).calls 0).pc = .active ∧
    ((run { Gen.Mux.blockingCfg with regBeforeWrite := false } State.init
        [.alloc 0, .write 0, .rmatch ⟨1, false, 0⟩, .deliver, .register 0, .recv 0]).calls 0).chan = [] := by decide

/-- **Batch alignment.**  For every schedule of any number of workers popping `(index, request)` from
the queue and storing their call's result at that index: whatever sits in slot `i` is the result of a
call that was made for `reqs[i]` (`log` records the (request, result) pair of every call made). -/
theorem batch_aligned {ρ σ : Type} (reqs : List ρ) (evs : List (BEv σ)) (i : Nat) (r : σ) :
    (brun (Batch.start reqs) evs).out.length = reqs.length ∧
    ((brun (Batch.start reqs) evs).out[i]? = some (some r) →
      ∃ q, reqs[i]? = some q ∧ (q, r) ∈ (brun (Batch.start reqs) evs).log) := by
  have h := binv_run (binv_start (σ := σ) reqs) evs
  exact ⟨h.len, h.out i r⟩

example : (brun (Batch.start (σ := Nat) [10, 20, 30]) [.pop 5, .pop 7, .finish 7 200, .pop 7, .finish 5 100, .finish 7 300]).out
    = [some 100, some 200, some 300] := by decide

/-! ### Composition with C03: the peer is the modelled server

The scripted peer of this property is abstract (any frame sequence).  When it is C03's server — the
connection loop `serveSeq` answering each request with `respond` — every call gets the response to
*its own* request: C03 says each response carries its request's id, C04 says a call only ever
returns a frame with its own id. -/

/-- The frame the client sees for a server response message. -/
def frameOfMessage (m : Repe.Message) (tag : Nat) : Frame :=
  { id := m.header.id, notify := m.header.notify != 0, tag := tag }

/-- C03's id clause for one request answered by a built-in path: a rejection (`reject_response`) or a
handler-returned error (`response_id`) carries the request's id. -/
theorem c03_response_carries_request_id (t : Repe.Transport) (st : Repe.Step) (hn : st.req.isNotify = false)
    (hk : (∃ code, Repe.route Repe.Gen.codes st.req st.utf8 st.found = .reject code) ∨
      ∃ code msg, st.hview = .err code msg ∧ st.howned = .err code msg) :
    ∀ m, (Repe.respond Repe.Gen.codes t st.req st.utf8 st.found st.hview st.howned).1 = some m →
      m.header.id = st.req.header.id := by
  intro m hm
  rcases hk with ⟨code, hr⟩ | ⟨code, msg, h1, h2⟩
  · obtain ⟨m', hm', _, hid, _⟩ := Repe.C03.reject_response t st.req st.utf8 st.found st.hview st.howned [] code hr hn
    rw [hm] at hm'; cases hm'; exact hid
  · rw [h1, h2] at hm
    exact Repe.C03.response_id t st.req st.utf8 st.found [] hn code msg m hm

/-- **Own response from C03's server.**  Let the peer be C03's inline connection loop over the steps
`steps` (the requests it read, each with the environment's decisions), every response of which carries
its request's id (`c03_response_carries_request_id` for the built-in paths; the handler contract
`m.header.id = req.header.id` of C03's `query_echo` for handler-made responses).  In any state the client
reaches by any interleaving, a call that returned one of the server's responses returned the
response to a request with its own id — and since ids on the connection are distinct (`ids_distinct`),
that is the request it sent. -/
theorem own_response_from_c03_server (cfg : Cfg) (s : State) (hs : Reachable cfg s) (t : Repe.Transport)
    (steps : List Repe.Step)
    (hid : ∀ st ∈ steps, ∀ m, (Repe.respond Repe.Gen.codes t st.req st.utf8 st.found st.hview st.howned).1 = some m →
      m.header.id = st.req.header.id)
    (c : Nat) (m : Repe.Message) (tag : Nat)
    (hm : m ∈ (Repe.serveSeq Repe.Gen.codes t steps [] 0).1)
    (hret : (s.calls c).pc = .returned (.resp (frameOfMessage m tag))) :
    ∃ st ∈ steps, st.req.header.id = (s.calls c).id ∧
      (Repe.respond Repe.Gen.codes t st.req st.utf8 st.found st.hview st.howned).1 = some m := by
  rw [Repe.C03.inline_order t steps] at hm
  simp only [List.mem_filterMap] at hm
  obtain ⟨st, hst, hresp⟩ := hm
  refine ⟨st, hst, ?_, hresp⟩
  have h1 := hid st hst m hresp
  have h2 := delivery_matches cfg s hs c (frameOfMessage m tag) hret
  simp only [frameOfMessage] at h2
  rw [← h1, h2]

/-- …and two calls never share a server response: with distinct request ids on the connection, the
step found above is the same for nobody else. -/
theorem c03_responses_not_shared (cfg : Cfg) (s : State) (hs : Reachable cfg s) (c d : Nat) (m : Repe.Message) (tag : Nat)
    (hc : (s.calls c).pc = .returned (.resp (frameOfMessage m tag)))
    (hd : (s.calls d).pc = .returned (.resp (frameOfMessage m tag))) : c = d :=
  never_anothers_response cfg s hs c d _ hc hd

end Repe.C04
