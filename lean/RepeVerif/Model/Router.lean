import RepeVerif.Model.Basic
import RepeVerif.Model.RouterPointer
/-
Model of `src/server.rs::Router` and of the dispatch wrappers around a handler (C07).

Router state = exact map, registry mounts, struct mounts, middleware list; every entry carries the
raw handler (an id) and its `dispatched` form = (raw, the middleware list it was wrapped with).
The few things that are *facts of the source* – lookup order in `Router::get`, which collections
`register_middleware` rebuilds, which registrars wrap on registration, `STACK_SEGS`, the body-format
gates of the paired owned/borrowed decoders – are parameters (`Facts`), re-extracted into
`Gen/Router.lean` on every run.

Core Lean only: linked into `repe_model_router`.
-/
namespace Repe.Router

/-! ## prefixes -/

def trimEndSlashes (s : Str) : Str := (s.reverse.dropWhile (· = '/')).reverse

/-- `RegisteredRegistry::new`: "" and "/" ↦ ""; ensure a leading '/'; strip trailing '/'. -/
def normRegistryPrefix (p : Str) : Str :=
  let n := if p.isEmpty || p = ['/'] then [] else if p.head? = some '/' then p else '/' :: p
  if n.length > 1 then trimEndSlashes n else n

/-- `RegisteredStruct::new`: "" and "/" ↦ ""; ensure a leading '/'; trailing '/' are KEPT. -/
def normStructRoot (p : Str) : Str :=
  if p.isEmpty || p = ['/'] then [] else if p.head? = some '/' then p else '/' :: p

/-- `str::strip_prefix` -/
def stripPrefix : Str → Str → Option Str
  | [], s => some s
  | _ :: _, [] => none
  | a :: p, b :: s => if a = b then stripPrefix p s else none

/-- `RegistryEntry::matches` / `StructEntry::matches` (same body). -/
def mountMatches (pre path : Str) : Bool :=
  if pre.isEmpty then true
  else if path = pre then true
  else match stripPrefix pre path with
    | some rest => rest.head? = some '/'
    | none => false

/-- `RegisteredRegistry::pointer_for` -/
def pointerFor (pre path : Str) : Option Str :=
  if pre.isEmpty then (if path.isEmpty then some ['/'] else some path)
  else if path = pre then some ['/']
  else match stripPrefix pre path with
    | some rest => if rest.head? = some '/' then some rest else none
    | none => none

/-- `RegisteredStruct::relative_pointer` -/
def relativePointer (root path : Str) : Option Str :=
  if root.isEmpty then some path
  else if path = root then some []
  else match stripPrefix root path with
    | some rest => if rest.head? = some '/' then some rest else none
    | none => none

/-! ## router state -/

inductive Coll where
  | exact | registries | structs
  deriving DecidableEq, Repr

structure Facts where
  /-- order of the three lookups in `Router::get` -/
  getOrder : List Coll
  /-- collections whose `dispatched` slots `register_middleware` rebuilds -/
  mwRebuilds : List Coll
  /-- registrars that wrap the new entry in the active middleware list
      (`insert_route`, `register_registry`, `register_struct_shared`) -/
  wraps : List Coll
  stackSegs : Nat
  deriving Repr

/-- `RouterMapEntry` / `RegistryEntry` / `StructEntry`: `dispatched` = `raw` wrapped in `mws`
(`wrap_with_middlewares`; the empty list is the unwrapped clone). -/
structure Entry where
  raw : Nat
  mws : List Nat
  deriving DecidableEq, Repr

structure Router where
  inner : List (Str × Entry) := []       -- HashMap<String, RouterMapEntry>
  registries : List (Str × Entry) := []  -- Vec<RegistryEntry>, normalised prefix
  structs : List (Str × Entry) := []     -- Vec<StructEntry>, normalised root
  mws : List Nat := []
  deriving Repr

inductive Op where
  | route (path : Str) (h : Nat)       -- every `with_*` registrar → `insert_route`
  | registry (pre : Str) (h : Nat)     -- `register_registry`
  | struct (root : Str) (h : Nat)      -- `register_struct_shared`
  | middleware (m : Nat)               -- `register_middleware`
  deriving Repr

def wrapAt (F : Facts) (c : Coll) (r : Router) (h : Nat) : Entry :=
  ⟨h, if c ∈ F.wraps then r.mws else []⟩

def rebuild (F : Facts) (c : Coll) (mws : List Nat) (es : List (Str × Entry)) : List (Str × Entry) :=
  if c ∈ F.mwRebuilds then es.map fun (p, e) => (p, { e with mws := mws }) else es

def Router.apply (F : Facts) (r : Router) : Op → Router
  | .route path h =>
    -- `map.insert(path, entry)` replaces an existing key
    { r with inner := (path, wrapAt F .exact r h) :: r.inner.filter (fun pe => pe.1 ≠ path) }
  | .registry pre h =>
    { r with registries := r.registries ++ [(normRegistryPrefix pre, wrapAt F .registries r h)] }
  | .struct root h =>
    { r with structs := r.structs ++ [(normStructRoot root, wrapAt F .structs r h)] }
  | .middleware m =>
    let mws := r.mws ++ [m]
    { inner := rebuild F .exact mws r.inner,
      registries := rebuild F .registries mws r.registries,
      structs := rebuild F .structs mws r.structs,
      mws := mws }

def Router.run (F : Facts) (r : Router) (ops : List Op) : Router := ops.foldl (Router.apply F) r

def Router.entries (r : Router) : List Entry :=
  r.inner.map (·.2) ++ r.registries.map (·.2) ++ r.structs.map (·.2)

def lookupExact (es : List (Str × Entry)) (path : Str) : Option Entry :=
  (es.find? (fun pe => pe.1 = path)).map (·.2)

def lookupMount (es : List (Str × Entry)) (path : Str) : Option (Str × Entry) :=
  es.find? (fun pe => mountMatches pe.1 path)

/-- What `Router::get` found: which collection, the mount's normalised prefix, the entry. -/
structure Found where
  coll : Coll
  pre : Str
  entry : Entry
  deriving DecidableEq, Repr

def Router.lookupIn (r : Router) (path : Str) : Coll → Option Found
  | .exact => (lookupExact r.inner path).map fun e => ⟨.exact, path, e⟩
  | .registries => (lookupMount r.registries path).map fun pe => ⟨.registries, pe.1, pe.2⟩
  | .structs => (lookupMount r.structs path).map fun pe => ⟨.structs, pe.1, pe.2⟩

/-- `Router::get`: the first collection, in the source's order, that has a match. -/
def Router.get (F : Facts) (r : Router) (path : Str) : Option Found :=
  F.getOrder.findSome? (r.lookupIn path)

/-! ## handlers, middleware, wrappers

`View` and `Msg` carry the same data (a `MessageView` borrows what a `Message` owns); `toMessage`
is the copy.  A handler is its three entry points plus the execution hint. `ρ` is
`Result<Message, RepeError>` for whatever error type; `κ` is the `CallContext`. -/

structure Msg where
  id : Nat
  queryFormat : Nat
  bodyFormat : Nat
  ec : Nat
  query : Bytes
  body : Bytes
  deriving DecidableEq, Repr

structure View where
  id : Nat
  queryFormat : Nat
  bodyFormat : Nat
  ec : Nat
  query : Bytes
  body : Bytes
  deriving DecidableEq, Repr

def View.toMessage (v : View) : Msg := ⟨v.id, v.queryFormat, v.bodyFormat, v.ec, v.query, v.body⟩
def Msg.view (m : Msg) : View := ⟨m.id, m.queryFormat, m.bodyFormat, m.ec, m.query, m.body⟩

inductive Execution where
  | inline | offReader
  deriving DecidableEq, Repr

structure Handler (κ ρ : Type) where
  handle : Msg → ρ
  handleCtx : Msg → κ → ρ
  handleView : View → κ → ρ
  execution : Execution

/-- The trait's default `handle_with_ctx`: ignore the context. -/
def defaultCtx {κ ρ} (handle : Msg → ρ) : Msg → κ → ρ := fun m _ => handle m
/-- The trait's default `handle_view`: materialise an owned message, delegate to `handle_with_ctx`. -/
def defaultView {κ ρ} (handleCtx : Msg → κ → ρ) : View → κ → ρ := fun v c => handleCtx v.toMessage c

/-- A middleware sees the optional context (`Next::ctx`), the request and the continuation
(`Next::run`); it may call the continuation any number of times with any request, or not at all. -/
abbrev Mw (κ ρ : Type) := Option κ → Msg → (Msg → ρ) → ρ

/-- `Next::run`.  `fwdCtx` is a fact of the source: the `Next` handed to a middleware is rebuilt with
`ctx: self.ctx` (true) or loses the context (false – `next.ctx()` is then `None` for every link and the
leaf is reached through `handle`).  What a middleware sees through `next.ctx()` is the context of the
`Next` it is handed, i.e. of the rebuilt one. -/
def nextRun {κ ρ} (fwdCtx : Bool) (h : Handler κ ρ) (ctx : Option κ) : List (Mw κ ρ) → Msg → ρ
  | [], req => match ctx with
    | some c => h.handleCtx req c
    | none => h.handle req
  | m :: rest, req => m (if fwdCtx then ctx else none) req (nextRun fwdCtx h (if fwdCtx then ctx else none) rest)

/-- `MiddlewarePipeline`: overrides `handle`, `handle_with_ctx`; `handle_view` is the default;
`execution` forwards when the source says so (`Gen`). -/
def pipeline {κ ρ} (execForwards fwdCtx : Bool) (h : Handler κ ρ) (mws : List (Mw κ ρ)) : Handler κ ρ :=
  let hc : Msg → κ → ρ := fun req c => nextRun fwdCtx h (some c) mws req
  { handle := fun req => nextRun fwdCtx h none mws req,
    handleCtx := hc,
    handleView := defaultView hc,
    execution := if execForwards then h.execution else .inline }

/-- `wrap_with_middlewares`: no middleware ⇒ the handler itself. -/
def wrapWith {κ ρ} (execForwards fwdCtx : Bool) (h : Handler κ ρ) (mws : List (Mw κ ρ)) : Handler κ ρ :=
  if mws.isEmpty then h else pipeline execForwards fwdCtx h mws

/-- A middleware that records the context it is shown (`Next::ctx()`; `Next::peer()` is
`ctx().and_then(|c| c.peer())`) and forwards. The response type carries the log. -/
def spyMw {κ ρ} : Mw κ (List (Option κ) × ρ) := fun c req k => (c :: (k req).1, (k req).2)

/-- `OffReaderHandler` (the `with_*_blocking` registrars). -/
def offReader {κ ρ} (h : Handler κ ρ) : Handler κ ρ :=
  { handle := h.handle, handleCtx := h.handleCtx, handleView := defaultView h.handleCtx,
    execution := .offReader }

/-- A forwarding middleware passes the request on unchanged and returns what it gets. -/
def Forwarding {κ ρ} (m : Mw κ ρ) : Prop := ∀ ctx req k, m ctx req k = k req

/-! ## the built-in handlers with an overridden borrowed twin

`JsonHandler`, `TypedHandler`, `TypedSliceHandler`, `TypedSliceRefHandler` all have the shape
  gate the body format → decode → call the closure → frame,
once on `&Message` and once on `&MessageView`.  Decoders, the closure and the encoder are
uninterpreted parameters (serde / beve / user code); the *gate* is a fact of the source. -/

inductive Decoder where
  | serdeJson | beve | typedSlice | typedSliceRef
  deriving DecidableEq, Repr

/-- body-format code ↦ decoder, `none` = "Expected … body" (InvalidBody) -/
abbrev Gate := List (Nat × Decoder)

def Gate.lookup (g : Gate) (fmt : Nat) : Option Decoder := (g.find? (·.1 = fmt)).map (·.2)

structure Codec (ε V : Type) where
  decode : Decoder → Bytes → Except ε V            -- Err = `RepeError::Json/Beve`, propagated by `?`
  call : V → Except (Nat × Bytes) (Bytes × Nat)    -- closure + response serialisation: (body, format) or (code, message)

def INVALID_BODY : Nat := 4
def UTF8 : Nat := 3

/-- `QueryFormat::try_from(qf).unwrap_or(RawBinary) as u16` -/
def normQueryFormat (qf : Nat) : Nat := if qf = 1 then 1 else 0

/-- `create_response_unstamped(_view)` / `create_typed_slice_response_unstamped(_view)` -/
def okResponse (id qf : Nat) (body : Bytes) (fmt : Nat) : Msg := ⟨id, normQueryFormat qf, fmt, 0, [], body⟩
/-- `create_error_response_like`: carries the request's query. -/
def errLike (req : Msg) (code : Nat) (msg : Bytes) : Msg := ⟨req.id, 0, UTF8, code, req.query, msg⟩
/-- `create_error_response_unstamped_view`: query left empty. -/
def errView (v : View) (code : Nat) (msg : Bytes) : Msg := ⟨v.id, 0, UTF8, code, [], msg⟩

def builtinHandle {ε V} (g : Gate) (c : Codec ε V) (badFormat : Bytes) (req : Msg) : Except ε Msg :=
  match g.lookup req.bodyFormat with
  | none => .ok (errLike req INVALID_BODY badFormat)
  | some d =>
    match c.decode d req.body with
    | .error e => .error e
    | .ok v =>
      match c.call v with
      | .ok (body, fmt) => .ok (okResponse req.id req.queryFormat body fmt)
      | .error (code, msg) => .ok (errLike req code msg)

def builtinHandleView {ε V} (g : Gate) (c : Codec ε V) (badFormat : Bytes) (v : View) : Except ε Msg :=
  match g.lookup v.bodyFormat with
  | none => .ok (errView v INVALID_BODY badFormat)
  | some d =>
    match c.decode d v.body with
    | .error e => .error e
    | .ok x =>
      match c.call x with
      | .ok (body, fmt) => .ok (okResponse v.id v.queryFormat body fmt)
      | .error (code, msg) => .ok (errView v code msg)

/-- A built-in handler whose `handle_view` is overridden by the borrowed twin. -/
def builtin {κ ε V} (gOwned gView : Gate) (c : Codec ε V) (badFormat : Bytes) : Handler κ (Except ε Msg) :=
  { handle := builtinHandle gOwned c badFormat,
    handleCtx := defaultCtx (builtinHandle gOwned c badFormat),
    handleView := fun v _ => builtinHandleView gView c badFormat v,
    execution := .inline }

/-- The echo rule of the dispatch layer (`stamp_response_query` / `response_echo_query`): a
response that left its query empty gets the request's. -/
def echo (reqQuery : Bytes) (resp : Msg) : Msg :=
  if resp.query.isEmpty then { resp with query := reqQuery } else resp

/-- `server_request::dispatch` (owned) and `dispatch_view` (borrowed), followed by the echo:
an `Err(RepeError)` becomes an error response with `to_error_code` / `to_string`. -/
def dispatchOwned {κ ε} (code : ε → Nat) (text : ε → Bytes) (h : Handler κ (Except ε Msg)) (req : Msg) (ctx : κ) : Msg :=
  echo req.query (match h.handleCtx req ctx with
    | .ok m => m
    | .error e => errLike req (code e) (text e))

def dispatchView {κ ε} (code : ε → Nat) (text : ε → Bytes) (h : Handler κ (Except ε Msg)) (v : View) (ctx : κ) : Msg :=
  echo v.query (match h.handleView v ctx with
    | .ok m => m
    | .error e => errView v (code e) (text e))

/-- Facts about the handler layer re-extracted from the source. -/
structure HandlerFacts where
  jsonOwned : Gate
  jsonView : Gate
  typedOwned : Gate
  typedView : Gate
  sliceOwned : Gate
  sliceView : Gate
  sliceRefOwned : Gate
  sliceRefView : Gate
  /-- `MiddlewarePipeline::execution` forwards to the wrapped handler -/
  pipelineExecForwards : Bool
  /-- `MiddlewarePipeline` and `OffReaderHandler` do NOT override `handle_view` (they use the default) -/
  pipelineViewDefault : Bool
  offReaderViewDefault : Bool
  /-- every `Next` that `Next::run` builds for a middleware carries `ctx: self.ctx`, and the leaf is
      called through `handle_with_ctx` when a context is attached -/
  nextForwardsCtx : Bool
  /-- body gate of `RegisteredStruct::handle` and of `JsonTypedAdapter::handle` (inline matches) -/
  structGate : Gate
  structEmptyBodyIsRead : Bool
  adapterGate : Gate
  /-- both TCP servers frame a response with `response_echo_query(&resp, view.query)` – the query of
      the request being answered, taken from the view of the current read buffer – and hand exactly that
      to the writer -/
  serversEchoViewQuery : Bool
  /-- `#[derive(RepeStruct)]` (repe-derive): the nested-field arm treats the request as addressing
      "the nested struct itself" exactly when `tail.is_empty()`, and otherwise forwards `tail`
      unchanged; plain fields and methods reject a non-empty `tail`; the head is `segments.split_first()` -/
  deriveTailTests : Bool
  /-- the loops the property runs through (`handle_connection` of both TCP servers, `Next::run`,
      `Router::get`, `dispatch_struct_segments`) contain no timer, sleep, retry or deadline arm other
      than the three `timeout(dur, …)` of the async server that implement the configured read / write
      timeouts: what is served does not depend on when the bytes arrive -/
  serveLoopsHaveNoExtraTimers : Bool
  deriving Repr

end Repe.Router
