import RepeVerif.Model.Basic
/-
Model of `src/header.rs`, `src/message.rs` (framing part), `src/io.rs`, `src/async_io.rs`.
Integers are `Nat`; the range of each header field is an explicit hypothesis (`Header.InRange`).
-/
namespace Repe

inductive Field where
  | length | spec | version | notify | reserved | id | queryLength | bodyLength
  | queryFormat | bodyFormat | ec
  deriving DecidableEq, Repr

structure Header where
  length : Nat
  spec : Nat
  version : Nat
  notify : Nat
  reserved : Nat
  id : Nat
  queryLength : Nat
  bodyLength : Nat
  queryFormat : Nat
  bodyFormat : Nat
  ec : Nat
  deriving DecidableEq, Repr

def Header.get (h : Header) : Field → Nat
  | .length => h.length | .spec => h.spec | .version => h.version | .notify => h.notify
  | .reserved => h.reserved | .id => h.id | .queryLength => h.queryLength
  | .bodyLength => h.bodyLength | .queryFormat => h.queryFormat | .bodyFormat => h.bodyFormat
  | .ec => h.ec

def Header.set (h : Header) (f : Field) (v : Nat) : Header :=
  match f with
  | .length => { h with length := v } | .spec => { h with spec := v }
  | .version => { h with version := v } | .notify => { h with notify := v }
  | .reserved => { h with reserved := v } | .id => { h with id := v }
  | .queryLength => { h with queryLength := v } | .bodyLength => { h with bodyLength := v }
  | .queryFormat => { h with queryFormat := v } | .bodyFormat => { h with bodyFormat := v }
  | .ec => { h with ec := v }

def Header.zero : Header := ⟨0,0,0,0,0,0,0,0,0,0,0⟩

abbrev Layout := List (Field × Nat)

/-- REPE v1 header layout, written from the specification (field, width in bytes), in wire order. -/
def specLayout : Layout :=
  [(.length, 8), (.spec, 2), (.version, 1), (.notify, 1), (.reserved, 4), (.id, 8),
   (.queryLength, 8), (.bodyLength, 8), (.queryFormat, 2), (.bodyFormat, 2), (.ec, 4)]

def REPE_SPEC : Nat := 0x1507

/-- Interpret a layout table as the byte emission `Header::encode` performs. -/
def encodeWith (l : Layout) (h : Header) : Bytes :=
  l.flatMap fun (f, w) => leBytes w (h.get f)

/-- Interpret a layout table as the field-by-field consumption `Header::decode` performs
(no checks; input assumed long enough – missing bytes read as absent). -/
def parseWith : Layout → Bytes → Header → Header
  | [], _, h => h
  | (f, w) :: l, bs, h => parseWith l (bs.drop w) (h.set f (fromLe (bs.take w)))

/-- `Header::encode`: the specification layout interpreted as byte emission. -/
def Header.encode (h : Header) : Bytes := encodeWith specLayout h

/-- Field ranges of the Rust struct (`u64,u16,u8,u8,u32,u64,u64,u64,u16,u16,u32`). -/
structure Header.InRange (h : Header) : Prop where
  length : h.length < 2^64
  spec : h.spec < 2^16
  version : h.version < 2^8
  notify : h.notify < 2^8
  reserved : h.reserved < 2^32
  id : h.id < 2^64
  queryLength : h.queryLength < 2^64
  bodyLength : h.bodyLength < 2^64
  queryFormat : h.queryFormat < 2^16
  bodyFormat : h.bodyFormat < 2^16
  ec : h.ec < 2^32

/-- Raw field parse of the first 48 bytes (the `from_le_bytes` sequence of `Header::decode`). -/
def Header.parse (bs : Bytes) : Header := parseWith specLayout bs Header.zero

inductive WireErr where
  | invalidHeaderLength
  | invalidSpec
  | lengthMismatch
  | bufferTooSmall
  | io            -- UnexpectedEof / allocation refused: an `Err(RepeError::Io(_))`
  deriving DecidableEq, Repr

abbrev WOut := Outcome WireErr

/-- `Header::decode`. `form` is how the source adds `48 + query_length + body_length`. -/
def Header.decode (form : SumForm) (mode : OvMode) (bs : Bytes) : WOut Header :=
  if bs.length < 48 then .err .invalidHeaderLength
  else
    let h := Header.parse bs
    if h.spec ≠ REPE_SPEC then .err .invalidSpec
    else match sumU64 form mode 48 [h.queryLength, h.bodyLength] with
      | .ok (some expected) => if h.length ≠ expected then .err .lengthMismatch else .ok h
      | .ok none => .err .lengthMismatch
      | .err _ => .panic
      | .panic => .panic
      | .abort => .abort

structure Message where
  header : Header
  query : Bytes
  body : Bytes
  deriving DecidableEq, Repr

/-- `Message::to_vec`. -/
def Message.toVec (m : Message) : Bytes := m.header.encode ++ m.query ++ m.body

/-- Header consistent with payloads: what `MessageBuilder::build` establishes. -/
structure Message.WF (m : Message) : Prop where
  inRange : m.header.InRange
  spec : m.header.spec = REPE_SPEC
  qlen : m.header.queryLength = m.query.length
  blen : m.header.bodyLength = m.body.length
  len : m.header.length = 48 + m.query.length + m.body.length

/-- Rust slice indexing `buf[start .. start+len]`: the add is an unchecked `usize` add; a range that is
reversed or past the end panics. -/
def sliceRange (mode : OvMode) (bs : Bytes) (start len : Nat) : WOut Bytes :=
  match addU64 .unchecked mode start len with
  | .ok (some e) => if start ≤ e ∧ e ≤ bs.length then .ok ((bs.drop start).take (e - start)) else .panic
  | _ => .panic

/-- `Message::new`. -/
def Message.new (h : Header) (q b : Bytes) : WOut Message :=
  if h.queryLength ≠ q.length ∨ h.bodyLength ≠ b.length then .err .lengthMismatch
  else .ok ⟨h, q, b⟩

/-- `Message::from_slice` / `MessageView::from_slice` (same control flow; the view borrows).
`sform` is the form of `48 + q as usize + b as usize`. -/
def Message.fromSlice (form sform : SumForm) (mode : OvMode) (bs : Bytes) : WOut Message :=
  if bs.length < 48 then .err .invalidHeaderLength
  else (Header.decode form mode (bs.take 48)).bind fun h =>
    match sumU64 sform mode 48 [h.queryLength, h.bodyLength] with
    | .ok (some expected) =>
      if bs.length < expected then .err .bufferTooSmall
      else (sliceRange mode bs 48 h.queryLength).bind fun q =>
        match addU64 .unchecked mode 48 h.queryLength with
        | .ok (some o) => (sliceRange mode bs o h.bodyLength).bind fun b => Message.new h q b
        | _ => .panic
    | .ok none => .err .bufferTooSmall
    | _ => .panic

/-- `from_slice_exact`: additionally rejects trailing bytes. -/
def Message.fromSliceExact (form sform : SumForm) (mode : OvMode) (bs : Bytes) : WOut Message :=
  (Message.fromSlice form sform mode bs).bind fun m =>
    if bs.length ≠ 48 + m.query.length + m.body.length then .err .lengthMismatch else .ok m

/-! ### stream readers -/

/-- How a reader obtains its buffer for a declared length. -/
inductive AllocForm where
  | infallible   -- `vec![0u8; n]` / `resize(n, 0)`
  | fallible     -- `try_reserve*` first, failure mapped to an error
  deriving DecidableEq, Repr

def ISIZE_MAX : Nat := 2^63 - 1
/-- Requests of at least this many bytes can never be satisfied (47-bit user address space). -/
def NEVER_ALLOC : Nat := 2^62

/-- Allocate `n` zeroed bytes. Requests strictly between the property's 16 MiB bound and `2^62`
are outside the property's quantifier; the model treats them as succeeding. -/
def alloc (af : AllocForm) (n : Nat) : WOut Unit :=
  if n > ISIZE_MAX then (match af with | .infallible => .panic | .fallible => .err .io)
  else if n ≥ NEVER_ALLOC then (match af with | .infallible => .abort | .fallible => .err .io)
  else .ok ()

/-- `read_exact` on a stream that delivers `s` then EOF: the first `n` bytes and the rest, or EOF. -/
def readExact (s : Bytes) (n : Nat) : WOut (Bytes × Bytes) :=
  if s.length < n then .err .io else .ok (s.take n, s.drop n)

/-- `read_message` / `read_message_async`. -/
def readMessage (form : SumForm) (af : AllocForm) (mode : OvMode) (s : Bytes) : WOut Message :=
  (readExact s 48).bind fun (hb, s1) =>
  (Header.decode form mode hb).bind fun h =>
  (alloc af h.queryLength).bind fun _ =>
  (readExact s1 h.queryLength).bind fun (q, s2) =>
  (alloc af h.bodyLength).bind fun _ =>
  (readExact s2 h.bodyLength).bind fun (b, _) =>
  Message.new h q b

/-- `read_message_into` / `read_message_into_async`: returns the frame bytes left in `buf`. -/
def readMessageInto (form tform : SumForm) (af : AllocForm) (mode : OvMode) (s : Bytes) : WOut Bytes :=
  (readExact s 48).bind fun (hb, s1) =>
  (Header.decode form mode hb).bind fun h =>
  match sumU64 tform mode 48 [h.queryLength, h.bodyLength] with
  | .ok (some total) =>
    (alloc af total).bind fun _ =>
    -- `buf[48..total]` panics if total < 48
    if total < 48 then .panic
    else (readExact s1 (total - 48)).bind fun (rest, _) => .ok (hb ++ rest)
  | .ok none => .err .io
  | _ => .panic

/-! ### emission routes -/

/-- `Message::write_to`, `write_message`, `write_message_async`: the list of `write_all` calls. -/
def Message.writes (m : Message) : List Bytes :=
  [m.header.encode] ++ (if m.query.isEmpty then [] else [m.query]) ++
  (if m.body.isEmpty then [] else [m.body])

def Message.writeTo (m : Message) : Bytes := m.writes.flatten

/-- `l[off .. off+src.len()].copy_from_slice(src)`. -/
def overwrite {α} (l : List α) (off : Nat) (src : List α) : List α :=
  l.take off ++ src ++ l.drop (off + src.length)

/-- `Message::into_wire_bytes` with the body `Vec` having capacity `cap`. -/
def Message.intoWireBytes (m : Message) (cap : Nat) : Bytes :=
  let prefixLen := 48 + m.query.length
  let bodyLen := m.body.length
  let total := prefixLen + bodyLen
  if cap ≥ total then
    -- body.resize(total, 0)
    let b1 := m.body ++ List.replicate (total - bodyLen) (0 : UInt8)
    -- body.copy_within(0..body_len, prefix_len)   (memmove)
    let b2 := if bodyLen > 0 then overwrite b1 prefixLen (b1.take bodyLen) else b1
    -- body[..48].copy_from_slice(header)
    let b3 := overwrite b2 0 m.header.encode
    -- body[48..prefix_len].copy_from_slice(query)
    if m.query.isEmpty then b3 else overwrite b3 48 m.query
  else
    m.header.encode ++ (if m.query.isEmpty then [] else m.query) ++
      (if bodyLen > 0 then m.body else [])

/-- Header patching done by `write_message_streaming` (and by the server-side echo framing). -/
def Header.patchLengths (h : Header) (qlen blen : Nat) : Header :=
  { h with queryLength := qlen, bodyLength := blen, length := 48 + qlen + blen }

/-- `write_message_streaming(w, header, query, body_len, |w| w.write_all(body))`. -/
def writeMessageStreaming (h : Header) (q body : Bytes) : Bytes :=
  (h.patchLengths q.length body.length).encode ++ (if q.isEmpty then [] else q) ++ body

/-- Inputs of `MessageBuilder::build`. -/
structure Builder where
  id : Nat
  notify : Bool
  ec : Nat
  queryFormat : Nat
  bodyFormat : Nat
  query : Bytes
  body : Bytes

def REPE_VERSION : Nat := 1

/-- `MessageBuilder::build`. -/
def Builder.build (b : Builder) : Message :=
  { header :=
      { length := 48 + b.query.length + b.body.length
        spec := REPE_SPEC, version := REPE_VERSION
        notify := if b.notify then 1 else 0
        reserved := 0, id := b.id
        queryLength := b.query.length, bodyLength := b.body.length
        queryFormat := b.queryFormat, bodyFormat := b.bodyFormat, ec := b.ec }
    query := b.query, body := b.body }

/-- `stamp_response_query` (WebSocket server). -/
def stampResponseQuery (resp : Message) (reqQuery : Bytes) : Message :=
  if reqQuery.isEmpty ∨ ¬ resp.query.isEmpty then resp
  else { header := resp.header.patchLengths reqQuery.length resp.header.bodyLength
         query := reqQuery, body := resp.body }

/-- `response_echo_query`. -/
def responseEchoQuery (resp : Message) (reqQuery : Bytes) : Bytes :=
  if resp.query.isEmpty then reqQuery else resp.query

/-- Blocking/async TCP servers frame a response by streaming it with the echoed query. -/
def serverFrame (resp : Message) (reqQuery : Bytes) : Bytes :=
  writeMessageStreaming resp.header (responseEchoQuery resp reqQuery) resp.body

/-! ### further frame producers / consumers (coverage-audit pass) -/

/-- `Message::serialized_len`. -/
def Message.serializedLen (m : Message) : Nat := 48 + m.query.length + m.body.length

/-- `write_view_response` (async TCP server): copies the response header, patches `query_length` to the
supplied query and `length` to `48 + |query| + header.body_length` (the header's own body length, *not*
`body.len()`), then three writes. -/
def writeViewResponse (resp : Message) (query : Bytes) : Bytes :=
  let h : Header := { resp.header with
    queryLength := query.length, length := 48 + query.length + resp.header.bodyLength }
  h.encode ++ (if query.isEmpty then [] else query) ++ (if resp.body.isEmpty then [] else resp.body)

/-- The async TCP server frames a response through `write_view_response` with the echoed query
(both the write-timeout branch and the plain branch pass `echo`). -/
def asyncServerFrame (resp : Message) (reqQuery : Bytes) : Bytes :=
  writeViewResponse resp (responseEchoQuery resp reqQuery)

def UTF8_FORMAT : Nat := 3

/-- `create_error_message(code, msg)`: builder with the error code, the text as body, body format UTF-8. -/
def wireErrorMessage (code : Nat) (msg : Bytes) : Message :=
  (Builder.mk 0 false code 0 UTF8_FORMAT [] msg).build

/-- `create_error_response_like(request, code, msg)`: echo id and query, patch `query_length` and `length`. -/
def createErrorResponseLike (reqId : Nat) (reqQuery : Bytes) (code : Nat) (msg : Bytes) : Message :=
  let e := wireErrorMessage code msg
  { header := { e.header with id := reqId, queryLength := reqQuery.length,
                              length := 48 + reqQuery.length + e.header.bodyLength }
    query := reqQuery, body := e.body }

/-- `create_error_response_unstamped_view(view, code, msg)`: only the id is set; the query is left to the
transport boundary. -/
def createErrorResponseUnstamped (reqId : Nat) (code : Nat) (msg : Bytes) : Message :=
  let e := wireErrorMessage code msg
  { e with header := { e.header with id := reqId } }

/-- `response_header_builder`: `QueryFormat::try_from(qf).unwrap_or(RawBinary)` keeps 0 and 1, maps the rest to 0. -/
def responseQueryFormat (qf : Nat) : Nat := if qf = 1 then 1 else 0

/-- `create_response(request, result, body_format)`; the serialised body is a parameter. -/
def createResponse (reqId reqQf : Nat) (reqQuery : Bytes) (bodyFormat : Nat) (body : Bytes) : Message :=
  (Builder.mk reqId false 0 (responseQueryFormat reqQf) bodyFormat reqQuery body).build

/-- `create_response_unstamped` / `create_response_unstamped_view`: same, query left empty. -/
def createResponseUnstamped (reqId reqQf : Nat) (bodyFormat : Nat) (body : Bytes) : Message :=
  (Builder.mk reqId false 0 (responseQueryFormat reqQf) bodyFormat [] body).build

def BEVE_FORMAT : Nat := 1

/-- `write_message_typed_slice` / `write_message_complex_slice`: set `body_format` to BEVE **whatever the header passed in
says**, then stream with the BEVE payload (`payload` = the bytes `beve::to_writer_*_slice` produces: a parameter). -/
def writeMessageSlice (h : Header) (q payload : Bytes) : Bytes :=
  writeMessageStreaming { h with bodyFormat := BEVE_FORMAT } q payload

/-- Read up to `n` frames one after another from one stream with one reader (each successful read
consumes exactly the frame it returned; the into-readers return what they leave in the reused buffer):
the frames read and the unread rest. Stops at the first failure. -/
def readSeq (reader : Bytes → WOut Bytes) : Nat → Bytes → List Bytes × Bytes
  | 0, s => ([], s)
  | n+1, s =>
    match reader s with
    | .ok f =>
      let r := readSeq reader n (s.drop f.length)
      (f :: r.1, r.2)
    | _ => ([], s)

/-! ### shapes of the emission routes, as read off the source by the extractor -/

/-- One `write_all`/`extend_from_slice` of a message part; the flag says whether the source guards it
with `if !part.is_empty()`. `unknown` = a statement the extractor did not recognise (emits nothing in
the model, so that any theorem about the route fails: pessimistic). -/
inductive Part where
  | header
  | query (guarded : Bool)
  | body (guarded : Bool)
  | unknown
  deriving DecidableEq, Repr

def Part.emit (m : Message) : Part → Bytes
  | .header => m.header.encode
  | .query g => if g && m.query.isEmpty then [] else m.query
  | .body g => if g && m.body.isEmpty then [] else m.body
  | .unknown => []

/-- A route that performs the given writes in order. -/
def emitParts (ps : List Part) (m : Message) : Bytes := (ps.map (Part.emit m)).flatten

/-- header, then query, then body (each guarded or not): the only shape that is `to_vec` for every message. -/
def partsOk : List Part → Bool
  | [.header, .query _, .body _] => true
  | _ => false

/-! ### check sequences of the parsers, as read off the source by the extractor -/

/-- The checks a parser performs, in source order. `unknown` = an unrecognised statement at a place where
a check is expected (pessimistic). -/
inductive Check where
  | shortInput      -- `input.len() < HEADER_SIZE` → InvalidHeaderLength
  | magic           -- `spec != REPE_SPEC` → InvalidSpec
  | lengthSum       -- `expected != Some(length)` (or `length != expected`) → LengthMismatch
  | bufferHolds     -- `buf.len() < expected` → BufferTooSmall
  | exactLength     -- `buf.len() != expected` → LengthMismatch
  | unknown
  deriving DecidableEq, Repr

/-- What `Header.decode` above performs, in order. -/
def Header.decodeChecks : List Check := [.shortInput, .magic, .lengthSum]
/-- What `Message.fromSlice` above performs, in order (after the header decode). -/
def Message.fromSliceChecks : List Check := [.shortInput, .bufferHolds]
/-- What `Message.fromSliceExact` adds. -/
def Message.fromSliceExactChecks : List Check := [.exactLength]

/-- Which parser an entry point that receives one whole transport message uses. -/
inductive ParserKind where
  | exact | lenient | unknown
  deriving DecidableEq, Repr

/-- Split a byte stream into whole frames by declared lengths (the peer's re-synchronisation). -/
def parseFrames (form sform : SumForm) (mode : OvMode) : Nat → Bytes → List Message × Bytes
  | 0, bs => ([], bs)
  | fuel+1, bs =>
    match Message.fromSlice form sform mode bs with
    | .ok m =>
      let n := 48 + m.query.length + m.body.length
      let (ms, tail) := parseFrames form sform mode fuel (bs.drop n)
      (m :: ms, tail)
    | _ => ([], bs)

end Repe
