import RepeVerif.Model.Basic
/-!
Executable model of `PeerRegistry` (`/repo/src/peer.rs`), family `peers` (C18).  Core Lean only.

`RegistryInner` holds three `HashMap`s under one mutex:

* `peers       : PeerId -> PeerHandle`
* `aliases     : String -> PeerId`          (forward alias lookup)
* `alias_index : PeerId -> Vec<String>`     (reverse index, insertion order)

A `HashMap` is modelled as an association list that is only ever read through `lookup`
(iteration order is not modelled: everything that comes out of a map is printed sorted).
A `PeerHandle` is modelled by its `PeerId` plus a `tag` naming the sink it wraps, so that "`get`
returns the handle that was inserted" is expressible.

Every public method of `PeerRegistry` takes `self.lock()` exactly once and does all its work under
that guard, so every method is one atomic step `State → State × Ret` (see `Gen/Peers.lean` for the
fact re-extracted from the source, and `C18.single_section_ops`).  `broadcast_each` is
`self.peers()` (one atomic snapshot) followed by sends that do not touch the registry state.
-/
namespace Repe.Peers

abbrev Key := String

/-! ### association lists read through `lookup` (model of `HashMap`) -/

def lookup {α β} [DecidableEq α] (k : α) : List (α × β) → Option β
  | [] => none
  | (k', v) :: r => if k' = k then some v else lookup k r

/-- `HashMap::remove`. -/
def erase {α β} [DecidableEq α] (k : α) (l : List (α × β)) : List (α × β) :=
  l.filter (fun e => !decide (e.1 = k))

/-- `HashMap::insert` (replaces an existing entry). -/
def put {α β} [DecidableEq α] (k : α) (v : β) (l : List (α × β)) : List (α × β) :=
  (k, v) :: erase k l

/-- A `PeerHandle`: the id it reports and a tag identifying the `Arc<dyn PeerSink>` it wraps. -/
structure Handle where
  id : Nat
  tag : Nat
  deriving DecidableEq, Repr

/-- `RegistryInner`. -/
structure State where
  peers : List (Nat × Nat) := []          -- PeerId ↦ sink tag
  aliases : List (Key × Nat) := []        -- key ↦ PeerId
  index : List (Nat × List Key) := []     -- PeerId ↦ keys in insertion order
  deriving Repr

def State.empty : State := {}

/-- `peers.contains_key(&id)` -/
def State.present (s : State) (id : Nat) : Bool := (lookup id s.peers).isSome

/-- `PeerRegistry::insert`: `peers.insert(peer.peer_id(), peer)` (an existing entry is overwritten; the
`debug_assert!` that follows the unlocked statement is reported by `insertPanics`). -/
def insert (s : State) (id tag : Nat) : State :=
  { s with peers := put id tag s.peers }

/-- Does `insert` trip its `debug_assert!(prev.is_none())`?  (Only with debug assertions on; the
map has been updated and the lock released by then.) -/
def insertPanics (s : State) (id : Nat) (debugAssertions : Bool) : Bool :=
  debugAssertions && s.present id

/-- `alias_index.entry(peer_id).or_default().push(key)` -/
def pushKey (index : List (Nat × List Key)) (id : Nat) (k : Key) : List (Nat × List Key) :=
  put id ((lookup id index).getD [] ++ [k]) index

/-- `if let Some(keys) = alias_index.get_mut(&prev) { keys.retain(|x| x != key) }` -/
def detachKey (index : List (Nat × List Key)) (prev : Nat) (k : Key) : List (Nat × List Key) :=
  match lookup prev index with
  | some keys => put prev (keys.filter (fun x => !decide (x = k))) index
  | none => index

/-- `PeerRegistry::alias`, branch by branch. -/
def alias (s : State) (id : Nat) (k : Key) : State × Bool :=
  if !s.present id then (s, false)
  else
    let aliases' := put k id s.aliases
    match lookup k s.aliases with
    | some prev =>
      if prev = id then ({ s with aliases := aliases' }, true)
      else ({ s with aliases := aliases', index := pushKey (detachKey s.index prev k) id k }, true)
    | none => ({ s with aliases := aliases', index := pushKey s.index id k }, true)

/-- The purge loop of `remove`: `if aliases.get(&key) == Some(&id) { aliases.remove(&key) }`. -/
def purge (id : Nat) : List Key → List (Key × Nat) → List (Key × Nat)
  | [], a => a
  | k :: ks, a => purge id ks (if lookup k a = some id then erase k a else a)

/-- `PeerRegistry::remove`. -/
def remove (s : State) (id : Nat) : State × Option Handle :=
  let removed := (lookup id s.peers).map (Handle.mk id)
  let peers' := erase id s.peers
  match lookup id s.index with
  | some keys => ({ peers := peers', aliases := purge id keys s.aliases, index := erase id s.index }, removed)
  | none => ({ s with peers := peers' }, removed)

/-- `PeerRegistry::get` -/
def get (s : State) (id : Nat) : Option Handle := (lookup id s.peers).map (Handle.mk id)

/-- `PeerRegistry::get_by`: `let id = *aliases.get(key)?; peers.get(&id).cloned()` -/
def getBy (s : State) (k : Key) : Option Handle :=
  match lookup k s.aliases with
  | some id => get s id
  | none => none

/-- `PeerRegistry::key_for` -/
def keyFor (s : State) (id : Nat) : Option Key :=
  match lookup id s.index with
  | some keys => keys.head?
  | none => none

/-- `PeerRegistry::aliases_for` -/
def aliasesFor (s : State) (id : Nat) : List Key := (lookup id s.index).getD []

/-- `PeerRegistry::len` (`peers.len()`: number of distinct keys of the map). -/
def len (s : State) : Nat := s.peers.length

/-- `PeerRegistry::peers`: snapshot of the handles (unordered in the code; the drivers sort it). -/
def snapshot (s : State) : List Handle := s.peers.map (fun e => Handle.mk e.1 e.2)

/-- What a sink answers to `send_notify`. -/
inductive SendResult where
  | ok | disconnected | full | other
  deriving DecidableEq, Repr

/-- One `sink.send_notify(path, body)` call as seen by the sink. -/
structure Delivery where
  to : Handle
  path : String
  fmt : Nat
  body : Bytes
  deriving DecidableEq, Repr

/-- `broadcast_each`: snapshot under the lock, then for every handle of the snapshot one
`send_notify(path, body_for(..))` whose result is stored under the handle's id.  All four public
`broadcast_notify_*` helpers are this function applied to the encoded body and its format tag.
`answer` is the (user supplied) behaviour of the sinks. -/
def broadcast (s : State) (path : String) (fmt : Nat) (body : Bytes) (answer : Handle → SendResult) :
    List Delivery × List (Nat × SendResult) :=
  let snap := snapshot s
  (snap.map (fun h => ⟨h, path, fmt, body⟩), snap.map (fun h => (h.id, answer h)))

/-! ### operations and histories -/

inductive Op where
  | insert (id tag : Nat)
  | remove (id : Nat)
  | alias (id : Nat) (k : Key)
  | get (id : Nat)
  | getBy (k : Key)
  | keyFor (id : Nat)
  | aliasesFor (id : Nat)
  | len
  | broadcast (path : String) (fmt : Nat) (body : Bytes)
  deriving DecidableEq, Repr

inductive Ret where
  | unit
  | bool (b : Bool)
  | handle (h : Option Handle)
  | key (k : Option Key)
  | keys (ks : List Key)
  | nat (n : Nat)
  | sent (ds : List Delivery) (rs : List (Nat × SendResult))
  deriving DecidableEq, Repr

/-- One public method call = one atomic step. `answer` = behaviour of the sinks on broadcast. -/
def step (answer : Handle → SendResult) (s : State) : Op → State × Ret
  | .insert id tag => (insert s id tag, .unit)
  | .remove id => let r := remove s id; (r.1, .handle r.2)
  | .alias id k => let r := alias s id k; (r.1, .bool r.2)
  | .get id => (s, .handle (get s id))
  | .getBy k => (s, .handle (getBy s k))
  | .keyFor id => (s, .key (keyFor s id))
  | .aliasesFor id => (s, .keys (aliasesFor s id))
  | .len => (s, .nat (len s))
  | .broadcast p f b => let r := broadcast s p f b answer; (s, .sent r.1 r.2)

/-- Run a history from a state; returns the final state and every return value in order. -/
def run (answer : Handle → SendResult) : State → List Op → State × List Ret
  | s, [] => (s, [])
  | s, op :: ops =>
    let r := step answer s op
    let rest := run answer r.1 ops
    (rest.1, r.2 :: rest.2)

/-- The state after a history from the empty registry. -/
def after (h : List Op) : State := (run (fun _ => .ok) State.empty h).1

/-! ### abstract specification: the present peers, each with its ordered key list -/

structure APeer where
  id : Nat
  tag : Nat
  keys : List Key
  deriving DecidableEq, Repr

abbrev Spec := List APeer

def Spec.find (a : Spec) (id : Nat) : Option APeer := a.find? (fun p => decide (p.id = id))

def Spec.keysOf (a : Spec) (id : Nat) : List Key := ((a.find id).map (·.keys)).getD []

def Spec.drop (a : Spec) (id : Nat) : Spec := a.filter (fun p => !decide (p.id = id))

/-- insert: the peer becomes present with a fresh (empty) key list; re-inserting a present id
(outside the documented contract) only replaces the handle. -/
def Spec.insert (a : Spec) (id tag : Nat) : Spec := ⟨id, tag, a.keysOf id⟩ :: a.drop id

/-- remove: the peer goes away together with its key list. -/
def Spec.remove (a : Spec) (id : Nat) : Spec × Option Handle :=
  (a.drop id, (a.find id).map (fun p => Handle.mk p.id p.tag))

/-- alias: rejected for an absent peer; unchanged if the peer already lists the key; otherwise the key is
removed from whichever peer lists it and appended to this peer's list. -/
def Spec.alias (a : Spec) (id : Nat) (k : Key) : Spec × Bool :=
  match a.find id with
  | none => (a, false)
  | some p =>
    if k ∈ p.keys then (a, true)
    else (a.map (fun q => if q.id = id then { q with keys := q.keys ++ [k] }
                          else { q with keys := q.keys.filter (fun x => !decide (x = k)) }), true)

def Spec.get (a : Spec) (id : Nat) : Option Handle := (a.find id).map (fun p => Handle.mk p.id p.tag)

/-- lookup of a key = the peer listing it. -/
def Spec.getBy (a : Spec) (k : Key) : Option Handle :=
  (a.find? (fun p => decide (k ∈ p.keys))).map (fun p => Handle.mk p.id p.tag)

def Spec.keyFor (a : Spec) (id : Nat) : Option Key := (a.keysOf id).head?

def Spec.broadcast (a : Spec) (path : String) (fmt : Nat) (body : Bytes) (answer : Handle → SendResult) :
    List Delivery × List (Nat × SendResult) :=
  (a.map (fun p => ⟨⟨p.id, p.tag⟩, path, fmt, body⟩), a.map (fun p => (p.id, answer ⟨p.id, p.tag⟩)))

def Spec.step (answer : Handle → SendResult) (a : Spec) : Op → Spec × Ret
  | .insert id tag => (a.insert id tag, .unit)
  | .remove id => let r := a.remove id; (r.1, .handle r.2)
  | .alias id k => let r := a.alias id k; (r.1, .bool r.2)
  | .get id => (a, .handle (a.get id))
  | .getBy k => (a, .handle (a.getBy k))
  | .keyFor id => (a, .key (a.keyFor id))
  | .aliasesFor id => (a, .keys (a.keysOf id))
  | .len => (a, .nat a.length)
  | .broadcast p f b => let r := a.broadcast p f b answer; (a, .sent r.1 r.2)

def Spec.run (answer : Handle → SendResult) : Spec → List Op → Spec × List Ret
  | a, [] => (a, [])
  | a, op :: ops =>
    let r := Spec.step answer a op
    let rest := Spec.run answer r.1 ops
    (rest.1, r.2 :: rest.2)

/-- Abstraction map: forget the forward map (it is redundant under the invariant). -/
def abs (s : State) : Spec := s.peers.map (fun e => ⟨e.1, e.2, (lookup e.1 s.index).getD []⟩)

/-! ### the rest of the public surface of `src/peer.rs`

`NotifyBody` and its format tag, the four `broadcast_notify_*` entry points (encode once, then
`broadcast_each`), `PeerHandle`'s forwarding methods, `PeerRegistry::{peers, is_empty, next_peer_id}`,
`CallContext`. -/

/-- `BodyFormat` discriminants (`src/constants.rs`). -/
def fmtRawBinary : Nat := 0
def fmtBeve : Nat := 1
def fmtJson : Nat := 2
def fmtUtf8 : Nat := 3

/-- `NotifyBody` (a `Utf8` body is modelled by its UTF-8 bytes). -/
inductive NotifyBody where
  | beve (b : Bytes)
  | json (b : Bytes)
  | utf8 (b : Bytes)
  | raw (b : Bytes) (fmt : Nat)
  deriving DecidableEq, Repr

/-- `NotifyBody::body_format` -/
def NotifyBody.bodyFormat : NotifyBody → Nat
  | .beve _ => fmtBeve
  | .json _ => fmtJson
  | .utf8 _ => fmtUtf8
  | .raw _ f => f

/-- `NotifyBody::as_bytes` / `into_bytes` -/
def NotifyBody.bytes : NotifyBody → Bytes
  | .beve b => b
  | .json b => b
  | .utf8 b => b
  | .raw b _ => b

/-- Which public helper is called. -/
inductive Helper where
  | json | beve | utf8 | raw (fmt : Nat)
  deriving DecidableEq, Repr

/-- The `NotifyBody` the helper's closure builds for each peer from the once-encoded bytes
(`clone_with_prefix_room` only affects the capacity of the copy, not its contents). -/
def Helper.body : Helper → Bytes → NotifyBody
  | .json, b => .json b
  | .beve, b => .beve b
  | .utf8, b => .utf8 b
  | .raw f, b => .raw b f

/-- `broadcast_notify_{json,beve,utf8,raw}`.  `encoded` is what the encoder returned
(`serde_json::to_vec(body)?` / `beve::to_vec(body)?`; the text / raw bytes themselves for `utf8` / `raw`,
which cannot fail): on an encoder error the helper returns `Err` before anything is sent. -/
def broadcastNotify (s : State) (hlp : Helper) (path : String) (encoded : Option Bytes)
    (answer : Handle → SendResult) : Option (List Delivery × List (Nat × SendResult)) :=
  match encoded with
  | none => none
  | some b => some (broadcast s path (hlp.body b).bodyFormat (hlp.body b).bytes answer)

/-- `PeerHandle::send_notify`: forwards to the sink. -/
def Handle.sendNotify (answer : Handle → SendResult) (h : Handle) (path : String) (nb : NotifyBody) :
    Delivery × SendResult :=
  (⟨h, path, nb.bodyFormat, nb.bytes⟩, answer h)

/-- `PeerHandle::is_connected`: forwards to the sink. -/
def Handle.isConnected (connected : Handle → Bool) (h : Handle) : Bool := connected h

/-- `PeerRegistry::is_empty` -/
def isEmpty (s : State) : Bool := s.peers.isEmpty

/-- `PeerRegistry::next_peer_id`: `fetch_add(1)` on the counter shared by every clone of the registry
(and adopted by every `WebSocketServer` wired to it). Returns (new counter, minted id). -/
def nextPeerId (counter : Nat) : Nat × Nat := ((counter + 1) % U64, counter)

/-- the `debug_assert!(value != PeerId::DETACHED.0)` tripwire -/
def nextPeerIdPanics (counter : Nat) (debugAssertions : Bool) : Bool :=
  debugAssertions && counter == U64 - 1

/-- `n` consecutive mints. -/
def mintN : Nat → Nat → List Nat
  | _, 0 => []
  | c, n + 1 => (nextPeerId c).2 :: mintN (nextPeerId c).1 n

/-- `CallContext` (the cancel signal is `pub(crate)`: only the WebSocket server attaches one). -/
structure CallContext where
  method : String
  peer : Option Handle
  cancel : Option Bool      -- `Some(signal)`: has the signal fired?
  deriving DecidableEq, Repr

def CallContext.new (m : String) (p : Handle) : CallContext := ⟨m, some p, none⟩
def CallContext.detached (m : String) : CallContext := ⟨m, none, none⟩
def CallContext.withCancel (m : String) (p : Handle) (fired : Bool) : CallContext := ⟨m, some p, some fired⟩

/-- `CallContext::is_cancelled`: `self.cancel.is_some_and(|c| c.is_cancelled())` -/
def CallContext.isCancelled (c : CallContext) : Bool :=
  match c.cancel with
  | some fired => fired
  | none => false

/-- Does the future returned by `CallContext::cancelled` resolve?  With no signal attached it is
`std::future::pending()`. -/
def CallContext.cancelledResolves (c : CallContext) : Bool :=
  match c.cancel with
  | some fired => fired
  | none => false

end Repe.Peers
