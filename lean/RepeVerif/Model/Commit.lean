import RepeVerif.Model.Basic
/-!
Model of the pull-to-file commit protocol of `src/value_stream.rs` (C10): the temp-file guard
(`TempFile`), `write_file`, the consumer closures of `pull_to_file_async`,
`pull_to_file_verified_async`, `pull_to_file_trailer_verified(_async)`, `TrailerHold`, `ChunkReader`
(sync) and `pull_loop_async` + `ChannelReader` (async), and `run_pull`'s "pull error before the
consumer's value".  Core Lean only: linked into `repe_model_commit`.

The stream a puller consumes is abstract (chunking / sequencing is C09's business): a *wire script* is
the list of answers the peer gives to successive `/_svs/next` calls.
-/
namespace Repe.Commit

/-! ### the two paths a pull touches -/

/-- Filesystem restricted to the two paths a pull touches: the destination and its `.svspart`
sibling (`temp_sibling`).  `none` = the path does not exist. -/
structure FS where
  dest : Option Bytes
  tmp : Option Bytes
  deriving DecidableEq, Repr

inductive Path where
  | dest | tmp
  deriving DecidableEq, Repr

/-- `Path → Option Bytes` view of the filesystem (DESIGN.md §6 C10). -/
def FS.get (fs : FS) : Path → Option Bytes
  | .dest => fs.dest
  | .tmp => fs.tmp

/-- One filesystem-level operation of a pull. -/
inductive Op where
  | create              -- `File::create(tmp)`: create or truncate the temp sibling
  | write (bs : Bytes)  -- `write_all` on the temp file's handle
  | flush               -- `File::flush` (no syscall)
  | sync                -- `File::sync_all` (fsync)
  | close               -- the handle is dropped (`self.file = None`)
  | rename              -- `fs::rename(tmp, dest)` succeeding
  | renameFail          -- `fs::rename(tmp, dest)` returning an error (no effect)
  | remove              -- `fs::remove_file(tmp)`
  deriving DecidableEq, Repr

def Op.apply (fs : FS) : Op → FS
  | .create => { fs with tmp := some [] }
  | .write bs => { fs with tmp := fs.tmp.map (· ++ bs) }
  | .flush => fs
  | .sync => fs
  | .close => fs
  | .renameFail => fs
  | .rename =>
    match fs.tmp with
    | some c => { dest := some c, tmp := none }
    | none => fs
  | .remove => { fs with tmp := none }

def runOps (fs : FS) (ops : List Op) : FS := ops.foldl Op.apply fs

/-- The process is killed after its first `k` operations. -/
def crash (k : Nat) (ops : List Op) : List Op := ops.take k

/-! ### the peer's answers to `/_svs/next` -/

inductive Resp where
  | chunk (body : Bytes) (last : Bool)  -- a chunk response; `last` = the 1-byte query is `[1]`
  | error                               -- a response with `ec ≠ 0` (producer failed, unknown stream): the call is `Err`
  | cut                                 -- the connection is closed instead of a response: the call is `Err`
  deriving DecidableEq, Repr

/-- Answers to successive `next` calls. Running off the end of the list = the peer is gone (`cut`). -/
abbrev Wire := List Resp

/-- Specification-level reading of a wire script: `some bytes` iff a `last`-flagged chunk is reached
before any error / cut; the bytes are the concatenation of the bodies up to and including it.
`lim = some n`: only the first `n` answers may be used (a `fill` that stops reading early). -/
def payloadN : Option Nat → Wire → Option Bytes
  | some 0, _ => none
  | _, [] => none
  | _, .cut :: _ => none
  | _, .error :: _ => none
  | _, .chunk b true :: _ => some b
  | lim, .chunk b false :: r => (payloadN (lim.map (· - 1)) r).map (b ++ ·)

def payload (w : Wire) : Option Bytes := payloadN none w

/-- What a reader that is read to its end has produced. -/
structure Pulled where
  bodies : List Bytes   -- the non-empty bodies handed on, in order
  ok : Bool             -- `true`: EOF reached / the pull loop returned `Ok`; `false`: a call failed
  lastSeen : Bool       -- `ChunkReader.last_seen`
  deriving DecidableEq, Repr

def nonEmpty (b : Bytes) : List Bytes := if b.isEmpty then [] else [b]

/-- `ChunkReader` read until it reports EOF or an error (`io::copy`, a decoder).  `fetch` maps a
failed call to an `io::Error`; only a `last` response sets `finished`/`last_seen`; an empty body makes
`read` loop to the next `fetch`.  `lim = some n` models a generic `fill` closure of `write_file` that
returns `Ok` after `n` fetches without reading on (no caller in the crate does; `io::copy` never). -/
def syncPullN : Option Nat → Wire → Pulled
  | some 0, _ => ⟨[], true, false⟩
  | _, [] => ⟨[], false, false⟩
  | _, .cut :: _ => ⟨[], false, false⟩
  | _, .error :: _ => ⟨[], false, false⟩
  | _, .chunk b true :: _ => ⟨nonEmpty b, true, true⟩
  | lim, .chunk b false :: r =>
    let p := syncPullN (lim.map (· - 1)) r
    ⟨nonEmpty b ++ p.bodies, p.ok, p.lastSeen⟩

/-- `pull_loop_async`: forwards every non-empty body into the channel, returns `Ok` on `last`, `Err`
when a call fails.  The channel closes when it returns, so the blocking consumer sees exactly
`bodies` followed by a clean EOF in both cases. -/
def asyncPull : Wire → Pulled
  | [] => ⟨[], false, false⟩
  | .cut :: _ => ⟨[], false, false⟩
  | .error :: _ => ⟨[], false, false⟩
  | .chunk b true :: _ => ⟨nonEmpty b, true, true⟩
  | .chunk b false :: r =>
    let p := asyncPull r
    ⟨nonEmpty b ++ p.bodies, p.ok, p.lastSeen⟩

/-! ### compression (uninterpreted) -/

inductive Comp where
  | none | zstd
  deriving DecidableEq, Repr

/-- The zstd stream decoder, uninterpreted: `dec x = some y` iff `x` is a complete frame sequence that
decodes to `y`; `part x` is what the decoder has emitted when it gives up on a truncated / corrupt `x`
(or when its source fails after `x`). -/
structure Codec where
  dec : Bytes → Option Bytes
  part : Bytes → Bytes

structure Decoded where
  writes : List Bytes
  ok : Bool

/-- Bytes reaching the consumer's writer. `srcOk = false`: the source reader returned an error after
`bodies` (sync only; the async consumer always sees a clean EOF). -/
def decodeStream (decodes : Bool) (comp : Comp) (codec : Codec) (bodies : List Bytes) (srcOk : Bool) : Decoded :=
  match decodes, comp with
  | true, .zstd =>
    if srcOk then
      match codec.dec bodies.flatten with
      | some c => ⟨[c], true⟩
      | none => ⟨[codec.part bodies.flatten], false⟩
    else ⟨[codec.part bodies.flatten], false⟩
  | _, _ => ⟨bodies, srcOk⟩

/-! ### `TrailerHold` -/

/-- `TrailerHold { hold, .. }` plus the list of `inner.write_all` calls made so far. -/
structure Hold where
  hold : Bytes
  out : List Bytes
  deriving DecidableEq, Repr

def Hold.init : Hold := ⟨[], []⟩

/-- `TrailerHold::write`, branch by branch (`n = trailer_len`). -/
def Hold.write (n : Nat) (h : Hold) (buf : Bytes) : Hold :=
  if buf.length ≥ n then
    -- flush every held byte, then `buf`'s prefix, hold `buf`'s final `n` bytes
    let out1 := if h.hold.isEmpty then h.out else h.out ++ [h.hold]
    let split := buf.length - n
    ⟨buf.drop split, out1 ++ [buf.take split]⟩
  else
    let hold' := h.hold ++ buf
    if hold'.length > n then
      let overflow := hold'.length - n
      ⟨hold'.drop overflow, h.out ++ [hold'.take overflow]⟩
    else ⟨hold', h.out⟩

def Hold.run (n : Nat) (ws : List Bytes) : Hold := ws.foldl (Hold.write n) Hold.init

/-- `into_trailer`: `Err` when fewer than `n` bytes were ever written. -/
def Hold.intoTrailer (n : Nat) (h : Hold) : Option Bytes :=
  if h.hold.length < n then none else some h.hold

/-! ### pullers as step lists -/

/-- The statements of a file puller in source order (re-extracted into `Gen.Commit`). -/
inductive Step where
  | create       -- `TempFile::create(&tmp_path)?`
  | copy         -- `io::copy(reader, file / tee / hold)?` (or `fill(..)?`)
  | intoTrailer  -- `hold.into_trailer()?`
  | checkLast    -- `if !reader.last_seen { return Err(..) }`
  | flush        -- `guard.file_mut().flush()?`
  | sync         -- `guard.file_mut().sync_all()?`
  | pullRes      -- `pull_res?` in `run_pull` (the consumer's value is looked at only afterwards)
  | verify       -- `verify(digest[, &trailer])?`
  | commit       -- `guard.commit(path)`
  deriving DecidableEq, Repr

/-- Everything the step interpreter needs to know about one execution. -/
structure Env where
  writes : List Bytes
  copyOk : Bool
  lastSeen : Bool
  trailerOk : Bool
  pullOk : Bool
  verifyOk : Bool
  renameOk : Bool
  syncOk : Bool

inductive Ret where
  | ok | err
  deriving DecidableEq, Repr

structure Run where
  ops : List Op
  ret : Ret
  deriving DecidableEq, Repr

def Run.pre (ops : List Op) (r : Run) : Run := ⟨ops ++ r.ops, r.ret⟩

/-- `Drop for TempFile`: an uncommitted guard closes and removes the temp file. -/
def cleanup (guard : Bool) : List Op := if guard then [.close, .remove] else []

/-- Run the statements in order; `guard` = an uncommitted `TempFile` is alive (dropped on every early
return). `commit` closes, renames, and on a rename error removes the temp file itself. -/
def interp (env : Env) : Bool → List Step → Run
  | g, [] => ⟨cleanup g, .ok⟩
  | _, .create :: r => (interp env true r).pre [.create]
  | g, .copy :: r =>
    if env.copyOk then (interp env g r).pre (env.writes.map .write)
    else ⟨env.writes.map .write ++ cleanup g, .err⟩
  | g, .intoTrailer :: r => if env.trailerOk then interp env g r else ⟨cleanup g, .err⟩
  | g, .checkLast :: r => if env.lastSeen then interp env g r else ⟨cleanup g, .err⟩
  | g, .flush :: r => (interp env g r).pre [.flush]
  | g, .sync :: r => if env.syncOk then (interp env g r).pre [.sync] else ⟨.sync :: cleanup g, .err⟩
  | g, .pullRes :: r => if env.pullOk then interp env g r else ⟨cleanup g, .err⟩
  | g, .verify :: r => if env.verifyOk then interp env g r else ⟨cleanup g, .err⟩
  | g, .commit :: r =>
    if env.renameOk then (interp env false r).pre (if g then [.close, .rename] else [.rename])
    else ⟨(if g then [.close] else []) ++ [.renameFail, .remove], .err⟩

inductive Puller where
  | file           -- pull_to_file              (RawFile, write_file)
  | beveZst        -- pull_to_beve_zst_file     (BeveZstdFile, write_file, raw copy)
  | beve           -- pull_to_beve_file         (BeveFile, write_file, decompress)
  | trailer        -- pull_to_file_trailer_verified        (pull_consume)
  | fileAsync      -- pull_to_file_async
  | verifiedAsync  -- pull_to_file_verified_async
  | trailerAsync   -- pull_to_file_trailer_verified_async
  deriving DecidableEq, Repr

namespace Puller
def isAsync : Puller → Bool
  | fileAsync | verifiedAsync | trailerAsync => true
  | _ => false
def usesWriteFile : Puller → Bool
  | file | beveZst | beve => true
  | _ => false
def decodes : Puller → Bool
  | beveZst => false
  | _ => true
def hasTrailer : Puller → Bool
  | trailer | trailerAsync => true
  | _ => false
def verifies : Puller → Bool
  | trailer | verifiedAsync | trailerAsync => true
  | _ => false
end Puller

/-- The step lists of the five code shapes (all `write_file` pullers share one). -/
structure StepFacts where
  writeFile : List Step
  trailerSync : List Step
  fileAsync : List Step
  verifiedAsync : List Step
  trailerAsync : List Step
  deriving DecidableEq, Repr

def StepFacts.of (f : StepFacts) : Puller → List Step
  | .file | .beveZst | .beve => f.writeFile
  | .trailer => f.trailerSync
  | .fileAsync => f.fileAsync
  | .verifiedAsync => f.verifiedAsync
  | .trailerAsync => f.trailerAsync

/-- One fault script. -/
structure Script where
  openOk : Bool         -- `/_svs/open` answered with a well-formed response (else: error / cut / bad tags)
  comp : Comp           -- `compression` tag of the open response
  beve : Bool           -- `format` tag is BEVE
  wire : Wire
  stop : Option Nat     -- see `syncPullN` (consulted by the `write_file` pullers only)
  verifyOk : Bool       -- what the caller's `verify` returns
  trailer : Nat         -- `trailer_len`
  renameOk : Bool       -- `fs::rename` succeeds (OS; fails e.g. when `dest` is a non-empty directory)
  writeFault : Option Nat := none
    -- `some k`: the file system accepts `k` bytes in the temp file and refuses the next one (ENOSPC,
    -- EFBIG, EDQUOT …): a write crossing byte `k` is cut short there and the following `write` is an error
  syncOk : Bool := true -- `sync_all` succeeds (`false`: fsync reports EIO / ENOSPC / EINVAL …)
  createOk : Bool := true
    -- `File::create(temp)` succeeds (`false`: the destination's parent directory is missing, not
    -- writable, … — `TempFile::create(..)?` is the first statement that touches the file system)
  deriving DecidableEq, Repr

/-- `check_output`: the `.beve.zst` output needs a zstd stream, the `.beve` output a zstd BEVE stream;
the other pullers accept any tags. -/
def tagsOk (p : Puller) (s : Script) : Bool :=
  match p with
  | .beveZst => s.comp == .zstd
  | .beve => s.comp == .zstd && s.beve
  | _ => true

/-- Everything that must hold before the first write: compatible tags and a creatable temp file. -/
def preOk (p : Puller) (s : Script) : Bool := tagsOk p s && s.createOk

def pulled (p : Puller) (s : Script) : Pulled :=
  if p.isAsync then asyncPull s.wire
  else syncPullN (if p.usesWriteFile then s.stop else none) s.wire

def decoded (p : Puller) (s : Script) (codec : Codec) : Decoded :=
  let pl := pulled p s
  decodeStream p.decodes s.comp codec pl.bodies (p.isAsync || pl.ok)

/-- The writes that reach a temp file which takes at most `k` bytes (`write_all`: a short write at the
limit, then the error), and whether all of them went through. -/
def limitWrites : Option Nat → List Bytes → List Bytes × Bool
  | none, ws => (ws, true)
  | some _, [] => ([], true)
  | some k, w :: r =>
    if w.length ≤ k then
      let x := limitWrites (some (k - w.length)) r
      (w :: x.1, x.2)
    else ([w.take k], false)

/-- `some c` iff a file of `c`'s length is accepted. -/
def fit (lim : Option Nat) (c : Bytes) : Option Bytes :=
  match lim with
  | none => some c
  | some k => if c.length ≤ k then some c else none

/-- The environment when the file system accepts every write. -/
def envOf0 (p : Puller) (s : Script) (codec : Codec) : Env :=
  let pl := pulled p s
  let d := decoded p s codec
  let h := Hold.run s.trailer d.writes
  { writes := if p.hasTrailer then h.out else d.writes,
    copyOk := d.ok,
    lastSeen := pl.lastSeen,
    trailerOk := (Hold.intoTrailer s.trailer h).isSome,
    pullOk := pl.ok,
    verifyOk := s.verifyOk,
    renameOk := s.renameOk,
    syncOk := s.syncOk }

/-- … and with the write fault of the script: the copy stops at the refused write with an error
(whatever adapter — `File`, `TeeWriter`, `TrailerHold` — sits in between forwards it). -/
def envOf (p : Puller) (s : Script) (codec : Codec) : Env :=
  let e := envOf0 p s codec
  let x := limitWrites s.writeFault e.writes
  { e with writes := x.1, copyOk := e.copyOk && x.2 }

/-- A pull-to-file call: nothing touches the filesystem unless `open` succeeded and the output is
compatible with the stream's tags. -/
def run (f : StepFacts) (p : Puller) (s : Script) (codec : Codec) : Run :=
  if s.openOk && preOk p s then interp (envOf p s codec) false (f.of p) else ⟨[], .err⟩

/-- Specification: the content a pull must publish — `none` for every failing script (open failed,
incompatible tags, no `last` chunk reached, undecodable stream, stream shorter than the trailer,
verification rejected, rename refused, a write or the fsync refused by the file system). -/
def expected (p : Puller) (s : Script) (codec : Codec) : Option Bytes :=
  if s.openOk && preOk p s && (!p.verifies || s.verifyOk) && s.renameOk && s.syncOk then
    match payloadN (if p.usesWriteFile then s.stop else none) s.wire with
    | none => none
    | some wb =>
      match (if p.decodes && s.comp == .zstd then codec.dec wb else some wb) with
      | none => none
      | some lg =>
        if p.hasTrailer then
          if s.trailer ≤ lg.length then fit s.writeFault (lg.take (lg.length - s.trailer)) else none
        else fit s.writeFault lg
  else none

/-- Deterministic filler bytes for large bodies on the line protocol (`g<seed>.<len>`). -/
def genBytes (seed len : Nat) : Bytes :=
  (List.range len).map fun i => UInt8.ofNat ((i / 61) * 37 + seed + i % 7)

/-! ### which paths a pull touches: `temp_sibling` -/

/-- A destination as `Path::with_file_name` sees it: the parent directory and the final component
(as characters: only concatenation and equality matter). -/
structure FPath where
  dir : List String
  name : List Char
  deriving DecidableEq, Repr

/-- `temp_sibling`: `name.push(suffix); final_path.with_file_name(name)` — the suffix is *appended* to the
whole file name (extension included), in the same directory. -/
def tempSibling (suffix : List Char) (p : FPath) : FPath := ⟨p.dir, p.name ++ suffix⟩

/-- A file system over all paths. -/
abbrev World := FPath → Option Bytes

def World.set (w : World) (p : FPath) (v : Option Bytes) : World := fun q => if q = p then v else w q

/-- The two-path view of a world for a pull to `d`. -/
def World.view (w : World) (suffix : List Char) (d : FPath) : FS := ⟨w d, w (tempSibling suffix d)⟩

/-- One operation of a pull to `d`, on the whole world. -/
def Op.applyAt (suffix : List Char) (d : FPath) (w : World) : Op → World
  | .create => w.set (tempSibling suffix d) (some [])
  | .write bs => w.set (tempSibling suffix d) ((w (tempSibling suffix d)).map (· ++ bs))
  | .flush => w
  | .sync => w
  | .close => w
  | .renameFail => w
  | .rename =>
    match w (tempSibling suffix d) with
    | some c => (w.set d (some c)).set (tempSibling suffix d) none
    | none => w
  | .remove => w.set (tempSibling suffix d) none

def runOpsAt (suffix : List Char) (d : FPath) (w : World) (ops : List Op) : World :=
  ops.foldl (Op.applyAt suffix d) w

/-! ### value-decoding pulls -/

/-- A streaming value decoder, uninterpreted: `early acc` = the value is complete after the bytes
`acc` (it stops reading); `atEof acc` = what it returns when its reader reports EOF after `acc`
(for a sound decoder `none` on a short input — the theorems do not assume that). -/
structure Decoder (V : Type) where
  early : Bytes → Option V
  atEof : Bytes → Option V

/-- Feed bodies one by one; stop at the first prefix that completes the value. -/
def feed {V} (d : Decoder V) : Bytes → List Bytes → Option V × Bytes
  | acc, [] => (none, acc)
  | acc, b :: r =>
    match d.early (acc ++ b) with
    | some v => (some v, acc ++ b)
    | none => feed d (acc ++ b) r

/-- `pull_value` (sync): the decoder reads the `ChunkReader`; a failed `fetch` is a read error, which
the decoder returns. -/
def valueSync {V} (d : Decoder V) (w : Wire) : Option V :=
  let p := syncPullN none w
  match feed d [] p.bodies with
  | (some v, _) => some v
  | (none, acc) => if p.ok then d.atEof acc else none

/-- `pull_value_async` through `run_pull`.  The consumer sees `bodies` then a clean EOF whatever
happened to the pull.  `notice`: the consumer finished early *and* the pull loop noticed the closed
channel before reaching the end of the script (schedule-dependent).  `pullFirst` = `pull_res?`
precedes the match on the consumer's result (`Gen.Commit.pullResFirst`). -/
def valueAsync {V} (pullFirst : Bool) (d : Decoder V) (notice : Bool) (w : Wire) : Option V :=
  let p := asyncPull w
  let (early, acc) := feed d [] p.bodies
  let consumer := match early with
    | some v => some v
    | none => d.atEof acc
  let pullOk := p.ok || (early.isSome && notice)
  if pullFirst then (if pullOk then consumer else none) else consumer

/-! ### syscall-trace conformance (the protocol word the theorems are about) -/

/-- Normalised syscall on the two paths. -/
inductive Sys where
  | openTmp           -- openat(tmp, O_CREAT|O_TRUNC)
  | writeTmp (n : Nat)
  | fsyncTmp
  | closeTmp
  | renameTD          -- rename(tmp, dest)
  | renameTDFail
  | unlinkTmp
  | touchDest         -- anything else naming `dest` (open, write through an fd of it, unlink, rename from it …)
  deriving DecidableEq, Repr

/-- Acceptor state: is the temp file open, has it been written since the last fsync. -/
structure TState where
  opened : Bool := false
  dirty : Bool := true
  renamed : Bool := false

/-- The commit protocol: nothing but `rename` touches `dest`; a `rename` happens at most once, with
the temp file created, and with an `fsync` after its last `write`. Returns the position of the first
offending call. -/
def protoCheck : TState → Nat → List Sys → Option Nat
  | _, _, [] => none
  | st, i, c :: r =>
    match c with
    | .touchDest => some i
    | .openTmp => if st.renamed then some i else protoCheck { st with opened := true, dirty := false } (i+1) r
    | .writeTmp _ => if st.opened && !st.renamed then protoCheck { st with dirty := true } (i+1) r else some i
    | .fsyncTmp => protoCheck { st with dirty := false } (i+1) r
    | .closeTmp => protoCheck st (i+1) r
    | .renameTD => if st.opened && !st.dirty && !st.renamed then protoCheck { st with renamed := true } (i+1) r else some i
    | .renameTDFail => protoCheck st (i+1) r
    | .unlinkTmp => protoCheck st (i+1) r

def protoOk (t : List Sys) : Bool := (protoCheck {} 0 t).isNone

/-- The syscalls an op list makes: `flush` is not a syscall; consecutive writes are merged (std's
`io::copy` cuts them at its 8 KiB buffer, which the model does not track); empty writes vanish. -/
def sysOf : List Op → Nat → List Sys
  | [], pend => if pend > 0 then [.writeTmp pend] else []
  | .write bs :: r, pend => sysOf r (pend + bs.length)
  | .flush :: r, pend => sysOf r pend
  | o :: r, pend =>
    (if pend > 0 then [.writeTmp pend] else []) ++
    (match o with
      | .create => [.openTmp]
      | .sync => [.fsyncTmp]
      | .close => [.closeTmp]
      | .rename => [.renameTD]
      | .renameFail => [.renameTDFail]
      | .remove => [.unlinkTmp]
      | _ => []) ++ sysOf r 0

/-- FNV-1a 64 (content digests on the line protocol). -/
def fnv (bs : Bytes) : Nat :=
  bs.foldl (fun h b => ((h ^^^ b.toNat) * 0x100000001b3) % 2^64) 0xcbf29ce484222325

end Repe.Commit
