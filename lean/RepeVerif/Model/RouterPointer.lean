/-
JSON-pointer tokenisers used by the router's struct mounts (C07).

* `jsonPointerParse`  = `src/json_pointer.rs::parse` (strip one '/', split on '/', then
  `replace("~1","/")` followed by `replace("~0","~")`, each a left-to-right non-overlapping scan),
* `dispatchSegments`  = the tokenisation inside `src/server.rs::dispatch_struct_segments`
  (escape-free fast path with a fixed stack array of `STACK_SEGS` slots that spills into a `Vec`,
  escape path through `json_pointer::parse`),
* `rfc6901`           = the specification: split on '/', unescape every reference token by one
  left-to-right scan (`~0` ↦ `~`, `~1` ↦ `/`).

Strings are `List Char` (DESIGN §5): only ASCII '/' and '~' are ever inspected, so the byte- and
char-level splits coincide.  Core Lean only: linked into `repe_model_router`.
-/
namespace Repe.Router

abbrev Str := List Char

/-! ### `str::split('/')` -/

/-- `s.split('/')`: always at least one piece; `"".split('/') = [""]`. -/
def splitSlash : Str → List Str
  | [] => [[]]
  | c :: r =>
    if c = '/' then [] :: splitSlash r
    else match splitSlash r with
      | t :: ts => (c :: t) :: ts
      | [] => [[c]]

/-! ### `str::replace` with a two-character pattern and a one-character replacement -/

/-- `s.replace("ab", "t")`: left-to-right, non-overlapping. -/
def replace2 (a b to : Char) : Str → Str
  | [] => []
  | [x] => [x]
  | x :: y :: rest =>
    if x = a ∧ y = b then to :: replace2 a b to rest
    else x :: replace2 a b to (y :: rest)

/-- `t.replace("~1", "/").replace("~0", "~")` -/
def replace01 (t : Str) : Str := replace2 '~' '0' '~' (replace2 '~' '1' '/' t)

/-- RFC 6901 §4 unescape as one left-to-right scan. -/
def unesc : Str → Str
  | [] => []
  | '~' :: '0' :: r => '~' :: unesc r
  | '~' :: '1' :: r => '/' :: unesc r
  | c :: r => c :: unesc r

/-- Every `~` is followed by `0` or `1` (RFC 6901 grammar of `escaped`).  '/' is an ordinary
character here, so the predicate can be stated on a whole pointer as well as on one token. -/
inductive EscWF : Str → Prop
  | nil : EscWF []
  | plain (c r) : c ≠ '~' → EscWF r → EscWF (c :: r)
  | e0 (r) : EscWF r → EscWF ('~' :: '0' :: r)
  | e1 (r) : EscWF r → EscWF ('~' :: '1' :: r)

/-- Decidable twin of `EscWF` for drivers, generators and `decide`d examples. -/
def escWF : Str → Bool
  | [] => true
  | '~' :: '0' :: r => escWF r
  | '~' :: '1' :: r => escWF r
  | c :: r => c != '~' && escWF r

/-! ### `json_pointer::parse` -/

/-- `s.strip_prefix('/').unwrap_or(s)` -/
def stripSlash : Str → Str
  | [] => []
  | c :: r => if c = '/' then r else c :: r

def jsonPointerParse (ptr : Str) : List Str :=
  if ptr.isEmpty then [] else (splitSlash (stripSlash ptr)).map replace01

/-! ### specification -/

/-- Reference tokens of a JSON pointer: `""` has none; otherwise drop the leading '/', split on
'/', unescape every token.  (A non-empty string without leading '/' is not a JSON pointer; like
every lenient implementation we read it as if the '/' were there – it only arises for a struct
mounted at the empty root and a request path without leading '/'.) -/
def rfc6901 (ptr : Str) : List Str :=
  match ptr with
  | [] => []
  | '/' :: r => (splitSlash r).map unesc
  | s => (splitSlash s).map unesc

/-! ### `dispatch_struct_segments` -/

structure SplitState where
  stack : List Str            -- the `[&str; STACK_SEGS]` array
  count : Nat
  overflow : Option (List Str)
  deriving Repr

/-- One iteration of the `for seg in trimmed.split('/')` loop. -/
def SplitState.push (stackSegs : Nat) (st : SplitState) (seg : Str) : SplitState :=
  match st.overflow with
  | some v => { st with overflow := some (v ++ [seg]) }
  | none =>
    if st.count < stackSegs then
      { st with stack := st.stack.set st.count seg, count := st.count + 1 }
    else
      -- `v.extend_from_slice(&stack); v.push(seg)`: the WHOLE array is copied
      { st with overflow := some (st.stack ++ [seg]) }

def SplitState.result (st : SplitState) : List Str :=
  match st.overflow with
  | some v => v
  | none => st.stack.take st.count

def splitFast (stackSegs : Nat) (trimmed : Str) : List Str :=
  ((splitSlash trimmed).foldl (SplitState.push stackSegs)
    ⟨List.replicate stackSegs [], 0, none⟩).result

/-- The segments `dispatch_struct_segments` hands to `RepeStruct::repe_handle`. -/
def dispatchSegments (stackSegs : Nat) (rel : Str) : List Str :=
  if !rel.contains '~' then
    if rel.isEmpty then []
    else if rel = ['/'] then [[]]
    else splitFast stackSegs (stripSlash rel)
  else jsonPointerParse rel

end Repe.Router
