import RepeVerif.Model.Basic
/-!
Executable model of `TransferControl` (src/stream.rs): credit window, ACK accounting, cancel flag,
replay ring, peer slot, pending resume.  Core Lean only (linked into `repe_model_transfer`).

Every public method of `TransferControl` takes the one mutex for its whole body, so every method is
one atomic step and "every interleaving of the producer and the inbound handlers" is "every sequence
of ops".  The two waits are modelled with an already-expired deadline / zero timeout: one pass
through the loop body (cancel test, predicate test, deadline test) and return.  Blocking and
wake-ups are property C12, not modelled here.

Panics are outcomes.  All three panic sites below are reached with the mutex held, so the mutex is
poisoned and every later method call (each starts with `lock().expect(..)`) panics: `poisoned`.
`OvMode.checks` stands for the dev profile (overflow-checks *and* debug assertions on),
`OvMode.wraps` for the release profile (both off).
-/
namespace Repe.Transfer

/-- Forms re-extracted from the source by extract/transfer.py (Gen/Transfer.lean). -/
structure Facts where
  /-- `in_flight == 0 ||` is present in the credit predicate (the oversized-chunk clause) -/
  creditZero : Bool
  /-- form of the sum `in_flight + chunk_len` -/
  creditAdd : SumForm
  /-- comparison with the window is `<=` (false: `<`) -/
  creditLe : Bool
  /-- `record_ack` tests `file_index == current_file_index` -/
  ackFileTest : Bool
  /-- `record_ack` caps the offset with `.min(sent_offset)` -/
  ackCap : Bool
  /-- `capped > acked_offset` (false: `>=`) -/
  ackStrict : Bool
  /-- eviction loop guard: `bytes_held > capacity_bytes` (false: `>=`) -/
  evictHeldGt : Bool
  /-- eviction loop guard: `&& chunks.len() > 1` -/
  evictKeepOne : Bool
  /-- form of `c.offset + c.data_len` in `highest_end_offset` -/
  edgeAdd : SumForm
  /-- `request_resume`'s implicit ACK is guarded by `&& last_received_offset <= sent_offset` -/
  resumeCap : Bool
  /-- `wait_for_reconnect` tests `cancelled` before it takes the pending resume -/
  reconnCancelFirst : Bool
  /-- `advance_to_file` unconditionally sets `pending_resume = None` (anything else, e.g. a conditional
  drop, is read pessimistically: the pending resume survives) -/
  advanceDropsPending : Bool
  /-- `advance_to_file` does not touch `cancelled` (if it mentions it, pessimistically: it clears it) -/
  advanceKeepsCancel : Bool
  /-- `cancel` writes the reason only under `if guard.cancelled.is_none()` (any other guard — a test on the
  stored string, no guard — is read pessimistically: a later `cancel` replaces the stored reason) -/
  cancelFirstWins : Bool
  deriving DecidableEq, Repr

structure Chunk where
  offset : Nat
  dataLen : Nat
  last : Bool
  /-- the wire body, verbatim (`body_bytes`); its length is the wire length the ring budgets -/
  body : Bytes
  deriving DecidableEq, Repr

def Chunk.wireLen (c : Chunk) : Nat := c.body.length

structure State where
  window : Nat
  capacity : Nat
  sent : Nat := 0
  acked : Nat := 0
  file : Nat := 0
  cancelled : Option Nat := none
  chunks : List Chunk := []
  bytesHeld : Nat := 0
  peer : Option Nat := none
  pending : Option Nat := none
  poisoned : Bool := false
  deriving DecidableEq, Repr

/-- `TransferControl::with_replay_capacity(window, capacity)` -/
def init (window capacity : Nat) : State := { window := window, capacity := capacity }

inductive Op where
  | recordSent (off : Nat)
  | recordAck (file off : Nat)
  | cancel (reason : Nat)
  | advance (file : Nat)
  | requestResume (peer file off : Nat)
  | waitCredit (len : Nat)
  | waitReconnect
  | pushReplay (off dlen : Nat) (last : Bool) (body : Bytes)
  | replayFrom (off : Nat)
  | setPeer (peer : Nat)
  deriving DecidableEq, Repr

inductive Ret where
  | unit
  | creditOk | creditCancelled (r : Nat) | creditTimeout
  | reconnResume (off : Nat) | reconnCancelled (r : Nat) | reconnTimeout
  | resumeOk (off : Nat) | resumeWrongFile (req cur : Nat) | resumeOutOfWindow | resumeCancelled
  | chunks (cs : List Chunk)
  | panic
  deriving DecidableEq, Repr

/-- `sent_offset.saturating_sub(acked_offset)` (truncated subtraction on `Nat`). -/
def inFlight (s : State) : Nat := s.sent - s.acked

/-- `in_flight == 0 || in_flight + chunk_len <= window` with the extracted forms.
`||` short-circuits: the sum is formed only when `in_flight ≠ 0`. -/
def creditFits (f : Facts) (m : OvMode) (infl len window : Nat) : Outcome Unit Bool :=
  if f.creditZero && infl == 0 then .ok true
  else match addU64 f.creditAdd m infl len with
    | .ok (some t) => .ok (if f.creditLe then decide (t ≤ window) else decide (t < window))
    | .ok none => .ok false
    | .err e => .err e
    | .panic => .panic
    | .abort => .abort

/-- `self.bytes_held > self.capacity_bytes && self.chunks.len() > 1` with the extracted forms. -/
def evictGuard (f : Facts) (held cap len : Nat) : Bool :=
  (if f.evictHeldGt then decide (held > cap) else decide (held ≥ cap)) && (!f.evictKeepOne || decide (len > 1))

/-- The eviction loop of `ReplayRing::push`: pop from the front while the guard holds. -/
def evict (f : Facts) (cap : Nat) : List Chunk → Nat → List Chunk × Nat
  | [], held => ([], held)
  | c :: cs, held =>
    if evictGuard f held cap (cs.length + 1) then evict f cap cs (held - c.wireLen)
    else (c :: cs, held)

/-- `received_through_offset.min(sent_offset)` (or no cap) -/
def ackCapped (f : Facts) (off sent : Nat) : Nat := if f.ackCap then min off sent else off

/-- `capped > acked_offset` (or `>=`) -/
def ackAdvances (f : Facts) (capped acked : Nat) : Bool :=
  if f.ackStrict then decide (capped > acked) else decide (capped ≥ acked)

/-- `u64::saturating_add` -/
def satAdd (a b : Nat) : Nat := if a + b < U64 then a + b else U64 - 1

/-- the guard of `request_resume`'s implicit ACK: `off > acked && off <= sent` (or without the cap) -/
def resumeBumps (f : Facts) (off acked sent : Nat) : Bool :=
  decide (off > acked) && (!f.resumeCap || decide (off ≤ sent))

/-- The `debug_assert!` at the top of `ReplayRing::push` (dev profile only): the new chunk must abut
the last one; the assertion's own `c.offset + c.data_len` is an unchecked add. `true` = passes. -/
def pushAssertOk (m : OvMode) (chunks : List Chunk) (off : Nat) : Bool :=
  match m with
  | .wraps => true
  | .checks =>
    match chunks.getLast? with
    | none => true
    | some c => decide (c.offset + c.dataLen < U64) && decide (off = c.offset + c.dataLen)

/-- `ReplayRing::covers`. The chunk scan comes first; `highest_end_offset` (with its add) is only
evaluated when no chunk starts at `off`. -/
def covers (f : Facts) (m : OvMode) (chunks : List Chunk) (off : Nat) : Outcome Unit Bool :=
  match chunks.getLast? with
  | none => .ok (off == 0)
  | some c =>
    if chunks.any (fun c => c.offset == off) then .ok true
    else match addU64 f.edgeAdd m c.offset c.dataLen with
      | .ok (some e) => .ok (e == off)
      | .ok none => .ok false
      | .err e => .err e
      | .panic => .panic
      | .abort => .abort

/-- `ReplayRing::replay_from` -/
def replayFrom (chunks : List Chunk) (off : Nat) : List Chunk := chunks.filter (fun c => decide (c.offset ≥ off))

def poison (s : State) : State × Ret := ({ s with poisoned := true }, .panic)

/-- One public method call of `TransferControl` (one lock region). -/
def step (f : Facts) (m : OvMode) (s : State) (op : Op) : State × Ret :=
  if s.poisoned then (s, .panic) else
  match op with
  | .recordSent off =>
    (if off > s.sent then { s with sent := off } else s, .unit)
  | .recordAck file off =>
    if !f.ackFileTest || file == s.file then
      if ackAdvances f (ackCapped f off s.sent) s.acked then
        ({ s with acked := ackCapped f off s.sent }, .unit)
      else (s, .unit)
    else (s, .unit)
  | .cancel r =>
    (match s.cancelled with
     | none => { s with cancelled := some r }
     | some _ => if f.cancelFirstWins then s else { s with cancelled := some r }, .unit)
  | .advance n =>
    ({ s with file := n, sent := 0, acked := 0, chunks := [], bytesHeld := 0,
              pending := if f.advanceDropsPending then none else s.pending,
              cancelled := if f.advanceKeepsCancel then s.cancelled else none }, .unit)
  | .requestResume p file off =>
    match s.cancelled with
    | some _ => (s, .resumeCancelled)
    | none =>
      if file != s.file then (s, .resumeWrongFile file s.file)
      else match covers f m s.chunks off with
        | .ok true =>
          let s1 := { s with peer := some p, pending := some off }
          (if resumeBumps f off s.acked s.sent then { s1 with acked := off } else s1, .resumeOk off)
        | .ok false => (s, .resumeOutOfWindow)
        | _ => poison s
  | .waitCredit len =>
    match s.cancelled with
    | some r => (s, .creditCancelled r)
    | none =>
      match creditFits f m (inFlight s) len s.window with
      | .ok true => (s, .creditOk)
      | .ok false => (s, .creditTimeout)
      | _ => poison s
  | .waitReconnect =>
    if f.reconnCancelFirst then
      match s.cancelled with
      | some r => (s, .reconnCancelled r)
      | none =>
        match s.pending with
        | some o => ({ s with pending := none }, .reconnResume o)
        | none => (s, .reconnTimeout)
    else
      match s.pending with
      | some o => ({ s with pending := none }, .reconnResume o)
      | none =>
        match s.cancelled with
        | some r => (s, .reconnCancelled r)
        | none => (s, .reconnTimeout)
  | .pushReplay off dlen last body =>
    if pushAssertOk m s.chunks off then
      let (cs, held) := evict f s.capacity (s.chunks ++ [⟨off, dlen, last, body⟩]) (satAdd s.bytesHeld body.length)
      ({ s with chunks := cs, bytesHeld := held }, .unit)
    else poison s
  | .replayFrom off => (s, .chunks (replayFrom s.chunks off))
  | .setPeer p => ({ s with peer := some p }, .unit)

/-! ### idle watchdog (`spawn_watchdog` / `watchdog_loop`) and its inputs

Time is not modelled: whether `now - max(last_chunk_at, last_ack_at) >= idle_timeout` holds at a tick is the
environment's boolean `idle`. What *is* modelled is which calls refresh which of the two time stamps, and what
a watchdog visit can do to a transfer. -/

/-- `(refreshes last_chunk_at, refreshes last_ack_at)` of one call, given what it returned. -/
def stampEffect : Op → Ret → Bool × Bool
  | _, .panic => (false, false)
  | .recordSent _, _ => (true, false)
  | .recordAck _ _, _ => (false, true)
  | .advance _, _ => (true, true)
  | .requestResume _ _ _, .resumeOk _ => (true, true)
  | _, _ => (false, false)

/-! Cancel reasons are opaque values: the model never inspects one, it only stores the first and hands it
back (`step` is parametric in them — `Props/C11.lean`, `reasons_opaque`). A reason is a `Nat` token per
distinct string; token `k < 10^9+7` stands for the string `r<k>`, and the harness's table of edge strings is: -/

/-- the reason string the watchdog passes to `cancel` ("transfer idle"), as a reason token -/
def idleReason : Nat := 1000000007
/-- the empty string `""` (a wire cancel without a `reason`) -/
def emptyReason : Nat := 1000000008
/-- blanks only: `" \t\n"` -/
def blankReason : Nat := 1000000009
/-- 65537 times `x` -/
def longReason : Nat := 1000000010
/-- non-ASCII, including a 4-byte scalar: `"отмена ✂ 取消 🛑"` -/
def unicodeReason : Nat := 1000000011
/-- a single NUL -/
def nulReason : Nat := 1000000012
/-- `" Transfer Idle "`: the watchdog's reason up to case and surrounding blanks -/
def paddedIdleReason : Nat := 1000000013
/-- the edge reasons, in the order of the harness's `EDGE_REASONS` -/
def edgeReasons : List Nat :=
  [idleReason, emptyReason, blankReason, longReason, unicodeReason, nulReason, paddedIdleReason]

/-- What the watchdog does with one transfer of its snapshot at one tick: `is_cancelled()` → skip; otherwise
read the time stamps and, if the environment says the transfer is idle, call `cancel("transfer idle")`.
These are separate lock regions of `TransferControl`, so the visit contributes this program (reads omitted:
they change nothing) to the interleaving. `sawCancelled` is what its `is_cancelled()` read returned. -/
def watchdogVisit (sawCancelled idle : Bool) : List Op :=
  if sawCancelled then [] else if idle then [.cancel idleReason] else []

/-- A history: the ops in the order the mutex serialised them. -/
def run (f : Facts) (m : OvMode) (s : State) : List Op → State
  | [] => s
  | op :: ops => run f m (step f m s op).1 ops

end Repe.Transfer
