import RepeVerif.Model.Wire
/-
Model of request dispatch: `src/server_request.rs` (`route`, `route_request_view`, `dispatch_view`,
`dispatch`), the response construction helpers of `src/message.rs`, and the four dispatch paths
(blocking TCP `server.rs::handle_connection`, async TCP `async_server.rs::handle_connection`,
WebSocket inline and off-reader `websocket_server.rs::reader_task` / `spawn_off_reader`).
Handler bodies are parameters: a handler's result on a request is an `HOut`.
-/
namespace Repe

/-- Error codes as numbers (`ErrorCode` discriminants). -/
structure Codes where
  ok : Nat
  versionMismatch : Nat
  invalidHeader : Nat
  invalidQuery : Nat
  invalidBody : Nat
  parseError : Nat
  methodNotFound : Nat
  timeout : Nat
  resourceExhausted : Nat
  internalError : Nat
  deriving DecidableEq, Repr

/-- REPE v1 error codes, from the specification. -/
def specCodes : Codes := ⟨0, 1, 2, 3, 4, 5, 6, 7, 8, 9⟩

/-- The checks `route` performs, in source order. -/
inductive RouteCheck where
  | version | queryFormat | utf8 | lookup
  deriving DecidableEq, Repr

def specRouteOrder : List RouteCheck := [.version, .queryFormat, .utf8, .lookup]

structure Req where
  header : Header
  query : Bytes
  body : Bytes
  deriving DecidableEq, Repr

def Req.isNotify (r : Req) : Bool := r.header.notify == 1

/-- What a handler returned: a response message of its own making, or an error
(`RepeError::to_error_code()` and `to_string()` of it). -/
inductive HOut where
  | ok (m : Message)
  | err (code : Nat) (msg : Bytes)
  deriving DecidableEq, Repr

def BODY_UTF8 : Nat := 3
def QUERY_JSON_POINTER : Nat := 1

/-- `create_error_message(code, msg)`: builder with `error_code`, UTF-8 body, id 0, no query. -/
def createErrorMessage (code : Nat) (msg : Bytes) : Message :=
  (Builder.mk 0 false code 0 BODY_UTF8 [] msg).build

/-- `create_error_response_unstamped_view`: error message carrying the request id, no query. -/
def errorUnstamped (req : Req) (code : Nat) (msg : Bytes) : Message :=
  let e := createErrorMessage code msg
  { e with header := { e.header with id := req.header.id } }

/-- `create_error_response_like`: same, with the request query copied in and lengths patched. -/
def errorLike (req : Req) (code : Nat) (msg : Bytes) : Message :=
  let e := errorUnstamped req code msg
  { header := { e.header with queryLength := req.query.length,
                              length := 48 + req.query.length + e.header.bodyLength }
    query := req.query, body := e.body }

/-- `response_header_builder(id, query_format)` + a body: what every built-in handler's success path
(`create_response_unstamped*`, `create_typed_slice_response_unstamped*`) returns — the request's id, the request's
query format if it is a known one (else raw binary), `ec = Ok`, no query (the writer echoes it). -/
def builtinResponse (req : Req) (bodyFormat : Nat) (body : Bytes) : Message :=
  (Builder.mk req.header.id false 0 (if req.header.queryFormat ≤ 1 then req.header.queryFormat else 0)
    bodyFormat [] body).build

inductive RouteOutcome where
  | reject (code : Nat)
  | dispatch
  deriving DecidableEq, Repr

/-- `route`: validate the envelope, then look the handler up. `utf8` = the query is valid UTF-8,
`found` = `router.get(path)` is `Some`. Unknown query-format codes fall to raw-binary. -/
def route (c : Codes) (req : Req) (utf8 found : Bool) : RouteOutcome :=
  if req.header.version ≠ REPE_VERSION then .reject c.versionMismatch
  else if req.header.queryFormat = QUERY_JSON_POINTER then
    if ¬ utf8 then .reject c.invalidQuery
    else if found then .dispatch else .reject c.methodNotFound
  else .reject c.invalidQuery

inductive Transport where
  | tcp | atcp | wsInline | wsOff
  deriving DecidableEq, Repr

/-- Async server's `write_view_response`: patches `query_length` and `length` (not `body_length`). -/
def asyncFrameMsg (resp : Message) (q : Bytes) : Message :=
  { header := { resp.header with queryLength := q.length,
                                 length := 48 + q.length + resp.header.bodyLength }
    query := q, body := resp.body }

/-- The message whose `to_vec` each transport puts on the wire for a query-less-or-not response. -/
def finalMessage (t : Transport) (resp : Message) (reqQuery : Bytes) : Message :=
  match t with
  | .tcp =>
    let q := responseEchoQuery resp reqQuery
    ⟨resp.header.patchLengths q.length resp.body.length, q, resp.body⟩
  | .atcp => asyncFrameMsg resp (responseEchoQuery resp reqQuery)
  | .wsInline => stampResponseQuery resp reqQuery
  | .wsOff => stampResponseQuery resp reqQuery

/-- Bytes actually written by each transport (what the code does, route by route). -/
def wireBytes (t : Transport) (resp : Message) (reqQuery : Bytes) (cap : Nat) : Bytes :=
  match t with
  | .tcp => serverFrame resp reqQuery
  | .atcp =>
    let q := responseEchoQuery resp reqQuery
    (asyncFrameMsg resp q).header.encode ++ (if q.isEmpty then [] else q) ++
      (if resp.body.isEmpty then [] else resp.body)
  | .wsInline => (stampResponseQuery resp reqQuery).intoWireBytes cap
  | .wsOff => (stampResponseQuery resp reqQuery).intoWireBytes cap

/-- Response (if any) to one request on transport `t`, and how many times the handler ran.
`hview` is the handler's result on the borrowed path, `howned` on the owned path (off-reader). -/
def respond (c : Codes) (t : Transport) (req : Req) (utf8 found : Bool) (hview howned : HOut)
    (rejMsg : Bytes := []) : Option Message × Nat :=
  match route c req utf8 found with
  | .reject code =>
    -- `rejMsg` is the server's message text for the rejection (not modelled; observations elide error bodies)
    (if req.isNotify then none else some (finalMessage t (errorUnstamped req code rejMsg) req.query), 0)
  | .dispatch =>
    if req.isNotify then (none, 1)
    else
      let resp := match t with
        | .wsOff => (match howned with
            | .ok m => m
            | .err code msg => errorLike req code msg)
        | _ => (match hview with
            | .ok m => m
            | .err code msg => errorUnstamped req code msg)
      (some (finalMessage t resp req.query), 1)

/-- One pipelined request with everything the environment decides about it. -/
structure Step where
  req : Req
  utf8 : Bool
  found : Bool
  hview : HOut
  howned : HOut

/-- The connection loop of an inline transport: read, route, maybe respond, next. -/
def serveSeq (c : Codes) (t : Transport) : List Step → List Message → Nat → List Message × Nat
  | [], acc, n => (acc.reverse, n)
  | s :: rest, acc, n =>
    match respond c t s.req s.utf8 s.found s.hview s.howned with
    | (some m, k) => serveSeq c t rest (m :: acc) (n + k)
    | (none, k) => serveSeq c t rest acc (n + k)

/-! ## Built-in handlers: the body-decoding decision, the owned / borrowed twins, middleware wrapping

`server.rs`: `decode_json_param(_view)`, `decode_typed_param(_view)`, `decode_typed_slice_param(_view)`,
`decode_typed_slice_ref_param`, `JsonTypedAdapter::handle`, `Registry::decode_body`, `RegisteredStruct::handle`.
The decoders themselves (serde_json / beve) are a parameter: `decodable`. -/

inductive HKind where
  | json | jsonCtx | typed | typedCtx | slice | sliceRef | adapter | registry | struct
  deriving DecidableEq, Repr

/-- What one decode site does with the request body, read off its `match` on the body format. -/
structure DecodeFacts where
  /-- body-format codes that are handed to a decoder (sorted) -/
  accepts : List Nat
  /-- code of the error response built for every other format -/
  rejectCode : Nat
  /-- code a decoder failure is reported with -/
  failCode : Nat
  /-- the failure is propagated with `?` as `Err(RepeError)` (the dispatch layer builds the response);
  otherwise the handler itself returns `Ok(error response)` -/
  failIsErr : Bool
  /-- an empty body bypasses the format gate and the decoder (registry / struct: no body = read) -/
  emptySkips : Bool
  /-- every accepted format hands the raw body bytes to a known strict decoder (`serde_json::from_slice`,
  `beve::from_slice`, the bulk typed-slice readers, `str::from_utf8`); `false` = an unrecognised decode expression,
  read pessimistically: it may accept bytes the strict decoder refuses -/
  strict : Bool
  deriving DecidableEq, Repr

/-- The two entry points of a handler: `handle_with_ctx` (owned `Message`) and `handle_view` (borrowed). -/
inductive Entry where
  | owned | view
  deriving DecidableEq, Repr

inductive Decoded where
  | value
  | fail (code : Nat) (asErr : Bool)
  | reject (code : Nat)
  deriving DecidableEq, Repr

def decodeDecision (f : DecodeFacts) (fmt : Nat) (bodyEmpty decodable : Bool) : Decoded :=
  if f.emptySkips && bodyEmpty then .value
  else if fmt ∈ f.accepts then (if decodable || !f.strict then .value else .fail f.failCode f.failIsErr)
  else .reject f.rejectCode

/-- Result of the registered closure on the decoded value (a parameter): a value serialised with a body
format, or `(code, message)`. -/
inductive Closure where
  | ok (bodyFormat : Nat) (body : Bytes)
  | err (code : Nat) (msg : Bytes)
  deriving DecidableEq, Repr

/-- Error response as each entry point builds it: `create_error_response_like` (owned: query copied in) or
`create_error_response_unstamped_view` (borrowed: query left to the writer). -/
def errorFor (e : Entry) (req : Req) (code : Nat) (msg : Bytes) : Message :=
  match e with
  | .owned => errorLike req code msg
  | .view => errorUnstamped req code msg

/-- A built-in handler: decode per `f`, run the closure, build the response the way entry point `e` does. -/
def builtinHandle (f : DecodeFacts) (e : Entry) (req : Req) (decodable : Bool) (cl : Closure) (txt : Bytes) : HOut :=
  match decodeDecision f req.header.bodyFormat req.body.isEmpty decodable with
  | .reject c => .ok (errorFor e req c txt)
  | .fail c true => .err c txt
  | .fail c false => .ok (errorFor e req c txt)
  | .value =>
    match cl with
    | .ok bf b => .ok (builtinResponse req bf b)
    | .err c m => .ok (errorFor e req c m)

/-- Which handler types override `handle_view`, and whether the two wrappers do. -/
structure EntryFacts where
  viewOverrides : List HKind
  pipelineOverridesView : Bool
  offReaderOverridesView : Bool
  pipelineForwardsExecution : Bool
  deriving DecidableEq, Repr

/-- The entry point a request reaches: the off-reader path owns the request; elsewhere `handle_view` is called,
which is the owning default unless the (unwrapped, non-blocking) handler type overrides it. -/
def entryFor (ef : EntryFacts) (k : HKind) (wrapped blocking : Bool) (t : Transport) : Entry :=
  match t with
  | .wsOff => .owned
  | _ =>
    if wrapped then (if ef.pipelineOverridesView then .view else .owned)
    else if blocking then (if ef.offReaderOverridesView then .view else .owned)
    else if k ∈ ef.viewOverrides then .view else .owned

/-! ## The serve loops: what `dispatch_view` / `dispatch` / the three connection loops do around a handler -/

/-- Structure facts of `server_request.rs`, `server.rs`, `async_server.rs`, `websocket_server.rs`. `true` / `1` is the
recognised form; anything the extractor does not recognise at a dangerous site is `false` / another number. -/
structure ServeFacts where
  /-- `dispatch_view`: `if notify { let _ = handler.handle_view(..); return None; }` -/
  viewNotifySilent : Bool
  /-- `dispatch`: same with `handle_with_ctx` -/
  ownedNotifySilent : Bool
  /-- `route_request_view`, Reject arm: `(!notify).then(..)` -/
  viewRejectNotifySilent : Bool
  /-- WebSocket reader, Reject arm: the send sits under `if !notify` -/
  wsRejectNotifySilent : Bool
  /-- handler call sites on a path through `dispatch_view` / `dispatch` -/
  viewHandlerCalls : Nat
  ownedHandlerCalls : Nat
  /-- the writer is handed `response_echo_query(&resp, view.query)` (blocking server; async server, both branches) -/
  tcpEchoHelper : Bool
  atcpEchoHelper : Bool
  /-- inline / reject responses are stamped with the borrowed query, off-reader ones with the owned query -/
  wsStampInline : Bool
  wsStampOff : Bool
  /-- the spawned blocking closure reaches `dispatch(..)` unconditionally -/
  wsOffRunsAlways : Bool
  /-- every written response is flushed before the next read (blocking; async, both branches) -/
  tcpFlushEach : Bool
  atcpFlushEach : Bool
  /-- reject and inline responses enter the outbound queue with an awaited `send` on the reader (FIFO) -/
  wsSendInOrder : Bool
  /-- after the reader ends (Ok or Err) the writer is told to drain and awaited before the function returns -/
  wsDrainOnExit : Bool
  /-- an off-reader handler's response is handed to the writer with a send that WAITS for room in the outbound queue
  (`blocking_send`), not one that gives up when the queue is full -/
  wsOffSendWaits : Bool
  /-- `spawn_off_reader`, saturated cap: after queueing the ResourceExhausted answer (or dropping a notify) the
  function RETURNS; it never reaches `spawn_blocking` without a permit -/
  wsSaturationReturns : Bool
  /-- `dispatch_struct_segments`: every `/`-separated segment reaches the handler, also the one that makes the
  16-entry stack buffer spill to the heap -/
  structSegmentsKept : Bool
  deriving DecidableEq, Repr

def specServe : ServeFacts :=
  { viewNotifySilent := true, ownedNotifySilent := true, viewRejectNotifySilent := true, wsRejectNotifySilent := true
    viewHandlerCalls := 1, ownedHandlerCalls := 1, tcpEchoHelper := true, atcpEchoHelper := true
    wsStampInline := true, wsStampOff := true, wsOffRunsAlways := true, tcpFlushEach := true, atcpFlushEach := true
    wsSendInOrder := true, wsDrainOnExit := true, wsOffSendWaits := true,
    wsSaturationReturns := true, structSegmentsKept := true }

/-- `finalMessage` with the echo / stamp facts: a writer that is not handed the echo helper's result frames the
request query over whatever the handler chose; a missing stamp leaves the response query-less. -/
def finalMessageG (sf : ServeFacts) (t : Transport) (resp : Message) (reqQuery : Bytes) : Message :=
  match t with
  | .tcp =>
    if sf.tcpEchoHelper then finalMessage .tcp resp reqQuery
    else ⟨resp.header.patchLengths reqQuery.length resp.body.length, reqQuery, resp.body⟩
  | .atcp => if sf.atcpEchoHelper then finalMessage .atcp resp reqQuery else asyncFrameMsg resp reqQuery
  | .wsInline => if sf.wsStampInline then finalMessage .wsInline resp reqQuery else resp
  | .wsOff => if sf.wsStampOff then finalMessage .wsOff resp reqQuery else resp

/-- `respond` parametrised by the structure facts. -/
def respondG (sf : ServeFacts) (c : Codes) (t : Transport) (req : Req) (utf8 found : Bool) (hview howned : HOut)
    (rejMsg : Bytes := []) : Option Message × Nat :=
  match route c req utf8 found with
  | .reject code =>
    let silent := match t with
      | .wsInline | .wsOff => sf.wsRejectNotifySilent
      | _ => sf.viewRejectNotifySilent
    (if req.isNotify && silent then none else some (finalMessageG sf t (errorUnstamped req code rejMsg) req.query), 0)
  | .dispatch =>
    let calls := match t with
      | .wsOff => if sf.wsOffRunsAlways then sf.ownedHandlerCalls else 0
      | _ => sf.viewHandlerCalls
    let silent := match t with
      | .wsOff => sf.ownedNotifySilent
      | _ => sf.viewNotifySilent
    if req.isNotify && silent then (none, calls)
    else
      let resp := match t with
        | .wsOff => (match howned with
            | .ok m => m
            | .err code msg => errorLike req code msg)
        | _ => (match hview with
            | .ok m => m
            | .err code msg => errorUnstamped req code msg)
      (some (finalMessageG sf t resp req.query), calls)

/-- The connection loop with the liveness facts: a response that is not flushed may be withheld (modelled: the last
one is), a queue that is not fed in order may deliver in another order (modelled: reversed). -/
def serveSeqG (sf : ServeFacts) (c : Codes) (t : Transport) (steps : List Step) : List Message × Nat :=
  let r := serveSeq c t steps [] 0
  let flushed := match t with
    | .tcp => sf.tcpFlushEach
    | .atcp => sf.atcpFlushEach
    | _ => true
  let ordered := match t with
    | .wsInline => sf.wsSendInOrder
    | _ => true
  let out := if flushed then r.1 else r.1.dropLast
  (if ordered then out else out.reverse, r.2)

/-- WebSocket teardown: what reaches the peer of the responses already queued when the reader ends. -/
def teardownDelivered (sf : ServeFacts) (queued : List Message) : List Message :=
  if sf.wsDrainOnExit then queued else []

/-- Hand-off of an off-reader response to the writer when the outbound queue is full at that moment: a waiting send
delivers it once there is room; a non-waiting one loses it. -/
def offReaderHandoff (sf : ServeFacts) (queueFull : Bool) (resp : Message) : Option Message :=
  if queueFull && !sf.wsOffSendWaits then none else some resp

/-- A non-notify off-reader request that arrives while the per-connection cap is saturated:
(responses carrying its id, handler invocations). -/
def saturatedOutcome (sf : ServeFacts) : Nat × Nat :=
  if sf.wsSaturationReturns then (1, 0) else (2, 1)

/-- Segments a struct mount's handler is given for an escape-free pointer with segments `segs`
(`STACK_SEGS` = 16: the 17th segment is the one that triggers the spill). -/
def structSegmentsSeen (sf : ServeFacts) (segs : List String) : List String :=
  if sf.structSegmentsKept || segs.length ≤ 16 then segs else segs.take 16 ++ segs.drop 17

/-- A request to a built-in handler of kind `k`, end to end. -/
def builtinRespond (sf : ServeFacts) (c : Codes) (df : HKind → Entry → DecodeFacts) (ef : EntryFacts) (t : Transport)
    (req : Req) (utf8 found : Bool) (k : HKind) (wrapped blocking decodable : Bool) (cl : Closure) (txt : Bytes) :
    Option Message × Nat :=
  let h := fun e => builtinHandle (df k e) e req decodable cl txt
  respondG sf c t req utf8 found (h (entryFor ef k wrapped blocking t)) (h .owned)

end Repe
