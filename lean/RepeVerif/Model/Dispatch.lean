import RepeVerif.Model.Wire
/-
Model of request dispatch: `src/server_request.rs` (`route`, `route_request_view`, `dispatch_view`,
`dispatch`), the response construction helpers of `src/message.rs`, and the four dispatch paths
(blocking TCP `server.rs::handle_connection`, async TCP `async_server.rs::handle_connection`,
WebSocket inline and off-reader `websocket_server.rs::reader_task` / `spawn_off_reader`).
Handler bodies are parameters: a handler's result on a request is an `HOut`.
-/
namespace Repe

/-- Error codes as numbers (`ErrorCode` discriminants). -/
structure Codes where
  ok : Nat
  versionMismatch : Nat
  invalidHeader : Nat
  invalidQuery : Nat
  invalidBody : Nat
  parseError : Nat
  methodNotFound : Nat
  timeout : Nat
  resourceExhausted : Nat
  internalError : Nat
  deriving DecidableEq, Repr

/-- REPE v1 error codes, from the specification. -/
def specCodes : Codes := ⟨0, 1, 2, 3, 4, 5, 6, 7, 8, 9⟩

/-- The checks `route` performs, in source order. -/
inductive RouteCheck where
  | version | queryFormat | utf8 | lookup
  deriving DecidableEq, Repr

def specRouteOrder : List RouteCheck := [.version, .queryFormat, .utf8, .lookup]

structure Req where
  header : Header
  query : Bytes
  body : Bytes
  deriving DecidableEq, Repr

def Req.isNotify (r : Req) : Bool := r.header.notify == 1

/-- What a handler returned: a response message of its own making, or an error
(`RepeError::to_error_code()` and `to_string()` of it). -/
inductive HOut where
  | ok (m : Message)
  | err (code : Nat) (msg : Bytes)
  deriving DecidableEq, Repr

def BODY_UTF8 : Nat := 3
def QUERY_JSON_POINTER : Nat := 1

/-- `create_error_message(code, msg)`: builder with `error_code`, UTF-8 body, id 0, no query. -/
def createErrorMessage (code : Nat) (msg : Bytes) : Message :=
  (Builder.mk 0 false code 0 BODY_UTF8 [] msg).build

/-- `create_error_response_unstamped_view`: error message carrying the request id, no query. -/
def errorUnstamped (req : Req) (code : Nat) (msg : Bytes) : Message :=
  let e := createErrorMessage code msg
  { e with header := { e.header with id := req.header.id } }

/-- `create_error_response_like`: same, with the request query copied in and lengths patched. -/
def errorLike (req : Req) (code : Nat) (msg : Bytes) : Message :=
  let e := errorUnstamped req code msg
  { header := { e.header with queryLength := req.query.length,
                              length := 48 + req.query.length + e.header.bodyLength }
    query := req.query, body := e.body }

/-- `response_header_builder(id, query_format)` + a body: what every built-in handler's success path
(`create_response_unstamped*`, `create_typed_slice_response_unstamped*`) returns — the request's id, the request's
query format if it is a known one (else raw binary), `ec = Ok`, no query (the writer echoes it). -/
def builtinResponse (req : Req) (bodyFormat : Nat) (body : Bytes) : Message :=
  (Builder.mk req.header.id false 0 (if req.header.queryFormat ≤ 1 then req.header.queryFormat else 0)
    bodyFormat [] body).build

inductive RouteOutcome where
  | reject (code : Nat)
  | dispatch
  deriving DecidableEq, Repr

/-- `route`: validate the envelope, then look the handler up. `utf8` = the query is valid UTF-8,
`found` = `router.get(path)` is `Some`. Unknown query-format codes fall to raw-binary. -/
def route (c : Codes) (req : Req) (utf8 found : Bool) : RouteOutcome :=
  if req.header.version ≠ REPE_VERSION then .reject c.versionMismatch
  else if req.header.queryFormat = QUERY_JSON_POINTER then
    if ¬ utf8 then .reject c.invalidQuery
    else if found then .dispatch else .reject c.methodNotFound
  else .reject c.invalidQuery

inductive Transport where
  | tcp | atcp | wsInline | wsOff
  deriving DecidableEq, Repr

/-- Async server's `write_view_response`: patches `query_length` and `length` (not `body_length`). -/
def asyncFrameMsg (resp : Message) (q : Bytes) : Message :=
  { header := { resp.header with queryLength := q.length,
                                 length := 48 + q.length + resp.header.bodyLength }
    query := q, body := resp.body }

/-- The message whose `to_vec` each transport puts on the wire for a query-less-or-not response. -/
def finalMessage (t : Transport) (resp : Message) (reqQuery : Bytes) : Message :=
  match t with
  | .tcp =>
    let q := responseEchoQuery resp reqQuery
    ⟨resp.header.patchLengths q.length resp.body.length, q, resp.body⟩
  | .atcp => asyncFrameMsg resp (responseEchoQuery resp reqQuery)
  | .wsInline => stampResponseQuery resp reqQuery
  | .wsOff => stampResponseQuery resp reqQuery

/-- Bytes actually written by each transport (what the code does, route by route). -/
def wireBytes (t : Transport) (resp : Message) (reqQuery : Bytes) (cap : Nat) : Bytes :=
  match t with
  | .tcp => serverFrame resp reqQuery
  | .atcp =>
    let q := responseEchoQuery resp reqQuery
    (asyncFrameMsg resp q).header.encode ++ (if q.isEmpty then [] else q) ++
      (if resp.body.isEmpty then [] else resp.body)
  | .wsInline => (stampResponseQuery resp reqQuery).intoWireBytes cap
  | .wsOff => (stampResponseQuery resp reqQuery).intoWireBytes cap

/-- Response (if any) to one request on transport `t`, and how many times the handler ran.
`hview` is the handler's result on the borrowed path, `howned` on the owned path (off-reader). -/
def respond (c : Codes) (t : Transport) (req : Req) (utf8 found : Bool) (hview howned : HOut)
    (rejMsg : Bytes := []) : Option Message × Nat :=
  match route c req utf8 found with
  | .reject code =>
    -- `rejMsg` is the server's message text for the rejection (not modelled; observations elide error bodies)
    (if req.isNotify then none else some (finalMessage t (errorUnstamped req code rejMsg) req.query), 0)
  | .dispatch =>
    if req.isNotify then (none, 1)
    else
      let resp := match t with
        | .wsOff => (match howned with
            | .ok m => m
            | .err code msg => errorLike req code msg)
        | _ => (match hview with
            | .ok m => m
            | .err code msg => errorUnstamped req code msg)
      (some (finalMessage t resp req.query), 1)

/-- One pipelined request with everything the environment decides about it. -/
structure Step where
  req : Req
  utf8 : Bool
  found : Bool
  hview : HOut
  howned : HOut

/-- The connection loop of an inline transport: read, route, maybe respond, next. -/
def serveSeq (c : Codes) (t : Transport) : List Step → List Message → Nat → List Message × Nat
  | [], acc, n => (acc.reverse, n)
  | s :: rest, acc, n =>
    match respond c t s.req s.utf8 s.found s.hview s.howned with
    | (some m, k) => serveSeq c t rest (m :: acc) (n + k)
    | (none, k) => serveSeq c t rest acc (n + k)

end Repe
