import RepeVerif.Model.Dispatch
/-
Model of the outbound size guard of the WebSocket endpoints (C17):
`src/websocket_limits.rs::check_outbound`, `src/websocket_server.rs::frame_outbound` / `writer_task` /
`WsPeerSink::send_notify` / `proxy_connection_with_limits`, `src/websocket_client.rs::write_request`
and its two callers (`call_with_body_and_timeout`, `notify_with_builder`).

Everything that the source decides by a *syntactic* choice that the property depends on is a field of
`LimitFacts`, re-extracted from the source on every run (`Gen/Limits.lean`); the control structure is
written by hand, branch by branch.  Message texts are parameters (`text size limit`).
-/
namespace Repe

/-- The comparison the guard of `check_outbound` makes: `Some(limit) if size CMP limit => Err(..)`. -/
inductive Cmp where
  | gt | ge | lt | le | eq | ne
  deriving DecidableEq, Repr

def Cmp.holds : Cmp → Nat → Nat → Bool
  | .gt, a, b => decide (a > b)
  | .ge, a, b => decide (a ≥ b)
  | .lt, a, b => decide (a < b)
  | .le, a, b => decide (a ≤ b)
  | .eq, a, b => decide (a = b)
  | .ne, a, b => decide (a ≠ b)

/-- Summands of a length expression (`HEADER_SIZE + m.query.len() + m.body.len()`). -/
inductive LenTerm where
  | header | query | body
  deriving DecidableEq, Repr

/-- Facts about the guard read off the source. -/
structure LimitFacts where
  /-- `check_outbound`: refuse iff `size cmp limit`. -/
  cmp : Cmp
  /-- `frame_outbound`: summands of `frame_len`. -/
  lenTerms : List LenTerm
  /-- `frame_outbound`: `report_error(.., OutboundTooLarge{..})` is reached on the refusal path before either return. -/
  reports : Bool
  /-- `frame_outbound`: `if m.header.notify != 0 { return None; }` precedes the replacement. -/
  notifyDrops : Bool
  /-- `frame_outbound`: `replacement.header.id = id` with `let id = m.header.id`. -/
  keepsId : Bool
  /-- `frame_outbound`: the `ErrorCode` of the replacement, as a number. -/
  replacementCode : Nat
  /-- every `frame_outbound`-free use of `WsMessage::Binary` in the server file is absent:
  writer task (both drain loops) and proxy send only what `frame_outbound` returned. -/
  writerGuarded : Bool
  /-- `write_request`: summands of the measured size (`msg.to_vec().len()` = all three). -/
  clientLenTerms : List LenTerm
  /-- `write_request`: `check_outbound(..)?` precedes `writer.send(..)`. -/
  clientChecksFirst : Bool
  deriving DecidableEq, Repr

/-- What the property requires of those facts. -/
def specLimitFacts : LimitFacts :=
  { cmp := .gt, lenTerms := [.header, .query, .body], reports := true, notifyDrops := true,
    keepsId := true, replacementCode := specCodes.internalError, writerGuarded := true,
    clientLenTerms := [.header, .query, .body], clientChecksFirst := true }

def lenTermOf (qlen blen : Nat) : LenTerm → Nat
  | .header => 48
  | .query => qlen
  | .body => blen

/-- A length expression evaluated on payload lengths. -/
def lenOf (ts : List LenTerm) (qlen blen : Nat) : Nat :=
  (ts.map (lenTermOf qlen blen)).foldr (· + ·) 0

def frameLen (ts : List LenTerm) (m : Message) : Nat := lenOf ts m.query.length m.body.length

/-- `WebSocketLimits::check_outbound`: `some (size, limit)` is `Err(MessageTooLarge { size, limit })`. -/
def checkOutbound (cmp : Cmp) (limit : Option Nat) (size : Nat) : Option (Nat × Nat) :=
  match limit with
  | some l => if cmp.holds size l then some (size, l) else none
  | none => none

/-- The three things `frame_outbound` can do with a message. -/
inductive Decision where
  | pass
  | replace (size limit : Nat)
  | drop (size limit : Nat)
  deriving DecidableEq, Repr

/-- The decision of `frame_outbound` as a function of the notify byte and the payload lengths. -/
def decideOutbound (f : LimitFacts) (limit : Option Nat) (notify qlen blen : Nat) : Decision :=
  match checkOutbound f.cmp limit (lenOf f.lenTerms qlen blen) with
  | none => .pass
  | some (size, l) => if notify ≠ 0 ∧ f.notifyDrops then .drop size l else .replace size l

/-- `ConnectionError::OutboundTooLarge { method, size, limit }` handed to the error hooks. -/
structure Report where
  method : Bytes
  size : Nat
  limit : Nat
  deriving DecidableEq, Repr

/-- The replacement response `frame_outbound` builds. -/
def replacementMsg (f : LimitFacts) (id : Nat) (text : Bytes) : Message :=
  let r := createErrorMessage f.replacementCode text
  if f.keepsId then { r with header := { r.header with id := id } } else r

structure Framed where
  wire : Option Bytes
  reports : List Report
  deriving DecidableEq, Repr

/-- `frame_outbound(m, limits, on_error)`. `cap`/`rcap` are the capacities of the body buffers (any),
`text size limit` the message text of the replacement. -/
def frameOutbound (f : LimitFacts) (limit : Option Nat) (text : Nat → Nat → Bytes)
    (m : Message) (cap rcap : Nat) : Framed :=
  match decideOutbound f limit m.header.notify m.query.length m.body.length with
  | .pass => ⟨some (m.intoWireBytes cap), []⟩
  | .drop size l => ⟨none, if f.reports then [⟨m.query, size, l⟩] else []⟩
  | .replace size l =>
    ⟨some ((replacementMsg f m.header.id (text size l)).intoWireBytes rcap),
     if f.reports then [⟨m.query, size, l⟩] else []⟩

/-- `WsPeerSink::send_notify(method, body)`: the message put on the outbound channel by a handler push
(`ctx.peer()`) or a registry broadcast. -/
def notifyMessage (method : Bytes) (bodyFormat : Nat) (body : Bytes) : Message :=
  (Builder.mk 0 true 0 QUERY_JSON_POINTER bodyFormat method body).build

/-- One entry of the per-connection outbound channel together with the buffer capacities the allocator
happened to give (irrelevant for the bytes, see `intoWireBytes_eq_toVec`). -/
structure Queued where
  msg : Message
  cap : Nat := 0
  rcap : Nat := 0

/-- `writer_task`: every queued message, in FIFO order, goes through `frame_outbound`; what comes back
is sent as one binary WebSocket message.  Returns the binary messages sent and the reports made.
If the source has a send that bypasses `frame_outbound` (`writerGuarded = false`) the raw frame goes out. -/
def writerRun (f : LimitFacts) (limit : Option Nat) (text : Nat → Nat → Bytes) :
    List Queued → List Bytes × List Report
  | [] => ([], [])
  | q :: rest =>
    let (ws, rs) := writerRun f limit text rest
    if f.writerGuarded then
      let r := frameOutbound f limit text q.msg q.cap q.rcap
      (match r.wire with | some b => b :: ws | none => ws, r.reports ++ rs)
    else (q.msg.intoWireBytes q.cap :: ws, rs)

/-- `proxy_connection_with_limits`: a response forwarded from upstream goes through `frame_outbound`
with no hooks. -/
def proxyForward (f : LimitFacts) (limit : Option Nat) (text : Nat → Nat → Bytes)
    (resp : Message) (cap rcap : Nat) : Option Bytes :=
  if f.writerGuarded then (frameOutbound f limit text resp cap rcap).wire
  else some (resp.intoWireBytes cap)

/-! ### client -/

/-- The part of a `WebSocketClient` the property speaks about: ids awaiting a response and the binary
messages handed to the socket so far. -/
structure ClientSt where
  pending : List Nat
  wire : List Bytes
  deriving DecidableEq, Repr

inductive SendRes where
  | ok
  | tooLarge (size limit : Nat)
  deriving DecidableEq, Repr

/-- `WebSocketClient::write_request`. -/
def clientWrite (f : LimitFacts) (limit : Option Nat) (st : ClientSt) (m : Message) : ClientSt × SendRes :=
  let bytes := m.toVec
  let sent : ClientSt := { st with wire := st.wire ++ [bytes] }
  match checkOutbound f.cmp limit (frameLen f.clientLenTerms m) with
  | some (s, l) => (if f.clientChecksFirst then st else sent, .tooLarge s l)
  | none => (sent, .ok)

/-- `call_with_body_and_timeout` up to the point where it starts waiting: register the id, write; an
error return drops the `PendingRequestGuard`, which removes the id again. -/
def clientCall (f : LimitFacts) (limit : Option Nat) (st : ClientSt) (m : Message) : ClientSt × SendRes :=
  let st1 : ClientSt := { st with pending := m.header.id :: st.pending }
  match clientWrite f limit st1 m with
  | (st2, .ok) => (st2, .ok)
  | (st2, e) => ({ st2 with pending := st2.pending.erase m.header.id }, e)

/-- `notify_with_builder`: build and write; nothing is registered. -/
def clientNotify (f : LimitFacts) (limit : Option Nat) (st : ClientSt) (m : Message) : ClientSt × SendRes :=
  clientWrite f limit st m

/-! ### where the limit comes from: `WebSocketLimits` and the endpoints' constructors -/

/-- `WebSocketLimits`. -/
structure WsLimits where
  maxIncomingFrame : Option Nat
  maxIncomingMessage : Option Nat
  assumedPeer : Option Nat
  deriving DecidableEq, Repr

/-- Facts about how limits are constructed, stored and handed to the guard. -/
structure ConfigFacts where
  /-- `DEFAULT_MAX_FRAME_SIZE`, `DEFAULT_MAX_MESSAGE_SIZE` -/
  defaultFrame : Nat
  defaultMessage : Nat
  /-- `Default::default()` = `{Some(DEFAULT_MAX_FRAME_SIZE), Some(DEFAULT_MAX_MESSAGE_SIZE), Some(DEFAULT_MAX_FRAME_SIZE)}` -/
  defaultIsDefaults : Bool
  /-- `unlimited()` = three `None`s -/
  unlimitedIsNone : Bool
  /-- `with_assumed_peer_frame_limit(b)` sets exactly that field (and the two incoming setters theirs) -/
  settersSetOwnField : Bool
  /-- `check_outbound` matches on `self.assumed_peer_frame_limit` -/
  guardReadsAssumed : Bool
  /-- the transport config gets `max_frame_size`/`max_message_size` from the two incoming fields only -/
  transportGetsIncomingOnly : Bool
  /-- `WebSocketServer::new` stores `WebSocketLimits::default()`, `with_limits` stores its argument,
  `into_shared` copies it, the writer task gets `config.limits`, `SharedWebSocketServer::limits()`/`accept`
  return/use `self.config.limits` -/
  serverThreadsLimits : Bool
  /-- `proxy_connection(..)` = `proxy_connection_with_limits(.., WebSocketLimits::default())` and the latter
  passes `&limits` to `frame_outbound` -/
  proxyThreadsLimits : Bool
  /-- `WebSocketClient::connect(url)` = `connect_with_limits(url, WebSocketLimits::default())`, which stores
  `limits` in the client, `write_request` checks `self.inner.limits` -/
  clientThreadsLimits : Bool
  deriving DecidableEq, Repr

def defaultLimits (c : ConfigFacts) : WsLimits :=
  if c.defaultIsDefaults then ⟨some c.defaultFrame, some c.defaultMessage, some c.defaultFrame⟩
  else ⟨none, none, none⟩

def unlimitedLimits (c : ConfigFacts) : WsLimits :=
  if c.unlimitedIsNone then ⟨none, none, none⟩ else defaultLimits c

def withAssumed (c : ConfigFacts) (l : WsLimits) (b : Option Nat) : WsLimits :=
  if c.settersSetOwnField then { l with assumedPeer := b } else l

/-- How an embedder arrives at a `WebSocketLimits` value. -/
inductive LimitsExpr where
  | dflt | unlimited | lit (l : WsLimits)
  | assumed (e : LimitsExpr) (b : Option Nat)
  deriving Repr

def LimitsExpr.eval (c : ConfigFacts) : LimitsExpr → WsLimits
  | .dflt => defaultLimits c
  | .unlimited => unlimitedLimits c
  | .lit l => l
  | .assumed e b => withAssumed c (e.eval c) b

inductive Endpoint where
  | server | proxy | client
  deriving DecidableEq, Repr

/-- The limit the outbound guard of an endpoint works with: `none` for "constructed without limits"
(`WebSocketServer::new`, `proxy_connection`, `WebSocketClient::connect`), `some e` for the `*_with_limits`
/ `with_limits` forms.  If the source no longer threads the value through, nothing is promised (no guard). -/
def effectiveLimit (c : ConfigFacts) (ep : Endpoint) (given : Option LimitsExpr) : Option Nat :=
  let threads := match ep with
    | .server => c.serverThreadsLimits | .proxy => c.proxyThreadsLimits | .client => c.clientThreadsLimits
  if threads && c.guardReadsAssumed then ((given.getD .dflt).eval c).assumedPeer else none

/-- What the transport (tungstenite) is configured with: `(max_frame_size, max_message_size)`. -/
def transportConfig (c : ConfigFacts) (l : WsLimits) : Option Nat × Option Nat :=
  if c.transportGetsIncomingOnly then (l.maxIncomingFrame, l.maxIncomingMessage) else (l.assumedPeer, l.assumedPeer)

end Repe
