import RepeVerif.Model.Basic
/-!
Executable model of the streaming half of `src/value_stream.rs` (C09): `ChunkSink` (write loop with
buffer carry, the no-op `flush`, `flush_remaining`), `produce` (message list `Chunk* ++ [End | Fail e]`,
or a bare close when the producer thread vanishes), the bounded `sync_channel` of depth `d` together
with the consumer's receive automaton (small-step form of `Session::pull`), `Session::pull` itself
(big-step, on the received sequence), the session table with `open`/`next`/`cancel`, the response
`last` byte, and the two client-side reassemblers: `ChunkReader` (sync) and `pull_loop_async` +
`ChannelReader` (async).  The file-commit path (`write_file`, `TempFile`, `TrailerHold`) is C10's.

Core Lean only (linked into `repe_model_svs`).  zstd is a parameter pair; nothing here knows it.
-/
namespace Repe.Svs

/-! ### facts read off the source by `extract/svs.py` -/

/-- comparison operator of the chunk-full test in `ChunkSink::write` -/
inductive Cmp where
  | ge | gt | eq
  deriving DecidableEq, Repr

def Cmp.test : Cmp → Nat → Nat → Bool
  | .ge, a, b => decide (b ≤ a)
  | .gt, a, b => decide (b < a)
  | .eq, a, b => decide (a = b)

structure Facts where
  /-- `if self.buf.len() >= self.chunk_bytes { self.send_chunk()?; }` -/
  sinkFull : Cmp
  /-- does `Write::flush` of the sink push the partial buffer?  (source: no, the body is `Ok(())`) -/
  flushEmits : Bool
  /-- `flush_remaining` skips an empty buffer -/
  flushRemainingSkipsEmpty : Bool
  /-- `produce`: `Err(e) => tx.send(Msg::Fail(..))` (true) rather than `End` -/
  failSendsFail : Bool
  /-- `NextHandler`: `if guard.done { Err(..) }` precedes `guard.pull()` -/
  doneChecked : Bool
  /-- `guard.done = true` is reached for `Ok((_, true))` / for `Err(_)` -/
  doneOnLast : Bool
  doneOnErr : Bool
  /-- `self.table.remove(..)` in the `if last` branch / in the `Err` branch -/
  removeOnLast : Bool
  removeOnErr : Bool
  /-- `chunk_response`: query byte written for `last = true` (`vec![last as u8]` ⇒ 1) -/
  lastByte : Nat
  /-- `ChunkReader::fetch`: `resp.query.first().copied() == Some(k)` -/
  syncLastIs : Nat
  /-- `pull_loop_async`: same test -/
  asyncLastIs : Nat
  /-- `pull_loop_async` forwards a body only `if !resp.body.is_empty()` -/
  asyncSkipsEmpty : Bool
  deriving DecidableEq, Repr

/-- What the current source says (and what the theorems need). -/
def specFacts : Facts :=
  { sinkFull := .ge, flushEmits := false, flushRemainingSkipsEmpty := true, failSendsFail := true,
    doneChecked := true, doneOnLast := true, doneOnErr := true, removeOnLast := true, removeOnErr := true,
    lastByte := 1, syncLastIs := 1, asyncLastIs := 1, asyncSkipsEmpty := true }

/-! ### producer: `ChunkSink`, `produce` -/

inductive Msg where
  | chunk (c : Bytes)
  | «end»
  | fail (e : String)
  deriving DecidableEq, Repr

/-- `ChunkSink`: the carry buffer and the chunks pushed into the channel so far (oldest first). -/
structure Sink where
  buf : Bytes := []
  out : List Bytes := []
  deriving DecidableEq, Repr

/-- `send_chunk`: `mem::replace(&mut self.buf, Vec::with_capacity(..))`, `tx.send(Msg::Chunk(chunk))`. -/
def Sink.sendChunk (s : Sink) : Sink := { buf := [], out := s.out ++ [s.buf] }

/-- The `while !data.is_empty()` loop of `ChunkSink::write`.  `none` = the loop does not terminate
(fuel exhausted; happens only for `chunk_bytes = 0` or a full-test that never fires). -/
def writeLoop (F : Facts) (c : Nat) : Nat → Sink → Bytes → Option Sink
  | _, s, [] => some s
  | 0, _, _ :: _ => none
  | fuel + 1, s, d :: ds =>
    let data := d :: ds
    let space := c - s.buf.length                   -- `self.chunk_bytes - self.buf.len()`
    let take := min space data.length               -- `space.min(data.len())`
    let s1 : Sink := { s with buf := s.buf ++ data.take take }
    let s2 := if F.sinkFull.test s1.buf.length c then s1.sendChunk else s1
    writeLoop F c fuel s2 (data.drop take)

/-- `ChunkSink::write(data)`: every iteration consumes at least one byte when the loop is live, so
`data.length` iterations suffice; one spare. -/
def Sink.write (F : Facts) (c : Nat) (s : Sink) (data : Bytes) : Option Sink :=
  writeLoop F c (data.length + 1) s data

/-- What a body closure does to its `&mut dyn Write`. -/
inductive Ev where
  | write (b : Bytes)
  | flush
  deriving DecidableEq, Repr

def Sink.ev (F : Facts) (c : Nat) (s : Sink) : Ev → Option Sink
  | .write b => s.write F c b
  | .flush => some (if F.flushEmits && !s.buf.isEmpty then s.sendChunk else s)

def Sink.run (F : Facts) (c : Nat) : Sink → List Ev → Option Sink
  | s, [] => some s
  | s, e :: es => match s.ev F c e with
    | none => none
    | some s' => Sink.run F c s' es

/-- `flush_remaining` -/
def Sink.flushRemaining (F : Facts) (s : Sink) : Sink :=
  if F.flushRemainingSkipsEmpty && s.buf.isEmpty then s else s.sendChunk

/-- How the body (and, on the zstd path, `enc.finish()`) ended. `vanish`: the producer thread
unwound (panic) — the sender is dropped with no terminal marker. -/
inductive BodyEnd where
  | ok
  | err (e : String)
  | vanish
  deriving DecidableEq, Repr

/-- `produce`: the messages sent into the channel, in order.  `none`: the sink loop diverges. -/
def produce (F : Facts) (c : Nat) (evs : List Ev) (e : BodyEnd) : Option (List Msg) :=
  match Sink.run F c {} evs with
  | none => none
  | some s =>
    match e with
    | .ok => some ((s.flushRemaining F).out.map .chunk ++ [.end])
    | .err e => some (s.out.map .chunk ++ [if F.failSendsFail then .fail e else .end])
    | .vanish => some (s.out.map .chunk)

/-- all bytes a list of sink events writes -/
def evBytes : List Ev → Bytes
  | [] => []
  | .write b :: r => b ++ evBytes r
  | .flush :: r => evBytes r

/-! ### consumer: `Session::pull` -/

def vanished : String := "svs producer ended without completing"

abbrev PullRes := Except String (Bytes × Bool)

/-- Small-step view of the handler side of a session: where it stands with respect to the channel.
`fresh`: `lookahead = None`, next receive is the first of a pull; `have c`: holding `c` (either as
`current` inside a pull or as `lookahead` between pulls), next receive decides its flag;
`stopped`: a pull returned `last` or an error (the handler marks the session done and never receives again). -/
inductive PState where
  | fresh
  | have (c : Bytes)
  | stopped
  deriving DecidableEq, Repr

/-- One receive: new state and the pull result it completes, if any. -/
def feed : PState → Msg → PState × Option PullRes
  | .fresh, .chunk c => (.have c, none)
  | .fresh, .end => (.stopped, some (.ok ([], true)))
  | .fresh, .fail e => (.stopped, some (.error e))
  | .have c, .chunk n => (.have n, some (.ok (c, false)))
  | .have c, .end => (.stopped, some (.ok (c, true)))
  | .have _, .fail e => (.stopped, some (.error e))
  | .stopped, _ => (.stopped, none)

/-- Results of pulling until the terminal result, from the sequence of messages the channel delivers;
a channel that closes before a terminal marker delivers `Fail(vanished)` (`Session::recv`). -/
def feedRun : PState → List Msg → List PullRes
  | .stopped, _ => []
  | st, [] => (feed st (.fail vanished)).2.toList
  | st, m :: r => (feed st m).2.toList ++ feedRun (feed st m).1 r

/-- Big-step `Session`: `rx` is what the channel will still deliver, in order. -/
structure Session where
  rx : List Msg
  lookahead : Option Bytes := none
  done : Bool := false
  deriving DecidableEq, Repr

/-- `Session::recv`: a bare close is `Fail(vanished)`. -/
def Session.recv (s : Session) : Msg × Session :=
  match s.rx with
  | [] => (.fail vanished, s)
  | m :: r => (m, { s with rx := r })

/-- second half of `pull`: `match self.recv() { Chunk(next) => .., End => .., Fail(e) => .. }` -/
def Session.peek (s : Session) (current : Bytes) : Session × PullRes :=
  match s.recv with
  | (.chunk next, s') => ({ s' with lookahead := some next }, .ok (current, false))
  | (.end, s') => (s', .ok (current, true))
  | (.fail e, s') => (s', .error e)

/-- `Session::pull` -/
def Session.pull (s : Session) : Session × PullRes :=
  match s.lookahead with
  | some c => Session.peek { s with lookahead := none } c
  | none =>
    match s.recv with
    | (.chunk c, s') => s'.peek c
    | (.end, s') => (s', .ok ([], true))
    | (.fail e, s') => (s', .error e)

/-! ### `Session::pull` / `Session::recv`, arm by arm (facts read off the source) -/

/-- what an arm of the first `match self.recv()` (no lookahead held) does -/
inductive FirstArm where
  | hold        -- `Msg::Chunk(c) => c` : becomes `current`, go on to the peek
  | emptyLast   -- `return Ok((Vec::new(), true))`
  | err         -- `return Err(e)`
  | other       -- unrecognised (pessimistic: treated as an error that the theorems do not accept)
  deriving DecidableEq, Repr

/-- what an arm of the second `match self.recv()` (the peek) does -/
inductive PeekArm where
  | more        -- `{ self.lookahead = Some(next); Ok((current, false)) }`
  | moreDrop    -- `Ok((current, false))` without storing the peeked chunk
  | last        -- `Ok((current, true))`
  | err         -- `Err(e)`
  | other
  deriving DecidableEq, Repr

structure PullFacts where
  lookaheadFirst : Bool     -- `match self.lookahead.take() { Some(c) => c, None => … }`
  firstChunk : FirstArm
  firstEnd : FirstArm
  firstFail : FirstArm
  peekChunk : PeekArm
  peekEnd : PeekArm
  peekFail : PeekArm
  closeIsFail : Bool        -- `recv`: `unwrap_or_else(|_| Msg::Fail(..))`
  deriving DecidableEq, Repr

def specPull : PullFacts :=
  { lookaheadFirst := true, firstChunk := .hold, firstEnd := .emptyLast, firstFail := .err,
    peekChunk := .more, peekEnd := .last, peekFail := .err, closeIsFail := true }

def unrecognised : String := "unrecognised arm"

def Session.recvA (A : PullFacts) (s : Session) : Msg × Session :=
  match s.rx with
  | [] => (if A.closeIsFail then .fail vanished else .end, s)
  | m :: r => (m, { s with rx := r })

def errOf : Msg → String
  | .fail e => e
  | _ => unrecognised

def Session.peekA (A : PullFacts) (s : Session) (current : Bytes) : Session × PullRes :=
  let (m, s') := s.recvA A
  let arm := match m with
    | .chunk _ => A.peekChunk
    | .end => A.peekEnd
    | .fail _ => A.peekFail
  match arm with
  | .more => (match m with | .chunk n => { s' with lookahead := some n } | _ => s', .ok (current, false))
  | .moreDrop => (s', .ok (current, false))
  | .last => (s', .ok (current, true))
  | .err => (s', .error (errOf m))
  | .other => (s', .error unrecognised)

/-- `Session::pull` with the arms as extracted. -/
def Session.pullA (A : PullFacts) (s : Session) : Session × PullRes :=
  match (if A.lookaheadFirst then s.lookahead else none) with
  | some c => Session.peekA A { s with lookahead := none } c
  | none =>
    let (m, s') := s.recvA A
    let arm := match m with
      | .chunk _ => A.firstChunk
      | .end => A.firstEnd
      | .fail _ => A.firstFail
    match arm with
    | .hold => s'.peekA A (match m with | .chunk c => c | _ => [])
    | .emptyLast => (s', .ok ([], true))
    | .err => (s', .error (errOf m))
    | .other => (s', .error unrecognised)

def pullAllA (A : PullFacts) : Nat → Session → List PullRes
  | 0, _ => []
  | n + 1, s =>
    match s.pullA A with
    | (s', .ok (c, false)) => .ok (c, false) :: pullAllA A n s'
    | (_, r) => [r]

/-- Pull until a terminal result (at most `fuel` pulls). -/
def pullAll : Nat → Session → List PullRes
  | 0, _ => []
  | n + 1, s =>
    match s.pull with
    | (s', .ok (c, false)) => .ok (c, false) :: pullAll n s'
    | (_, r) => [r]

/-- The pull results of a clean stream of chunks `cs`: flags `false … false true`; an empty stream
is one empty final chunk. -/
def pullsOf : List Bytes → List (Bytes × Bool)
  | [] => [([], true)]
  | [c] => [(c, true)]
  | c :: c' :: r => (c, false) :: pullsOf (c' :: r)

/-! ### the bounded channel between producer and handler -/

/-- Producer program (messages still to send), channel buffer, consumer position, results so far. -/
structure Sys where
  toSend : List Msg
  queue : List Msg := []
  cons : PState := .fresh
  out : List PullRes := []

inductive Step where
  | send      -- producer's `tx.send` completes into the buffer (needs room)
  | recv      -- handler's `rx.recv` takes the oldest buffered message
  | handoff   -- rendezvous: a blocked `send` meets a blocked `recv` (the only transfer at depth 0)
  | closed    -- `rx.recv` on an empty channel whose sender is gone
  deriving DecidableEq, Repr

def Sys.deliver (s : Sys) (m : Msg) : Sys :=
  { s with cons := (feed s.cons m).1, out := s.out ++ (feed s.cons m).2.toList }

/-- One step at channel depth `d`; `none` when the step is not enabled. -/
def Sys.step (d : Nat) (s : Sys) : Step → Option Sys
  | .send =>
    match s.toSend with
    | m :: r => if s.queue.length < d then some { s with toSend := r, queue := s.queue ++ [m] } else none
    | [] => none
  | .recv =>
    if s.cons = .stopped then none else
    match s.queue with
    | m :: q => some ({ s with queue := q }.deliver m)
    | [] => none
  | .handoff =>
    if s.cons = .stopped then none else
    match s.queue, s.toSend with
    | [], m :: r => some ({ s with toSend := r }.deliver m)
    | _, _ => none
  | .closed =>
    if s.cons = .stopped then none else
    match s.queue, s.toSend with
    | [], [] => some (s.deliver (.fail vanished))
    | _, _ => none

/-- Run a schedule; steps that are not enabled are skipped. -/
def Sys.run (d : Nat) : Sys → List Step → Sys
  | s, [] => s
  | s, st :: r => Sys.run d ((s.step d st).getD s) r

/-- Scheduling policies used by the driver (the theorems cover every schedule). -/
inductive Policy where
  | producerFirst | consumerFirst | alternate
  deriving DecidableEq, Repr

def Policy.order : Policy → Nat → List Step
  | .producerFirst, _ => [.send, .handoff, .recv, .closed]
  | .consumerFirst, _ => [.recv, .handoff, .send, .closed]
  | .alternate, k => if k % 2 = 0 then [.send, .handoff, .recv, .closed] else [.recv, .handoff, .send, .closed]

def firstEnabled (d : Nat) (s : Sys) : List Step → Option Sys
  | [] => none
  | st :: r => match s.step d st with
    | some s' => some s'
    | none => firstEnabled d s r

/-- Run under a policy until nothing is enabled (or fuel runs out). -/
def Sys.runPolicy (d : Nat) (p : Policy) : Nat → Nat → Sys → Sys
  | 0, _, s => s
  | fuel + 1, k, s => match firstEnabled d s (p.order k) with
    | none => s
    | some s' => Sys.runPolicy d p fuel (k + 1) s'

/-! ### server: session table, `open` / `next` / `cancel` -/

inductive Resp where
  /-- `chunk_response`: raw-binary body, 1-byte raw-binary query -/
  | chunk (body : Bytes) (query : Bytes)
  /-- `error_like` (any code): clients surface it as `Err` -/
  | error
  deriving DecidableEq, Repr

structure Server where
  nextId : Nat := 1
  table : List (Nat × Session) := []
  deriving DecidableEq, Repr

def Server.get (sv : Server) (id : Nat) : Option Session := sv.table.lookup id

def Server.remove (sv : Server) (id : Nat) : Server :=
  { sv with table := sv.table.filter (fun p => p.1 != id) }

def Server.put (sv : Server) (id : Nat) (s : Session) : Server :=
  { sv with table := (id, s) :: (sv.table.filter (fun p => p.1 != id)) }

/-- `OpenHandler` for a resource whose producer will deliver `msgs`. -/
def Server.open (sv : Server) (msgs : List Msg) : Server × Nat :=
  ({ nextId := sv.nextId + 1, table := (sv.nextId, { rx := msgs }) :: sv.table }, sv.nextId)

/-- The region of `NextHandler::handle` under the session lock. -/
def Session.locked (F : Facts) (s : Session) : Session × PullRes :=
  if F.doneChecked && s.done then (s, .error "svs next: stream already finished")
  else
    let (s1, r) := s.pull
    let fin := match r with
      | .ok (_, true) => F.doneOnLast
      | .ok (_, false) => false
      | .error _ => F.doneOnErr
    ({ s1 with done := s1.done || fin }, r)

def lastQuery (F : Facts) (last : Bool) : Bytes := [UInt8.ofNat (if last then F.lastByte else 0)]

/-- `NextHandler::handle` -/
def Server.next (F : Facts) (sv : Server) (id : Nat) : Server × Resp :=
  match sv.get id with
  | none => (sv, .error)                                        -- unknown stream_id
  | some s =>
    match s.locked F with
    | (s', .ok (c, last)) =>
      (if last && F.removeOnLast then sv.remove id else sv.put id s', .chunk c (lastQuery F last))
    | (s', .error _) =>
      (if F.removeOnErr then sv.remove id else sv.put id s', .error)

/-- `CancelHandler::handle` -/
def Server.cancel (sv : Server) (id : Nat) : Server := sv.remove id

/-- `n` successive `next` requests. -/
def Server.nexts (F : Facts) : Nat → Server → Nat → Server × List Resp
  | 0, sv, _ => (sv, [])
  | n + 1, sv, id =>
    let (sv1, r) := sv.next F id
    let (sv2, rs) := Server.nexts F n sv1 id
    (sv2, r :: rs)

/-! ### concurrent `next` requests on one stream id

`NextHandler::handle` has three lock regions: the table lookup (`table.get`, clones the `Arc`), the
pull under the session lock (`done` check, `pull`, `done := true`), and the table removal before the
response is framed.  Any number of requests for the same id, from any connections, interleave at
that granularity; `cancel` is one more table-lock region. -/

inductive Call where
  | start                                   -- request received, table not yet consulted
  | holding                                 -- holds the `Arc<Mutex<Session>>`, waiting for the session lock
  | pulled (k : Nat) (r : PullRes)          -- left the session lock as its `k`-th holder with outcome `r`
  | answered (k : Option Nat) (resp : Resp) -- response framed (`k = none`: unknown stream id)
  deriving Repr

structure Conc where
  present : Bool            -- the table maps the id to the session
  sess : Session            -- the shared session (alive while any call holds the `Arc`)
  calls : List Call
  log : List PullRes := []  -- outcomes of the session-lock regions, in lock order

inductive Act where
  | call (i : Nat)   -- request `i` performs its next lock region
  | cancel           -- a `cancel` for the id
  deriving Repr

def Conc.step (F : Facts) (s : Conc) : Act → Conc
  | .cancel => { s with present := false }
  | .call i =>
    match s.calls[i]? with
    | none => s
    | some .start =>
      { s with calls := s.calls.set i (if s.present then .holding else .answered none .error) }
    | some .holding =>
      let x := s.sess.locked F
      { s with sess := x.1, calls := s.calls.set i (.pulled s.log.length x.2), log := s.log ++ [x.2] }
    | some (.pulled k r) =>
      match r with
      | .ok (c, last) =>
        { s with present := if last && F.removeOnLast then false else s.present,
                 calls := s.calls.set i (.answered (some k) (.chunk c (lastQuery F last))) }
      | .error _ =>
        { s with present := if F.removeOnErr then false else s.present,
                 calls := s.calls.set i (.answered (some k) .error) }
    | some (.answered _ _) => s

def Conc.run (F : Facts) : Conc → List Act → Conc
  | s, [] => s
  | s, a :: r => Conc.run F (s.step F a) r

/-- `n` successive passes through the session-lock region. -/
def lockedAll (F : Facts) : Nat → Session → List PullRes
  | 0, _ => []
  | n + 1, s => (s.locked F).2 :: lockedAll F n (s.locked F).1

def Call.idx : Call → Option Nat
  | .pulled k _ => some k
  | .answered k _ => k
  | _ => none

/-! ### client: `ChunkReader` (sync) -/

/-- `rs`: the responses the following `next` requests will get (an exhausted list stands for a
server that answers errors, which is what it does past the end). -/
structure Reader where
  rs : List Resp
  buf : Bytes := []
  pos : Nat := 0
  finished : Bool := false
  lastSeen : Bool := false
  deriving DecidableEq, Repr

def isLast (k : Nat) (query : Bytes) : Bool := query.head? == some (UInt8.ofNat k)

/-- `ChunkReader::fetch`; `none` = `Err` (the `next` call failed or answered an error). -/
def Reader.fetch (F : Facts) (r : Reader) : Option Reader :=
  match r.rs with
  | [] => none
  | .error :: _ => none
  | .chunk body query :: rest =>
    let last := isLast F.syncLastIs query
    some { rs := rest, buf := body, pos := 0, finished := r.finished || last, lastSeen := r.lastSeen || last }

inductive ReadRes where
  | data (b : Bytes)   -- `Ok(n)`, n ≥ 1 bytes copied
  | eof                -- `Ok(0)`
  | err
  deriving DecidableEq, Repr

/-- `ChunkReader::read(out)` with `out.len() = want ≥ 1`; the `loop` runs at most `fuel` times. -/
def Reader.read (F : Facts) : Nat → Reader → Nat → Reader × ReadRes
  | 0, r, _ => (r, .err)
  | fuel + 1, r, want =>
    if r.pos < r.buf.length then
      let n := min want (r.buf.length - r.pos)
      ({ r with pos := r.pos + n }, .data ((r.buf.drop r.pos).take n))
    else if r.finished then (r, .eof)
    else match r.fetch F with
      | none => (r, .err)
      | some r' => Reader.read F fuel r' want

/-- A consumer that reads to the end (`read_to_end`, `io::copy`, a decoder): `sizes k ≥ 1` is the
buffer length it offers on its `k`-th call.  Returns the bytes it got and whether it ended on EOF. -/
def Reader.drain (F : Facts) (sizes : Nat → Nat) : Nat → Nat → Reader → Bytes → Bytes × Bool × Reader
  | 0, _, r, acc => (acc, false, r)
  | fuel + 1, k, r, acc =>
    match Reader.read F (r.rs.length + 2) r (sizes k) with
    | (r', .data b) => Reader.drain F sizes fuel (k + 1) r' (acc ++ b)
    | (r', .eof) => (acc, true, r')
    | (r', .err) => (acc, false, r')

def respBytes : List Resp → Nat
  | [] => 0
  | .chunk b _ :: r => b.length + respBytes r
  | .error :: r => respBytes r

/-- `pull_consume(.., read_to_end)` minus the codec: logical bytes or the read error. -/
def syncPull (F : Facts) (sizes : Nat → Nat) (rs : List Resp) : Option Bytes :=
  match Reader.drain F sizes (respBytes rs + rs.length + 2) 0 { rs := rs } [] with
  | (acc, true, _) => some acc
  | (_, false, _) => none

/-! ### client: `pull_loop_async` + `ChannelReader` (async) -/

/-- `pull_loop_async`: the chunks forwarded into the tokio channel and whether the loop returned `Ok`. -/
def asyncLoop (F : Facts) : List Resp → List Bytes × Bool
  | [] => ([], false)
  | .error :: _ => ([], false)                    -- `svs_call(..).await?`
  | .chunk body query :: rest =>
    let fwd := if F.asyncSkipsEmpty && body.isEmpty then [] else [body]
    if isLast F.asyncLastIs query then (fwd, true)
    else
      let (more, ok) := asyncLoop F rest
      (fwd ++ more, ok)

/-- `ChannelReader` read to the end: buffers are concatenated, the closed channel is EOF. -/
def channelReaderAll (chunks : List Bytes) : Bytes := chunks.flatten

/-- `run_pull` with a read-to-end consumer: `pull_res?` first, then the consumer's value. -/
def asyncPull (F : Facts) (rs : List Resp) : Option Bytes :=
  match asyncLoop F rs with
  | (chunks, true) => some (channelReaderAll chunks)
  | (_, false) => none

/-! ### whole path -/

/-- Everything from the body's writes to the responses of `n` `next` requests on a fresh server;
the channel delivers under policy `p` at depth `d`. -/
def deliverMsgs (d : Nat) (p : Policy) (msgs : List Msg) : List PullRes :=
  (Sys.runPolicy d p (3 * msgs.length + 4) 0 { toSend := msgs }).out

def respOfPull (F : Facts) : PullRes → Resp
  | .ok (c, last) => .chunk c (lastQuery F last)
  | .error _ => .error

end Repe.Svs
