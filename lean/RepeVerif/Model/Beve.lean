import RepeVerif.Model.Wire
/-
Model of the bulk numeric body paths (C08).

Two layers.

* The BEVE wire format of the dependency `beve` 8 (`size.rs`, `fast.rs`, `aligned.rs`): typed-array
  header byte, SIZE compressed integer, typed / complex / aligned array encoders and the bulk readers.
  This layer belongs to a dependency: it is written from its source and *validated* by the `numeric`
  correspondence family, not extracted.
* repe's own logic on top (`src/message.rs`, `src/io.rs`, `src/server.rs`): `body_typed_slice`,
  `body_complex_slice`, `body_aligned_typed_slice` (base offset `HEADER_SIZE + query.len()`),
  the format guard of the decoders, the marker dispatch of the borrowing route with its
  borrow-iff-address-aligned / owned fallback, and the streaming writers.

Elements are opaque byte blocks of width `w` (`List Bytes`, every block of length `w`), so
"bit-for-bit" is equality of blocks and no float model is needed.  A complex element is a block of
width `2w` (`re` then `im`).  Little-endian target assumed (the bulk copies are only then the wire bytes).
Core Lean only: linked into `repe_model_numeric`.
-/
namespace Repe.Beve

/-- A `BeveTypedSlice` scalar: typed-array class (0 float, 1 signed, 2 unsigned) and byte code. -/
structure ElemTy where
  cls : Nat
  code : Nat
  deriving DecidableEq, Repr

/-- The implementors of `BeveTypedSlice`: bf16,f16,f32,f64 (float codes 0..3), i8..i128, u8..u128. -/
def ElemTy.Valid (t : ElemTy) : Prop :=
  (t.cls = 0 ∧ t.code ≤ 3) ∨ ((t.cls = 1 ∨ t.cls = 2) ∧ t.code ≤ 4)

instance (t : ElemTy) : Decidable t.Valid := by unfold ElemTy.Valid; exact inferInstance

/-- `T::ELEM_SIZE`: `1 << code`, except bf16 (float, code 0) which is 2 bytes. -/
def ElemTy.width (t : ElemTy) : Nat := if t.cls = 0 ∧ t.code = 0 then 2 else 2 ^ t.code

/-- `align_of::<T>()` = `size_of::<T>()` for every implementor on the 64-bit targets considered. -/
def ElemTy.align (t : ElemTy) : Nat := t.width

inductive BErr where
  | eof | invalidType | mismatch | invalidSize | unsupported
  deriving DecidableEq, Repr

abbrev BOut := Except BErr

/-! ### SIZE: BEVE's compressed unsigned integer (`size.rs`) -/

/-- `write_size` / `encode_size_to_array`: two low bits of the first byte give the width
(1/2/4/8 bytes), the remaining bits hold the value little-endian.  Values ≥ 2^62 are truncated
(the 8-byte form holds 62 bits). -/
def writeSize (n : Nat) : Bytes :=
  if n < 2^6 then [UInt8.ofNat (n * 4)]
  else if n < 2^14 then UInt8.ofNat ((n % 64) * 4 + 1) :: leBytes 1 (n / 64)
  else if n < 2^30 then UInt8.ofNat ((n % 64) * 4 + 2) :: leBytes 3 (n / 64)
  else UInt8.ofNat ((n % 64) * 4 + 3) :: leBytes 7 (n / 64)

/-- `size_encoded_len`. -/
def sizeLen (n : Nat) : Nat :=
  if n < 2^6 then 1 else if n < 2^14 then 2 else if n < 2^30 then 4 else 8

/-- Number of bytes following the first byte, by the 2-bit code. -/
def sizeExtra (code : Nat) : Nat :=
  match code with
  | 0 => 0
  | 1 => 1
  | 2 => 3
  | _ => 7

/-- `read_size`: value and the remaining input, or `Eof`. -/
def readSize : Bytes → BOut (Nat × Bytes)
  | [] => .error .eof
  | b0 :: r =>
    let k := sizeExtra (b0.toNat % 4)
    if r.length < k then .error .eof
    else .ok (b0.toNat / 4 + 64 * fromLe (r.take k), r.drop k)

/-! ### regular typed numeric array (`fast.rs`) -/

/-- `make_header(TYPE_TYPED_ARRAY, class, byte_code)` = `code<<5 | class<<3 | 4`. -/
def typedHeader (t : ElemTy) : UInt8 := UInt8.ofNat (t.code * 32 + t.cls * 8 + 4)

/-- `write_typed_slice` / `to_writer_typed_slice` on the raw little-endian payload of `n` elements. -/
def encodeTypedRaw (t : ElemTy) (n : Nat) (payload : Bytes) : Bytes :=
  typedHeader t :: (writeSize n ++ payload)

def encodeTyped (t : ElemTy) (xs : List Bytes) : Bytes := encodeTypedRaw t xs.length xs.flatten

/-- `typed_slice_size`: the closed form used to size buffers and to declare `body_length`. -/
def typedSliceSize (t : ElemTy) (n : Nat) : Nat := 1 + sizeLen n + n * t.width

/-- Cut `n` blocks of width `w` (the bulk copy into a `Vec<T>`, seen element by element). -/
def chunks (w : Nat) : Nat → Bytes → List Bytes
  | 0, _ => []
  | n+1, bs => bs.take w :: chunks w n (bs.drop w)

/-- Header byte check of the bulk readers: a typed array whose class and byte code name `T`. -/
def checkNumericHeader (t : ElemTy) (h : UInt8) : BOut Unit :=
  if h.toNat % 8 ≠ 4 then .error .invalidType
  else if (h.toNat / 8) % 4 ≠ t.cls ∨ h.toNat / 32 ≠ t.code then .error .mismatch
  else .ok ()

/-- `len.checked_mul(elem)`, then the bounds check, then the payload slice. -/
def takePayload (w len : Nat) (r : Bytes) : BOut Bytes :=
  if len * w ≥ 2^64 then .error .invalidSize
  else if r.length < len * w then .error .eof
  else .ok (r.take (len * w))

/-- `read_typed_slice`, up to the bulk copy: element count and payload bytes (trailing bytes ignored). -/
def readTypedRaw (t : ElemTy) : Bytes → BOut (Nat × Bytes)
  | [] => .error .eof
  | h :: r => do
    checkNumericHeader t h
    let (len, r2) ← readSize r
    let p ← takePayload t.width len r2
    pure (len, p)

def readTyped (t : ElemTy) (bs : Bytes) : BOut (List Bytes) :=
  (readTypedRaw t bs).map fun (n, p) => chunks t.width n p

/-! ### complex array extension (`fast.rs`) -/

/-- Extension header `(EXT_COMPLEX<<3)|TYPE_EXTENSION = 0x1E`, then `code<<5 | class<<3 | 1` (array). -/
def complexHeader (t : ElemTy) : Bytes := [0x1E, UInt8.ofNat (t.code * 32 + t.cls * 8 + 1)]

def encodeComplexRaw (t : ElemTy) (n : Nat) (payload : Bytes) : Bytes :=
  complexHeader t ++ (writeSize n ++ payload)

/-- Complex elements are blocks of width `2 * t.width` (`re`, `im` interleaved). -/
def encodeComplex (t : ElemTy) (xs : List Bytes) : Bytes := encodeComplexRaw t xs.length xs.flatten

def complexSliceSize (t : ElemTy) (n : Nat) : Nat := 2 + sizeLen n + n * (2 * t.width)

/-- `read_complex_slice`. -/
def readComplexRaw (t : ElemTy) : Bytes → BOut (Nat × Bytes)
  | [] => .error .eof
  | h :: r0 =>
    if h.toNat % 8 ≠ 6 ∨ h.toNat / 8 ≠ 3 then .error .invalidType
    else match r0 with
      | [] => .error .eof
      | ch :: r =>
        if ch.toNat % 2 = 0 then .error .invalidType
        else if (ch.toNat / 8) % 4 ≠ t.cls ∨ (ch.toNat / 32) % 8 ≠ t.code then .error .mismatch
        else do
          let (len, r2) ← readSize r
          let p ← takePayload (2 * t.width) len r2
          pure (len, p)

def readComplex (t : ElemTy) (bs : Bytes) : BOut (List Bytes) :=
  (readComplexRaw t bs).map fun (n, p) => chunks (2 * t.width) n p

/-! ### aligned typed array (`aligned.rs`) -/

/-- `aligned_marker_header()` = `make_header(4, 3, 2)` = `0x5C`. -/
def alignedMarker : UInt8 := 0x5C

/-- `padding_for(padding_length_offset, align)`. -/
def paddingFor (plo align : Nat) : Nat := (align - ((plo + 1) % align)) % align

/-- `write_aligned_typed_slice_at(out, slice, base_offset)` into an empty `out`:
marker, numeric header, SIZE, PADDING_LENGTH, zero padding, payload.  (`base_offset.wrapping_add`:
only the residue modulo `align`, a power of two, reaches `padding_for`, so wrapping is not modelled.) -/
def encodeAlignedRaw (t : ElemTy) (n : Nat) (payload : Bytes) (base : Nat) : Bytes :=
  let sz := writeSize n
  let pad := paddingFor (base + (2 + sz.length)) t.align
  alignedMarker :: typedHeader t :: (sz ++ UInt8.ofNat pad :: (List.replicate pad 0 ++ payload))

def encodeAligned (t : ElemTy) (xs : List Bytes) (base : Nat) : Bytes :=
  encodeAlignedRaw t xs.length xs.flatten base

/-- `aligned_typed_slice_size(slice, start_offset)`. -/
def alignedSliceSize (t : ElemTy) (n : Nat) (start : Nat) : Nat :=
  let sw := sizeLen n
  2 + sw + 1 + paddingFor (start + (2 + sw)) t.align + n * t.width

structure AlignedParse where
  len : Nat
  /-- offset of `DATA` from the first byte of the array -/
  dataOffset : Nat
  data : Bytes
  deriving DecidableEq, Repr

/-- `parse_aligned_header`. -/
def parseAligned (t : ElemTy) (bs : Bytes) : BOut AlignedParse :=
  match bs with
  | [] => .error .eof
  | m :: r0 =>
    if m.toNat % 8 ≠ 4 ∨ (m.toNat / 8) % 4 ≠ 3 ∨ m.toNat / 32 ≠ 2 then .error .invalidType
    else match r0 with
      | [] => .error .eof
      | h :: r => do
        checkNumericHeader t h
        let (len, r2) ← readSize r
        match r2 with
        | [] => .error .eof
        | p :: r3 =>
          if r3.length < p.toNat then .error .eof
          else do
            let r4 := r3.drop p.toNat
            let data ← takePayload t.width len r4
            pure ⟨len, bs.length - r4.length, data⟩

/-- `read_aligned_typed_slice`: owned, one bulk copy, works at any address. -/
def readAligned (t : ElemTy) (bs : Bytes) : BOut (List Bytes) :=
  (parseAligned t bs).map fun p => chunks t.width p.len p.data

/-- `read_aligned_typed_slice_ref` with the array's first byte at absolute address `addr`:
refuses (`Unsupported`) unless the payload pointer is a multiple of `align_of::<T>()`. -/
def readAlignedRef (t : ElemTy) (addr : Nat) (bs : Bytes) : BOut (List Bytes) := do
  let p ← parseAligned t bs
  if (addr + p.dataOffset) % t.align ≠ 0 then .error .unsupported
  else pure (chunks t.width p.len p.data)

/-! ### the generic (serde) encoder and decoder, on vectors of one scalar type

`beve::to_vec(&Vec<T>)` emits the typed array for a non-empty vector and, having no element to take
a type from, an empty *generic* array `05 00` for the empty one.  `beve::from_slice::<Vec<T>>` reads
both.  This is the dependency's serde path: not derived, validated by the correspondence, and the
decoder is modelled only on the range of the two encoders. -/

def emptyGenericArray : Bytes := [0x05, 0x00]

def encodeGenericRaw (t : ElemTy) (n : Nat) (payload : Bytes) : Bytes :=
  if n = 0 then emptyGenericArray else encodeTypedRaw t n payload

def encodeGeneric (t : ElemTy) (xs : List Bytes) : Bytes := encodeGenericRaw t xs.length xs.flatten

def encodeGenericComplexRaw (t : ElemTy) (n : Nat) (payload : Bytes) : Bytes :=
  if n = 0 then emptyGenericArray else encodeComplexRaw t n payload

def encodeGenericComplex (t : ElemTy) (xs : List Bytes) : Bytes :=
  encodeGenericComplexRaw t xs.length xs.flatten

def readGeneric (t : ElemTy) (bs : Bytes) : BOut (List Bytes) :=
  if bs = emptyGenericArray then .ok [] else readTyped t bs

def readGenericComplex (t : ElemTy) (bs : Bytes) : BOut (List Bytes) :=
  if bs = emptyGenericArray then .ok [] else readComplex t bs

/-! ### repe on top -/

/-- A summand of `base_offset` in `body_aligned_typed_slice`. -/
inductive BaseTerm where
  | header          -- `HEADER_SIZE`
  | query           -- `self.query.len()`
  | const (n : Nat)
  deriving DecidableEq, Repr

/-- Which wire form a client entry point frames its slice in. -/
inductive WireForm where
  | regular   -- `MessageBuilder::body_typed_slice`
  | aligned   -- `MessageBuilder::body_aligned_typed_slice`
  deriving DecidableEq, Repr

/-- Facts about one client (`Client` / `AsyncClient`). -/
structure ClientFacts where
  /-- `call_with_body_and_timeout` sets the query on the builder before it applies the body closure -/
  queryFirst : Bool
  /-- the builder method reached from `call_typed_slice` / `call_typed_slice_with_timeout` -/
  bulkPlain : WireForm
  bulkTimeout : WireForm
  /-- … from `call_typed_slice_aligned` / `call_typed_slice_aligned_with_timeout` -/
  alignedPlain : WireForm
  alignedTimeout : WireForm
  deriving DecidableEq, Repr

/-- Layout constants of the dependency, read from the beve crate source the lock file names. -/
structure BeveFacts where
  typeTypedArray : Nat
  typeGenericArray : Nat
  typeExtension : Nat
  extComplex : Nat
  arrayFloat : Nat
  arraySigned : Nat
  arrayUnsigned : Nat
  arrayBoolOrString : Nat
  alignedDiscriminator : Nat
  /-- exponents of the SIZE thresholds (`n < 1 << e`) in `write_size`, `size_encoded_len`, `encode_size_to_array` -/
  sizeThresholds : List (List Nat)
  /-- `impl BeveTypedSlice`: (class, byte code, bytes per element) -/
  impls : List (Nat × Nat × Nat)
  deriving DecidableEq, Repr

/-- Facts read off the current source by `extract/numeric.py`. -/
structure Facts where
  /-- `BEVE_ALIGNED_TYPED_ARRAY_MARKER` in `server.rs` -/
  marker : Nat
  /-- summands of `base_offset` in `body_aligned_typed_slice` -/
  baseTerms : List BaseTerm
  /-- `Message::decode_typed_slice` starts with `require_body_format(BodyFormat::Beve)?`
  (and `require_body_format` compares `header.body_format == expected as u16`) -/
  typedGuard : Bool
  /-- same for `decode_complex_slice` -/
  complexGuard : Bool
  /-- `decode_typed_slice_param`, `_param_view`, `decode_typed_slice_ref_param` accept only `Ok(BodyFormat::Beve)` -/
  serverGuards : Bool
  /-- the bulk decoders also accept serde's encoding of the empty vector (`05 00`) -/
  emptyGeneric : Bool
  /-- `create_typed_slice_response_unstamped(_view)` frame the result with `body_typed_slice` -/
  respBulk : Bool
  syncClient : ClientFacts
  asyncClient : ClientFacts
  /-- anchors that were found but whose form at the spot the property depends on is not a recognised
  one (the committed value is then used for the fact; `C08.anchors_recognised` fails) -/
  unrecognised : List String
  deriving DecidableEq, Repr

def BEVE : Nat := 1
def INVALID_BODY : Nat := 4
def PARSE_ERROR : Nat := 5

def baseOffset (terms : List BaseTerm) (qlen : Nat) : Nat :=
  (terms.map fun
    | .header => 48
    | .query => qlen
    | .const n => n).sum

/-- `MessageBuilder::body_typed_slice` (body bytes; the body format becomes `Beve`). -/
def bodyTypedSlice (t : ElemTy) (xs : List Bytes) : Bytes := encodeTyped t xs

def bodyComplexSlice (t : ElemTy) (xs : List Bytes) : Bytes := encodeComplex t xs

/-- `MessageBuilder::body_aligned_typed_slice` with a query of `qlen` bytes already set. -/
def bodyAlignedTypedSlice (F : Facts) (t : ElemTy) (qlen : Nat) (xs : List Bytes) : Bytes :=
  encodeAligned t xs (baseOffset F.baseTerms qlen)

inductive NErr where
  | unexpectedBodyFormat
  | beve (e : BErr)
  deriving DecidableEq, Repr

def liftB {α} : BOut α → Except NErr α
  | .ok a => .ok a
  | .error e => .error (.beve e)

/-- The bulk read the repe decoders perform on a `Beve` body: element count and payload. -/
def bulkReadTypedRaw (F : Facts) (t : ElemTy) (body : Bytes) : BOut (Nat × Bytes) :=
  if F.emptyGeneric ∧ body = emptyGenericArray then .ok (0, []) else readTypedRaw t body

def bulkReadComplexRaw (F : Facts) (t : ElemTy) (body : Bytes) : BOut (Nat × Bytes) :=
  if F.emptyGeneric ∧ body = emptyGenericArray then .ok (0, []) else readComplexRaw t body

def bulkReadTyped (F : Facts) (t : ElemTy) (body : Bytes) : BOut (List Bytes) :=
  (bulkReadTypedRaw F t body).map fun (n, p) => chunks t.width n p

def bulkReadComplex (F : Facts) (t : ElemTy) (body : Bytes) : BOut (List Bytes) :=
  (bulkReadComplexRaw F t body).map fun (n, p) => chunks (2 * t.width) n p

/-- `require_body_format(BodyFormat::Beve)`. -/
def formatOk (guard : Bool) (fmt : Nat) : Bool := !guard || fmt == BEVE

/-- `Message::decode_typed_slice`, up to the bulk copy. -/
def decodeTypedSliceRaw (F : Facts) (fmt : Nat) (t : ElemTy) (body : Bytes) : Except NErr (Nat × Bytes) :=
  if formatOk F.typedGuard fmt then liftB (bulkReadTypedRaw F t body) else .error .unexpectedBodyFormat

/-- `Message::decode_complex_slice`, up to the bulk copy. -/
def decodeComplexSliceRaw (F : Facts) (fmt : Nat) (t : ElemTy) (body : Bytes) : Except NErr (Nat × Bytes) :=
  if formatOk F.complexGuard fmt then liftB (bulkReadComplexRaw F t body) else .error .unexpectedBodyFormat

/-- `Message::decode_typed_slice`. -/
def decodeTypedSlice (F : Facts) (fmt : Nat) (t : ElemTy) (body : Bytes) : Except NErr (List Bytes) :=
  (decodeTypedSliceRaw F fmt t body).map fun (n, p) => chunks t.width n p

/-- `Message::decode_complex_slice`. -/
def decodeComplexSlice (F : Facts) (fmt : Nat) (t : ElemTy) (body : Bytes) : Except NErr (List Bytes) :=
  (decodeComplexSliceRaw F fmt t body).map fun (n, p) => chunks (2 * t.width) n p

/-- `SliceInput`. -/
inductive SliceInput where
  | borrowed (xs : List Bytes)
  | owned (xs : List Bytes)
  deriving DecidableEq, Repr

def SliceInput.elems : SliceInput → List Bytes
  | .borrowed xs => xs
  | .owned xs => xs

def SliceInput.isBorrowed : SliceInput → Bool
  | .borrowed _ => true
  | .owned _ => false

/-- `decode_typed_slice_ref_body` with `body[0]` at absolute address `addr`. -/
def decodeTypedSliceRefBody (F : Facts) (t : ElemTy) (addr : Nat) (body : Bytes) : BOut SliceInput :=
  if body.head? = some (UInt8.ofNat F.marker) then
    match readAlignedRef t addr body with
    | .ok xs => .ok (.borrowed xs)
    | .error _ => (readAligned t body).map .owned
  else (bulkReadTyped F t body).map .owned

/-- What a bulk-slice handler does with a request body. -/
inductive HandlerOut where
  | called (input : SliceInput)   -- the closure ran on these elements
  | reject (ec : Nat)             -- prebuilt error response (wrong body format)
  | err (e : BErr)                -- `Err(RepeError::Beve)`: the dispatcher answers `ParseError`
  deriving DecidableEq, Repr

def serverFormatOk (F : Facts) (fmt : Nat) : Bool := !F.serverGuards || fmt == BEVE

/-- `TypedSliceRefHandler::handle_view` (and `handle`: same decode on the owned body). -/
def sliceRefHandler (F : Facts) (t : ElemTy) (fmt : Nat) (addr : Nat) (body : Bytes) : HandlerOut :=
  if serverFormatOk F fmt then
    match decodeTypedSliceRefBody F t addr body with
    | .ok i => .called i
    | .error e => .err e
  else .reject INVALID_BODY

/-- `TypedSliceHandler::handle_view` / `handle`. -/
def sliceHandler (F : Facts) (t : ElemTy) (fmt : Nat) (body : Bytes) : HandlerOut :=
  if serverFormatOk F fmt then
    match bulkReadTyped F t body with
    | .ok xs => .called (.owned xs)
    | .error e => .err e
  else .reject INVALID_BODY

/-- `write_message_typed_slice(w, header, query, slice)`: body format forced to `Beve`, lengths
patched from `query.len()` and the *closed-form* `typed_slice_size`, then header, query (if any),
and the array written straight to the sink. -/
def writeMessageTypedSliceRaw (h : Header) (q : Bytes) (t : ElemTy) (n : Nat) (payload : Bytes) : Bytes :=
  (Header.patchLengths { h with bodyFormat := BEVE } q.length (typedSliceSize t n)).encode ++
    (if q.isEmpty then [] else q) ++ encodeTypedRaw t n payload

def writeMessageTypedSlice (h : Header) (q : Bytes) (t : ElemTy) (xs : List Bytes) : Bytes :=
  writeMessageTypedSliceRaw h q t xs.length xs.flatten

/-- `write_message_complex_slice`. -/
def writeMessageComplexSliceRaw (h : Header) (q : Bytes) (t : ElemTy) (n : Nat) (payload : Bytes) : Bytes :=
  (Header.patchLengths { h with bodyFormat := BEVE } q.length (complexSliceSize t n)).encode ++
    (if q.isEmpty then [] else q) ++ encodeComplexRaw t n payload

def writeMessageComplexSlice (h : Header) (q : Bytes) (t : ElemTy) (xs : List Bytes) : Bytes :=
  writeMessageComplexSliceRaw h q t xs.length xs.flatten

/-- The builder inputs `Message::builder().id(..)…query_bytes(q).body_*_slice(xs)` leaves behind. -/
def sliceBuilder (id : Nat) (notify : Bool) (ec qfmt : Nat) (q body : Bytes) : Builder :=
  { id := id, notify := notify, ec := ec, queryFormat := qfmt, bodyFormat := BEVE, query := q, body := body }

/-! ### a whole call: client helper → server route → client decode (handlers echo their input) -/

inductive ClientKind where
  | bulk      -- `call_typed_slice`
  | aligned   -- `call_typed_slice_aligned`
  | serde     -- `call_typed_beve` over `Vec<T>`
  deriving DecidableEq, Repr

inductive RouteKind where
  | slice     -- `Router::with_typed_slice`
  | sliceRef  -- `Router::with_typed_slice_ref`
  | typed     -- `Router::with_typed::<Vec<T>, Vec<T>>` answering `TypedResponse::beve`
  deriving DecidableEq, Repr

inductive CallErr where
  | server (ec : Nat)     -- an error response came back
  | client (e : NErr)     -- the response did not decode
  deriving DecidableEq, Repr

/-- The request body the client helper builds behind a `qlen`-byte path. -/
def requestBody (F : Facts) (k : ClientKind) (t : ElemTy) (qlen : Nat) (xs : List Bytes) : Bytes :=
  match k with
  | .bulk => bodyTypedSlice t xs
  | .aligned => bodyAlignedTypedSlice F t qlen xs
  | .serde => encodeGeneric t xs

/-- The route, its handler echoing the decoded elements: response body or error code.
`addr` is where the request body landed in the server's receive buffer. -/
def serve (F : Facts) (r : RouteKind) (t : ElemTy) (addr : Nat) (body : Bytes) : Except Nat Bytes :=
  match r with
  | .slice =>
    match sliceHandler F t BEVE body with
    | .called i => .ok (bodyTypedSlice t i.elems)
    | .reject ec => .error ec
    | .err _ => .error PARSE_ERROR
  | .sliceRef =>
    match sliceRefHandler F t BEVE addr body with
    | .called i => .ok (bodyTypedSlice t i.elems)
    | .reject ec => .error ec
    | .err _ => .error PARSE_ERROR
  | .typed =>
    match readGeneric t body with
    | .ok xs => .ok (encodeGeneric t xs)
    | .error _ => .error PARSE_ERROR

def clientDecode (F : Facts) (k : ClientKind) (t : ElemTy) (resp : Bytes) : Except NErr (List Bytes) :=
  match k with
  | .serde => liftB (readGeneric t resp)
  | _ => decodeTypedSlice F BEVE t resp

def call (F : Facts) (k : ClientKind) (r : RouteKind) (t : ElemTy) (qlen addr : Nat) (xs : List Bytes) :
    Except CallErr (List Bytes) :=
  match serve F r t addr (requestBody F k t qlen xs) with
  | .error ec => .error (.server ec)
  | .ok resp =>
    match clientDecode F k t resp with
    | .ok ys => .ok ys
    | .error e => .error (.client e)

/-! ### builder sequences: the body setters of `MessageBuilder` -/

/-- A body setter call with its argument. -/
inductive Setter where
  | bytes (b : Bytes)                          -- `body_bytes`: leaves the body format alone
  | utf8 (b : Bytes)                           -- `body_utf8`
  | json (b : Bytes)                           -- `body_json` (the serialized JSON text)
  | beve (t : ElemTy) (xs : List Bytes)        -- `body_beve(&Vec<T>)`
  | typed (t : ElemTy) (xs : List Bytes)       -- `body_typed_slice`
  | complex (t : ElemTy) (xs : List Bytes)     -- `body_complex_slice`
  | aligned (t : ElemTy) (xs : List Bytes)     -- `body_aligned_typed_slice`

/-- One setter on the builder's `(body_format, body)`; `qlen` is the length of the query the builder
holds at that moment.  Every setter replaces the body; all but `body_bytes` set the format. -/
def Setter.apply (F : Facts) (qlen : Nat) (s : Setter) (st : Nat × Bytes) : Nat × Bytes :=
  match s with
  | .bytes b => (st.1, b)
  | .utf8 b => (3, b)
  | .json b => (2, b)
  | .beve t xs => (BEVE, encodeGeneric t xs)
  | .typed t xs => (BEVE, bodyTypedSlice t xs)
  | .complex t xs => (BEVE, bodyComplexSlice t xs)
  | .aligned t xs => (BEVE, bodyAlignedTypedSlice F t qlen xs)

/-- `Message::builder().id(id)` + query (before or after the body setters) + setters + `build()`. -/
def buildSeq (F : Facts) (id : Nat) (q : Bytes) (queryAfter : Bool) (ss : List Setter) : Message :=
  let st := ss.foldl (fun st s => s.apply F (if queryAfter then 0 else q.length) st) (0, [])
  ({ id := id, notify := false, ec := 0, queryFormat := 0, bodyFormat := st.1, query := q, body := st.2 } : Builder).build

/-- The body a client entry point builds.  `timeout` selects the `_with_timeout` twin.  The query
length the aligned builder sees is the path's only if the query is set before the body closure runs. -/
def clientBody (F : Facts) (C : ClientFacts) (k : ClientKind) (timeout : Bool) (t : ElemTy) (qlen : Nat)
    (xs : List Bytes) : Bytes :=
  let form (w : WireForm) : Bytes :=
    match w with
    | .regular => bodyTypedSlice t xs
    | .aligned => bodyAlignedTypedSlice F t (if C.queryFirst then qlen else 0) xs
  match k with
  | .bulk => form (if timeout then C.bulkTimeout else C.bulkPlain)
  | .aligned => form (if timeout then C.alignedTimeout else C.alignedPlain)
  | .serde => encodeGeneric t xs

/-- The request message a client entry point (`call_typed_slice*`, `call_typed_slice_aligned*`,
`call_typed_beve*` of `Client` / `AsyncClient`) puts on the wire: id, JSON-pointer query, body. -/
def clientRequest (F : Facts) (C : ClientFacts) (k : ClientKind) (timeout : Bool) (t : ElemTy) (id : Nat)
    (path : Bytes) (xs : List Bytes) : Message :=
  (sliceBuilder id false 0 1 path (clientBody F C k timeout t path.length xs)).build

end Repe.Beve
