/-!
# Model of the multiplexing clients (C04, C06)

One transition system for `Client` (src/client.rs), `AsyncClient` (src/async_client.rs) and
`WebSocketClient` (src/websocket_client.rs); what differs between them is a `Cfg` whose fields are
re-extracted from the source (`Gen/Mux.lean`).

Granularity (DESIGN §5): one event = one lock region / one channel operation of one thread or task.

* a call by caller `c`:  `alloc c` (`next_id.fetch_add`) → `register c` (`pending.insert` /
  `PendingRequestGuard::register`, one region of the pending lock) → `write c` (`write_request`,
  one region of the writer lock; fails once the writer was shut down) → `recv c` (the receiver
  yields) | `timeout c` (the timer won, nothing in the channel) | `cancel c` (the future is dropped,
  any time) | `writeFail c` (the write returned an error); the three abandoning paths end with
  `cleanup c` (`remove_pending` / guard `Drop`: a second region of the pending lock) and the call
  returns.
* the reader thread/task: `rmatch f` (read one frame; WebSocket client: a frame whose notify flag is
  set takes a clone of the subscriber's sender and never looks at the pending map; otherwise
  `pending.remove(id)` under the lock) → `deliver` (`sender.send`, outside the lock);
  `readErr` (EOF, reset, malformed frame, WebSocket close: enters `fail_all_pending`), then one
  `failStep` per statement of `fail_all_pending` in the order extracted from the source
  (`shutdownWriter`, `takeNotify`, `drainPending` or `closeAndDrain`, `sendErrors` — one send per step), then the
  loop ends (`finished`); senders still held when the function returns are dropped (the receiver
  sees "channel closed").
* `skip`: a notify *sent by the client* consumes an id; `subscribe`/`unsubscribe`.

A disabled event leaves the state unchanged, so "every event sequence" = every interleaving.
Core Lean only (this file is linked into `repe_model_mux`).
-/
namespace Repe.Mux

structure Frame where
  id : Nat
  notify : Bool      -- header.notify != 0
  tag : Nat          -- identity of the frame in the server's script
deriving DecidableEq, Repr, Inhabited

/-- What can sit in a caller's one-shot channel. -/
inductive Msg where
  | resp (f : Frame)     -- `Ok(response)` sent by the reader after a match
  | connErr              -- `Err(fatal)` sent by `fail_all_pending`
  | closed               -- the sender was dropped without sending
deriving DecidableEq, Repr

/-- What a call returns (error *classes*). -/
inductive Outcome where
  | resp (f : Frame)
  | connErr | chanClosed | writeErr | timedOut | cancelled | dupId | idMismatch
deriving DecidableEq, Repr

/-- Why a call gives up before a value arrived. -/
inductive Abandon where
  | writeErr | timedOut | cancelled
deriving DecidableEq, Repr

def Abandon.outcome : Abandon → Outcome
  | .writeErr => .writeErr
  | .timedOut => .timedOut
  | .cancelled => .cancelled

inductive PC where
  | idle
  | active
  | abandoning (a : Abandon)     -- decided to give up; `cleanup` (entry removal) still to run
  | returned (o : Outcome)
deriving DecidableEq, Repr

structure Call where
  pc : PC := .idle
  id : Nat := 0
  reg : Bool := false
  wrote : Bool := false
  chan : List Msg := []
deriving DecidableEq, Repr

inductive FailStep where
  | shutdownWriter | takeNotify | drainPending | sendErrors
  | closeAndDrain     -- one region of the pending lock: mark the connection failed (registrations are refused from now on) and drain
deriving DecidableEq, Repr

inductive Reader where
  | idle
  | holding (c : Nat) (f : Frame)            -- removed `c`'s sender, response not yet sent
  | holdingNotify (g : Nat) (f : Frame)      -- cloned the subscriber's sender (generation `g`)
  | failing (todo : List FailStep) (waiters : List (Nat × Nat)) (g0 : Nat)
  | finished (g0 : Nat)
deriving DecidableEq, Repr

/-- Per-client facts (all re-extracted from the source, see `Gen/Mux.lean`). -/
structure Cfg where
  notifyAware : Bool        -- notify flag tested before the pending map (WebSocket client)
  rejectDup : Bool          -- `register` refuses an id that is already pending (async, ws); else replaces
  regBeforeWrite : Bool     -- the entry is inserted before `write_request`
  failOrder : List FailStep -- statements of `fail_all_pending`, in order
  timeoutRemoves : Bool     -- the timeout path removes the entry
  cancelRemoves : Bool      -- dropping the call future removes the entry (guard `Drop`)
  writeErrRemoves : Bool    -- a failed write removes the entry
  -- premises of the model's shape (asserted true in Props/C04, C06; not branched on by `step`):
  matchRemoves : Bool := true     -- the reader *removes* the entry it matched (`pending.remove(&id)`)
  readerStops : Bool := true      -- the reader loop ends (`break`) after `fail_all_pending`
deriving DecidableEq, Repr

structure State where
  nextId : Nat := 1
  pending : List (Nat × Nat) := []      -- (id, caller)
  calls : Nat → Call := fun _ => {}
  reader : Reader := .idle
  writerShut : Bool := false
  regClosed : Bool := false             -- `failed` flag read by `register` under the pending lock
  sub : Option Nat := none              -- generation of the subscriber sender in the slot
  gen : Nat := 0
  subQueue : List (Nat × Frame) := []   -- (generation, frame) pushed to subscribers

def State.init : State := {}

inductive Ev where
  | alloc (c : Nat) | skip | register (c : Nat) | write (c : Nat) | writeFail (c : Nat)
  | recv (c : Nat) | timeout (c : Nat) | cancel (c : Nat) | cleanup (c : Nat)
  | rmatch (f : Frame) | deliver | readErr | failStep
  | subscribe | unsubscribe
deriving DecidableEq, Repr

def ids (p : List (Nat × Nat)) : List Nat := p.map (·.1)

def erase (p : List (Nat × Nat)) (i : Nat) : List (Nat × Nat) := p.filter (fun e => e.1 != i)

def lookup (p : List (Nat × Nat)) (i : Nat) : Option Nat :=
  match p with
  | [] => none
  | e :: r => if e.1 = i then some e.2 else lookup r i

def setCall (s : State) (c : Nat) (k : Call) : State :=
  { s with calls := fun x => if x = c then k else s.calls x }

def push (s : State) (c : Nat) (m : Msg) : State :=
  setCall s c { s.calls c with chan := (s.calls c).chan ++ [m] }

/-- Does abandoning with outcome `o` remove the pending entry? -/
def removes (cfg : Cfg) : Abandon → Bool
  | .timedOut => cfg.timeoutRemoves
  | .cancelled => cfg.cancelRemoves
  | .writeErr => cfg.writeErrRemoves

def outcomeOf (k : Call) : Msg → Outcome
  | .resp f => if f.id = k.id then .resp f else .idMismatch      -- `validate_response`
  | .connErr => .connErr
  | .closed => .chanClosed

/-- Is `write c` / `writeFail c` enabled? -/
def canWrite (cfg : Cfg) (k : Call) : Bool :=
  k.pc == .active && !k.wrote && (k.reg == cfg.regBeforeWrite)

def canRegister (cfg : Cfg) (k : Call) : Bool :=
  k.pc == .active && !k.reg && (k.wrote == !cfg.regBeforeWrite)

def step (cfg : Cfg) (s : State) : Ev → State
  | .alloc c =>
    if (s.calls c).pc = .idle then
      setCall { s with nextId := s.nextId + 1 } c { pc := .active, id := s.nextId }
    else s
  | .skip => { s with nextId := s.nextId + 1 }
  | .register c =>
    let k := s.calls c
    if canRegister cfg k then
      if s.regClosed then setCall s c { k with pc := .returned .connErr }
      else if cfg.rejectDup && (ids s.pending).contains k.id then
        setCall s c { k with pc := .returned .dupId }
      else
        setCall { s with pending := (k.id, c) :: erase s.pending k.id } c { k with reg := true }
    else s
  | .write c =>
    let k := s.calls c
    if canWrite cfg k then
      if s.writerShut then setCall s c { k with pc := .abandoning .writeErr }
      else setCall s c { k with wrote := true }
    else s
  | .writeFail c =>
    let k := s.calls c
    if canWrite cfg k then setCall s c { k with pc := .abandoning .writeErr } else s
  | .recv c =>
    let k := s.calls c
    if k.pc = .active && k.wrote && k.reg then
      match k.chan with
      | m :: _ => setCall s c { k with pc := .returned (outcomeOf k m) }
      | [] => s
    else s
  | .timeout c =>
    let k := s.calls c
    if k.pc = .active && k.wrote && k.reg && k.chan.isEmpty then
      setCall s c { k with pc := .abandoning .timedOut }
    else s
  | .cancel c =>
    let k := s.calls c
    if k.pc = .active then setCall s c { k with pc := .abandoning .cancelled } else s
  | .cleanup c =>
    let k := s.calls c
    match k.pc with
    | .abandoning o =>
      let p := if removes cfg o && k.reg then erase s.pending k.id else s.pending
      setCall { s with pending := p } c { k with pc := .returned o.outcome }
    | _ => s
  | .rmatch f =>
    match s.reader with
    | .idle =>
      if cfg.notifyAware && f.notify then
        match s.sub with
        | some g => { s with reader := .holdingNotify g f }
        | none => s
      else
        match lookup s.pending f.id with
        | some c => { s with pending := erase s.pending f.id, reader := .holding c f }
        | none => s
    | _ => s
  | .deliver =>
    match s.reader with
    | .holding c f => push { s with reader := .idle } c (.resp f)
    | .holdingNotify g f => { s with reader := .idle, subQueue := s.subQueue ++ [(g, f)] }
    | _ => s
  | .readErr =>
    match s.reader with
    | .idle => { s with reader := .failing cfg.failOrder [] s.gen }
    | _ => s
  | .failStep =>
    match s.reader with
    | .failing (.shutdownWriter :: r) w g => { s with writerShut := true, reader := .failing r w g }
    | .failing (.takeNotify :: r) w g => { s with sub := none, reader := .failing r w g }
    | .failing (.drainPending :: r) w g => { s with pending := [], reader := .failing r (w ++ s.pending) g }
    | .failing (.closeAndDrain :: r) w g =>
      { s with regClosed := true, pending := [], reader := .failing r (w ++ s.pending) g }
    | .failing (.sendErrors :: r) [] g => { s with reader := .failing r [] g }
    | .failing (.sendErrors :: r) (e :: w) g =>
      push { s with reader := .failing (.sendErrors :: r) w g } e.2 .connErr
    | .failing [] (e :: w) g => push { s with reader := .failing [] w g } e.2 .closed
    | .failing [] [] g => { s with reader := .finished g }
    | _ => s
  | .subscribe =>
    if cfg.notifyAware && s.sub.isNone then { s with sub := some s.gen, gen := s.gen + 1 } else s
  | .unsubscribe => { s with sub := none }

def run (cfg : Cfg) (s : State) (evs : List Ev) : State := evs.foldl (step cfg) s

/-- What the WebSocket reader does with a non-binary message (`decode_websocket_frame`): skip it and
read on, or treat it as the end of the connection. -/
inductive CtlAction where
  | ignore | fail
deriving DecidableEq, Repr

/-- The reader receives a control / text message. -/
def ctlStep (cfg : Cfg) (s : State) : CtlAction → State
  | .ignore => s
  | .fail => step cfg s .readErr

/-- The failure path is safe against late callers: every plain `drainPending` happens when writes
already fail or registrations are already refused (`guarded`), and the map is drained at least once
(`drained`).  `closeAndDrain` guards and drains in one step. -/
def goodOrder (guarded drained : Bool) : List FailStep → Bool
  | [] => drained
  | .shutdownWriter :: r => goodOrder true drained r
  | .closeAndDrain :: r => goodOrder true true r
  | .drainPending :: r => guarded && goodOrder guarded true r
  | _ :: r => goodOrder guarded drained r

/-! ### batch: a work queue of `(index, request)`, workers store the call's result at the index -/

structure Batch (ρ σ : Type) where
  queue : List (Nat × ρ)
  cur : Nat → Option (Nat × ρ) := fun _ => none    -- what worker `w` is calling for
  out : List (Option σ)
  log : List (ρ × σ) := []                          -- ghost: (request, result) of every call made

inductive BEv (σ : Type) where
  | pop (w : Nat)             -- worker `w` takes the head of the queue
  | finish (w : Nat) (r : σ)  -- its call returned `r`; stored at the index it popped

def enumFrom {α} : Nat → List α → List (Nat × α)
  | _, [] => []
  | n, a :: r => (n, a) :: enumFrom (n + 1) r

def Batch.start {ρ σ} (reqs : List ρ) : Batch ρ σ :=
  { queue := enumFrom 0 reqs, out := reqs.map (fun _ => none) }

def bstep {ρ σ} (b : Batch ρ σ) : BEv σ → Batch ρ σ
  | .pop w =>
    match b.cur w, b.queue with
    | none, e :: q => { b with queue := q, cur := fun x => if x = w then some e else b.cur x }
    | _, _ => b
  | .finish w r =>
    match b.cur w with
    | some (i, q) =>
      { b with cur := fun x => if x = w then none else b.cur x, out := b.out.set i (some r), log := (q, r) :: b.log }
    | none => b

def brun {ρ σ} (b : Batch ρ σ) (evs : List (BEv σ)) : Batch ρ σ := evs.foldl bstep b

end Repe.Mux
