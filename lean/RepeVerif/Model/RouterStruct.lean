import RepeVerif.Model.Router
/-
What a struct mount does with a request once the router found it (C07, deepening pass):

* `RegisteredStruct::handle` (`src/server.rs`): `relative_pointer`, the body gate (empty body = read;
  JSON / UTF-8 / BEVE decode; raw-binary and unknown codes rejected), `dispatch_struct_segments`;
* the `repe_handle` that `#[derive(RepeStruct)]` generates (`repe-derive/src/lib.rs`): walk the
  segments through fields (plain / `nested` / `readonly`) and methods (with or without argument),
  classify the access, and the `StructError` → `ErrorCode` table (`src/structs.rs`).

Field values are opaque byte strings (the JSON text of a `serde_json::Value`); serde verdicts that
depend on Rust types (whole-struct writes) are passed in. Core Lean only.
-/
namespace Repe.Router

/-- One endpoint of a derived struct. -/
inductive Node where
  | leaf (readonly : Bool)
  | nested (readonly : Bool) (fields : List (Str × Node))
  | method (takesArg returnsUnit : Bool)
  /-- a `#[repe(nested)]` field whose type implements `RepeStruct` by hand (not modelled further:
      what matters is which segments it is handed) -/
  | foreign (readonly : Bool)

abbrev Spec := List (Str × Node)

def Spec.lookup : Spec → Str → Option Node
  | [], _ => none
  | (k, n) :: rest, key => if k = key then some n else Spec.lookup rest key

inductive SErr where
  | invalidPath | invalidSubpath | bodyExpected | bodyUnexpected | deserialize | execution
  deriving DecidableEq, Repr

/-- `StructError::code` -/
def SErr.code : SErr → Nat
  | .invalidPath => 6 | .invalidSubpath => 6
  | .bodyExpected => 4 | .bodyUnexpected => 4 | .deserialize => 4
  | .execution => 5

/-- `StructError::code` by variant, in declaration order (InvalidPath, InvalidSubpath, BodyExpected,
BodyUnexpected, Serialize, Deserialize, Execution) – what a hand-written `RepeStruct` can return. -/
def structErrorCodes : List Nat := [6, 6, 4, 4, 4, 4, 5]

/-- What a request turned out to address. `path` is the list of tokens walked. -/
inductive Access where
  | readWhole (path : List Str)
  | writeWhole (path : List Str)
  | read (path : List Str)
  | write (path : List Str)
  | call (path : List Str) (returnsUnit : Bool)
  /-- the nested hand-written struct at `path` is called with the segments `rest` -/
  | foreign (path : List Str) (rest : List Str)
  deriving DecidableEq, Repr

def Access.path : Access → List Str
  | .readWhole p => p | .writeWhole p => p | .read p => p | .write p => p | .call p _ => p
  | .foreign p r => p ++ r

/-- The generated `repe_handle`, as far as addressing goes: `pre` = tokens already consumed by the
enclosing structs, `segs` = the remaining ones, `body` = a body is present. -/
def resolve : Spec → List Str → List Str → Bool → Except SErr Access
  | _, pre, [], body => .ok (if body then .writeWhole pre else .readWhole pre)
  | fields, pre, head :: tail, body =>
    match fields.lookup head with
    | none => .error .invalidPath
    | some (.leaf ro) =>
      if !tail.isEmpty then .error .invalidSubpath
      else if !body then .ok (.read (pre ++ [head]))
      else if ro then .error .bodyUnexpected
      else .ok (.write (pre ++ [head]))
    | some (.nested ro fs) =>
      if tail.isEmpty then
        if !body then .ok (.readWhole (pre ++ [head]))
        else if ro then .error .bodyUnexpected
        else .ok (.writeWhole (pre ++ [head]))
      else resolve fs (pre ++ [head]) tail body
    | some (.method takesArg unit) =>
      if !tail.isEmpty then .error .invalidSubpath
      else if takesArg && !body then .error .bodyExpected
      else .ok (.call (pre ++ [head]) unit)
    | some (.foreign ro) =>
      -- the same generated arm as `nested`: "the nested struct itself" ONLY when no token is left
      -- (a lone empty token `[""]` is a token and is forwarded)
      if tail.isEmpty then
        if !body then .ok (.foreign (pre ++ [head]) [])
        else if ro then .error .bodyUnexpected
        else .ok (.writeWhole (pre ++ [head]))
      else .ok (.foreign (pre ++ [head]) tail)

/-- A chain of `#[repe(nested)]` derived structs `names[0] / names[1] / …` ending in a hand-written
`RepeStruct` (the last name). -/
def chainSpec : List Str → Spec
  | [] => []
  | n :: rest =>
    match rest with
    | [] => [(n, .foreign false)]
    | _ :: _ => [(n, .nested false (chainSpec rest))]

/-- Leaf values by access path; a leaf never written holds `dflt`. -/
abbrev Store := List (List Str × Bytes)

def Store.get (st : Store) (dflt : Bytes) (p : List Str) : Bytes :=
  match st.find? (fun kv => kv.1 = p) with
  | some kv => kv.2
  | none => dflt

def Store.set (st : Store) (p : List Str) (v : Bytes) : Store := (p, v) :: st

inductive DOut where
  | value (v : Bytes)      -- `Ok(Some(value))`
  | null                   -- `Ok(None)`
  | whole (path : List Str)-- `Ok(Some(object))` of a (sub)struct; contents not modelled
  | called (path : List Str) (unit : Bool)
  | handed (rest : List Str)   -- a nested hand-written struct was given these segments
  | err (e : SErr)
  deriving DecidableEq, Repr

/-- One `repe_handle` call on a derived struct. `wholeOk` = serde accepts the body as the whole
(sub)struct addressed (only consulted for a whole write, which then resets nothing we track: the
harness only sends rejected ones). -/
def derivedHandle (spec : Spec) (dflt : Bytes) (st : Store) (segs : List Str) (body : Option Bytes) (wholeOk : Bool) :
    DOut × Store :=
  match resolve spec [] segs body.isSome with
  | .error e => (.err e, st)
  | .ok (.read p) => (.value (st.get dflt p), st)
  | .ok (.write p) => (.null, st.set p (body.getD []))
  | .ok (.readWhole p) => (.whole p, st)
  | .ok (.writeWhole _) => if wholeOk then (.null, st) else (.err .deserialize, st)
  | .ok (.call p unit) => (.called p unit, st)
  | .ok (.foreign _ rest) => (.handed rest, st)

/-- body gate of `RegisteredStruct::handle`: `none` = no body (read), `some none` = rejected with
InvalidBody, `some (some d)` = decode with `d` (an undecodable body is an `Err(RepeError)`). -/
def structBodyGate (g : Gate) (emptyIsRead : Bool) (bfmt : Nat) (body : Bytes) : Option (Option Decoder) :=
  if emptyIsRead && body.isEmpty then none else some (g.lookup bfmt)

/-- `RegisteredStruct::handle` up to the call of `repe_handle`: which segments, with or without a
body – or which early answer. -/
inductive StructCall where
  | notBelowRoot                       -- MethodNotFound (unreachable through `Router::get`)
  | invalidBody                        -- body format rejected
  | undecodable                        -- `Err(RepeError::Json/Beve)`
  | lockError                          -- `Lockable::lock` failed (poisoned / other): ParseError
  | handle (segs : List Str) (hasBody : Bool)
  deriving DecidableEq, Repr

def structCall (stackSegs : Nat) (g : Gate) (emptyIsRead : Bool) (root path : Str) (bfmt : Nat) (body : Bytes)
    (decodes : Decoder → Bool) (lockFails : Bool := false) : StructCall :=
  match relativePointer root path with
  | none => .notBelowRoot
  | some rel =>
    -- the lock is taken after the body has been decoded
    let locked (c : StructCall) : StructCall := if lockFails then .lockError else c
    match structBodyGate g emptyIsRead bfmt body with
    | none => locked (.handle (dispatchSegments stackSegs rel) false)
    | some none => .invalidBody
    | some (some d) => if decodes d then locked (.handle (dispatchSegments stackSegs rel) true) else .undecodable

/-- The struct the harness derives (`Demo` in fam_router.rs): a plain field, a read-only field, a struct
nested two levels deep, and three methods. -/
def demoSpec : Spec :=
  [("a".toList, .leaf false), ("ro".toList, .leaf true),
   ("inner".toList, .nested false [("x".toList, .leaf false), ("deep".toList, .nested false [("z".toList, .leaf false)])]),
   ("echo".toList, .method true false), ("ping".toList, .method false false), ("touch".toList, .method false true),
   ("boom".toList, .method true false),
   -- `#[repe(rename = "alias")] renamed` answers to "alias" only; `#[repe(skip)] hidden` is no endpoint
   ("alias".toList, .leaf false)]


end Repe.Router
