import RepeVerif.Model.Json
/-
Model of `src/registry.rs` (all of it), `src/json_pointer.rs`, and the registry mount of
`src/server.rs` (`RegisteredRegistry::{new, pointer_for}`, `RegistryEntry::matches`, the
registry part of `Router::get`).  Written branch by branch from the Rust text.

Locking (read off the source by hand; the one fact that matters is re-extracted into
`Gen.Registry.recheckUnderWriteLock`): every public method runs as ONE critical section of the
`RwLock`, except the body-bearing `dispatch_with_ctx`, which is TWO: `dispatchLookup` (function
map looked up under the read lock, lock released, callable invoked outside any lock) and
`dispatchCommit` (tree mutated under the write lock).
Core Lean only: this file is linked into `repe_model_registry`.
-/
namespace Repe

abbrev Ptr := List Char
abbrev Tok := List Char

/-! ## `usize::from_str` (array indices) -/

/-- Decimal value of an all-ASCII-digit string; `none` on any other character. -/
def digitsVal : List Char → Nat → Option Nat
  | [], acc => some acc
  | c :: r, acc => if c.isDigit then digitsVal r (acc * 10 + (c.toNat - 48)) else none

def boundUsize : Option Nat → Option Nat
  | some n => if n < 2 ^ 64 then some n else none
  | none => none

/-- `str::parse::<usize>()`: empty → error; a lone sign → error; one leading `+` is accepted (a `-`
is not, the type is unsigned); then ASCII digits only, leading zeros allowed; overflow → error. -/
def parseUsize (t : Tok) : Option Nat :=
  match t with
  | [] => none
  | ['+'] => none
  | ['-'] => none
  | '+' :: r => boundUsize (digitsVal r 0)
  | _ => boundUsize (digitsVal t 0)

/-! ## pointer syntax -/

/-- Rust `str::split(sep)`: always at least one piece. -/
def splitOn (sep : Char) : List Char → List (List Char)
  | [] => [[]]
  | c :: r =>
    if c = sep then [] :: splitOn sep r
    else match splitOn sep r with
      | [] => [[c]]
      | h :: t => (c :: h) :: t

/-- The scanning loop of `unescape_token`. -/
def unescScan : List Char → Option (List Char)
  | [] => some []
  | c :: r =>
    if c = '~' then
      match r with
      | [] => none
      | d :: r' =>
        if d = '0' then (unescScan r').map ('~' :: ·)
        else if d = '1' then (unescScan r').map ('/' :: ·)
        else none
    else (unescScan r).map (c :: ·)

/-- `unescape_token`, with its borrowed fast path for escape-free tokens. -/
def unescapeToken (t : Tok) : Option Tok :=
  if t.contains '~' then unescScan t else some t

/-- `str::replace(char, &str)` -/
def replaceChar (c : Char) (w : List Char) (s : List Char) : List Char :=
  s.flatMap fun x => if x = c then w else [x]

/-- `token.replace('~', "~0").replace('/', "~1")` -/
def escapeToken (t : Tok) : List Char :=
  replaceChar '/' ['~', '1'] (replaceChar '~' ['~', '0'] t)

def joinSegs : List Tok → Ptr
  | [] => []
  | s :: r => '/' :: (escapeToken s ++ joinSegs r)

/-- `canonical_pointer` -/
def canonicalPointer (segs : List Tok) : Ptr :=
  if segs.isEmpty then ['/'] else joinSegs segs

def mapOpt {α β} (f : α → Option β) : List α → Option (List β)
  | [] => some []
  | x :: r => match f x with
    | none => none
    | some y => (mapOpt f r).map (y :: ·)

inductive RErr where
  | invalidPointer | pathNotFound | invalidArrayIndex | arrayIndexOutOfBounds
  | rootWriteRequiresObject | execution (code : Nat)
  | unsupportedBodyFormat | invalidUtf8 | json | beve
  deriving DecidableEq, Repr

/-- Variant name as in the Rust enum (key of the extracted `code()` table). -/
def RErr.name : RErr → String
  | .invalidPointer => "InvalidPointer"
  | .pathNotFound => "PathNotFound"
  | .invalidArrayIndex => "InvalidArrayIndex"
  | .arrayIndexOutOfBounds => "ArrayIndexOutOfBounds"
  | .rootWriteRequiresObject => "RootWriteRequiresObject"
  | .execution _ => "Execution"
  | .unsupportedBodyFormat => "UnsupportedBodyFormat"
  | .invalidUtf8 => "InvalidUtf8"
  | .json => "Json"
  | .beve => "Beve"

def lookupStr {β} (k : String) : List (String × β) → Option β
  | [] => none
  | (k', v) :: r => if k' = k then some v else lookupStr k r

/-- `RegistryError::code() as u32`, through the two tables extracted from the source
(`variant ↦ ErrorCode name`, `ErrorCode name ↦ discriminant`). -/
def RErr.code (variantTable : List (String × String)) (codes : List (String × Nat)) : RErr → Option Nat
  | .execution c => some c
  | e => (lookupStr e.name variantTable).bind fun n => lookupStr n codes

abbrev PRes (α : Type) := Except RErr α

/-- `parse_pointer` -/
def parsePointer (p : Ptr) : PRes (List Tok) :=
  if p = [] ∨ p = ['/'] then .ok []
  else match p with
    | '/' :: rest =>
      match mapOpt unescapeToken (splitOn '/' rest) with
      | some segs => .ok segs
      | none => .error .invalidPointer
    | _ => .error .invalidPointer

/-- `canonical_key`, branch by branch: root forms, missing slash, the borrowed fast path for
escape-free pointers, and the parse + re-escape path. -/
def canonicalKey (p : Ptr) : PRes Ptr :=
  if p = [] ∨ p = ['/'] then .ok ['/']
  else match p with
    | '/' :: _ =>
      if p.contains '~' then (parsePointer p).map canonicalPointer
      else .ok p
    | _ => .error .invalidPointer

/-- `parse_registration_path`: a missing leading slash is supplied. -/
def parseRegistrationPath (path : Ptr) : PRes (List Tok) :=
  if path = [] then .ok []
  else match path with
    | '/' :: _ => parsePointer path
    | _ => parsePointer ('/' :: path)

/-! ## tree access -/

/-- `resolve_ref` (and `resolve_mut`, which differs only in mutability). -/
def resolveRef : J → List Tok → PRes J
  | v, [] => .ok v
  | v, t :: ts =>
    match v with
    | .obj o =>
      match oget t o with
      | some c => resolveRef c ts
      | none => .error .pathNotFound
    | .arr a =>
      match parseUsize t with
      | none => .error .invalidArrayIndex
      | some i =>
        match a[i]? with
        | some c => resolveRef c ts
        | none => .error .arrayIndexOutOfBounds
    | _ => .error .pathNotFound

/-- `set_pointer`: walk to the parent without creating anything, then insert into an object or
replace an existing array slot. -/
def setPointer : J → List Tok → J → PRes J
  | _, [], v => .ok v
  | cur, [t], v =>
    match cur with
    | .obj o => .ok (.obj (oset t v o))
    | .arr a =>
      match parseUsize t with
      | none => .error .invalidArrayIndex
      | some i => if i < a.length then .ok (.arr (a.set i v)) else .error .arrayIndexOutOfBounds
    | _ => .error .pathNotFound
  | cur, t :: t2 :: ts, v =>
    match cur with
    | .obj o =>
      match oget t o with
      | some c => (setPointer c (t2 :: ts) v).map fun c' => .obj (oset t c' o)
      | none => .error .pathNotFound
    | .arr a =>
      match parseUsize t with
      | none => .error .invalidArrayIndex
      | some i =>
        match a[i]? with
        | some c => (setPointer c (t2 :: ts) v).map fun c' => .arr (a.set i c')
        | none => .error .arrayIndexOutOfBounds
    | _ => .error .pathNotFound

/-- `merge_at` below the root: `resolve_mut`, the target must be an object, insert every field. -/
def mergeAtPtr : J → List Tok → Obj → PRes J
  | cur, [], src =>
    match cur with
    | .obj o => .ok (.obj (omerge src o))
    | _ => .error .pathNotFound
  | cur, t :: ts, src =>
    match cur with
    | .obj o =>
      match oget t o with
      | some c => (mergeAtPtr c ts src).map fun c' => .obj (oset t c' o)
      | none => .error .pathNotFound
    | .arr a =>
      match parseUsize t with
      | none => .error .invalidArrayIndex
      | some i =>
        match a[i]? with
        | some c => (mergeAtPtr c ts src).map fun c' => .arr (a.set i c')
        | none => .error .arrayIndexOutOfBounds
    | _ => .error .pathNotFound

/-- `ensure_object_parent(root, segments)` followed by `parent.insert(last, value)`
(`register_value` with a non-empty path): every ancestor that is missing or not an object becomes
`{}`. -/
def regInsert : J → List Tok → J → J
  | _, [], v => v
  | cur, [t], v => .obj (oset t v cur.asObj)
  | cur, t :: t2 :: ts, v =>
    let o := cur.asObj
    .obj (oset t (regInsert ((oget t o).getD (.obj [])) (t2 :: ts) v) o)

/-- `ensure_object_parent(root, segments)` alone (`register_function`): the root and every proper
ancestor of the last segment are made objects; the last segment itself is not touched. -/
def ensureParent : J → List Tok → J
  | cur, [] => .obj cur.asObj
  | cur, [_] => .obj cur.asObj
  | cur, t :: t2 :: ts =>
    let o := cur.asObj
    .obj (oset t (ensureParent ((oget t o).getD (.obj [])) (t2 :: ts)) o)

/-! ## the registry -/

/-- A registered callable as the harness registers it: `tag` identifies the registration, the
body is opaque (`fail = some code` makes it return `Err((code, _))`). -/
structure Fn where
  tag : Nat
  fail : Option Nat
  deriving DecidableEq, Repr

def fget (k : Key) : List (Key × Fn) → Option Fn
  | [] => none
  | (k', v) :: r => if k' = k then some v else fget k r

def fset (k : Key) (v : Fn) : List (Key × Fn) → List (Key × Fn)
  | [] => [(k, v)]
  | (k', v') :: r => if k' = k then (k', v) :: r else (k', v') :: fset k v r

structure Reg where
  root : J := .obj []
  funcs : List (Key × Fn) := []
  /-- call log: (tag of the callable, body it received), oldest first -/
  log : List (Nat × J) := []

abbrev Res := PRes J

def unitOk : Res := .ok .null

def okWrite (path : Ptr) : J :=
  .obj [("path".toList, .str path), ("status".toList, .str "ok".toList)]

def fnInfo (key : Ptr) : J :=
  .obj [("path".toList, .str key), ("type".toList, .str "function".toList)]

/-- What the harness's callable returns (opaque to every theorem). -/
def Fn.echo (f : Fn) (payload : J) : J :=
  .obj [("body".toList, payload), ("called".toList, .num (toString f.tag))]

def J.isNull : J → Bool
  | .null => true
  | _ => false

/-- Harness convention for `fail`: below 10^6 = `Err((code, _))`; 1000001..3 = the callable panics (what
the request then answers is not specified by the property: `execution c`, printed as one neutral class);
2000000 = slow, 3000000 = re-entrant (both answer like an echoing callable; the re-entrant callable's own
nested registry calls appear as separate op lines).  The special kinds act on a non-null body only. -/
def Fn.ret (f : Fn) (payload : J) : Res :=
  match f.fail with
  | some c =>
    if c < 1000000 then .error (.execution c)
    else if payload.isNull ∨ c ≥ 2000000 then .ok (f.echo payload)
    else .error (.execution c)
  | none => .ok (f.echo payload)

/-- Invoke a callable: it is called once with the payload (logged), its result is passed on. -/
def Reg.call (reg : Reg) (f : Fn) (payload : J) : Reg × Res :=
  ({ reg with log := reg.log ++ [(f.tag, payload)] }, f.ret payload)

def Reg.setRoot (reg : Reg) (v : J) : Reg × Res := ({ reg with root := v }, unitOk)

def Reg.registerValue (reg : Reg) (path : Ptr) (v : J) : Reg × Res :=
  match parseRegistrationPath path with
  | .error e => (reg, .error e)
  | .ok [] => ({ reg with root := v }, unitOk)
  | .ok segs => ({ reg with root := regInsert reg.root segs v }, unitOk)

def Reg.mergeRoot (reg : Reg) (o : Obj) : Reg × Res :=
  ({ reg with root := .obj (omerge o reg.root.asObj) }, unitOk)

def Reg.mergeAt (reg : Reg) (path : Ptr) (o : Obj) : Reg × Res :=
  match parseRegistrationPath path with
  | .error e => (reg, .error e)
  | .ok [] => reg.mergeRoot o
  | .ok segs =>
    match mergeAtPtr reg.root segs o with
    | .ok root' => ({ reg with root := root' }, unitOk)
    | .error e => (reg, .error e)

def Reg.registerFunction (reg : Reg) (path : Ptr) (f : Fn) : Reg × Res :=
  match parseRegistrationPath path with
  | .error e => (reg, .error e)
  | .ok [] => (reg, .error .invalidPointer)
  | .ok segs =>
    ({ reg with root := ensureParent reg.root segs, funcs := fset (canonicalPointer segs) f reg.funcs }, unitOk)

def Reg.readValue (reg : Reg) (p : Ptr) : Res :=
  match parsePointer p with
  | .error e => .error e
  | .ok segs => resolveRef reg.root segs

/-- `dispatch(pointer, None)`: one read-lock section. -/
def Reg.dispatchRead (reg : Reg) (p : Ptr) : Res :=
  match canonicalKey p with
  | .error e => .error e
  | .ok key =>
    if (fget key reg.funcs).isSome then .ok (fnInfo key)
    else match parsePointer p with
      | .error e => .error e
      | .ok segs => resolveRef reg.root segs

/-- The write-lock section of a body-bearing dispatch once no callable was found: root merge or
`set_pointer`. -/
def Reg.writeAt (reg : Reg) (p : Ptr) (payload : J) : Reg × Res :=
  match parsePointer p with
  | .error e => (reg, .error e)
  | .ok [] =>
    match payload with
    | .obj o => ({ reg with root := .obj (omerge o reg.root.asObj) }, .ok (okWrite ['/']))
    | _ => (reg, .error .rootWriteRequiresObject)
  | .ok segs =>
    match setPointer reg.root segs payload with
    | .ok root' => ({ reg with root := root' }, .ok (okWrite (canonicalPointer segs)))
    | .error e => (reg, .error e)

/-- First section of `dispatch(pointer, Some(payload))`: key computation (no lock), function-map
lookup under the read lock, and – if a callable is there – the call (outside the lock).
`some r` = the request finished here; `none` = it goes on to the write-lock section. -/
def Reg.dispatchLookup (reg : Reg) (p : Ptr) (payload : J) : Reg × Option Res :=
  match canonicalKey p with
  | .error e => (reg, some (.error e))
  | .ok key =>
    match fget key reg.funcs with
    | some f => let (reg', r) := reg.call f payload; (reg', some r)
    | none => (reg, none)

/-- Second section: under the write lock.  `recheck` is the extracted fact "the write-lock section
looks the function map up again and calls instead of writing when a callable is there". -/
def Reg.dispatchCommit (recheck : Bool) (reg : Reg) (p : Ptr) (payload : J) : Reg × Res :=
  match canonicalKey p with
  | .error e => (reg, .error e)
  | .ok key =>
    match (if recheck then fget key reg.funcs else none) with
    | some f => reg.call f payload
    | none => reg.writeAt p payload

/-- Body-bearing dispatch run without interference: both sections on the same state. -/
def Reg.dispatchBody (recheck : Bool) (reg : Reg) (p : Ptr) (payload : J) : Reg × Res :=
  match reg.dispatchLookup p payload with
  | (reg', some r) => (reg', r)
  | (_, none) => reg.dispatchCommit recheck p payload

def Reg.dispatch (recheck : Bool) (reg : Reg) (p : Ptr) (body : Option J) : Reg × Res :=
  match body with
  | none => (reg, reg.dispatchRead p)
  | some payload => reg.dispatchBody recheck p payload

/-- The public API as data. -/
inductive Op where
  | setRoot (v : J)
  | regValue (path : Ptr) (v : J)
  | regFunc (path : Ptr) (f : Fn)
  | mergeRoot (o : Obj)
  | mergeAt (path : Ptr) (o : Obj)
  | read (p : Ptr)
  | disp (p : Ptr) (body : Option J)
  deriving Inhabited

/-- Sequential semantics of one API call. -/
def Reg.apply (recheck : Bool) (reg : Reg) : Op → Reg × Res
  | .setRoot v => reg.setRoot v
  | .regValue path v => reg.registerValue path v
  | .regFunc path f => reg.registerFunction path f
  | .mergeRoot o => reg.mergeRoot o
  | .mergeAt path o => reg.mergeAt path o
  | .read p => (reg, reg.readValue p)
  | .disp p body => reg.dispatch recheck p body

/-- Run a sequence of tagged API calls one after the other. -/
def runSeq (recheck : Bool) : Reg → List (Nat × Op) → Reg × List (Nat × Res)
  | reg, [] => (reg, [])
  | reg, (t, op) :: rest =>
    let (reg', r) := reg.apply recheck op
    let (reg'', rs) := runSeq recheck reg' rest
    (reg'', (t, r) :: rs)

/-! ## concurrent executions at lock-region granularity -/

/-- One atomic step of some thread `t`. -/
inductive Ev where
  /-- a whole single-section API call (anything but a body-bearing dispatch) -/
  | atomic (t : Nat) (op : Op)
  /-- first section of `dispatch(p, Some v)` -/
  | lookup (t : Nat) (p : Ptr) (v : J)
  /-- second section of the dispatch thread `t` has in flight -/
  | commit (t : Nat)

def Op.isBodyDispatch : Op → Bool
  | .disp _ (some _) => true
  | _ => false

def pget (t : Nat) : List (Nat × (Ptr × J)) → Option (Ptr × J)
  | [] => none
  | (t', x) :: r => if t' = t then some x else pget t r

def perase (t : Nat) : List (Nat × (Ptr × J)) → List (Nat × (Ptr × J))
  | [] => []
  | (t', x) :: r => if t' = t then perase t r else (t', x) :: perase t r

structure Conf where
  reg : Reg
  /-- threads between the two sections of a body-bearing dispatch -/
  pend : List (Nat × (Ptr × J)) := []

/-- Output of a step: results delivered, and the API calls that take effect (linearise) at it. -/
structure StepOut where
  conf : Conf
  results : List (Nat × Res)
  lin : List (Nat × Op)

/-- One step.  `none`: the event is not possible (a thread is sequential: between its two sections
it does nothing else; a body-bearing dispatch is never one step). -/
def stepConc (recheck : Bool) (c : Conf) : Ev → Option StepOut
  | .atomic t op =>
    if op.isBodyDispatch ∨ (pget t c.pend).isSome then none
    else
      let (reg', r) := c.reg.apply recheck op
      some ⟨{ c with reg := reg' }, [(t, r)], [(t, op)]⟩
  | .lookup t p v =>
    if (pget t c.pend).isSome then none
    else match c.reg.dispatchLookup p v with
      | (reg', some r) => some ⟨{ c with reg := reg' }, [(t, r)], [(t, .disp p (some v))]⟩
      | (_, none) => some ⟨{ c with pend := (t, (p, v)) :: c.pend }, [], []⟩
  | .commit t =>
    match pget t c.pend with
    | none => none
    | some (p, v) =>
      let (reg', r) := c.reg.dispatchCommit recheck p v
      some ⟨{ reg := reg', pend := perase t c.pend }, [(t, r)], [(t, .disp p (some v))]⟩

/-- Run a schedule: final configuration, results in delivery order, and the linearisation (each
API call placed at one of its own steps: a call at its lookup step, a write at its commit step). -/
def runConc (recheck : Bool) : Conf → List Ev → Option StepOut
  | c, [] => some ⟨c, [], []⟩
  | c, e :: es =>
    match stepConc recheck c e with
    | none => none
    | some o =>
      match runConc recheck o.conf es with
      | none => none
      | some o' => some ⟨o'.conf, o.results ++ o'.results, o.lin ++ o'.lin⟩

/-- The commit step of thread `t` finds no callable at its key (nobody registered one between the
two sections). -/
def commitClean (c : Conf) : Ev → Bool
  | .commit t =>
    match pget t c.pend with
    | some (p, _) =>
      match canonicalKey p with
      | .ok key => (fget key c.reg.funcs).isNone
      | .error _ => true
    | none => true
  | _ => true

/-- Every commit step of the schedule is clean. -/
def allCommitsClean (recheck : Bool) : Conf → List Ev → Bool
  | _, [] => true
  | c, e :: es =>
    commitClean c e &&
      match stepConc recheck c e with
      | none => true
      | some o => allCommitsClean recheck o.conf es

/-! ## the mount (`Router::with_registry`) -/

def dropTrailingSlashes (s : List Char) : List Char := (s.reverse.dropWhile (· = '/')).reverse

/-- `RegisteredRegistry::new`: prefix normalisation. -/
def normalizePrefix (prefix_ : List Char) : List Char :=
  let n := if prefix_ = [] ∨ prefix_ = ['/'] then []
           else match prefix_ with
             | '/' :: _ => prefix_
             | _ => '/' :: prefix_
  if n.length > 1 then dropTrailingSlashes n else n

/-- `RegistryEntry::matches` on a normalised prefix. -/
def entryMatches (pre : List Char) (path : List Char) : Bool :=
  if pre = [] then true
  else if path = pre then true
  else match stripPrefix pre path with
    | some ('/' :: _) => true
    | _ => false

/-- `RegisteredRegistry::pointer_for` on a normalised prefix. -/
def pointerFor (pre : List Char) (path : List Char) : Option Ptr :=
  if pre = [] then (if path = [] then some ['/'] else some path)
  else if path = pre then some ['/']
  else match stripPrefix pre path with
    | some ('/' :: r) => some ('/' :: r)
    | _ => none

/-- The registry part of `Router::get`: first mounted prefix (registration order) that matches. -/
def routerFind (prefixes : List (List Char)) (path : List Char) : Option (List Char) :=
  (prefixes.map normalizePrefix).find? fun pre => entryMatches pre path

/-- A request through the mount: `none` = the router has no handler; otherwise the pointer the
registry is dispatched with (`none` = "not below prefix", answered MethodNotFound). -/
def mountPointer (prefixes : List (List Char)) (path : List Char) : Option (Option Ptr) :=
  (routerFind prefixes path).map fun pre => pointerFor pre path

/-! ## `Registry::decode_body` and `RegisteredRegistry::handle` / `handle_with_ctx` -/

/-- The body decoders of the dependencies (serde_json, beve, `str::from_utf8`) are opaque: parameters.
In the correspondence run their outcome on the request's bytes is recorded from the real decoders. -/
structure Decoders where
  json : Bytes → Option J
  beve : Bytes → Option J
  utf8 : Bytes → Option (List Char)

/-- `BodyFormat` discriminants as the model reads them (tied to constants.rs by `Gen.Registry.bodyFormats`). -/
def fmtRaw : Nat := 0
def fmtBeve : Nat := 1
def fmtJson : Nat := 2
def fmtUtf8 : Nat := 3

/-- `Registry::decode_body`: an empty body is "no body" whatever the format; otherwise by format
JSON / BEVE value, UTF-8 text as a string, raw bytes as an array of numbers; unknown format → error. -/
def decodeBody (d : Decoders) (fmt : Nat) (body : Bytes) : PRes (Option J) :=
  if body.isEmpty then .ok none
  else if fmt = fmtJson then
    match d.json body with
    | some v => .ok (some v)
    | none => .error .json
  else if fmt = fmtBeve then
    match d.beve body with
    | some v => .ok (some v)
    | none => .error .beve
  else if fmt = fmtUtf8 then
    match d.utf8 body with
    | some s => .ok (some (.str s))
    | none => .error .invalidUtf8
  else if fmt = fmtRaw then .ok (some (.arr (body.map fun b => .num (toString b.toNat))))
  else .error .unsupportedBodyFormat

/-- A response as far as C14 looks at it: the error code (0 = success) and the JSON body of a success. -/
structure Resp where
  ec : Nat
  body : Option J

/-- `create_response_unstamped(req, value, Json)` / `create_error_response_like(req, err.code(), _)` -/
def regRespond (code : RErr → Nat) : Res → Resp
  | .ok v => ⟨0, some v⟩
  | .error e => ⟨code e, none⟩

/-- `RegisteredRegistry::handle` – identical text in `handle_with_ctx` – of the registry mounted at the
normalised prefix `pre`: `pointer_for` (else MethodNotFound), `decode_body` (else its code), `dispatch`
(value or its code). -/
def Reg.handleAt (d : Decoders) (code : RErr → Nat) (notFound : Nat) (rc : Bool) (reg : Reg)
    (pre : List Char) (path : List Char) (fmt : Nat) (body : Bytes) : Reg × Resp :=
  match pointerFor pre path with
  | none => (reg, ⟨notFound, none⟩)
  | some ptr =>
    match decodeBody d fmt body with
    | .error e => (reg, ⟨code e, none⟩)
    | .ok b =>
      let (reg', r) := reg.dispatch rc ptr b
      (reg', regRespond code r)

/-- `Router::get(path)` (registry mounts only; `none` = the router has no handler for the path), then
that mount's handler. -/
def Reg.mountHandle (d : Decoders) (code : RErr → Nat) (notFound : Nat) (rc : Bool) (reg : Reg)
    (prefixes : List (List Char)) (path : List Char) (fmt : Nat) (body : Bytes) : Option (Reg × Resp) :=
  (routerFind prefixes path).map fun pre => reg.handleAt d code notFound rc pre path fmt body

/-! ## `src/json_pointer.rs` -/

/-- `str::replace(&str, &str)` for a two-character pattern: leftmost non-overlapping matches. -/
def replace2 (a b : Char) (w : Char) : List Char → List Char
  | [] => []
  | [x] => [x]
  | x :: y :: rest =>
    if x = a ∧ y = b then w :: replace2 a b w rest
    else x :: replace2 a b w (y :: rest)

/-- `t.replace("~1", "/").replace("~0", "~")` -/
def jpUnescape (t : Tok) : Tok := replace2 '~' '0' '~' (replace2 '~' '1' '/' t)

/-- `json_pointer::parse` -/
def jpParse (p : Ptr) : List Tok :=
  if p = [] then []
  else
    let s := match p with
      | '/' :: r => r
      | _ => p
    (splitOn '/' s).map jpUnescape

def jpWalk : J → List Tok → Option J
  | v, [] => some v
  | v, t :: ts =>
    match v with
    | .obj o =>
      match oget t o with
      | some c => jpWalk c ts
      | none => none
    | .arr a =>
      match parseUsize t with
      | none => none
      | some i =>
        match a[i]? with
        | some c => jpWalk c ts
        | none => none
    | _ => none

/-- `json_pointer::evaluate` -/
def jpEval (v : J) (p : Ptr) : Option J := jpWalk v (jpParse p)

end Repe
