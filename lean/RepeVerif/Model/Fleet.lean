import RepeVerif.Model.Basic
/-!
Model of the fleet retry machinery (`src/fleet.rs`, `src/async_fleet.rs`) — property C19.
Core Lean only: this file is linked into `repe_model_fleet`.

What is modelled, branch by branch:

* `is_retryable_error`            → `Policy.retryable` (the `ErrorKind` list is a *fact* from `Gen.Fleet`)
* `ensure_connected`              → the node cache `none | live | dead` (`dead` = a cached `Client`
                                     whose reader has failed: `fail_all_pending` shut the socket down)
* `call_*_with_retry` (4 loops)   → `run` (fuel = `max_attempts`; `LoopForm` = extracted shape of the loop)
* `invalidate_client`             → cache := `none`
* error kinds of `client.rs` / `async_client.rs`  → `attempt` (what one attempt yields for each node
                                     behaviour) and `deadClientError` (what a call on a client whose
                                     response loop has failed yields: `Policy.deadKind`, a fact per fleet)
* `snapshot_target_nodes` + fan-out in `broadcast_json` → `targets`, `broadcast`

A behaviour is consumed when the client *contacts* the node (a connect, or a request on the cached
connection).  An attempt on a dead cached client fails before anything is sent (blocking client:
`EPIPE` in `write_request`; async client: the registration is refused) without reaching the node and
consumes nothing.  An exhausted behaviour list means the node is healthy (`success`).
-/
namespace Repe.Fleet

/-- `std::io::ErrorKind` (stable variants). -/
inductive IoKind where
  | notFound | permissionDenied | connectionRefused | connectionReset | hostUnreachable
  | networkUnreachable | connectionAborted | notConnected | addrInUse | addrNotAvailable
  | networkDown | brokenPipe | alreadyExists | wouldBlock | invalidInput | invalidData
  | timedOut | writeZero | interrupted | unsupported | unexpectedEof | outOfMemory | other
  deriving DecidableEq, Repr

/-- Classes of `RepeError` the fleet can see. -/
inductive ErrClass where
  | io (k : IoKind)   -- `RepeError::Io`
  | decode            -- a reply that is not a REPE frame (`InvalidSpec`, `LengthMismatch`, …): any other variant
  | server            -- `RepeError::ServerError` (the node answered with an error code)
  deriving DecidableEq, Repr

/-- Outcome of one attempt / of a call. -/
inductive Reply where
  | ok
  | err (e : ErrClass)
  deriving DecidableEq, Repr

/-- What a node does with one contact. -/
inductive Behaviour where
  | refused          -- no listener: `connect` fails
  | acceptThenClose  -- the request is read, then the connection is closed without a reply
  | closedWhileIdle  -- the request is answered, then the node closes the now idle connection
  | silent           -- the request is read, nothing is sent back
  | malformed        -- 48 bytes that are not a REPE header are sent back
  | appError         -- a well-formed reply with a non-zero error code
  | badBody          -- a well-formed reply, error code 0, whose body the entry point cannot decode
                     -- (empty or truncated JSON, not JSON, a wrong format code, not UTF-8): a reply —
                     -- the connection is sound and stays — reported as a decode error
  | success
  deriving DecidableEq, Repr

/-- `NodeState.client : Mutex<Option<Client>>`; `dead` = `Some(client)` whose socket has been shut
down by `fail_all_pending` (reader saw EOF / reset / a malformed frame). -/
inductive Cache where
  | none | live | dead
  deriving DecidableEq, Repr

/-- `is_retryable_error`: the `matches!` list plus the two constant arms. -/
structure Policy where
  retryKinds : List IoKind
  serverRetry : Bool := false   -- `RepeError::ServerError { .. } => false`
  otherRetry : Bool := false    -- `_ => false`
  /-- What a call on a *dead* cached client of this fleet fails with (a fact about the client, kept
  here because it is per fleet): blocking `Client` writes on the socket its response loop shut down
  (`EPIPE` → `BrokenPipe`); `AsyncClient` refuses to register the request once its response loop has
  marked the connection failed (`connection_failed_error` → `NotConnected`). -/
  deadKind : IoKind := .brokenPipe
  deriving DecidableEq, Repr

def Policy.retryable (P : Policy) : ErrClass → Bool
  | .io k => P.retryKinds.contains k
  | .server => P.serverRetry
  | .decode => P.otherRetry

/-- Shape of a `call_*_with_retry` loop as written in the source. -/
structure LoopForm where
  inclusive : Bool := false         -- `0..=max_attempts` instead of `0..max_attempts`
  invalidateOnRetry : Bool := true  -- `invalidate_client` inside `if should_retry`
  breakOnNonRetry : Bool := true    -- `else { break }`
  deriving DecidableEq, Repr

def LoopForm.canonical : LoopForm := {}

/-- The error of an attempt on a dead cached client: it never reaches the node. -/
def deadClientError (P : Policy) : ErrClass := .io P.deadKind

/-- One attempt that reaches the node, cache `none` (connect first) or `live` (reuse). -/
def attempt : Cache → Behaviour → Reply × Cache
  | _, .success => (.ok, .live)
  | _, .appError => (.err .server, .live)
  | _, .badBody => (.err .decode, .live)
  | _, .closedWhileIdle => (.ok, .dead)
  | _, .malformed => (.err .decode, .dead)
  | _, .silent => (.err (.io .timedOut), .live)
  | _, .acceptThenClose => (.err (.io .unexpectedEof), .dead)
  | .none, .refused => (.err (.io .connectionRefused), .none)
  | _, .refused => (.err (.io .unexpectedEof), .dead)  -- node went away: the cached connection dies under the call

/-- One entry of the per-attempt log of a call. `contact = none`: the attempt never reached the node. -/
structure Rec where
  contact : Option Behaviour
  reply : Reply
  deriving DecidableEq, Repr

structure Step where
  entry : Rec
  cache : Cache
  rest : List Behaviour

/-- One pass through the closure `ensure_connected(..)?; client.call_…_with_timeout(..)`. -/
def step (P : Policy) (c : Cache) (bs : List Behaviour) : Step :=
  match c with
  | .dead => ⟨⟨none, .err (deadClientError P)⟩, .dead, bs⟩
  | c =>
    match bs with
    | [] => ⟨⟨some .success, .ok⟩, .live, []⟩
    | b :: bs' => ⟨⟨some b, (attempt c b).1⟩, (attempt c b).2, bs'⟩

structure Run where
  log : List Rec
  cache : Cache
  rest : List Behaviour
  deriving Repr

/-- The retry loop, `fuel` iterations left. -/
def run (P : Policy) (lf : LoopForm) : Nat → Cache → List Behaviour → Run
  | 0, c, bs => ⟨[], c, bs⟩
  | n+1, c, bs =>
    let s := step P c bs
    match s.entry.reply with
    | .ok => ⟨[s.entry], s.cache, s.rest⟩
    | .err e =>
      if P.retryable e then
        let t := run P lf n (if lf.invalidateOnRetry then .none else s.cache) s.rest
        ⟨s.entry :: t.log, t.cache, t.rest⟩
      else if lf.breakOnNonRetry then ⟨[s.entry], s.cache, s.rest⟩
      else
        let t := run P lf n s.cache s.rest
        ⟨s.entry :: t.log, t.cache, t.rest⟩

def fuel (lf : LoopForm) (max : Nat) : Nat := if lf.inclusive then max + 1 else max

/-- `call_json_with_retry` / `call_message_with_retry` (both fleets). -/
def call (P : Policy) (lf : LoopForm) (max : Nat) (c : Cache) (bs : List Behaviour) : Run :=
  run P lf (fuel lf max) c bs

/-- `RemoteResult`: the reply of the last attempt (`Ok` returns at once, otherwise `last_error`);
`none` only if no attempt was made (`max_attempts = 0`, rejected by `validate_fleet_options`). -/
def Run.result (r : Run) : Option Reply := r.log.getLast?.map (·.reply)

def Run.attempts (r : Run) : Nat := r.log.length

/-- Attempts that reached the node (what a scripted node can count). -/
def Run.contacts (r : Run) : Nat := (r.log.filter (·.contact.isSome)).length

/-- `is_connected`: the cache slot is `Some`. -/
def Cache.connected : Cache → Bool
  | .none => false
  | _ => true

def healthy (bs : List Behaviour) : Prop := ∀ b ∈ bs, b = .success

/-! ### tag filter and fan-out -/

structure Node where
  name : String
  tags : List String
  behaviours : List Behaviour := []
  deriving Repr

/-- How `snapshot_target_nodes` relates the requested tag set to a node's tags (extracted). -/
inductive FilterForm where
  | requestedSubsetOfNode   -- `tag_set.is_subset(&node.tags)`
  | nodeSubsetOfRequested   -- `node.tags.is_subset(&tag_set)`
  | noFilter                -- fan-out over every node
  deriving DecidableEq, Repr

def matchesTags (ff : FilterForm) (req : List String) (n : Node) : Bool :=
  match ff with
  | .requestedSubsetOfNode => req.all (n.tags.contains ·)
  | .nodeSubsetOfRequested => n.tags.all (req.contains ·)
  | .noFilter => true

def targets (ff : FilterForm) (req : List String) (nodes : List Node) : List Node :=
  nodes.filter (matchesTags ff req)

/-- `broadcast_json`: one retrying call per target node, results keyed by node name. -/
def broadcast (P : Policy) (lf : LoopForm) (ff : FilterForm) (max : Nat) (req : List String)
    (nodes : List Node) : List (String × Run) :=
  (targets ff req nodes).map fun n => (n.name, call P lf max .none n.behaviours)

/-! ### a whole correspondence case: script phase, then healthy phase -/

structure CallObs where
  contacts : Nat
  result : Option Reply
  connected : Bool
  deriving DecidableEq, Repr

def obsOf (r : Run) : CallObs := ⟨r.contacts, r.result, r.cache.connected⟩

/-- One call of a correspondence case. The error kind of an attempt on a dead cached client is taken
from what the harness observed (`kinds`, one entry per call that never reached the node, in order):
the implementation may yield any member of an admissible set, the model does not predict which.
The entry is consumed iff this call is such a call. -/
def callObs (P : Policy) (lf : LoopForm) (max : Nat) (kinds : List IoKind) (c : Cache)
    (bs : List Behaviour) : Run × List IoKind :=
  let P' : Policy := match kinds with
    | k :: _ => { P with deadKind := k }
    | [] => P
  let r := call P' lf max c bs
  if r.contacts = 0 ∧ 0 < r.attempts then (r, kinds.drop 1) else (r, kinds)

/-- Calls while the script is not exhausted, at most `k` of them. -/
def scriptPhase (P : Policy) (lf : LoopForm) (max : Nat) :
    Nat → List IoKind → Cache → List Behaviour → List CallObs × Cache × List IoKind
  | 0, ks, c, _ => ([], c, ks)
  | k+1, ks, c, bs =>
    if bs.isEmpty then ([], c, ks)
    else
      let (r, ks') := callObs P lf max ks c bs
      let (os, c', ks'') := scriptPhase P lf max k ks' r.cache r.rest
      (obsOf r :: os, c', ks'')

/-- Healthy node: calls until the first success, at most `k`. Returns the observations and the
number of the first successful call. -/
def healthyPhase (P : Policy) (lf : LoopForm) (max : Nat) :
    Nat → Nat → List IoKind → Cache → List CallObs × Option Nat
  | 0, _, _, _ => ([], none)
  | k+1, i, ks, c =>
    let (r, ks') := callObs P lf max ks c []
    if r.result = some .ok then ([obsOf r], some (i + 1))
    else
      let (os, n) := healthyPhase P lf max k (i + 1) ks' r.cache
      (obsOf r :: os, n)

def healthyCalls : Nat := 3

def runCase (P : Policy) (lf : LoopForm) (max : Nat) (kinds : List IoKind) (bs : List Behaviour) :
    List CallObs × List CallObs × Option Nat :=
  let (os, c, ks) := scriptPhase P lf max (2 * bs.length + 1) kinds .none bs
  let (hs, n) := healthyPhase P lf max healthyCalls 0 ks c
  (os, hs, n)

/-! ### connection management and health check (one node; nodes are independent)

`connect_all` / `reconnect_disconnected` run `ensure_connected` (a cached client, dead or not, counts
as connected; otherwise `Client::connect`, which fails exactly when the node refuses — that consumes a
`refused`; any other behaviour is not consumed by a bare connect).  `disconnect_all` empties the slot.
`health_check` is one attempt (`ensure_connected` + `call_message_with_timeout`, no retry) and
invalidates the client after *any* error (`HealthForm`, extracted). -/

inductive LifeOp where
  | connectAll | disconnectAll | reconnect | health | call
  deriving DecidableEq, Repr

/-- Shape of `health_check` as written in the source. -/
structure HealthForm where
  invalidateOnError : Bool := true   -- `Err(err) => { invalidate_client(&node); … }`
  singleAttempt : Bool := true       -- no loop around the call
  deriving DecidableEq, Repr

/-- `ensure_connected` alone: (connected?, cache, remaining behaviours). -/
def connectStep (c : Cache) (bs : List Behaviour) : Bool × Cache × List Behaviour :=
  match c with
  | .none =>
    match bs with
    | .refused :: r => (false, .none, r)
    | _ => (true, .live, bs)
  | c => (true, c, bs)

/-- `health_check` on one node: (reply, contacts, cache, remaining behaviours). -/
def healthStep (P : Policy) (hf : HealthForm) (c : Cache) (bs : List Behaviour) :
    Reply × Nat × Cache × List Behaviour :=
  let s := step P c bs
  let cache := match s.entry.reply with
    | .ok => s.cache
    | .err _ => if hf.invalidateOnError then .none else s.cache
  (s.entry.reply, if s.entry.contact.isSome then 1 else 0, cache, s.rest)

/-- Observation of one management operation. -/
inductive LifeObs where
  | connected (b : Bool)                 -- `connect_all`: in `connected` (else in `failed`)
  | disconnected
  | reconnect (r : Option Bool)          -- not attempted / reconnected / failed
  | health (contacts : Nat) (r : Reply)
  | call (o : CallObs)
  deriving DecidableEq, Repr

structure LifeState where
  cache : Cache
  rest : List Behaviour
  kinds : List IoKind

def lifeStep (P : Policy) (lf : LoopForm) (hf : HealthForm) (max : Nat) (st : LifeState) :
    LifeOp → LifeObs × Bool × LifeState
  | .connectAll =>
    let (ok, c, r) := connectStep st.cache st.rest
    (.connected ok, c.connected, { st with cache := c, rest := r })
  | .disconnectAll => (.disconnected, false, { st with cache := .none })
  | .reconnect =>
    match st.cache with
    | .none =>
      let (ok, c, r) := connectStep .none st.rest
      (.reconnect (some ok), c.connected, { st with cache := c, rest := r })
    | c => (.reconnect none, c.connected, st)
  | .health =>
    let P' : Policy := match st.kinds with
      | k :: _ => { P with deadKind := k }
      | [] => P
    let (r, n, c, rest) := healthStep P' hf st.cache st.rest
    let ks := if st.cache = .dead then st.kinds.drop 1 else st.kinds
    (.health n r, c.connected, ⟨c, rest, ks⟩)
  | .call =>
    let (r, ks) := callObs P lf max st.kinds st.cache st.rest
    (.call (obsOf r), r.cache.connected, ⟨r.cache, r.rest, ks⟩)

def lifeRun (P : Policy) (lf : LoopForm) (hf : HealthForm) (max : Nat) :
    LifeState → List LifeOp → List (LifeObs × Bool) × LifeState
  | st, [] => ([], st)
  | st, op :: ops =>
    let (o, conn, st') := lifeStep P lf hf max st op
    let (os, st'') := lifeRun P lf hf max st' ops
    ((o, conn) :: os, st'')

/-- A lifecycle case: the operations against the script, then the healthy phase. -/
def runLife (P : Policy) (lf : LoopForm) (hf : HealthForm) (max : Nat) (kinds : List IoKind)
    (bs : List Behaviour) (ops : List LifeOp) : List (LifeObs × Bool) × List CallObs × Option Nat :=
  let (os, st) := lifeRun P lf hf max ⟨.none, bs, kinds⟩ ops
  let (hs, n) := healthyPhase P lf max healthyCalls 0 st.kinds st.cache
  (os, hs, n)

end Repe.Fleet
