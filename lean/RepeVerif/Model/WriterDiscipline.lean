import RepeVerif.Model.Wire
/-!
Model of what the six endpoints put on a connection (C05): `src/client.rs` (`write_request` under the
writer mutex, `set_write_timeout`), `src/async_client.rs` (`write_request`: async mutex held across
awaited writes, a caller may drop the future), `src/websocket_client.rs` (`write_request`: one
`send(Binary(frame))` under the async mutex), `src/server.rs` (`handle_connection`: one thread,
`write_message_streaming` + `flush`, `?` on error), `src/async_server.rs` (`handle_connection`:
`timeout(dur, write_view_response(..))`), `src/websocket_server.rs` (`writer_task`: the only writer).

A connection's output is the concatenation of the byte runs (`Seg`) that individual `write` calls put
on the socket.  Writers submit frames; `progress w k` appends the next `k` bytes of writer `w`'s
current frame (arbitrary fragmentation: partial socket writes, `BufWriter`, tungstenite's out-buffer);
`interrupt w` (write timeout, the caller abandoning its call) may happen after any progress step.
Two discipline facts per endpoint:

* `exclusive`       – the writer lock is held from a frame's first byte to its last byte,
* `failOnInterrupt` – an interrupted frame marks the connection failed; no `progress` afterwards.

Core Lean only (linked into `repe_model_torn`).
-/
namespace Repe.WD

structure Facts where
  exclusive : Bool
  failOnInterrupt : Bool
  deriving DecidableEq, Repr

/-- One run of bytes put on the wire by one write: `n` bytes of frame `m` starting at `off`. -/
structure Seg where
  m : Message
  off : Nat
  n : Nat

def Seg.bytes (s : Seg) : Bytes := (s.m.toVec.drop s.off).take s.n

/-- State of one connection's sending side. -/
structure Conn where
  /-- everything put on the wire, in order -/
  segs : List Seg
  /-- per writer: its submitted, unfinished frame and how many of its bytes are on the wire -/
  cur : Nat → Option (Message × Nat)
  /-- the writer lock: the writer whose frame is in progress -/
  lock : Option Nat
  /-- the connection was failed (socket shut down / connection task ended): nothing more is written -/
  failed : Bool
  /-- ghost: frames whose last byte is on the wire, in completion order -/
  done : List Message

def Conn.init : Conn := { segs := [], cur := fun _ => none, lock := none, failed := false, done := [] }

/-- The byte stream the peer receives. -/
def Conn.stream (c : Conn) : Bytes := (c.segs.map Seg.bytes).flatten

inductive Ev where
  | submit (w : Nat) (m : Message)
  | progress (w : Nat) (k : Nat)
  | interrupt (w : Nat)

def setCur (cur : Nat → Option (Message × Nat)) (w : Nat) (v : Option (Message × Nat)) :
    Nat → Option (Message × Nat) :=
  fun w' => if w' = w then v else cur w'

/-- May writer `w` put bytes on the wire now? -/
def canWrite (f : Facts) (c : Conn) (w : Nat) : Bool :=
  !c.failed && (!f.exclusive || c.lock == none || c.lock == some w)

def step (f : Facts) (c : Conn) : Ev → Conn
  | .submit w m =>
    match c.cur w with
    | some _ => c                       -- one call at a time per writer
    | none => { c with cur := setCur c.cur w (some (m, 0)) }
  | .progress w k =>
    match c.cur w with
    | none => c
    | some (m, off) =>
      if canWrite f c w then
        let len := m.toVec.length
        let k' := min k (len - off)
        let segs' := c.segs ++ [⟨m, off, k'⟩]
        if off + k' = len then
          { c with segs := segs', cur := setCur c.cur w none, lock := none, done := c.done ++ [m] }
        else
          { c with segs := segs', cur := setCur c.cur w (some (m, off + k')), lock := some w }
      else c
  | .interrupt w =>
    match c.cur w with
    | none => c
    | some (_, off) =>
      { c with
        cur := setCur c.cur w none
        lock := if c.lock = some w then none else c.lock
        failed := c.failed || (decide (off > 0) && f.failOnInterrupt) }

def run (f : Facts) (evs : List Ev) (c : Conn) : Conn := evs.foldl (step f) c

/-! ### summaries used by the line-protocol driver (no byte expansion needed) -/

def Conn.wireLen (c : Conn) : Nat := (c.segs.map (·.n)).sum

/-- 64-bit FNV-1a of a byte list (the harness prints the same digest of the captured stream). -/
def fnv1a (bs : Bytes) : Nat :=
  bs.foldl (fun h b => ((h ^^^ b.toNat) * 0x100000001b3) % 2^64) 0xcbf29ce484222325

end Repe.WD
