import RepeVerif.Model.Wire
/-!
Model of what the six endpoints put on a connection (C05): `src/client.rs` (`write_request` under the
writer mutex, `set_write_timeout`), `src/async_client.rs` (`write_request`: async mutex held across
awaited writes, a caller may drop the future), `src/websocket_client.rs` (`write_request`: one
`send(Binary(frame))` under the async mutex), `src/server.rs` (`handle_connection`: one thread,
`write_message_streaming` + `flush`, `?` on error), `src/async_server.rs` (`handle_connection`:
`timeout(dur, write_view_response(..))`), `src/websocket_server.rs` (`writer_task`: the only writer).

A connection's output is the concatenation of the byte runs (`Seg`) that individual `write` calls put
on the socket.  Writers submit frames; `progress w k` appends the next `k` bytes of writer `w`'s
current frame (arbitrary fragmentation: partial socket writes, `BufWriter`, tungstenite's out-buffer);
`interrupt w` (write timeout, the caller abandoning its call) may happen after any progress step.
Two discipline facts per endpoint:

* `exclusive`       – the writer lock is held from a frame's first byte to its last byte,
* `failOnInterrupt` – an interrupted frame marks the connection failed; no `progress` afterwards.

Core Lean only (linked into `repe_model_torn`).
-/
namespace Repe.WD

structure Facts where
  exclusive : Bool
  failOnInterrupt : Bool
  deriving DecidableEq, Repr

/-- What the extractor reads off one endpoint's write path (`extract/torn.py` → `Gen/Torn.lean`). -/
structure Obs where
  /-- the write half is created inside the connection function and stays with that one thread/task -/
  singleWriter : Bool
  /-- acquisitions of the writer lock inside the frame-writing function -/
  lockRegions : Nat
  /-- frame writes, or helpers handed the locked writer, outside that one region (anywhere in the file) -/
  writesOutsideLock : Nat
  /-- every part of a frame goes out with `write_all`, or the frame is one whole WebSocket message -/
  wholeWrites : Bool
  /-- write/flush/send/timeout results that are dropped (`.ok()`, `let _ =`, an arm that carries on,
  the count of a short write thrown away) -/
  ignoredResults : Nat
  /-- a failed or timed-out write leaves the connection failed (`?`/`return`/`break` out of the
  connection function, an explicit shutdown, or a marker the next lock holder honours) -/
  errorEnds : Bool
  /-- a writing future that is dropped cannot be followed by another frame -/
  cancelSafe : Bool
  deriving DecidableEq, Repr

/-- The two discipline facts, read off the observations.  Any dangerous form makes one of them false. -/
def Obs.facts (o : Obs) : Facts :=
  { exclusive := (o.singleWriter || o.lockRegions == 1) && o.writesOutsideLock == 0
    failOnInterrupt := o.wholeWrites && o.ignoredResults == 0 && o.errorEnds && o.cancelSafe }

/-- One run of bytes put on the wire by one write: `n` bytes of frame `m` starting at `off`.
The model is generic in the type `F` of frames: all it needs is a frame's length (`len`); the bytes
are only needed to read the stream off (`Conn.streamWith`).  The theorems instantiate `F := Message`,
`len := fun m => m.toVec.length`; the driver uses frames whose body bytes are produced on demand, so
that multi-MiB scripts run through the same `step`. -/
structure Seg (F : Type) where
  m : F
  off : Nat
  n : Nat

/-- State of one connection's sending side. -/
structure Conn (F : Type) where
  /-- everything put on the wire, in order -/
  segs : List (Seg F)
  /-- per writer: its submitted, unfinished frame and how many of its bytes are on the wire -/
  cur : Nat → Option (F × Nat)
  /-- the writer lock: the writer whose frame is in progress -/
  lock : Option Nat
  /-- the connection was failed (socket shut down / connection task ended): nothing more is written -/
  failed : Bool
  /-- ghost: frames whose last byte is on the wire, in completion order -/
  done : List F

def Conn.init {F : Type} : Conn F :=
  { segs := [], cur := fun _ => none, lock := none, failed := false, done := [] }

/-- The byte stream the peer receives, given how a frame's bytes are obtained. -/
def Conn.streamWith {F : Type} (bytes : F → Bytes) (c : Conn F) : Bytes :=
  (c.segs.map fun s => ((bytes s.m).drop s.off).take s.n).flatten

def Seg.bytes (s : Seg Message) : Bytes := (s.m.toVec.drop s.off).take s.n

/-- The byte stream the peer receives (frames are `Message`s). -/
def Conn.stream (c : Conn Message) : Bytes := (c.segs.map Seg.bytes).flatten

/-- Length of a `Message` frame on the wire. -/
abbrev mlen (m : Message) : Nat := m.toVec.length

inductive Ev (F : Type) where
  | submit (w : Nat) (m : F)
  | progress (w : Nat) (k : Nat)
  | interrupt (w : Nat)

def setCur {F : Type} (cur : Nat → Option (F × Nat)) (w : Nat) (v : Option (F × Nat)) :
    Nat → Option (F × Nat) :=
  fun w' => if w' = w then v else cur w'

/-- May writer `w` put bytes on the wire now? -/
def canWrite {F : Type} (f : Facts) (c : Conn F) (w : Nat) : Bool :=
  !c.failed && (!f.exclusive || c.lock == none || c.lock == some w)

def step {F : Type} (len : F → Nat) (f : Facts) (c : Conn F) : Ev F → Conn F
  | .submit w m =>
    match c.cur w with
    | some _ => c                       -- one call at a time per writer
    | none => { c with cur := setCur c.cur w (some (m, 0)) }
  | .progress w k =>
    match c.cur w with
    | none => c
    | some (m, off) =>
      if canWrite f c w then
        let k' := min k (len m - off)
        let segs' := c.segs ++ [⟨m, off, k'⟩]
        if off + k' = len m then
          { c with segs := segs', cur := setCur c.cur w none, lock := none, done := c.done ++ [m] }
        else
          { c with segs := segs', cur := setCur c.cur w (some (m, off + k')), lock := some w }
      else c
  | .interrupt w =>
    match c.cur w with
    | none => c
    | some (_, off) =>
      { c with
        cur := setCur c.cur w none
        lock := if c.lock = some w then none else c.lock
        failed := c.failed || (decide (off > 0) && f.failOnInterrupt) }

def run {F : Type} (len : F → Nat) (f : Facts) (evs : List (Ev F)) (c : Conn F) : Conn F :=
  evs.foldl (step len f) c

/-! ### summaries used by the line-protocol driver -/

def Conn.wireLen {F : Type} (c : Conn F) : Nat := (c.segs.map (·.n)).sum

/-- 64-bit FNV-1a of a byte list (the harness prints the same digest of the captured stream). -/
def fnv1a (bs : Bytes) : UInt64 :=
  bs.foldl (fun h b => (h ^^^ b.toUInt64) * 0x100000001b3) 0xcbf29ce484222325

/-- Body pattern of the correspondence family: byte `i` of the body of the frame tagged `tag`. -/
def patByte (tag i : Nat) : UInt8 := UInt8.ofNat ((tag * 131 + i + i / 251) % 256)

def pat (tag len : Nat) : Bytes := (List.range len).map (patByte tag)

/-- Body of the JSON entry points (`call_json`, `notify_json`, …) of the family: a JSON string of `len`
bytes in all (quotes included). -/
def jpat (tag len : Nat) : Bytes :=
  (List.range len).map fun i =>
    if i = 0 ∨ i + 1 = len then (34 : UInt8) else UInt8.ofNat (97 + (tag + i) % 26)

/-- A frame of the correspondence family, described instead of materialised: what `MessageBuilder`
is given (id, notify flag, query, query and body format; ec 0) plus the kind, tag and length of
the pattern body.  Its length needs no bytes; its bytes are produced on demand. -/
structure LFrame where
  id : Nat
  notify : Bool
  query : Bytes
  qfmt : Nat
  bfmt : Nat
  json : Bool
  tag : Nat
  blen : Nat

def LFrame.body (f : LFrame) : Bytes := if f.json then jpat f.tag f.blen else pat f.tag f.blen

def LFrame.len (f : LFrame) : Nat := 48 + f.query.length + f.blen

def LFrame.header (f : LFrame) : Header :=
  ((Builder.mk f.id f.notify 0 f.qfmt f.bfmt f.query []).build.header).patchLengths f.query.length f.blen

def LFrame.bytes (f : LFrame) : Bytes := f.header.encode ++ f.query ++ f.body

/-- The message `MessageBuilder::build` produces for this description. -/
def LFrame.message (f : LFrame) : Message :=
  (Builder.mk f.id f.notify 0 f.qfmt f.bfmt f.query f.body).build

/-! ### changing the representation of frames (used to relate the driver's run to the theorems') -/

def Seg.map {F G : Type} (g : F → G) (s : Seg F) : Seg G := ⟨g s.m, s.off, s.n⟩

def Conn.map {F G : Type} (g : F → G) (c : Conn F) : Conn G :=
  { segs := c.segs.map (Seg.map g)
    cur := fun w => (c.cur w).map fun p => (g p.1, p.2)
    lock := c.lock, failed := c.failed, done := c.done.map g }

def Ev.map {F G : Type} (g : F → G) : Ev F → Ev G
  | .submit w m => .submit w (g m)
  | .progress w k => .progress w k
  | .interrupt w => .interrupt w

end Repe.WD
