import RepeVerif.Model.Basic
/-
JSON values as `serde_json::Value` is used by `src/registry.rs` and `src/json_pointer.rs`.

* A *nested* inductive over `List` (not a mutual one): `resolve`/`setPointer` recurse on the token
  list, so every proof is a list induction.
* Keys, strings and pointer tokens are `List Char`: the Rust code only ever splits them on the
  ASCII characters `/` and `~`, and UTF-8 continuation bytes never collide with ASCII, so the
  byte-level and the char-level splits coincide.
* Numbers are kept as their canonical decimal text (only integers are generated).
* `serde_json::Map` is a `BTreeMap` (the `preserve_order` feature is off – re-checked by the
  extractor from Cargo.lock): a map with unique keys.  Here: an association list, `oget` finds the
  first binding, `oset` replaces the first binding in place or appends; the canonical printer
  sorts by key.  No theorem needs key uniqueness.
Core Lean only: this file is linked into `repe_model_registry`.
-/
namespace Repe

abbrev Key := List Char

inductive J where
  | null
  | bool (b : Bool)
  | num (s : String)
  | str (s : List Char)
  | arr (xs : List J)
  | obj (kvs : List (Key × J))
  deriving Repr, Inhabited

abbrev Obj := List (Key × J)

/-- `Map::get` -/
def oget (k : Key) : Obj → Option J
  | [] => none
  | (k', v) :: r => if k' = k then some v else oget k r

/-- `Map::insert` (replace or add). -/
def oset (k : Key) (v : J) : Obj → Obj
  | [] => [(k, v)]
  | (k', v') :: r => if k' = k then (k', v) :: r else (k', v') :: oset k v r

/-- `for (key, value) in object { map.insert(key, value); }` -/
def omerge (src : Obj) (dst : Obj) : Obj :=
  src.foldl (fun acc kv => oset kv.1 kv.2 acc) dst

def J.isObj : J → Bool
  | .obj _ => true
  | _ => false

/-- The map of an object; `{}` for anything else (what `ensure_object_root` leaves behind). -/
def J.asObj : J → Obj
  | .obj o => o
  | _ => []

/-! ### canonical text (drivers and harness print exactly this form)

Compact JSON, keys sorted by code point (= UTF-8 byte order = `BTreeMap<String,_>` order), no
white space; inside strings every character outside `0x21..0x7e` and `"` and `\` is written
`\uXXXX` (UTF-16 code units, lower-case hex), so a value is one ASCII word. -/

def hex4 (n : Nat) : List Char :=
  [hexDigit (n / 4096 % 16), hexDigit (n / 256 % 16), hexDigit (n / 16 % 16), hexDigit (n % 16)]

def escChar (c : Char) : List Char :=
  let n := c.toNat
  if c = '"' ∨ c = '\\' ∨ n < 0x21 ∨ n > 0x7e then
    if n < 0x10000 then '\\' :: 'u' :: hex4 n
    else
      let m := n - 0x10000
      ('\\' :: 'u' :: hex4 (0xD800 + m / 1024)) ++ ('\\' :: 'u' :: hex4 (0xDC00 + m % 1024))
  else [c]

def showStr (s : List Char) : List Char := '"' :: (s.flatMap escChar ++ ['"'])

def keyLt : Key → Key → Bool
  | [], [] => false
  | [], _ :: _ => true
  | _ :: _, [] => false
  | a :: r, b :: s => if a.toNat < b.toNat then true else if b.toNat < a.toNat then false else keyLt r s

def insertSorted (kv : Key × List Char) : List (Key × List Char) → List (Key × List Char)
  | [] => [kv]
  | x :: r => if keyLt kv.1 x.1 then kv :: x :: r else x :: insertSorted kv r

def sortKV (l : List (Key × List Char)) : List (Key × List Char) :=
  l.foldl (fun acc kv => insertSorted kv acc) []

def commaSep : List (List Char) → List Char
  | [] => []
  | [x] => x
  | x :: r => x ++ ',' :: commaSep r

mutual
def J.render : J → List Char
  | .null => "null".toList
  | .bool true => "true".toList
  | .bool false => "false".toList
  | .num s => s.toList
  | .str s => showStr s
  | .arr xs => '[' :: (commaSep (renderList xs) ++ [']'])
  | .obj kvs =>
    '{' :: (commaSep ((sortKV (renderKVs kvs)).map fun kv => showStr kv.1 ++ ':' :: kv.2) ++ ['}'])
def renderList : List J → List (List Char)
  | [] => []
  | x :: r => x.render :: renderList r
def renderKVs : List (Key × J) → List (Key × List Char)
  | [] => []
  | (k, v) :: r => (k, v.render) :: renderKVs r
end

def J.show (v : J) : String := String.ofList v.render

/-! ### parser for the same text (driver input; `none` on anything else) -/

def hexVal4 : List Char → Option (Nat × List Char)
  | a :: b :: c :: d :: r => do
    let a ← hexVal a; let b ← hexVal b; let c ← hexVal c; let d ← hexVal d
    pure (a * 4096 + b * 256 + c * 16 + d, r)
  | _ => none

/-- After the opening quote: the string and the rest after the closing quote. -/
def parseStrBody : Nat → List Char → List Char → Option (List Char × List Char)
  | 0, _, _ => none
  | _ + 1, _, [] => none
  | _ + 1, acc, '"' :: r => some (acc.reverse, r)
  | fuel + 1, acc, '\\' :: 'u' :: r =>
    match hexVal4 r with
    | none => none
    | some (n, r') =>
      if 0xD800 ≤ n ∧ n < 0xDC00 then
        match r' with
        | '\\' :: 'u' :: r'' =>
          match hexVal4 r'' with
          | some (m, r3) =>
            if 0xDC00 ≤ m ∧ m < 0xE000 then
              parseStrBody fuel (Char.ofNat (0x10000 + (n - 0xD800) * 1024 + (m - 0xDC00)) :: acc) r3
            else none
          | none => none
        | _ => none
      else parseStrBody fuel (Char.ofNat n :: acc) r'
  | fuel + 1, acc, '\\' :: c :: r =>
    if c = '"' ∨ c = '\\' ∨ c = '/' then parseStrBody fuel (c :: acc) r else none
  | fuel + 1, acc, c :: r => parseStrBody fuel (c :: acc) r

def takeNum : List Char → List Char × List Char
  | c :: r => if c.isDigit ∨ c = '-' then let (a, b) := takeNum r; (c :: a, b) else ([], c :: r)
  | [] => ([], [])

def stripPrefix (p : List Char) (s : List Char) : Option (List Char) :=
  if p.isPrefixOf s then some (s.drop p.length) else none

mutual
def parseJ : Nat → List Char → Option (J × List Char)
  | 0, _ => none
  | fuel + 1, s =>
    match s with
    | 'n' :: _ => (stripPrefix "null".toList s).map fun r => (.null, r)
    | 't' :: _ => (stripPrefix "true".toList s).map fun r => (.bool true, r)
    | 'f' :: _ => (stripPrefix "false".toList s).map fun r => (.bool false, r)
    | '"' :: r => (parseStrBody (r.length + 1) [] r).map fun (x, r') => (.str x, r')
    | '[' :: ']' :: r => some (.arr [], r)
    | '[' :: r => (parseElems fuel r).map fun (xs, r') => (.arr xs, r')
    | '{' :: '}' :: r => some (.obj [], r)
    | '{' :: r => (parseMembers fuel [] r).map fun (kvs, r') => (.obj kvs, r')
    | _ =>
      let (n, r) := takeNum s
      if n = [] ∨ n = ['-'] then none else some (.num (String.ofList n), r)
def parseElems : Nat → List Char → Option (List J × List Char)
  | 0, _ => none
  | fuel + 1, s =>
    match parseJ fuel s with
    | none => none
    | some (v, ',' :: r) => (parseElems fuel r).map fun (xs, r') => (v :: xs, r')
    | some (v, ']' :: r) => some ([v], r)
    | some _ => none
def parseMembers : Nat → Obj → List Char → Option (Obj × List Char)
  | 0, _, _ => none
  | fuel + 1, acc, s =>
    match s with
    | '"' :: r =>
      match parseStrBody (r.length + 1) [] r with
      | some (k, ':' :: r') =>
        match parseJ fuel r' with
        | some (v, ',' :: r'') => parseMembers fuel (oset k v acc) r''
        | some (v, '}' :: r'') => some (oset k v acc, r'')
        | _ => none
      | _ => none
    | _ => none
end

def J.parse (s : String) : Option J :=
  let cs := s.toList
  match parseJ (cs.length + 2) cs with
  | some (v, []) => some v
  | _ => none

/-- A word that is one JSON string literal (pointers, prefixes, paths on op lines). -/
def parseStrWord (s : String) : Option (List Char) :=
  match s.toList with
  | '"' :: r =>
    match parseStrBody (r.length + 1) [] r with
    | some (x, []) => some x
    | _ => none
  | _ => none

end Repe
