import RepeVerif.Model.Dispatch
/-
Model of off-reader dispatch on one WebSocket connection (C16):
`src/websocket_server.rs::reader_task` (the `handler.execution()` branch), `spawn_off_reader`
(permit, saturation reply, `spawn_blocking`, `catch_unwind`, permit dropped when the closure ends) and
`src/server.rs` (`Execution`, `OffReaderHandler`, `MiddlewarePipeline::execution`).

Granularity: one *event* is one thing the environment does to the connection — a request frame
arrives, or a running handler exits (returns, returns an error, panics).  The reader task handles a
frame in one step (it holds no lock across an await except the bounded outbound send, which C05/C15
cover); a handler exit is one step (response pushed, permit dropped).  "Every schedule" = every list
of events.  Handler bodies are parameters: an exit event says how the handler ended.

Syntactic choices the property depends on are `OffFacts`, re-extracted from the source on every run.
When a fact has the wrong value the model follows the code: the reader can get stuck waiting for a
slot (`acquire().await`), a permit can be released before its handler ends, a middleware-wrapped
blocking route can run on the reader.
-/
namespace Repe

structure OffFacts where
  /-- the permit is taken with `try_acquire_owned()` (never `acquire*().await`) -/
  tryAcquire : Bool
  /-- the saturation branch contains no `.acquire` / `.closed()` wait before it returns -/
  saturationNeverWaits : Bool
  /-- `let _permit = permit;` is the first statement of the `spawn_blocking` closure -/
  permitHeldForRun : Bool
  /-- `catch_unwind` wraps the `dispatch(..)` call inside the closure -/
  panicCaught : Bool
  /-- code of the reply built in the `Err(_)` arm of the `catch_unwind` match -/
  panicCode : Nat
  /-- code of the saturation reply -/
  saturationCode : Nat
  /-- `if notify { return true; }` precedes the saturation reply -/
  saturationDropsNotify : Bool
  /-- both replies are built with `create_error_response_like(&request, ..)` (request id and query) -/
  repliesCarryRequestId : Bool
  /-- replies wait for room in the outbound queue: the reader `send(..).await`s the saturation reply, the
  blocking thread `blocking_send`s the handler's / panic reply (a `try_send` would lose it on a full queue) -/
  repliesWaitForQueue : Bool
  /-- `MiddlewarePipeline::execution` is `self.handler.execution()` -/
  executionForwards : Bool
  /-- `OffReaderHandler::execution` is `Execution::OffReader` and the `_blocking` registrars wrap with it -/
  blockingIsOffReader : Bool
  deriving DecidableEq, Repr

def specOffFacts : OffFacts :=
  { tryAcquire := true, saturationNeverWaits := true, permitHeldForRun := true, panicCaught := true,
    panicCode := specCodes.internalError, saturationCode := specCodes.resourceExhausted,
    saturationDropsNotify := true, repliesCarryRequestId := true, repliesWaitForQueue := true,
    executionForwards := true,
    blockingIsOffReader := true }

/-- How a route was registered. -/
inductive RouteKind where
  | inline      -- `with_json` etc.: runs on the reader, returns at once (parameter: its code)
  | blocking    -- `with_*_blocking`
  deriving DecidableEq, Repr

structure Arrival where
  id : Nat
  route : RouteKind
  /-- the router has middleware, so the route's handler is a `MiddlewarePipeline` -/
  wrapped : Bool
  notify : Bool
  /-- error code of the handler's answer when it runs inline and returns at once (0 = success) -/
  inlineEc : Nat := 0
  deriving DecidableEq, Repr

inductive ExitKind where
  | ret
  | err (code : Nat)
  | panic
  deriving DecidableEq, Repr

inductive Ev where
  | arrive (a : Arrival)
  | exit (id : Nat) (k : ExitKind)
  deriving DecidableEq, Repr

/-- One entry of the connection's outbound FIFO: a response to request `id` with error code `ec`. -/
structure Resp where
  id : Nat
  ec : Nat
  deriving DecidableEq, Repr

inductive Rep where
  | saturation (id : Nat)
  | handlerPanic (id : Nat)
  deriving DecidableEq, Repr

/-- A handler running off the reader. `permit` = it still holds one of the connection's permits. -/
structure Run where
  id : Nat
  notify : Bool
  permit : Bool
  deriving DecidableEq, Repr

inductive Busy where
  | waitingSlot (a : Arrival)     -- reader parked in `acquire().await`
  | runningInline (a : Arrival)   -- a parking handler is running on the reader task
  deriving DecidableEq, Repr

structure St where
  cap : Option Nat
  /-- permits currently taken from the semaphore -/
  permits : Nat
  running : List Run
  readerBusy : Option Busy
  /-- frames that arrived while the reader was stuck, oldest first -/
  backlog : List Arrival
  outbound : List Resp
  reports : List Rep
  deriving DecidableEq, Repr

def St.init (cap : Option Nat) : St := ⟨cap, 0, [], none, [], [], []⟩

/-- `handler.execution()` as the reader sees it. -/
def effectiveOff (f : OffFacts) (a : Arrival) : Bool :=
  match a.route with
  | .inline => false
  | .blocking => f.blockingIsOffReader && (!a.wrapped || f.executionForwards)

def push (s : St) (notify : Bool) (id ec : Nat) : St :=
  if notify then s else { s with outbound := s.outbound ++ [⟨id, ec⟩] }

/-- A reply handed to the outbound queue by `spawn_off_reader`: if the source does not wait for room
(`repliesWaitForQueue = false`) nothing can be promised about it — pessimistically, it is lost. -/
def pushReply (f : OffFacts) (s : St) (notify : Bool) (id ec : Nat) : St :=
  if f.repliesWaitForQueue then push s notify id ec else s

/-- `spawn_blocking` of the handler; `took` = a permit was taken for it. -/
def spawn (f : OffFacts) (s : St) (a : Arrival) (took : Bool) : St :=
  let held := took && f.permitHeldForRun
  { s with running := s.running ++ [⟨a.id, a.notify, held⟩],
           permits := if took && !f.permitHeldForRun then s.permits - 1 else s.permits }

/-- The reader handles one frame (it is not busy). -/
def readOne (f : OffFacts) (s : St) (a : Arrival) : St :=
  match a.route, effectiveOff f a with
  | .inline, _ => push s a.notify a.id a.inlineEc
  | .blocking, false => { s with readerBusy := some (.runningInline a) }   -- parks on the reader task
  | .blocking, true =>
    match s.cap with
    | none => spawn f s a false
    | some c =>
      if s.permits < c then spawn f { s with permits := s.permits + 1 } a true
      else if f.tryAcquire && f.saturationNeverWaits then
        let s1 := { s with reports := s.reports ++ [.saturation a.id] }
        if a.notify && f.saturationDropsNotify then s1
        else pushReply f s1 false (if f.repliesCarryRequestId then a.id else 0) f.saturationCode
      else { s with readerBusy := some (.waitingSlot a) }

/-- The reader works through the backlog until it gets stuck again or the backlog is empty. -/
def drain (f : OffFacts) : List Arrival → St → St
  | [], s => { s with backlog := [] }
  | a :: rest, s =>
    if s.readerBusy.isSome then { s with backlog := a :: rest }
    else drain f rest (readOne f s a)

/-- Remove the first running handler with this id. -/
def takeRun (id : Nat) : List Run → Option (Run × List Run)
  | [] => none
  | r :: rest =>
    if r.id = id then some (r, rest)
    else match takeRun id rest with
      | some (x, rest') => some (x, r :: rest')
      | none => none

/-- What a handler's end puts on the outbound channel / reports. -/
def finish (f : OffFacts) (s : St) (id : Nat) (notify : Bool) (k : ExitKind) : St :=
  match k with
  | .ret => pushReply f s notify id 0
  | .err c => pushReply f s notify id c
  | .panic =>
    if f.panicCaught then
      pushReply f { s with reports := s.reports ++ [.handlerPanic id] } notify (if f.repliesCarryRequestId then id else 0) f.panicCode
    else s

def step (f : OffFacts) (s : St) : Ev → St
  | .arrive a =>
    if s.readerBusy.isSome then { s with backlog := s.backlog ++ [a] }
    else readOne f s a
  | .exit id k =>
    match s.readerBusy with
    | some (.runningInline a) =>
      if a.id = id then
        -- the handler that was running on the reader ends; the reader resumes
        drain f s.backlog (finish f { s with readerBusy := none } id a.notify k)
      else
        match takeRun id s.running with
        | none => s
        | some (r, rest) =>
          finish f { s with running := rest, permits := if r.permit then s.permits - 1 else s.permits } id r.notify k
    | busy =>
      match takeRun id s.running with
      | none => s
      | some (r, rest) =>
        let s1 := finish f { s with running := rest, permits := if r.permit then s.permits - 1 else s.permits } id r.notify k
        match busy, s1.cap with
        | some (.waitingSlot a), some c =>
          if s1.permits < c then
            drain f s1.backlog (spawn f { s1 with permits := s1.permits + 1, readerBusy := none } a true)
          else s1
        | _, _ => s1

def run (f : OffFacts) (s : St) (evs : List Ev) : St := evs.foldl (step f) s

/-- The step function the specification facts give, written without the stuck-reader machinery. -/
def stepSpec (s : St) : Ev → St
  | .arrive a =>
    match a.route with
    | .inline => push s a.notify a.id a.inlineEc
    | .blocking =>
      match s.cap with
      | none => { s with running := s.running ++ [⟨a.id, a.notify, false⟩] }
      | some c =>
        if s.permits < c then
          { s with permits := s.permits + 1, running := s.running ++ [⟨a.id, a.notify, true⟩] }
        else
          push { s with reports := s.reports ++ [.saturation a.id] } a.notify a.id specCodes.resourceExhausted
  | .exit id k =>
    match takeRun id s.running with
    | none => s
    | some (r, rest) =>
      let s0 := { s with running := rest, permits := if r.permit then s.permits - 1 else s.permits }
      match k with
      | .ret => push s0 r.notify id 0
      | .err c => push s0 r.notify id c
      | .panic => push { s0 with reports := s0.reports ++ [.handlerPanic id] } r.notify id specCodes.internalError

/-! ### configuration and several connections of one server -/

/-- How the per-connection cap is configured and turned into a semaphore. -/
structure CapFacts where
  /-- `DEFAULT_OFFREADER_LIMIT` -/
  defaultLimit : Nat
  /-- `WebSocketServer::new` stores `offreader_limit: Some(DEFAULT_OFFREADER_LIMIT)` -/
  newUsesDefault : Bool
  /-- `with_offreader_limit(limit)` stores `(limit > 0).then_some(limit)` -/
  zeroMeansUnlimited : Bool
  /-- `into_shared` copies `self.offreader_limit` and `handle_connection_with_config` builds
  `config.offreader_limit.map(|n| Arc::new(Semaphore::new(n)))` — one semaphore per connection, as many
  permits as the configured limit, none when unlimited -/
  semaphoreIsLimitPerConnection : Bool
  deriving DecidableEq, Repr

/-- How the embedder configured the server. -/
inductive CapSetting where
  | default            -- `WebSocketServer::new(router)`
  | set (n : Nat)      -- `.with_offreader_limit(n)`
  deriving DecidableEq, Repr

/-- `WebSocketServer.offreader_limit` after construction. -/
def configuredLimit (f : CapFacts) : CapSetting → Option Nat
  | .default => if f.newUsesDefault then some f.defaultLimit else none
  | .set n => if n > 0 || !f.zeroMeansUnlimited then some n else none

/-- Permits of the semaphore a freshly accepted connection gets (`none` = no semaphore). If the source
no longer sizes a per-connection semaphore by the configured limit nothing is promised: unbounded. -/
def connectionCap (f : CapFacts) (c : CapSetting) : Option Nat :=
  if f.semaphoreIsLimitPerConnection then configuredLimit f c else none

/-- One accepted connection; `closed` = its reader has stopped (peer gone, cancelled, drained): no frame
is read any more and what a handler that is still running answers is discarded, but the handler keeps
its permit until it ends. -/
structure Conn where
  st : St
  closed : Bool
  deriving DecidableEq, Repr

inductive SEv where
  | connect
  | ev (i : Nat) (e : Ev)
  | disconnect (i : Nat)
  deriving DecidableEq, Repr

def connStep (f : OffFacts) (c : Conn) (e : Ev) : Conn :=
  if c.closed then
    match e with
    | .arrive _ => c
    | .exit _ _ => { c with st := { (step f c.st e) with outbound := c.st.outbound } }
  else { c with st := step f c.st e }

def modifyNth {α} (l : List α) (i : Nat) (g : α → α) : List α :=
  match l, i with
  | [], _ => []
  | a :: rest, 0 => g a :: rest
  | a :: rest, i + 1 => a :: modifyNth rest i g

def sstep (f : OffFacts) (cf : CapFacts) (setting : CapSetting) (conns : List Conn) : SEv → List Conn
  | .connect => conns ++ [⟨St.init (connectionCap cf setting), false⟩]
  | .ev i e => modifyNth conns i (fun c => connStep f c e)
  | .disconnect i => modifyNth conns i (fun c => { c with closed := true })

def srun (f : OffFacts) (cf : CapFacts) (setting : CapSetting) (evs : List SEv) : List Conn :=
  evs.foldl (sstep f cf setting) []

end Repe
