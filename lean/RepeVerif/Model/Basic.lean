/-
Shared vocabulary of every model: bytes, little-endian integers, outcomes
(panic and abort are outcomes, not undefined behaviour), overflow modes.
Core Lean only: this file is linked into the `repe_model_*` executables.
-/
namespace Repe

abbrev Bytes := List UInt8

/-- `n` little-endian bytes of `v` (truncating, like `to_le_bytes` of an n-byte integer). -/
def leBytes : Nat → Nat → Bytes
  | 0, _ => []
  | n+1, v => UInt8.ofNat (v % 256) :: leBytes n (v / 256)

/-- Little-endian value of a byte list (`uN::from_le_bytes`). -/
def fromLe : Bytes → Nat
  | [] => 0
  | b :: bs => b.toNat + 256 * fromLe bs

/-- What a Rust call can do.  `panic` is an unwinding panic, `abort` a process abort
(allocation failure).  A property that says "never crashes" says: the outcome is `ok` or `err`. -/
inductive Outcome (ε α : Type) where
  | ok (a : α)
  | err (e : ε)
  | panic
  | abort
  deriving DecidableEq, Repr

namespace Outcome
def isReturn {ε α} : Outcome ε α → Bool
  | ok _ => true
  | err _ => true
  | _ => false

def bind {ε α β} (x : Outcome ε α) (f : α → Outcome ε β) : Outcome ε β :=
  match x with
  | ok a => f a
  | err e => err e
  | panic => panic
  | abort => abort

def map {ε α β} (f : α → β) (x : Outcome ε α) : Outcome ε β := x.bind (fun a => ok (f a))
end Outcome

/-- Build profile: `overflow-checks` on (dev: arithmetic overflow panics) or off (release: wraps). -/
inductive OvMode where
  | checks
  | wraps
  deriving DecidableEq, Repr

/-- How the source forms a sum of u64/usize values. Extracted from the source. -/
inductive SumForm where
  | unchecked   -- `a + b + c`
  | checked     -- `checked_add` chain, `None` mapped to an error
  | saturating  -- `saturating_add` chain
  deriving DecidableEq, Repr

def U64 : Nat := 2 ^ 64

/-- One u64 `+` in the given form and mode. `none` in the `ok` position means "checked add reported overflow". -/
def addU64 (form : SumForm) (mode : OvMode) (a b : Nat) : Outcome Unit (Option Nat) :=
  if a + b < U64 then .ok (some (a + b))
  else match form with
    | .checked => .ok none
    | .saturating => .ok (some (U64 - 1))
    | .unchecked => match mode with
      | .checks => .panic
      | .wraps => .ok (some ((a + b) % U64))

/-- Left-to-right sum of a list in the given form. -/
def sumU64 (form : SumForm) (mode : OvMode) : Nat → List Nat → Outcome Unit (Option Nat)
  | acc, [] => .ok (some acc)
  | acc, x :: xs =>
    match addU64 form mode acc x with
    | .ok (some s) => sumU64 form mode s xs
    | .ok none => .ok none
    | .err e => .err e
    | .panic => .panic
    | .abort => .abort

/-! ### hex and decimal helpers for the line protocol (drivers only) -/

def hexDigit (n : Nat) : Char :=
  if n < 10 then Char.ofNat (48 + n) else Char.ofNat (87 + n)

def hexOfBytes (bs : Bytes) : String :=
  if bs.isEmpty then "-" else
  String.ofList (bs.flatMap fun b => [hexDigit (b.toNat / 16), hexDigit (b.toNat % 16)])

def hexVal (c : Char) : Option Nat :=
  if '0' ≤ c ∧ c ≤ '9' then some (c.toNat - 48)
  else if 'a' ≤ c ∧ c ≤ 'f' then some (c.toNat - 87)
  else if 'A' ≤ c ∧ c ≤ 'F' then some (c.toNat - 55)
  else none

def bytesOfHexChars : List Char → Option Bytes
  | [] => some []
  | [_] => none
  | a :: b :: r => do
    let x ← hexVal a
    let y ← hexVal b
    let rest ← bytesOfHexChars r
    pure (UInt8.ofNat (x * 16 + y) :: rest)

def bytesOfHex (s : String) : Option Bytes :=
  if s = "-" then some [] else bytesOfHexChars s.toList

def words (line : String) : List String :=
  (line.trimAscii.toString.splitOn " ").filter (· ≠ "")

end Repe
