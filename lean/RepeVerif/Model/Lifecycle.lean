import RepeVerif.Model.Basic
/-!
Executable model of one WebSocket connection task (`/repo/src/websocket_server.rs`,
`accept_and_serve` → `handle_connection_with_config`), family `lifecycle` (C15).  Core Lean only.

The connection task is the structured program

```
accept_repe_websocket(..).await?                       -- phase `handshake` (built-in loops only)
let writer_guard = AbortOnDrop(tokio::spawn(writer_task(..)));
let reader_result = {
    let _guard = DisconnectGuard { peer_id, hooks, cancel: conn_token.clone() };
    for hook in on_connect      { hook(peer.clone()) }        -- phases `hooks i` / `inHook i`
    for hook in on_connect_ctx  { hook(&peer, handshake) }    -- (same list, continued)
    select! { r = reader_task(..) => r, _ = conn_token.cancelled() => Ok(()) }   -- `reading` …
};                                                      -- `_guard` drops here (block end)
let _ = shutdown_tx.send(());
writer_guard.await                                      -- phase `draining`
```

flattened into a labelled transition system.  The task's own moves and the moves of everything
that runs beside it (the peer, the embedder cancelling the parent token or aborting the task, the
writer task, off-reader handlers on blocking threads, anybody holding a `PeerHandle`) are `Act`s;
a run is any sequence of enabled `Act`s, so a statement about every run is a statement about every
schedule at this granularity.

Scopes and the drop guard.  Leaving the inner block normally (`exitBlock`), unwinding out of the
function after a panic in a connect hook or an inline handler, and the future being dropped at an
await point (task aborted: `abort`) all run the destructors of the locals that are alive:
`DisconnectGuard::drop` (once: the guard is `armed → dropped`) and `AbortOnDrop::drop`.  *Where* the
guard is declared and in which order its `Drop` does things are facts re-extracted from the source
(`Facts`, `Gen/Lifecycle.lean`); the model gives the other placements their real semantics too, so
that a theorem can say which placement it needs (and the examples in `Props/C15.lean` show each is
needed).

What is not modelled: a disconnect hook that itself panics (outside the property's list of exit
paths), the bytes of frames (C01–C05), off-reader saturation (C16), outbound size limits (C17)
beyond "the writer may drop a notify".
-/
namespace Repe.Lifecycle

/-- Syntactic facts about `handle_connection_with_config` / `DisconnectGuard::drop`, re-extracted
from the source on every run. -/
structure Facts where
  /-- `tokio::spawn(writer_task(..))` precedes `DisconnectGuard {` -/
  writerBeforeGuard : Bool
  /-- `DisconnectGuard {` precedes both connect-hook loops -/
  guardBeforeHooks : Bool
  /-- the guard is a local of the block that contains the hook loops and the `select!` over
  `reader_task(..)`, and that block closes before `shutdown_tx.send` -/
  guardInReaderBlock : Bool
  /-- both hook loops precede `reader_task(` -/
  hooksBeforeReader : Bool
  /-- in `Drop`: `self.cancel.cancel()` precedes the hook loop -/
  cancelBeforeHooks : Bool
  /-- the writer's `JoinHandle` is wrapped in `AbortOnDrop`, whose `Drop` calls `abort()` -/
  abortOnDrop : Bool
  deriving DecidableEq, Repr

/-- The placement the current source has (and the property needs). -/
def Facts.ok (F : Facts) : Bool :=
  F.writerBeforeGuard && F.guardBeforeHooks && F.guardInReaderBlock && F.hooksBeforeReader &&
  F.cancelBeforeHooks && F.abortOnDrop

def Facts.good : Facts := ⟨true, true, true, true, true, true⟩

/-- Static configuration of a connection. -/
structure Cfg where
  F : Facts
  /-- connect hooks that will be called (plain ones, then handshake-aware ones if a handshake was captured) -/
  nConn : Nat
  /-- disconnect hooks -/
  nDisc : Nat
  /-- capacity of the outbound channel (`with_outbound_capacity`, ≥ 1) -/
  cap : Nat
  /-- the connection token is a child of an embedder/drain `ShutdownToken` -/
  hasParent : Bool
  deriving DecidableEq, Repr

/-- Frames in the outbound channel, as far as the property speaks about them. -/
inductive Frame where
  /-- the `k`-th notify queued by connect hook `hook` through `peer.send_notify` -/
  | connNotify (hook k : Nat)
  /-- any other notify (pushed by a handler to its caller, or by a broadcast through a `PeerHandle`) -/
  | otherNotify (n : Nat)
  /-- the response (or error response) to request `id` -/
  | response (id : Nat)
  deriving DecidableEq, Repr

def Frame.isResponse : Frame → Bool
  | .response _ => true
  | _ => false

def Frame.isConnNotify : Frame → Bool
  | .connNotify _ _ => true
  | _ => false

/-- What user callbacks observe, in order. -/
inductive Ev where
  /-- connect hook `i` is invoked -/
  | connect (i : Nat)
  /-- `DisconnectGuard::drop` calls `self.cancel.cancel()` -/
  | cancel
  /-- disconnect hook `i` is invoked; `cancelled` = state of the connection token at that moment -/
  | disconnect (i : Nat) (cancelled : Bool)
  deriving DecidableEq, Repr

/-- Why `reader_task` returned. -/
inductive Cause where
  | close              -- Close frame: `FramePayload::Close => break`
  | eof                -- stream ended: `None => break`
  | socketError        -- `Some(Err(err)) => return Err(..)` (connection reset, broken pipe …)
  | protocolViolation  -- tungstenite protocol error, or a Text frame (`decode_request_payload` → Err)
  | malformedFrame     -- `MessageView::from_slice_exact(&payload)?`
  deriving DecidableEq, Repr

/-- Program counter of the connection task. -/
inductive Phase where
  | handshake                 -- awaiting `accept_repe_websocket`
  | hooks (i : Nat)           -- about to call connect hook `i` (or, for `i = nConn`, to enter the `select!`)
  | inHook (i : Nat)          -- inside connect hook `i` (synchronous user code)
  | reading                   -- `select!`: reader parked in `ws_reader.next().await`
  | inline                    -- reader inside an inline handler (synchronous user code)
  | sendBlocked (id : Nat)    -- reader parked in `outbound_tx.send(response id).await` (channel full)
  | draining                  -- after the block: `writer_guard.await`
  | done                      -- the task has returned, unwound, or been dropped
  deriving DecidableEq, Repr

inductive Guard where
  | unarmed | armed | dropped
  deriving DecidableEq, Repr

inductive Writer where
  | notSpawned
  | running      -- `select!` over `outbound_rx.recv()` and the shutdown signal
  | signalled    -- shutdown signal seen (sent, or its sender dropped): flush what is queued, then exit
  | finished
  | aborted      -- `AbortOnDrop::drop`
  deriving DecidableEq, Repr

structure St where
  phase : Phase := .handshake
  /-- the handshake succeeded (the connection is an *accepted* connection) -/
  accepted : Bool := false
  guard : Guard := .unarmed
  /-- the connection's `CancellationToken` is cancelled (by its parent or by the guard) -/
  token : Bool := false
  /-- connect hooks invoked so far -/
  started : Nat := 0
  trace : List Ev := []
  /-- every frame the outbound channel accepted, in order -/
  log : List Frame := []
  /-- the outbound channel's content (FIFO) -/
  queue : List Frame := []
  /-- what the writer put on the wire, in order -/
  wire : List Frame := []
  writer : Writer := .notSpawned
  /-- off-reader handlers spawned and not yet returned (each holds a clone of the token) -/
  handlers : List Nat := []
  deriving DecidableEq, Repr

def init : St := {}

/-- Moves of the system. -/
inductive Act where
  -- the connection task
  | handshakeFail
  | handshakeOk
  | hookStart                       -- call the next connect hook
  | hookNotify (k : Nat)            -- the running connect hook calls `peer.send_notify` (`try_send`)
  | hookReturn
  | hookPanic
  | enterReader                     -- hook loops finished: enter the `select!`
  | earlyResponse (id : Nat)        -- only if the hook loops do NOT precede the reader: the reader answers
                                    -- a request between two connect hooks
  | recvInline                      -- a request routed to an inline handler
  | inlineReturn (resp : Option Nat) -- the handler returns; `some id` = a response is to be sent
  | inlinePanic
  | recvOff (h : Nat)               -- a request routed to an off-reader handler: `spawn_blocking`
  | sendUnblocked                   -- the blocked `send` completes
  | sendClosed                      -- the blocked `send` fails: the writer is gone
  | readerExit (c : Cause)
  | selectCancelled                 -- the `conn_token.cancelled()` arm wins
  | writerJoined                    -- `writer_guard.await` completes
  | abort                           -- the task is aborted: its future is dropped at the await point it is parked in
  -- everything else
  | parentCancel                    -- embedder `ShutdownToken::cancel()` / graceful-drain shutdown
  | otherNotify (n : Nat)           -- somebody holding the `PeerHandle` calls `send_notify`
  | offFinish (h : Nat) (resp : Option Nat)  -- an off-reader handler returns (`blocking_send` of its response)
  | writerSend                      -- the writer takes the head of the queue and writes it
  | writerDrop                      -- `frame_outbound` refuses a notify (too large): nothing goes on the wire
  | writerFail                      -- socket write error: the writer exits, the channel closes
  | writerFinish                    -- the signalled writer exits (queue flushed, or drain deadline hit)
  deriving DecidableEq, Repr

/-- The receiver half of the outbound channel is alive: the writer task owns it once spawned; before
that it is a local of the connection task (only possible when the spawn does not precede the guard). -/
def chanOpen (s : St) : Bool :=
  s.writer == .running || s.writer == .signalled ||
  (s.writer == .notSpawned && s.accepted && s.phase != .done)

def hasRoom (c : Cfg) (s : St) : Bool := s.queue.length < c.cap

def enqueue (s : St) (f : Frame) : St := { s with queue := s.queue ++ [f], log := s.log ++ [f] }

/-- `mpsc::Sender::try_send`: `Full` and `Closed` leave the channel untouched. -/
def trySend (c : Cfg) (s : St) (f : Frame) : St :=
  if chanOpen s && hasRoom c s then enqueue s f else s

/-- The events of `DisconnectGuard::drop` when the token's state on entry is `tok`. -/
def dropEvents (F : Facts) (nDisc : Nat) (tok : Bool) : List Ev :=
  if F.cancelBeforeHooks then .cancel :: (List.range nDisc).map (fun i => .disconnect i true)
  else (List.range nDisc).map (fun i => .disconnect i tok) ++ [.cancel]

/-- `DisconnectGuard::drop` (runs at most once: only an armed guard has a destructor to run). -/
def dropGuard (c : Cfg) (s : St) : St :=
  match s.guard with
  | .armed => { s with guard := .dropped, token := true, trace := s.trace ++ dropEvents c.F c.nDisc s.token }
  | _ => s

def arm (s : St) : St := { s with guard := .armed }

/-- Normal exit of the inner block: its locals are dropped, then `shutdown_tx.send(())`. -/
def exitBlock (c : Cfg) (s : St) : St :=
  let s1 := if c.F.guardInReaderBlock then dropGuard c s else s
  -- (a writer spawned only after the block starts here, with the shutdown signal already pending)
  { s1 with phase := .draining,
            writer := if s1.writer == .running || s1.writer == .notSpawned then .signalled else s1.writer }

/-- Unwind out of the function, or the future dropped: every live local is dropped.  The writer
either is aborted (`AbortOnDrop`) or merely sees its shutdown sender go away. -/
def teardown (c : Cfg) (s : St) : St :=
  let s1 := dropGuard c s
  { s1 with phase := .done,
            writer := if s1.writer == .running || s1.writer == .signalled
                      then (if c.F.abortOnDrop then .aborted else .signalled) else s1.writer }

/-- Normal return of the function (a guard declared at function scope would drop here). -/
def finish (c : Cfg) (s : St) : St := { dropGuard c s with phase := .done }

/-- One move; `none` = not enabled. -/
def step (c : Cfg) (s : St) : Act → Option St
  | .handshakeFail =>
    match s.phase with
    | .handshake => some { s with phase := .done }
    | _ => none
  | .handshakeOk =>
    match s.phase with
    | .handshake =>
      let s1 := { s with phase := .hooks 0, accepted := true,
                         writer := if c.F.writerBeforeGuard then .running else .notSpawned }
      some (if c.F.guardBeforeHooks then arm s1 else s1)
    | _ => none
  | .hookStart =>
    match s.phase with
    | .hooks i => if i < c.nConn then
        some { s with phase := .inHook i, started := i + 1, trace := s.trace ++ [.connect i] } else none
    | _ => none
  | .hookNotify k =>
    match s.phase with
    | .inHook i => some (trySend c s (.connNotify i k))
    | _ => none
  | .hookReturn =>
    match s.phase with
    | .inHook i => some { s with phase := .hooks (i + 1) }
    | _ => none
  | .hookPanic =>
    match s.phase with
    | .inHook _ => some (teardown c s)
    | _ => none
  | .enterReader =>
    match s.phase with
    | .hooks i => if i < c.nConn then none else
        let s1 := if c.F.guardBeforeHooks then s else arm s
        some { s1 with phase := .reading }
    | _ => none
  | .earlyResponse id =>
    match s.phase with
    | .hooks _ => if c.F.hooksBeforeReader then none
                  else if chanOpen s && hasRoom c s then some (enqueue s (.response id)) else none
    | _ => none
  | .recvInline =>
    match s.phase with
    | .reading => some { s with phase := .inline }
    | _ => none
  | .inlineReturn resp =>
    match s.phase with
    | .inline =>
      match resp with
      | none => some { s with phase := .reading }
      | some id =>
        if !chanOpen s then some (exitBlock c s)            -- `send` fails: `break`
        else if hasRoom c s then some { enqueue s (.response id) with phase := .reading }
        else some { s with phase := .sendBlocked id }
    | _ => none
  | .inlinePanic =>
    match s.phase with
    | .inline => some (teardown c s)
    | _ => none
  | .recvOff h =>
    match s.phase with
    | .reading => some { s with handlers := h :: s.handlers }
    | _ => none
  | .sendUnblocked =>
    match s.phase with
    | .sendBlocked id => if chanOpen s && hasRoom c s then some { enqueue s (.response id) with phase := .reading } else none
    | _ => none
  | .sendClosed =>
    match s.phase with
    | .sendBlocked _ => if chanOpen s then none else some (exitBlock c s)
    | _ => none
  | .readerExit _ =>
    match s.phase with
    | .reading => some (exitBlock c s)
    | _ => none
  | .selectCancelled =>
    if s.token then
      match s.phase with
      | .reading => some (exitBlock c s)
      | .sendBlocked _ => some (exitBlock c s)
      | _ => none
    else none
  | .writerJoined =>
    match s.phase with
    | .draining => if s.writer == .finished || s.writer == .aborted then some (finish c s) else none
    | _ => none
  | .abort =>
    match s.phase with
    | .handshake => some (teardown c s)
    | .reading => some (teardown c s)
    | .sendBlocked _ => some (teardown c s)
    | .draining => some (teardown c s)
    | _ => none
  | .parentCancel => if c.hasParent then some { s with token := true } else none
  | .otherNotify n => if s.accepted then some (trySend c s (.otherNotify n)) else none
  | .offFinish h resp =>
    if h ∈ s.handlers then
      let s1 := { s with handlers := s.handlers.erase h }
      match resp with
      | none => some s1
      | some id =>
        if !chanOpen s1 then some s1                          -- best effort: the writer is gone
        else if hasRoom c s1 then some (enqueue s1 (.response id))
        else none                                             -- `blocking_send` waits for room
    else none
  | .writerSend =>
    if s.writer == .running || s.writer == .signalled then
      match s.queue with
      | f :: q => some { s with queue := q, wire := s.wire ++ [f] }
      | [] => none
    else none
  | .writerDrop =>
    if s.writer == .running || s.writer == .signalled then
      match s.queue with
      | f :: q => if f.isResponse then none else some { s with queue := q }
      | [] => none
    else none
  | .writerFail => if s.writer == .running || s.writer == .signalled then some { s with writer := .finished, queue := [] } else none
  | .writerFinish => if s.writer == .signalled then some { s with writer := .finished, queue := [] } else none

/-- Run a schedule; `none` if some move was not enabled. -/
def run (c : Cfg) : St → List Act → Option St
  | s, [] => some s
  | s, a :: as => match step c s a with
    | some s' => run c s' as
    | none => none

/-- `s` is reachable from the initial state by some schedule. -/
def Reachable (c : Cfg) (s : St) : Prop := ∃ as, run c init as = some s

/-- What `ctx.is_cancelled()` returns to a handler of this connection in state `s`: every
`CallContext` of the connection wraps a clone of the one connection token. -/
def seenByHandlers (s : St) : Bool := s.token

/-! ### the handshake's path check (`normalize_path`, `WebSocketPathValidator::on_request`) and what the
built-in accept loops report through `on_error` -/

/-- `str::trim_end_matches('/')` -/
def trimSlashes (p : List Char) : List Char := (p.reverse.dropWhile (· == '/')).reverse

/-- `normalize_path`, branch by branch. -/
def normalizePath (p : List Char) : List Char :=
  if p = [] ∨ p = ['/'] then ['/']
  else if p.head? = some '/' then trimSlashes p
  else '/' :: trimSlashes p

/-- `WebSocketPathValidator::on_request`: the upgrade is accepted iff the request's URI path equals the
normalised configured path (the request path itself is compared verbatim). -/
def pathAccepted (configured requested : List Char) : Bool := requested == normalizePath configured

/-- Does `reader_task` return `Err` for this cause? (`accept_and_serve` then reports one
`ConnectionError::Connection`, unless the writer also failed, in which case it is still one report:
`reader_result.and(writer_result)` is a single `Result`.) -/
def Cause.isError : Cause → Bool
  | .close => false
  | .eof => false
  | _ => true

/-! ### connection identity: `peer_id_counter.fetch_add(1)` -/

/-- The ids handed to `n` connections by `n` atomic `fetch_add(1)` on a counter standing at `c`, in the
order the read-modify-writes take effect (whatever the interleaving of the connection tasks, each
`fetch_add` is one indivisible step, so the outcomes are exactly these, assigned in some order). -/
def mintIds (c n : Nat) : List Nat := List.range' c n

/-! ### expected shapes -/

def connects (k : Nat) : List Ev := (List.range k).map .connect

def disconnects (n : Nat) : List Ev := (List.range n).map (fun i => .disconnect i true)

end Repe.Lifecycle
