import RepeVerif.Model.Basic
/-!
Mutex / condition-variable protocol of `TransferControl` (src/stream.rs) — model for C12.

Self-contained (does not use Model/Transfer.lean).  Core Lean only: linked into `repe_model_wake`.

* `Sh`      the part of `TransferControlInner` the two wait predicates and the signalling methods
            read or write (`window_bytes, sent_offset, acked_offset, current_file_index, cancelled,
            pending_resume`, and the chunk boundaries of the replay ring, which decide whether
            `request_resume` accepts an offset).  Time stamps and the peer slot are not modelled.
* `Op`      the state-changing methods.  Each runs its whole body under the one mutex, so each is one
            atomic step.  `applyOp` returns the new state and *whether this call reaches
            `self.cv.notify_all()`*; that is decided by the `NotifyTable`, which is extracted from the
            source (`Gen.Wake.table`): per method the `if` conditions enclosing the call.
* waiter    one thread running `wait_for_credit len` or `wait_for_reconnect`; program counter
            `start → checking ⇄ parked/woken → returned r`.  `lock` acquires the mutex, `check e` is
            one pass through the loop body with the mutex held (`e` = the environment's answer to
            `now >= deadline`), ending in a return or in `cv.wait_timeout`, which releases the mutex
            and parks atomically.  `wake` is a spurious wake-up or the expiry of the wait's timer.
            The order of the tests in the loop body is extracted too (`Gen.Wake.creditLoop`, …).
* values    `u64` as `Nat`.  The one add in the credit predicate (`in_flight + chunk_len`) is modelled
            in ℕ: the model is exact while `sent + len < 2^64` (finding F3 is about the other case and
            belongs to C11).
-/
namespace Repe.Condvar

/-- Shared state guarded by `TransferControl::inner`. `ring` = `(offset, data_len)` of the chunks in
the replay ring, oldest first (eviction is not modelled: capacity is assumed not to be reached). -/
structure Sh where
  window : Nat
  sent : Nat
  acked : Nat
  file : Nat
  cancelled : Option Nat      -- reason (the harness uses reason strings "r<N>")
  pending : Option Nat        -- `pending_resume.resume_at_offset`
  ring : List (Nat × Nat)
  deriving DecidableEq, Repr

def Sh.new (window : Nat) : Sh := ⟨window, 0, 0, 0, none, none, []⟩

/-- The signalling methods. -/
inductive Op where
  | sent (n : Nat)               -- record_sent(new_offset)
  | ack (f off : Nat)            -- record_ack(file_index, received_through_offset)
  | cancel (r : Nat)             -- cancel(reason)
  | advance (f : Nat)            -- advance_to_file(next_file_index)
  | resume (f off : Nat)         -- request_resume(peer, file_index, last_received_offset)
  | push (off len : Nat)         -- push_replay(offset, data_len, last, body)
  | nop                          -- set_peer / peer / replay_chunks_from / is_cancelled / cancel_reason /
                                 -- timestamps / offsets: take the mutex, change no modelled field, no notify
  deriving DecidableEq, Repr

/-- Recognised `if` conditions that may enclose a `notify_all()` call (evaluated on the state
*before* the method's updates, as in the source, where the test precedes the assignment). -/
inductive Cond where
  | fileMatches     -- `file_index == guard.current_file_index`          (record_ack)
  | ackAdvances     -- `capped > guard.acked_offset`, capped = min(off, sent) (record_ack)
  | notCancelled    -- `guard.cancelled.is_none()`                       (cancel)
  | unknown         -- any other enclosing condition / `else` / `match` arm: the call is reached only
                    -- under a condition the extractor does not understand; the model takes the
                    -- pessimistic reading (it may not hold), so no obligation can rest on this call
  deriving DecidableEq, Repr

/-- `never`: the method contains no `notify_all()`.  `when cs`: it contains one, nested inside `if`s
with conditions `cs` (`when []` = unconditionally on every path that reaches the method's end). -/
inductive Notify where
  | never
  | when (cs : List Cond)
  deriving DecidableEq, Repr

structure NotifyTable where
  sent : Notify
  ack : Notify
  cancel : Notify
  advance : Notify
  resume : Notify
  push : Notify
  deriving DecidableEq, Repr

def Cond.eval (c : Cond) (op : Op) (s : Sh) : Bool :=
  match c, op with
  | .fileMatches, .ack f _ => f == s.file
  | .ackAdvances, .ack _ off => Nat.blt s.acked (min off s.sent)
  | .notCancelled, .cancel _ => s.cancelled.isNone
  | .unknown, _ => false
  | _, _ => false

def Notify.fires (n : Notify) (op : Op) (s : Sh) : Bool :=
  match n with
  | .never => false
  | .when cs => cs.all fun c => c.eval op s

/-- `ReplayRing::covers`. -/
def ringCovers (ring : List (Nat × Nat)) (off : Nat) : Bool :=
  match ring.getLast? with
  | none => off == 0
  | some last => ring.any (fun c => c.1 == off) || (last.1 + last.2 == off)

/-- What `request_resume` answers. -/
inductive ResumeRes where
  | ok (off : Nat)
  | cancelled
  | wrongFile
  | outOfWindow
  deriving DecidableEq, Repr

def resumeRes (s : Sh) (f off : Nat) : ResumeRes :=
  if s.cancelled.isSome then .cancelled
  else if f != s.file then .wrongFile
  else if !ringCovers s.ring off then .outOfWindow
  else .ok off

/-- One signalling method, atomically: new state and "reached `notify_all()`". -/
def applyOp (t : NotifyTable) (op : Op) (s : Sh) : Sh × Bool :=
  match op with
  | .sent n =>
    (if s.sent < n then { s with sent := n } else s, t.sent.fires op s)
  | .ack f off =>
    (if f == s.file && Nat.blt s.acked (min off s.sent) then { s with acked := min off s.sent } else s,
     t.ack.fires op s)
  | .cancel r =>
    (if s.cancelled.isNone then { s with cancelled := some r } else s, t.cancel.fires op s)
  | .advance f =>
    ({ s with file := f, sent := 0, acked := 0, ring := [], pending := none }, t.advance.fires op s)
  | .resume f off =>
    match resumeRes s f off with
    | .ok _ =>
      ({ s with pending := some off,
                acked := if Nat.blt s.acked off && Nat.ble off s.sent then off else s.acked },
       t.resume.fires op s)
    | _ => (s, false)        -- the three early `return Err(..)` precede the call
  | .push off len =>
    ({ s with ring := s.ring ++ [(off, len)] }, t.push.fires op s)
  | .nop => (s, false)

/-! ### the waiter -/

inductive Kind where
  | credit (len : Nat)      -- wait_for_credit(chunk_len, deadline)
  | reconnect               -- wait_for_reconnect(timeout)
  deriving DecidableEq, Repr

inductive Ret where
  | ok                      -- Ok(())
  | cancelled (r : Nat)     -- Err(CreditError::Cancelled(r)) / ReconnectOutcome::Cancelled(r)
  | resume (off : Nat)      -- ReconnectOutcome::ResumeReady(PendingResume{off})
  | timeout
  deriving DecidableEq, Repr

inductive PC where
  | start
  | checking                -- holds the mutex, at the top of the loop body
  | parked                  -- inside `cv.wait_timeout`, mutex released
  | preparking              -- only when check-and-park is NOT one critical section: the guard was
                            -- dropped after the tests, the waiter is about to re-lock and wait
  | woken                   -- left the wait, has to re-acquire the mutex
  | returned (r : Ret)
  deriving DecidableEq, Repr

def PC.isReturned : PC → Bool
  | .returned _ => true
  | _ => false

/-- The statements of the loop body, in source order (extracted). -/
inductive WStep where
  | cancel      -- `if let Some(reason) = g.cancelled.clone() { return Cancelled(reason) }`
  | pred        -- credit: `if in_flight == 0 || in_flight + chunk_len <= window { return Ok(()) }`
                -- reconnect: `if let Some(p) = g.pending_resume.take() { return ResumeReady(p) }`
  | deadline    -- `if now >= deadline { return Timeout }`
  | park        -- `cv.wait_timeout(g, deadline - now)`
  deriving DecidableEq, Repr

def stdLoop : List WStep := [.cancel, .pred, .deadline, .park]

def inFlight (s : Sh) : Nat := s.sent - s.acked     -- saturating_sub

/-- The condition the waiter sleeps on: it must not stay parked while this holds. -/
def pred (k : Kind) (s : Sh) : Bool :=
  match k with
  | .credit len => s.cancelled.isSome || inFlight s == 0 || Nat.ble (inFlight s + len) s.window
  | .reconnect => s.cancelled.isSome || s.pending.isSome

/-- The value a waiter that finds `pred` true returns. -/
def expected (k : Kind) (s : Sh) : Ret :=
  match s.cancelled with
  | some r => .cancelled r
  | none =>
    match k with
    | .credit _ => .ok
    | .reconnect => match s.pending with
      | some off => .resume off
      | none => .timeout   -- not reached when `pred` holds

/-- One pass through the loop body with the mutex held; `none` = fell off the end (loops again). -/
def runBody (k : Kind) (expired : Bool) : List WStep → Sh → Option (Sh × PC)
  | [], _ => none
  | .cancel :: rest, s =>
    match s.cancelled with
    | some r => some (s, .returned (.cancelled r))
    | none => runBody k expired rest s
  | .pred :: rest, s =>
    match k with
    | .credit len =>
      if inFlight s == 0 || Nat.ble (inFlight s + len) s.window then some (s, .returned .ok)
      else runBody k expired rest s
    | .reconnect =>
      match s.pending with
      | some off => some ({ s with pending := none }, .returned (.resume off))
      | none => runBody k expired rest s
  | .deadline :: rest, s =>
    if expired then some (s, .returned .timeout) else runBody k expired rest s
  | .park :: _, s => some (s, .parked)

/-- What the source says, as extracted: notify table and the two loop bodies. -/
structure Cfg where
  tbl : NotifyTable
  creditLoop : List WStep
  reconnectLoop : List WStep
  /-- the mutex is held continuously from the tests to `wait_timeout` (one `.lock()` before the loop,
  the guard handed to the wait); `false` = the loop re-locks / drops the guard in between -/
  creditAtomic : Bool
  reconnectAtomic : Bool
  /-- the deadline test of the loop reads the monotonic clock on every pass (`let now = Instant::now();
  if now >= deadline`) and the wait is handed `deadline - now`.  `false` = any other form (a sticky
  `timed_out()` flag, a duration computed once, …): pessimistically, such a test may never fire. -/
  creditClock : Bool
  reconnectClock : Bool
  /-- every notification in the signalling methods is `notify_all` (false: some `notify_one`) -/
  notifyAll : Bool
  /-- `set_peer` and every read-only method (`peer, replay_chunks_from, is_cancelled, cancel_reason,
  timestamps, offsets`) is one critical section: `Op.nop` is then an honest model of them (one atomic step that
  sees one state); `false` = some reader takes the lock twice / reads lock-free mirrors -/
  readersAtomic : Bool
  deriving DecidableEq, Repr

def Cfg.clockOf (c : Cfg) : Kind → Bool
  | .credit _ => c.creditClock
  | .reconnect => c.reconnectClock

def Cfg.atomicOf (c : Cfg) : Kind → Bool
  | .credit _ => c.creditAtomic
  | .reconnect => c.reconnectAtomic

def Cfg.loopOf (c : Cfg) : Kind → List WStep
  | .credit _ => c.creditLoop
  | .reconnect => c.reconnectLoop

structure St where
  sh : Sh
  pc : PC
  locked : Bool        -- the mutex is held by the waiter (signalling methods hold it only inside their step)
  deriving DecidableEq, Repr

def St.init (s : Sh) : St := ⟨s, .start, false⟩

inductive Ev where
  | lock                      -- waiter acquires the mutex (entry, or return from wait_timeout)
  | check (expired : Bool)    -- one pass through the loop body
  | wake                      -- spurious wake-up / timer of wait_timeout fired
  | op (o : Op)               -- a signalling thread runs one method
  deriving DecidableEq, Repr

def Ev.isWaiter : Ev → Bool
  | .op _ => false
  | _ => true

/-- One step of the whole system. An event that is not enabled leaves the state unchanged. -/
def step (c : Cfg) (k : Kind) (st : St) : Ev → St
  | .lock =>
    if (st.pc = .start ∨ st.pc = .woken) ∧ st.locked = false then { st with pc := .checking, locked := true }
    else if st.pc = .preparking ∧ st.locked = false then { st with pc := .parked }   -- re-lock; wait releases it
    else st
  | .check e =>
    if st.pc = .checking then
      match runBody k (e && c.clockOf k) (c.loopOf k) st.sh with
      | some (sh', pc') => ⟨sh', if pc' = .parked ∧ c.atomicOf k = false then .preparking else pc', false⟩
      | none => st
    else st
  | .wake => if st.pc = .parked then { st with pc := .woken } else st
  | .op o =>
    if st.locked then st
    else
      let r := applyOp c.tbl o st.sh
      { st with sh := r.1, pc := if r.2 && st.pc == .parked then .woken else st.pc }

def run (c : Cfg) (k : Kind) (st : St) (evs : List Ev) : St := evs.foldl (step c k) st

/-! ### any number of waiters

The same protocol with a waiter for every natural number (a finite system is the one in which only
finitely many of them are ever scheduled), of mixed kinds (`kinds i`).  `holder` = which waiter holds
the mutex.  `notify_all` moves every parked waiter to `woken`; `notify_one` moves one parked waiter,
chosen by the environment (`pick`). -/

structure MSt where
  sh : Sh
  pc : Nat → PC
  holder : Option Nat

def MSt.init (s : Sh) : MSt := ⟨s, fun _ => .start, none⟩

def upd (f : Nat → PC) (i : Nat) (v : PC) : Nat → PC := fun j => if j = i then v else f j

inductive MEv where
  | lock (i : Nat)
  | check (i : Nat) (expired : Bool)
  | wake (i : Nat)
  | op (o : Op) (pick : Nat)

def mstep (c : Cfg) (kinds : Nat → Kind) (st : MSt) : MEv → MSt
  | .lock i =>
    if (st.pc i = .start ∨ st.pc i = .woken) ∧ st.holder = none then
      { st with pc := upd st.pc i .checking, holder := some i }
    else if st.pc i = .preparking ∧ st.holder = none then { st with pc := upd st.pc i .parked }
    else st
  | .check i e =>
    if st.pc i = .checking ∧ st.holder = some i then
      match runBody (kinds i) (e && c.clockOf (kinds i)) (c.loopOf (kinds i)) st.sh with
      | some (sh', pc') =>
        ⟨sh', upd st.pc i (if pc' = .parked ∧ c.atomicOf (kinds i) = false then .preparking else pc'), none⟩
      | none => st
    else st
  | .wake i => if st.pc i = .parked then { st with pc := upd st.pc i .woken } else st
  | .op o pick =>
    if st.holder.isSome then st
    else
      let r := applyOp c.tbl o st.sh
      { st with
        sh := r.1,
        pc := if r.2 then
                (if c.notifyAll then fun j => if st.pc j = .parked then .woken else st.pc j
                 else if st.pc pick = .parked then upd st.pc pick .woken else st.pc)
              else st.pc }

def mrun (c : Cfg) (kinds : Nat → Kind) (st : MSt) (evs : List MEv) : MSt := evs.foldl (mstep c kinds) st

/-! ### exhaustive exploration (used by the driver of family `wake`)

`threads` are the op sequences of the signalling threads; every interleaving of their heads with
the waiter's own events is explored.  `expireds` = the answers the environment may give to
`now >= deadline` (`[false]` for a far-future deadline).  Result: every status the waiter can have
once all ops have run and the waiter has nothing left to do but sleep: `returned r` or `parked`. -/

structure Node where
  st : St
  threads : List (List Op)
  deriving DecidableEq

def popEach : List (List Op) → List (Op × List (List Op))
  | [] => []
  | [] :: rest => (popEach rest).map fun (o, r) => (o, [] :: r)
  | (o :: os) :: rest => (o, os :: rest) :: (popEach rest).map fun (o', r) => (o', (o :: os) :: r)

def successors (c : Cfg) (k : Kind) (expireds : List Bool) (n : Node) : List Node :=
  let w : List Ev := [.lock, .wake] ++ expireds.map Ev.check
  let ws := (w.map fun e => Node.mk (step c k n.st e) n.threads).filter (· != n)
  let os := if n.st.locked then [] else (popEach n.threads).map fun (o, r) => Node.mk (step c k n.st (.op o)) r
  ws ++ os

def Node.terminal (n : Node) : Bool :=
  n.threads.all (·.isEmpty) && (n.st.pc.isReturned || n.st.pc == .parked)

/-- Worklist search with a visited list; `fuel` bounds the number of expanded nodes. -/
def explore (c : Cfg) (k : Kind) (expireds : List Bool) : Nat → List Node → List Node → List Node
  | 0, _, seen => seen
  | _, [], seen => seen
  | fuel + 1, n :: todo, seen =>
    if seen.contains n then explore c k expireds fuel todo seen
    else explore c k expireds fuel (successors c k expireds n ++ todo) (n :: seen)

/-- Statuses (`returned r` / `parked`) at terminal nodes, with the shared state reached there. -/
def outcomes (c : Cfg) (k : Kind) (expireds : List Bool) (st : St) (threads : List (List Op)) : List (PC × Sh) :=
  ((explore c k expireds 200000 [⟨st, threads⟩] []).filter Node.terminal).map fun n => (n.st.pc, n.st.sh)

end Repe.Condvar
