import RepeVerif.Model.Peers
/-! Helper lemmas for the `peers` model (C18). -/
namespace Repe.Peers

end Repe.Peers
