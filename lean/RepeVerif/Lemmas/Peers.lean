import RepeVerif.Model.Peers
/-! Helper lemmas for the `peers` model (C18): association lists, the step equations of the three
maps, the invariant, and the refinement of the abstract specification. Core Lean only. -/
namespace Repe.Peers

/-! ### association lists -/
section AList
variable {α β : Type} [DecidableEq α]

@[simp] theorem lookup_nil (k : α) : lookup k ([] : List (α × β)) = none := rfl

theorem lookup_cons (k k' : α) (v : β) (l : List (α × β)) :
    lookup k ((k', v) :: l) = if k' = k then some v else lookup k l := rfl

theorem lookup_erase (k k' : α) (l : List (α × β)) :
    lookup k' (erase k l) = if k = k' then none else lookup k' l := by
  induction l with
  | nil => simp [erase]
  | cons e l ih =>
    obtain ⟨a, b⟩ := e
    unfold erase at ih ⊢
    by_cases h : a = k
    · subst h
      simp only [List.filter_cons, decide_true, Bool.not_true, Bool.false_eq_true, if_false, ih, lookup_cons]
      by_cases h2 : a = k' <;> simp [h2]
    · simp only [List.filter_cons, h, decide_false, Bool.not_false, if_true, lookup_cons, ih]
      by_cases h2 : a = k'
      · subst h2; simp [Ne.symm h]
      · simp [h2]

theorem lookup_put (k k' : α) (v : β) (l : List (α × β)) :
    lookup k' (put k v l) = if k = k' then some v else lookup k' l := by
  unfold put
  rw [lookup_cons, lookup_erase]
  by_cases h : k = k' <;> simp [h]

theorem mem_erase (k : α) (l : List (α × β)) (e : α × β) : e ∈ erase k l ↔ e ∈ l ∧ e.1 ≠ k := by
  simp [erase]

theorem lookup_isSome_iff (k : α) (l : List (α × β)) : (lookup k l).isSome ↔ k ∈ l.map (·.1) := by
  induction l with
  | nil => simp
  | cons e l ih =>
    obtain ⟨a, b⟩ := e
    rw [lookup_cons]
    by_cases h : a = k
    · simp [h]
    · simp only [h, if_false, ih, List.map_cons, List.mem_cons]
      constructor
      · intro x; exact Or.inr x
      · intro x; rcases x with x | x
        · exact absurd x.symm h
        · exact x

theorem lookup_mem {k : α} {v : β} {l : List (α × β)} (h : lookup k l = some v) : (k, v) ∈ l := by
  induction l with
  | nil => simp at h
  | cons e l ih =>
    obtain ⟨a, b⟩ := e
    rw [lookup_cons] at h
    by_cases h2 : a = k
    · simp [h2] at h; subst h2; subst h; simp
    · simp [h2] at h; exact List.mem_cons_of_mem _ (ih h)

theorem lookup_of_mem_nodup {a : α} {b : β} {l : List (α × β)} (hnd : (l.map (·.1)).Nodup)
    (he : (a, b) ∈ l) : lookup a l = some b := by
  induction l with
  | nil => cases he
  | cons x l ih =>
    obtain ⟨xa, xb⟩ := x
    rw [lookup_cons]
    simp only [List.map_cons, List.nodup_cons] at hnd
    rcases List.mem_cons.1 he with he | he
    · cases he; simp
    · have hne : xa ≠ a := fun e => hnd.1 (by rw [e]; exact List.mem_map.2 ⟨(a, b), he, rfl⟩)
      simp only [hne, if_false]
      exact ih hnd.2 he

theorem map_fst_erase (k : α) (l : List (α × β)) :
    (erase k l).map (·.1) = (l.map (·.1)).filter (fun a => !decide (a = k)) := by
  unfold erase
  induction l with
  | nil => rfl
  | cons e l ih =>
    by_cases h : e.1 = k <;> simp [h, ih]

theorem nodup_put (k : α) (v : β) (l : List (α × β)) (h : (l.map (·.1)).Nodup) :
    ((put k v l).map (·.1)).Nodup := by
  unfold put
  rw [List.map_cons, List.nodup_cons, map_fst_erase]
  exact ⟨by simp, h.filter _⟩

theorem nodup_erase (k : α) (l : List (α × β)) (h : (l.map (·.1)).Nodup) :
    ((erase k l).map (·.1)).Nodup := by
  rw [map_fst_erase]; exact h.filter _

end AList

/-! ### the reverse index read as a function `PeerId → keys` -/

def keysAt (index : List (Nat × List Key)) (q : Nat) : List Key := (lookup q index).getD []

theorem aliasesFor_eq (s : State) (q : Nat) : aliasesFor s q = keysAt s.index q := rfl

theorem keysAt_pushKey (ix : List (Nat × List Key)) (id q : Nat) (k : Key) :
    keysAt (pushKey ix id k) q = if q = id then keysAt ix id ++ [k] else keysAt ix q := by
  unfold keysAt pushKey
  rw [lookup_put]
  by_cases h : id = q
  · subst h; simp
  · simp [h, Ne.symm h]

theorem keysAt_detachKey (ix : List (Nat × List Key)) (prev q : Nat) (k : Key) :
    keysAt (detachKey ix prev k) q =
      if q = prev then (keysAt ix prev).filter (fun x => !decide (x = k)) else keysAt ix q := by
  unfold keysAt detachKey
  cases hp : lookup prev ix with
  | none =>
    by_cases h : q = prev
    · subst h; simp [hp]
    · simp [h]
  | some keys =>
    simp only [lookup_put]
    by_cases h : prev = q
    · subst h; simp
    · simp [h, Ne.symm h]

theorem keysAt_erase (ix : List (Nat × List Key)) (id q : Nat) :
    keysAt (erase id ix) q = if q = id then [] else keysAt ix q := by
  unfold keysAt
  rw [lookup_erase]
  by_cases h : id = q
  · subst h; simp
  · simp [h, Ne.symm h]

theorem lookup_purge (id : Nat) (keys : List Key) (a : List (Key × Nat)) (k' : Key) :
    lookup k' (purge id keys a) = if k' ∈ keys ∧ lookup k' a = some id then none else lookup k' a := by
  induction keys generalizing a with
  | nil => simp [purge]
  | cons k ks ih =>
    simp only [purge]
    rw [ih]
    by_cases hk : lookup k a = some id
    · simp only [hk, if_true, lookup_erase]
      by_cases h : k = k'
      · subst h; simp [hk]
      · simp [h, Ne.symm h]
    · simp only [hk, if_false]
      by_cases h : k' = k
      · subst h; simp [hk]
      · simp [h]

/-! ### the invariant -/

/-- Forward and reverse alias maps agree; no duplicates; only present owners. -/
structure Inv (s : State) : Prop where
  /-- the peer map has one entry per id (what `HashMap` guarantees) -/
  nodup : (s.peers.map (·.1)).Nodup
  /-- the forward map is exactly the inverse of the reverse index -/
  fwd : ∀ k id, lookup k s.aliases = some id ↔ k ∈ aliasesFor s id
  /-- no key is listed twice -/
  keysNodup : ∀ id, (aliasesFor s id).Nodup
  /-- only present peers list keys -/
  owners : ∀ id, s.present id = false → aliasesFor s id = []

theorem inv_empty : Inv State.empty :=
  ⟨by simp [State.empty], by simp [State.empty, aliasesFor], by simp [State.empty, aliasesFor],
   by simp [State.empty, aliasesFor]⟩

theorem filter_ne_self {k : Key} {l : List Key} (h : k ∉ l) :
    l.filter (fun x => !decide (x = k)) = l := by
  rw [List.filter_eq_self]
  intro a ha
  have : a ≠ k := fun e => h (e ▸ ha)
  simp [this]

theorem alias_absent (s : State) (id : Nat) (k : Key) (h : s.present id = false) :
    alias s id k = (s, false) := by
  simp [alias, h]

/-- The step equations of `alias` on a present peer, in terms of what the maps answer. -/
theorem alias_present {s : State} (hI : Inv s) {id : Nat} (k : Key) (h : s.present id = true) :
    (alias s id k).2 = true ∧ (alias s id k).1.peers = s.peers ∧
    (∀ k', lookup k' (alias s id k).1.aliases = if k = k' then some id else lookup k' s.aliases) ∧
    (∀ q, aliasesFor (alias s id k).1 q =
      if k ∈ aliasesFor s id then aliasesFor s q
      else if q = id then aliasesFor s id ++ [k]
      else (aliasesFor s q).filter (fun x => !decide (x = k))) := by
  unfold alias
  simp only [h, Bool.not_true, Bool.false_eq_true, if_false]
  cases hk : lookup k s.aliases with
  | none =>
    have hnot : ∀ q, k ∉ aliasesFor s q := fun q hq => by
      have := (hI.fwd k q).2 hq; simp [hk] at this
    refine ⟨rfl, rfl, fun k' => lookup_put _ _ _ _, fun q => ?_⟩
    simp only [aliasesFor_eq, keysAt_pushKey]
    have h1 := hnot id
    simp only [aliasesFor_eq] at h1
    simp only [h1, if_false]
    by_cases hq : q = id
    · simp [hq]
    · have h2 := hnot q
      simp only [aliasesFor_eq] at h2
      simp [hq, filter_ne_self h2]
  | some prev =>
    by_cases hp : prev = id
    · subst hp
      have hin : k ∈ aliasesFor s prev := (hI.fwd k prev).1 hk
      simp only [if_true]
      exact ⟨by simp, by simp, fun k' => lookup_put _ _ _ _, fun q => by
        rw [if_pos hin]; rfl⟩
    · have hin : k ∈ aliasesFor s prev := (hI.fwd k prev).1 hk
      have hnot : ∀ q, q ≠ prev → k ∉ aliasesFor s q := fun q hq hm => by
        have := (hI.fwd k q).2 hm; rw [hk] at this; exact hq (Option.some.inj this).symm
      simp only [hp, if_false]
      refine ⟨by simp, by simp, fun k' => lookup_put _ _ _ _, fun q => ?_⟩
      have h1 := hnot id (Ne.symm hp)
      simp only [aliasesFor_eq] at h1 hin ⊢
      simp only [keysAt_pushKey, keysAt_detachKey, h1, if_false, Ne.symm hp]
      by_cases hq : q = id
      · simp [hq]
      · by_cases hq2 : q = prev
        · simp [hq2]
        · have h2 := hnot q hq2
          simp only [aliasesFor_eq] at h2
          simp [hq, hq2, filter_ne_self h2]

/-- The step equations of `remove`. -/
theorem remove_eqs {s : State} (hI : Inv s) (id : Nat) :
    (remove s id).2 = get s id ∧ (remove s id).1.peers = erase id s.peers ∧
    (∀ k', lookup k' (remove s id).1.aliases =
      if lookup k' s.aliases = some id then none else lookup k' s.aliases) ∧
    (∀ q, aliasesFor (remove s id).1 q = if q = id then [] else aliasesFor s q) := by
  unfold remove
  cases hx : lookup id s.index with
  | some keys =>
    have hK : aliasesFor s id = keys := by simp [aliasesFor, hx]
    refine ⟨rfl, rfl, fun k' => ?_, fun q => ?_⟩
    · simp only [lookup_purge]
      have := hI.fwd k' id
      rw [hK] at this
      by_cases h : lookup k' s.aliases = some id
      · simp [h, this.1 h]
      · simp [h]
    · simp only [aliasesFor_eq, keysAt_erase]
  | none =>
    have hK : aliasesFor s id = [] := by simp [aliasesFor, hx]
    refine ⟨rfl, rfl, fun k' => ?_, fun q => ?_⟩
    · have := hI.fwd k' id
      rw [hK] at this
      have h : lookup k' s.aliases ≠ some id := fun e => by simpa using this.1 e
      simp [h]
    · by_cases hq : q = id
      · subst hq; simpa [aliasesFor] using hK
      · simp [hq, aliasesFor]

/-! ### the invariant is preserved by every operation -/

theorem inv_insert {s : State} (hI : Inv s) (id tag : Nat) : Inv (insert s id tag) := by
  refine ⟨nodup_put _ _ _ hI.nodup, hI.fwd, hI.keysNodup, fun q hq => hI.owners q ?_⟩
  simp only [State.present, insert, lookup_put] at hq ⊢
  by_cases h : id = q
  · simp [h] at hq
  · simpa [h] using hq

theorem inv_alias {s : State} (hI : Inv s) (id : Nat) (k : Key) : Inv (alias s id k).1 := by
  cases hp : s.present id with
  | false => rw [alias_absent s id k hp]; exact hI
  | true =>
    obtain ⟨_, hpeers, hA, hK⟩ := alias_present hI k hp
    by_cases hin : k ∈ aliasesFor s id
    · -- the key already points at this peer: nothing observable changes
      have hkid : lookup k s.aliases = some id := (hI.fwd k id).2 hin
      simp only [hin, if_true] at hK
      refine ⟨hpeers ▸ hI.nodup, fun k' q => ?_, fun q => (hK q) ▸ hI.keysNodup q, fun q hq => ?_⟩
      · rw [hA, hK]
        by_cases h : k = k'
        · subst h; simp only [if_true]; rw [← hkid]; exact hI.fwd k q
        · simp only [h, if_false]; exact hI.fwd k' q
      · rw [hK]; apply hI.owners; simpa [State.present, hpeers] using hq
    · simp only [hin, if_false] at hK
      refine ⟨hpeers ▸ hI.nodup, fun k' q => ?_, fun q => ?_, fun q hq => ?_⟩
      · rw [hA, hK]
        by_cases h : k = k'
        · subst h
          by_cases hq : q = id
          · subst hq; simp
          · have : id ≠ q := Ne.symm hq
            simp [hq, this, List.mem_filter]
        · have h' : k' ≠ k := Ne.symm h
          by_cases hq : q = id
          · subst hq; simp [h, h', hI.fwd k' q]
          · simp [h, h', hq, List.mem_filter, hI.fwd k' q]
      · rw [hK]
        by_cases hq : q = id
        · subst hq
          simp only [if_true]
          rw [List.nodup_append]
          exact ⟨hI.keysNodup q, by simp, fun a ha b hb => by
            simp at hb; subst hb; intro e; exact hin (e ▸ ha)⟩
        · simp only [hq, if_false]; exact (hI.keysNodup q).filter _
      · have hq' : s.present q = false := by simpa [State.present, hpeers] using hq
        have hne : q ≠ id := fun e => by rw [e, hp] at hq'; cases hq'
        rw [hK]; simp [hne, hI.owners q hq']

theorem inv_remove {s : State} (hI : Inv s) (id : Nat) : Inv (remove s id).1 := by
  obtain ⟨_, hpeers, hA, hK⟩ := remove_eqs hI id
  refine ⟨hpeers ▸ nodup_erase _ _ hI.nodup, fun k' q => ?_, fun q => ?_, fun q hq => ?_⟩
  · rw [hA, hK]
    by_cases hq : q = id
    · subst hq
      by_cases h : lookup k' s.aliases = some q <;> simp [h]
    · by_cases h : lookup k' s.aliases = some id
      · have : ¬ k' ∈ aliasesFor s q := fun hm => by
          have := (hI.fwd k' q).2 hm; rw [h] at this; exact hq (Option.some.inj this).symm
        simp [h, hq, this]
      · simp [h, hq, hI.fwd k' q]
  · rw [hK]; by_cases hq : q = id
    · simp [hq]
    · simp [hq, hI.keysNodup q]
  · rw [hK]; by_cases hq' : q = id
    · simp [hq']
    · simp only [hq', if_false]; apply hI.owners
      simp only [State.present, hpeers, lookup_erase] at hq ⊢
      simpa [Ne.symm hq'] using hq

theorem inv_step (answer : Handle → SendResult) {s : State} (hI : Inv s) (op : Op) :
    Inv (step answer s op).1 := by
  cases op <;> simp only [step] <;> first | exact hI | skip
  · exact inv_insert hI _ _
  · exact inv_remove hI _
  · exact inv_alias hI _ _

theorem inv_run (answer : Handle → SendResult) {s : State} (hI : Inv s) (ops : List Op) :
    Inv (run answer s ops).1 := by
  induction ops generalizing s with
  | nil => exact hI
  | cons op ops ih => simp only [run]; exact ih (inv_step answer hI op)

/-! ### refinement: the concrete registry implements the abstract specification -/

def absWith (K : Nat → List Key) (l : List (Nat × Nat)) : Spec := l.map (fun e => ⟨e.1, e.2, K e.1⟩)

theorem abs_eq (s : State) : abs s = absWith (aliasesFor s) s.peers := rfl

theorem find_absWith (K : Nat → List Key) (l : List (Nat × Nat)) (id : Nat) :
    Spec.find (absWith K l) id = (lookup id l).map (fun t => ⟨id, t, K id⟩) := by
  induction l with
  | nil => rfl
  | cons e l ih =>
    obtain ⟨a, b⟩ := e
    unfold Spec.find absWith at ih ⊢
    rw [List.map_cons, List.find?_cons, lookup_cons]
    by_cases h : a = id
    · subst h; simp
    · simp only [h, decide_false, if_false]; exact ih

theorem drop_absWith (K : Nat → List Key) (l : List (Nat × Nat)) (id : Nat) :
    Spec.drop (absWith K l) id = absWith K (erase id l) := by
  unfold Spec.drop absWith erase
  induction l with
  | nil => rfl
  | cons e l ih => by_cases h : e.1 = id <;> simp [h, ih]

theorem absWith_congr {K K' : Nat → List Key} {l : List (Nat × Nat)}
    (h : ∀ e ∈ l, K e.1 = K' e.1) : absWith K l = absWith K' l := by
  unfold absWith
  apply List.map_congr_left
  intro e he; rw [h e he]

theorem findKey_absWith_some {K : Nat → List Key} {k : Key} {id : Nat} (h : ∀ q, k ∈ K q ↔ q = id)
    (l : List (Nat × Nat)) :
    (absWith K l).find? (fun p => decide (k ∈ p.keys)) = Spec.find (absWith K l) id := by
  unfold Spec.find absWith
  induction l with
  | nil => rfl
  | cons e l ih =>
    simp only [List.map_cons, List.find?_cons, ih]
    by_cases he : e.1 = id
    · simp [he, (h id).2 rfl]
    · have : k ∉ K e.1 := fun hm => he ((h e.1).1 hm)
      simp [he, this]

theorem findKey_absWith_none {K : Nat → List Key} {k : Key} (h : ∀ q, k ∉ K q)
    (l : List (Nat × Nat)) :
    (absWith K l).find? (fun p => decide (k ∈ p.keys)) = none := by
  unfold absWith
  induction l with
  | nil => rfl
  | cons e l ih => simp [h e.1, ih]

theorem keysOf_abs {s : State} (hI : Inv s) (id : Nat) : (abs s).keysOf id = aliasesFor s id := by
  unfold Spec.keysOf
  rw [abs_eq, find_absWith]
  cases h : lookup id s.peers with
  | some t => simp
  | none =>
    have : s.present id = false := by simp [State.present, h]
    simp [hI.owners id this]

theorem get_abs (s : State) (id : Nat) : (abs s).get id = get s id := by
  unfold Spec.get get
  rw [abs_eq, find_absWith]
  cases lookup id s.peers <;> rfl

theorem getBy_abs {s : State} (hI : Inv s) (k : Key) : (abs s).getBy k = getBy s k := by
  unfold Spec.getBy getBy
  rw [abs_eq]
  cases h : lookup k s.aliases with
  | some id =>
    have hq : ∀ q, k ∈ aliasesFor s q ↔ q = id := fun q => by
      rw [← hI.fwd k q, h]
      exact ⟨fun e => (Option.some.inj e).symm, fun e => by rw [e]⟩
    rw [findKey_absWith_some hq, find_absWith]
    cases hl : lookup id s.peers <;> simp [get, hl]
  | none =>
    have hq : ∀ q, k ∉ aliasesFor s q := fun q hm => by
      have := (hI.fwd k q).2 hm; rw [h] at this; cases this
    rw [findKey_absWith_none hq]; rfl

theorem abs_insert {s : State} (hI : Inv s) (id tag : Nat) :
    abs (insert s id tag) = (abs s).insert id tag := by
  unfold Spec.insert
  rw [keysOf_abs hI, abs_eq s, drop_absWith]
  rfl

theorem abs_remove {s : State} (hI : Inv s) (id : Nat) :
    abs (remove s id).1 = ((abs s).remove id).1 ∧ (remove s id).2 = ((abs s).remove id).2 := by
  obtain ⟨hret, hpeers, _, hK⟩ := remove_eqs hI id
  constructor
  · unfold Spec.remove
    rw [abs_eq, hpeers, abs_eq s, drop_absWith]
    apply absWith_congr
    intro e he
    have : e.1 ≠ id := ((mem_erase _ _ _).1 he).2
    rw [hK]; simp [this]
  · rw [hret, ← get_abs]; rfl

theorem abs_alias {s : State} (hI : Inv s) (id : Nat) (k : Key) :
    abs (alias s id k).1 = ((abs s).alias id k).1 ∧ (alias s id k).2 = ((abs s).alias id k).2 := by
  unfold Spec.alias
  rw [abs_eq s, find_absWith]
  cases hp : lookup id s.peers with
  | none =>
    have : s.present id = false := by simp [State.present, hp]
    rw [alias_absent s id k this]; exact ⟨rfl, rfl⟩
  | some t =>
    have hpres : s.present id = true := by simp [State.present, hp]
    obtain ⟨hret, hpeers, _, hK⟩ := alias_present hI k hpres
    simp only [Option.map_some]
    by_cases hin : k ∈ aliasesFor s id
    · simp only [hin, if_true] at hK ⊢
      refine ⟨?_, hret⟩
      rw [abs_eq, hpeers]
      exact absWith_congr (fun e _ => hK e.1)
    · simp only [hin, if_false] at hK ⊢
      refine ⟨?_, hret⟩
      rw [abs_eq, hpeers]
      unfold absWith
      rw [List.map_map]
      apply List.map_congr_left
      intro e _
      simp only [Function.comp, hK]
      by_cases he : e.1 = id
      · simp [he]
      · simp [he]

theorem step_refines (answer : Handle → SendResult) {s : State} (hI : Inv s) (op : Op) :
    abs (step answer s op).1 = (Spec.step answer (abs s) op).1 ∧
    (step answer s op).2 = (Spec.step answer (abs s) op).2 := by
  cases op with
  | insert id tag => exact ⟨abs_insert hI id tag, rfl⟩
  | remove id => have := abs_remove hI id; exact ⟨this.1, by simp only [step, Spec.step, this.2]⟩
  | alias id k => have := abs_alias hI id k; exact ⟨this.1, by simp only [step, Spec.step, this.2]⟩
  | get id => exact ⟨rfl, by simp only [step, Spec.step, get_abs]⟩
  | getBy k => exact ⟨rfl, by simp only [step, Spec.step, getBy_abs hI]⟩
  | keyFor id =>
    refine ⟨rfl, ?_⟩
    simp only [step, Spec.step, Spec.keyFor, keysOf_abs hI]
    unfold keyFor aliasesFor
    cases lookup id s.index <;> rfl
  | aliasesFor id => exact ⟨rfl, by simp only [step, Spec.step, keysOf_abs hI]⟩
  | len => exact ⟨rfl, by simp [step, Spec.step, len, abs]⟩
  | broadcast p f b =>
    refine ⟨rfl, ?_⟩
    simp [step, Spec.step, broadcast, Spec.broadcast, snapshot, abs, List.map_map, Function.comp]

theorem run_refines (answer : Handle → SendResult) {s : State} (hI : Inv s) (ops : List Op) :
    abs (run answer s ops).1 = (Spec.run answer (abs s) ops).1 ∧
    (run answer s ops).2 = (Spec.run answer (abs s) ops).2 := by
  induction ops generalizing s with
  | nil => exact ⟨rfl, rfl⟩
  | cons op ops ih =>
    have h1 := step_refines answer hI op
    have h2 := ih (inv_step answer hI op)
    simp only [run, Spec.run]
    rw [← h1.1, ← h1.2]
    exact ⟨h2.1, by rw [h2.2]⟩

/-! ### what a history *means*, stated without maps

`Hist.of h` reads a history of calls directly: who is present, to which peer each key was last
assigned (forgotten when that peer is removed: its keys go with it), and at which call the current
assignment of the key was made (re-attaching a key to the peer that already has it is not a new
assignment). -/

structure Hist where
  n : Nat := 0
  present : Nat → Bool := fun _ => false
  owner : Key → Option Nat := fun _ => none
  since : Key → Nat := fun _ => 0

def Hist.step (H : Hist) : Op → Hist
  | .insert q _ => { H with n := H.n + 1, present := fun x => decide (x = q) || H.present x }
  | .remove q => { H with n := H.n + 1, present := fun x => !decide (x = q) && H.present x,
                          owner := fun k => if H.owner k = some q then none else H.owner k }
  | .alias q k =>
    if H.present q = true ∧ H.owner k ≠ some q then
      { H with n := H.n + 1, owner := fun k' => if k' = k then some q else H.owner k',
               since := fun k' => if k' = k then H.n else H.since k' }
    else { H with n := H.n + 1 }
  | _ => { H with n := H.n + 1 }

def Hist.of (h : List Op) : Hist := h.foldl Hist.step {}

structure Coupled (s : State) (H : Hist) : Prop where
  inv : Inv s
  present : ∀ p, s.present p = H.present p
  owner : ∀ k, lookup k s.aliases = H.owner k
  sorted : ∀ p, (aliasesFor s p).Pairwise (fun a b => H.since a < H.since b)
  bound : ∀ p k, k ∈ aliasesFor s p → H.since k < H.n

theorem coupled_empty : Coupled State.empty {} :=
  ⟨inv_empty, fun _ => rfl, fun _ => rfl, by simp [State.empty, aliasesFor], by simp [State.empty, aliasesFor]⟩

theorem coupled_step (answer : Handle → SendResult) {s : State} {H : Hist} (c : Coupled s H) (op : Op) :
    Coupled (step answer s op).1 (H.step op) := by
  have bump : Coupled s { H with n := H.n + 1 } :=
    ⟨c.inv, c.present, c.owner, c.sorted, fun p k hk => Nat.lt_succ_of_lt (c.bound p k hk)⟩
  cases op with
  | insert id tag =>
    refine ⟨inv_insert c.inv id tag, fun p => ?_, c.owner, c.sorted,
      fun p k hk => Nat.lt_succ_of_lt (c.bound p k hk)⟩
    have := c.present p
    simp only [State.present, step, insert, lookup_put, Hist.step] at this ⊢
    by_cases h : id = p
    · simp [h]
    · simp [h, Ne.symm h, this]
  | remove id =>
    obtain ⟨_, hpeers, hA, hK⟩ := remove_eqs c.inv id
    refine ⟨inv_remove c.inv id, fun p => ?_, fun k => ?_, fun p => ?_, fun p k hk => ?_⟩
    · have := c.present p
      simp only [State.present, step, hpeers, lookup_erase, Hist.step] at this ⊢
      by_cases h : id = p
      · simp [h]
      · simp [h, Ne.symm h, this]
    · simp only [step, Hist.step, hA, c.owner]
    · simp only [step, Hist.step, hK]
      by_cases h : p = id
      · simp [h]
      · simp only [h, if_false]; exact c.sorted p
    · simp only [step, Hist.step, hK] at hk ⊢
      by_cases h : p = id
      · simp [h] at hk
      · simp only [h, if_false] at hk; exact Nat.lt_succ_of_lt (c.bound p k hk)
  | alias id k =>
    cases hp : s.present id with
    | false =>
      have hp' : H.present id = false := by rw [← c.present, hp]
      simp only [step, alias_absent s id k hp, Hist.step, hp', Bool.false_eq_true, false_and, if_false]
      exact bump
    | true =>
      have hp' : H.present id = true := by rw [← c.present, hp]
      obtain ⟨_, hpeers, hA, hK⟩ := alias_present c.inv k hp
      by_cases hin : k ∈ aliasesFor s id
      · have hown : H.owner k = some id := by rw [← c.owner]; exact (c.inv.fwd k id).2 hin
        simp only [hin, if_true] at hK
        simp only [step, Hist.step, hown, ne_eq, not_true, and_false, if_false]
        refine ⟨inv_alias c.inv id k, fun p => ?_, fun k' => ?_, fun p => ?_, fun p k' hk => ?_⟩
        · simp only [State.present, hpeers]; exact c.present p
        · rw [hA]
          by_cases h : k = k'
          · subst h; simp [hown]
          · simp [h, c.owner]
        · rw [hK]; exact c.sorted p
        · rw [hK] at hk; exact Nat.lt_succ_of_lt (c.bound p k' hk)
      · have hown : H.owner k ≠ some id := by
          rw [← c.owner]; exact fun e => hin ((c.inv.fwd k id).1 e)
        simp only [hin, if_false] at hK
        simp only [step, Hist.step, hp', hown, ne_eq, not_false_eq_true, and_self, if_true]
        refine ⟨inv_alias c.inv id k, fun p => ?_, fun k' => ?_, fun p => ?_, fun p k' hk => ?_⟩
        · simp only [State.present, hpeers]; exact c.present p
        · rw [hA]
          by_cases h : k = k'
          · subst h; simp
          · simp [h, Ne.symm h, c.owner]
        · rw [hK]
          by_cases hq : p = id
          · subst hq
            simp only [if_true]
            rw [List.pairwise_append]
            refine ⟨(c.sorted p).imp_of_mem ?_, by simp, ?_⟩
            · intro a b ha hb hab
              have ha' : a ≠ k := fun e => hin (e ▸ ha)
              have hb' : b ≠ k := fun e => hin (e ▸ hb)
              simpa [ha', hb'] using hab
            · intro a ha b hb
              simp at hb; subst hb
              have ha' : a ≠ b := fun e => hin (e ▸ ha)
              simpa [ha'] using c.bound p a ha
          · simp only [hq, if_false]
            refine ((c.sorted p).filter _).imp_of_mem ?_
            intro a b ha hb hab
            have ha' : a ≠ k := by simpa using (List.mem_filter.1 ha).2
            have hb' : b ≠ k := by simpa using (List.mem_filter.1 hb).2
            simpa [ha', hb'] using hab
        · rw [hK] at hk
          by_cases hk' : k' = k
          · simp [hk']
          · simp only [hk', if_false]
            by_cases hq : p = id
            · simp only [hq, if_true, List.mem_append, List.mem_singleton, hk', or_false] at hk
              exact Nat.lt_succ_of_lt (c.bound id k' hk)
            · simp only [hq, if_false] at hk
              exact Nat.lt_succ_of_lt (c.bound p k' (List.mem_filter.1 hk).1)
  | get id => exact bump
  | getBy k => exact bump
  | keyFor id => exact bump
  | aliasesFor id => exact bump
  | len => exact bump
  | broadcast p f b => exact bump

theorem coupled_run (answer : Handle → SendResult) {s : State} {H : Hist} (c : Coupled s H) (ops : List Op) :
    Coupled (run answer s ops).1 (ops.foldl Hist.step H) := by
  induction ops generalizing s H with
  | nil => exact c
  | cons op ops ih => simp only [run, List.foldl_cons]; exact ih (coupled_step answer c op)

theorem coupled_after (h : List Op) : Coupled (after h) (Hist.of h) :=
  coupled_run _ coupled_empty h

/-! ### the history reading, characterised declaratively

`Hist.of` is a fold.  The theorems below say what it computes in terms of *positions in the history*:
`k` is owned by `p` since call `n` iff call `n` is an `alias p k` that was accepted (p present) and
changed the owner, `p` was not removed afterwards, and no later accepted `alias q k` re-pointed it. -/

theorem snoc_ind {α : Type} {P : List α → Prop} (nil : P []) (snoc : ∀ l a, P l → P (l ++ [a])) :
    ∀ l, P l := by
  suffices h : ∀ r : List α, P r.reverse by
    intro l; simpa using h l.reverse
  intro r
  induction r with
  | nil => simpa using nil
  | cons a r ih => rw [List.reverse_cons]; exact snoc _ a ih

/-- Where can a one-element split of `h ++ [op]` fall: at the last element, or inside `h`. -/
theorem snoc_eq_append_cons {α : Type} {h h1 h2 : List α} {op x : α} (e : h ++ [op] = h1 ++ x :: h2) :
    (h2 = [] ∧ h = h1 ∧ x = op) ∨ (∃ h2', h2 = h2' ++ [op] ∧ h = h1 ++ x :: h2') := by
  rcases List.eq_nil_or_concat h2 with rfl | ⟨l, b, rfl⟩
  · left
    have := List.append_inj' e (by simp)
    exact ⟨rfl, this.1, by simpa using this.2.symm⟩
  · right
    rw [List.concat_eq_append] at e ⊢
    have e' : h ++ [op] = (h1 ++ x :: l) ++ [b] := by simpa using e
    have := List.append_inj' e' (by simp)
    refine ⟨l, ?_, this.1⟩
    have hb : op = b := by simpa using this.2
    rw [hb]

theorem Hist.of_snoc (h : List Op) (op : Op) : Hist.of (h ++ [op]) = (Hist.of h).step op := by
  simp [Hist.of, List.foldl_append]

theorem Hist.step_n (H : Hist) (op : Op) : (H.step op).n = H.n + 1 := by
  cases op <;> simp only [Hist.step] <;> try rfl
  split <;> rfl

theorem Hist.of_n (h : List Op) : (Hist.of h).n = h.length := by
  induction h using snoc_ind with
  | nil => rfl
  | snoc l a ih => rw [Hist.of_snoc, Hist.step_n, ih]; simp

/-- `k` has pointed at `p` since call number `n` of history `h` (positions count from 0). -/
def AssignedSince (h : List Op) (k : Key) (p n : Nat) : Prop :=
  ∃ h1 h2, h = h1 ++ Op.alias p k :: h2 ∧ h1.length = n ∧
    (Hist.of h1).present p = true ∧ (Hist.of h1).owner k ≠ some p ∧
    (∀ op ∈ h2, op ≠ Op.remove p) ∧
    (∀ h2a q h2b, h2 = h2a ++ Op.alias q k :: h2b →
      q = p ∨ (Hist.of (h1 ++ Op.alias p k :: h2a)).present q = false)

theorem assignedSince_snoc (h : List Op) (op : Op) (k : Key) (p n : Nat) :
    AssignedSince (h ++ [op]) k p n ↔
      (op = Op.alias p k ∧ h.length = n ∧ (Hist.of h).present p = true ∧ (Hist.of h).owner k ≠ some p) ∨
      (AssignedSince h k p n ∧ op ≠ Op.remove p ∧
        ∀ q, op = Op.alias q k → q = p ∨ (Hist.of h).present q = false) := by
  constructor
  · rintro ⟨h1, h2, e, hn, hp, ho, hrm, hlater⟩
    rcases snoc_eq_append_cons e with ⟨rfl, rfl, hx⟩ | ⟨h2', rfl, rfl⟩
    · left; exact ⟨hx.symm, hn, hp, ho⟩
    · right
      refine ⟨⟨h1, h2', rfl, hn, hp, ho, fun o ho' => hrm o (by simp [ho']), ?_⟩,
        hrm op (by simp), ?_⟩
      · intro h2a q h2b e2
        exact hlater h2a q (h2b ++ [op]) (by simp [e2])
      · intro q hq
        have := hlater h2' q [] (by simp [hq])
        simpa using this
  · rintro (⟨rfl, hn, hp, ho⟩ | ⟨⟨h1, h2, rfl, hn, hp, ho, hrm, hlater⟩, hne, hq⟩)
    · exact ⟨h, [], by simp, hn, hp, ho, by simp, by
        intro h2a q h2b e2; cases h2a <;> simp at e2⟩
    · refine ⟨h1, h2 ++ [op], by simp, hn, hp, ho, ?_, ?_⟩
      · intro o ho'
        rcases List.mem_append.1 ho' with ho' | ho'
        · exact hrm o ho'
        · simp at ho'; rw [ho']; exact hne
      · intro h2a q h2b e2
        rcases snoc_eq_append_cons e2 with ⟨rfl, rfl, hx⟩ | ⟨h2b', rfl, rfl⟩
        · have := hq q hx.symm
          simpa using this
        · exact hlater h2a q h2b' rfl

/-- One call, on the history reading alone. -/
theorem Hist.step_owner_since (H : Hist) (op : Op) (k : Key) (p n : Nat) :
    ((H.step op).owner k = some p ∧ (H.step op).since k = n) ↔
      (op = Op.alias p k ∧ H.n = n ∧ H.present p = true ∧ H.owner k ≠ some p) ∨
      ((H.owner k = some p ∧ H.since k = n) ∧ op ≠ Op.remove p ∧
        ∀ q, op = Op.alias q k → q = p ∨ H.present q = false) := by
  cases op with
  | alias q k' =>
    simp only [Hist.step]
    by_cases hk : k' = k
    · subst hk
      by_cases hacc : H.present q = true ∧ H.owner k' ≠ some q
      · simp only [hacc, and_self, if_true, ne_eq, not_false_eq_true]
        simp only [Op.alias.injEq, and_true]
        constructor
        · rintro ⟨e, hn⟩
          have e : q = p := Option.some.inj e
          subst e
          exact Or.inl ⟨rfl, hn, hacc.1, hacc.2⟩
        · rintro (⟨rfl, hn, _, _⟩ | ⟨⟨ho, _⟩, _, hq⟩)
          · exact ⟨rfl, hn⟩
          · rcases hq q rfl with rfl | hq
            · exact absurd ho hacc.2
            · rw [hacc.1] at hq; cases hq
      · simp only [hacc, if_false, Op.alias.injEq, and_true, ne_eq, reduceCtorEq, not_false_eq_true, true_and]
        constructor
        · rintro ⟨ho, hs⟩
          refine Or.inr ⟨⟨ho, hs⟩, ?_⟩
          rintro _ rfl
          by_cases hp : H.present q = true
          · left
            have : H.owner k' = some q := by
              by_cases e : H.owner k' = some q
              · exact e
              · exact absurd ⟨hp, e⟩ hacc
            rw [ho] at this; exact (Option.some.inj this).symm
          · right; simpa using hp
        · rintro (⟨rfl, _, hp, ho⟩ | ⟨h, _⟩)
          · exact absurd ⟨hp, ho⟩ hacc
          · exact h
    · have hk' : ¬ (k = k') := fun e => hk e.symm
      have hne : ∀ q', Op.alias q k' ≠ Op.alias q' k := fun q' e => hk (by injection e)
      split
      · simp only [hk', if_false, ne_eq, reduceCtorEq, not_false_eq_true, true_and]
        constructor
        · intro h; exact Or.inr ⟨h, fun q' e => absurd e (hne q')⟩
        · rintro (⟨e, _⟩ | ⟨h, _⟩)
          · exact absurd e (hne p)
          · exact h
      · simp only [ne_eq, reduceCtorEq, not_false_eq_true, true_and]
        constructor
        · intro h; exact Or.inr ⟨h, fun q' e => absurd e (hne q')⟩
        · rintro (⟨e, _⟩ | ⟨h, _⟩)
          · exact absurd e (hne p)
          · exact h
  | remove q =>
    simp only [Hist.step, reduceCtorEq, false_and, false_or, ne_eq, Op.remove.injEq, false_implies, implies_true, and_true]
    by_cases ho : H.owner k = some q
    · simp only [ho, if_true, reduceCtorEq, false_and, Option.some.injEq, false_iff, not_and]
      rintro ⟨e, _⟩ h; exact h e
    · simp only [ho, if_false]
      constructor
      · rintro ⟨h1, h2⟩
        exact ⟨⟨h1, h2⟩, fun e => ho (e ▸ h1)⟩
      · rintro ⟨h, _⟩; exact h
  | insert q t => simp [Hist.step]
  | get q => simp [Hist.step]
  | getBy q => simp [Hist.step]
  | keyFor q => simp [Hist.step]
  | aliasesFor q => simp [Hist.step]
  | len => simp [Hist.step]
  | broadcast a b c => simp [Hist.step]

/-- **The history reading is the declarative one.** -/
theorem owner_since_iff (h : List Op) (k : Key) (p n : Nat) :
    ((Hist.of h).owner k = some p ∧ (Hist.of h).since k = n) ↔ AssignedSince h k p n := by
  induction h using snoc_ind generalizing p n with
  | nil =>
    constructor
    · rintro ⟨h, _⟩; cases h
    · rintro ⟨h1, h2, e, _⟩; cases h1 <;> simp at e
  | snoc l a ih =>
    rw [Hist.of_snoc, Hist.step_owner_since, assignedSince_snoc, ih, Hist.of_n]

/-- `p` is present after `h` iff some call inserted it and no later call removed it. -/
theorem present_iff_inserted_not_removed (h : List Op) (p : Nat) :
    (Hist.of h).present p = true ↔
      ∃ h1 t h2, h = h1 ++ Op.insert p t :: h2 ∧ ∀ op ∈ h2, op ≠ Op.remove p := by
  induction h using snoc_ind with
  | nil =>
    constructor
    · intro h; cases h
    · rintro ⟨h1, t, h2, e, _⟩; cases h1 <;> simp at e
  | snoc l a ih =>
    rw [Hist.of_snoc]
    have ext : (∃ h1 t h2, l ++ [a] = h1 ++ Op.insert p t :: h2 ∧ ∀ op ∈ h2, op ≠ Op.remove p) ↔
        (∃ t, a = Op.insert p t) ∨ ((∃ h1 t h2, l = h1 ++ Op.insert p t :: h2 ∧ ∀ op ∈ h2, op ≠ Op.remove p) ∧
          a ≠ Op.remove p) := by
      constructor
      · rintro ⟨h1, t, h2, e, hrm⟩
        rcases snoc_eq_append_cons e with ⟨rfl, rfl, hx⟩ | ⟨h2', rfl, rfl⟩
        · exact Or.inl ⟨t, hx.symm⟩
        · exact Or.inr ⟨⟨h1, t, h2', rfl, fun o ho => hrm o (by simp [ho])⟩, hrm a (by simp)⟩
      · rintro (⟨t, rfl⟩ | ⟨⟨h1, t, h2, rfl, hrm⟩, hne⟩)
        · exact ⟨l, t, [], by simp, by simp⟩
        · refine ⟨h1, t, h2 ++ [a], by simp, ?_⟩
          intro o ho
          rcases List.mem_append.1 ho with ho | ho
          · exact hrm o ho
          · simp at ho; rw [ho]; exact hne
    rw [ext, ← ih]
    cases a with
    | insert q t =>
      simp only [Hist.step, Bool.or_eq_true, decide_eq_true_eq, Op.insert.injEq, ne_eq, reduceCtorEq,
        not_false_eq_true, and_true]
      constructor
      · rintro (rfl | h)
        · exact Or.inl ⟨t, rfl, rfl⟩
        · exact Or.inr h
      · rintro (⟨_, rfl, _⟩ | h)
        · exact Or.inl rfl
        · exact Or.inr h
    | remove q =>
      simp only [Hist.step, Bool.and_eq_true, Bool.not_eq_true', decide_eq_false_iff_not, reduceCtorEq,
        exists_false, false_or, ne_eq, Op.remove.injEq]
      constructor
      · rintro ⟨hne, h⟩; exact ⟨h, fun e => hne e.symm⟩
      · rintro ⟨h, hne⟩; exact ⟨fun e => hne e.symm, h⟩
    | alias q k => simp only [Hist.step]; split <;> simp
    | get q => simp [Hist.step]
    | getBy q => simp [Hist.step]
    | keyFor q => simp [Hist.step]
    | aliasesFor q => simp [Hist.step]
    | len => simp [Hist.step]
    | broadcast a b c => simp [Hist.step]

/-! ### interface lemmas (used by other properties' models that run on top of the registry, e.g. C15)

Stable names; everything another model needs in order to reason about one peer while arbitrary calls
about other peers interleave. -/

theorem present_eq_lookup (s : State) (id : Nat) : s.present id = (lookup id s.peers).isSome := rfl

theorem get_eq_some_iff (s : State) (id t : Nat) : get s id = some ⟨id, t⟩ ↔ lookup id s.peers = some t := by
  unfold get; cases lookup id s.peers <;> simp

theorem get_eq_none_iff (s : State) (id : Nat) : get s id = none ↔ lookup id s.peers = none := by
  unfold get; cases lookup id s.peers <;> simp

theorem get_id (s : State) (id : Nat) (h : Handle) (e : get s id = some h) : h.id = id := by
  unfold get at e; cases hl : lookup id s.peers <;> simp [hl] at e; rw [← e]

theorem getBy_of_alias {s : State} {k : Key} {id t : Nat} (ha : lookup k s.aliases = some id)
    (hp : lookup id s.peers = some t) : getBy s k = some ⟨id, t⟩ := by
  simp [getBy, ha, get, hp]

/-- An absent peer owns nothing and no key resolves to it. -/
theorem absent_owns_nothing {s : State} (hI : Inv s) {id : Nat} (h : lookup id s.peers = none) :
    get s id = none ∧ aliasesFor s id = [] ∧ ∀ k t, getBy s k ≠ some ⟨id, t⟩ := by
  have hp : s.present id = false := by simp [State.present, h]
  have hno := hI.owners id hp
  refine ⟨(get_eq_none_iff s id).2 h, hno, fun k t => ?_⟩
  unfold getBy
  cases hl : lookup k s.aliases with
  | none => simp
  | some q =>
    by_cases hq : q = id
    · subst hq
      have := (hI.fwd k q).1 hl
      rw [hno] at this; cases this
    · simp only [get]
      cases lookup q s.peers with
      | none => simp
      | some t' => simp [hq]

theorem insert_peers (s : State) (id tag : Nat) : (insert s id tag).peers = put id tag s.peers := rfl

theorem remove_peers (s : State) (id : Nat) : (remove s id).1.peers = erase id s.peers := by
  unfold remove; cases lookup id s.index <;> rfl

theorem alias_peers (s : State) (id : Nat) (k : Key) : (alias s id k).1.peers = s.peers := by
  unfold alias
  split
  · rfl
  · split
    · split <;> rfl
    · rfl

/-- Calls that are not about peer `id` and do not re-point any of `keys`. -/
def Op.ForeignTo (id : Nat) (keys : List Key) : Op → Prop
  | .insert q _ => q ≠ id
  | .remove q => q ≠ id
  | .alias q k => q ≠ id ∧ k ∉ keys
  | _ => True

/-- **Frame.** A call that is foreign to peer `id` and its `keys` leaves `id`'s handle, and every one
of `keys` that resolves to `id`, exactly as they were. -/
theorem step_foreign_frame (answer : Handle → SendResult) {s : State} (hI : Inv s) {id : Nat}
    {keys : List Key} (op : Op) (hf : op.ForeignTo id keys) :
    lookup id (step answer s op).1.peers = lookup id s.peers ∧
    ∀ k ∈ keys, lookup k s.aliases = some id → lookup k (step answer s op).1.aliases = some id := by
  cases op with
  | insert q t =>
    simp only [Op.ForeignTo] at hf
    exact ⟨by simp [step, insert, lookup_put, hf], fun k _ h => h⟩
  | remove q =>
    simp only [Op.ForeignTo] at hf
    obtain ⟨_, hpeers, hA, _⟩ := remove_eqs hI q
    refine ⟨by simp [step, hpeers, lookup_erase, hf], fun k _ h => ?_⟩
    have : ¬ (id = q) := fun e => hf e.symm
    simp [step, hA, h, this]
  | alias q k' =>
    simp only [Op.ForeignTo] at hf
    refine ⟨by simp [step, alias_peers], fun k hk h => ?_⟩
    cases hq : s.present q with
    | false => simpa [step, alias_absent s q k' hq] using h
    | true =>
      obtain ⟨_, _, hA, _⟩ := alias_present hI k' hq
      have : ¬ (k' = k) := fun e => hf.2 (e ▸ hk)
      simp [step, hA, this, h]
  | get _ => exact ⟨rfl, fun _ _ h => h⟩
  | getBy _ => exact ⟨rfl, fun _ _ h => h⟩
  | keyFor _ => exact ⟨rfl, fun _ _ h => h⟩
  | aliasesFor _ => exact ⟨rfl, fun _ _ h => h⟩
  | len => exact ⟨rfl, fun _ _ h => h⟩
  | broadcast _ _ _ => exact ⟨rfl, fun _ _ h => h⟩

/-- A state some history reaches from the empty registry. -/
def Reachable (s : State) : Prop := ∃ (answer : Handle → SendResult) (h : List Op), s = (run answer State.empty h).1

theorem inv_of_reachable {s : State} (h : Reachable s) : Inv s := by
  obtain ⟨answer, ops, rfl⟩ := h; exact inv_run answer inv_empty ops

theorem reachable_empty : Reachable State.empty := ⟨fun _ => .ok, [], rfl⟩

theorem run_append (answer : Handle → SendResult) (s : State) (a b : List Op) :
    (run answer s (a ++ b)).1 = (run answer (run answer s a).1 b).1 := by
  induction a generalizing s with
  | nil => rfl
  | cons op a ih => simp only [List.cons_append, run]; exact ih _

/-- What the sinks answer never influences the registry state. -/
theorem run_state_indep_of_answers (a b : Handle → SendResult) (s : State) (ops : List Op) :
    (run a s ops).1 = (run b s ops).1 := by
  induction ops generalizing s with
  | nil => rfl
  | cons op ops ih =>
    have : (step a s op).1 = (step b s op).1 := by cases op <;> rfl
    simp only [run, this]; exact ih _

theorem reachable_run (answer : Handle → SendResult) {s : State} (h : Reachable s) (ops : List Op) :
    Reachable (run answer s ops).1 := by
  obtain ⟨a0, h0, rfl⟩ := h
  exact ⟨answer, h0 ++ ops, by rw [run_append, run_state_indep_of_answers a0 answer State.empty h0]⟩

theorem inv_after (h : List Op) : Inv (after h) := inv_run _ inv_empty h

/-! ### the `insert` contract (ids unique within one registry) and id minting -/

/-- Every `insert` of the history hits an id that is absent at that moment. -/
def ContractOk (answer : Handle → SendResult) : State → List Op → Prop
  | _, [] => True
  | s, op :: r => (∀ id t, op = Op.insert id t → s.present id = false) ∧
                  ContractOk answer (step answer s op).1 r

def insertedIds : List Op → List Nat
  | [] => []
  | .insert id _ :: r => id :: insertedIds r
  | _ :: r => insertedIds r

theorem present_after_step (answer : Handle → SendResult) (s : State) (op : Op) (q : Nat)
    (h : (step answer s op).1.present q = true) : s.present q = true ∨ ∃ t, op = Op.insert q t := by
  cases op with
  | insert id t =>
    simp only [step, State.present, insert_peers, lookup_put] at h
    by_cases e : id = q
    · subst e; exact Or.inr ⟨t, rfl⟩
    · simp only [e, if_false] at h; exact Or.inl h
  | remove id =>
    simp only [step, State.present, remove_peers, lookup_erase] at h
    by_cases e : id = q
    · simp [e] at h
    · simp only [e, if_false] at h; exact Or.inl h
  | alias id k => simp only [step, State.present, alias_peers] at h; exact Or.inl h
  | get _ => exact Or.inl h
  | getBy _ => exact Or.inl h
  | keyFor _ => exact Or.inl h
  | aliasesFor _ => exact Or.inl h
  | len => exact Or.inl h
  | broadcast _ _ _ => exact Or.inl h

/-- If the ids a history inserts are pairwise distinct and none of them is present at the start, every
insert hits an absent id: the documented contract holds and `insert`'s `debug_assert!` never fires. -/
theorem distinct_fresh_inserts_respect_contract (answer : Handle → SendResult) (s : State) (h : List Op)
    (hnd : (insertedIds h).Nodup) (hfresh : ∀ id ∈ insertedIds h, s.present id = false) :
    ContractOk answer s h := by
  induction h generalizing s with
  | nil => trivial
  | cons op r ih =>
    cases op with
    | insert id t =>
      simp only [insertedIds, List.nodup_cons] at hnd
      refine ⟨fun id' t' e => by injection e with e1 _; subst e1; exact hfresh id (by simp [insertedIds]), ?_⟩
      apply ih _ hnd.2
      intro q hq
      cases hp : (step answer s (Op.insert id t)).1.present q with
      | false => rfl
      | true =>
        rcases present_after_step answer s _ q hp with h1 | ⟨t', e⟩
        · rw [hfresh q (by simp [insertedIds, hq])] at h1; cases h1
        · injection e with e1 _; subst e1; exact absurd hq hnd.1
    | remove id =>
      refine ⟨(fun _ _ e => by cases e), ih _ hnd (fun q hq => ?_)⟩
      cases hp : (step answer s (Op.remove id)).1.present q with
      | false => rfl
      | true =>
        rcases present_after_step answer s _ q hp with h1 | ⟨t', e⟩
        · rw [hfresh q hq] at h1; cases h1
        · cases e
    | alias id k =>
      refine ⟨(fun _ _ e => by cases e), ih _ hnd (fun q hq => ?_)⟩
      cases hp : (step answer s (Op.alias id k)).1.present q with
      | false => rfl
      | true =>
        rcases present_after_step answer s _ q hp with h1 | ⟨t', e⟩
        · rw [hfresh q hq] at h1; cases h1
        · cases e
    | get _ => exact ⟨(fun _ _ e => by cases e), ih _ hnd hfresh⟩
    | getBy _ => exact ⟨(fun _ _ e => by cases e), ih _ hnd hfresh⟩
    | keyFor _ => exact ⟨(fun _ _ e => by cases e), ih _ hnd hfresh⟩
    | aliasesFor _ => exact ⟨(fun _ _ e => by cases e), ih _ hnd hfresh⟩
    | len => exact ⟨(fun _ _ e => by cases e), ih _ hnd hfresh⟩
    | broadcast _ _ _ => exact ⟨(fun _ _ e => by cases e), ih _ hnd hfresh⟩

/-- Under the contract no `insert` of the history trips the `debug_assert!`. -/
theorem contract_no_panic (answer : Handle → SendResult) (s : State) (op : Op) (r : List Op)
    (h : ContractOk answer s (op :: r)) (id t : Nat) (e : op = Op.insert id t) (dbg : Bool) :
    insertPanics s id dbg = false := by
  simp [insertPanics, h.1 id t e]

theorem mintN_eq_range (c n : Nat) (h : c + n ≤ U64) : mintN c n = List.range' c n := by
  induction n generalizing c with
  | zero => rfl
  | succ n ih =>
    simp only [mintN, nextPeerId, List.range'_succ]
    cases n with
    | zero => rfl
    | succ m =>
      have : (c + 1) % U64 = c + 1 := Nat.mod_eq_of_lt (by omega)
      rw [this, ih (c + 1) (by omega)]

/-- Fewer than 2^64 mints from one shared counter never repeat an id. -/
theorem mintN_nodup (c n : Nat) (h : c + n ≤ U64) : (mintN c n).Nodup := by
  rw [mintN_eq_range c n h]; exact List.nodup_range'

theorem length_erase_of_lookup {l : List (Nat × Nat)} (hnd : (l.map (·.1)).Nodup) {id t : Nat}
    (h : lookup id l = some t) : (erase id l).length + 1 = l.length := by
  induction l with
  | nil => simp at h
  | cons e l ih =>
    obtain ⟨a, b⟩ := e
    simp only [List.map_cons, List.nodup_cons] at hnd
    rw [lookup_cons] at h
    by_cases ha : a = id
    · subst ha
      have : erase a l = l := by
        unfold erase; rw [List.filter_eq_self]
        intro x hx
        have : x.1 ≠ a := fun e => hnd.1 (e ▸ List.mem_map.2 ⟨x, hx, rfl⟩)
        simp [this]
      have h1 : erase a ((a, b) :: l) = erase a l := by simp [erase]
      rw [h1, this]; simp
    · simp only [ha, if_false] at h
      have := ih hnd.2 h
      simp only [erase, List.filter_cons, ha, decide_false, Bool.not_false, if_true, List.length_cons] at this ⊢
      omega

/-- **Outside the contract** (`insert` of a present id): the handle is replaced, nothing else changes —
the new handle inherits every alias of the old one and the number of peers stays the same. -/
theorem reinsert_present {s : State} (hI : Inv s) {id t0 : Nat} (hp : lookup id s.peers = some t0) (t : Nat) :
    get (insert s id t) id = some ⟨id, t⟩ ∧
    (∀ q, q ≠ id → get (insert s id t) q = get s q) ∧
    (∀ q, aliasesFor (insert s id t) q = aliasesFor s q) ∧
    (∀ k, lookup k (insert s id t).aliases = lookup k s.aliases) ∧
    len (insert s id t) = len s ∧
    (∀ k ∈ aliasesFor s id, getBy (insert s id t) k = some ⟨id, t⟩) := by
  refine ⟨by simp [get, insert, lookup_put], fun q hq => ?_, fun _ => rfl, fun _ => rfl, ?_, fun k hk => ?_⟩
  · simp [get, insert, lookup_put, Ne.symm hq]
  · simp only [len, insert, put, List.length_cons]
    exact length_erase_of_lookup hI.nodup hp
  · have := (hI.fwd k id).2 hk
    simp [getBy, insert, this, get, lookup_put]

/-! ### interleavings of thread programs -/

/-- `Merge ts m`: `m` is an interleaving of the thread programs `ts` (each thread's calls in order). -/
inductive Merge : List (List Op) → List Op → Prop where
  | done (ts : List (List Op)) : (∀ t ∈ ts, t = []) → Merge ts []
  | pick (ts : List (List Op)) (i : Nat) (op : Op) (rest m : List Op) :
      ts[i]? = some (op :: rest) → Merge (ts.set i rest) m → Merge ts (op :: m)

end Repe.Peers
