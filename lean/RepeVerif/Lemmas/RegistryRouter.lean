import RepeVerif.Lemmas.Registry
import RepeVerif.Props.C07
/-! C14 ∘ C07: the registry mount of `Model/Registry.lean` agrees with, and composes with, the router model of
C07 (`Model/Router.lean`, theorems of `Props/C07.lean`). -/
namespace Repe
open Repe.Router (Str)

/-! ## agreement with C07's router model -/

theorem stripPrefix_eq_router (p s : List Char) : stripPrefix p s = Router.stripPrefix p s := by
  induction p generalizing s with
  | nil => simp [stripPrefix, Router.stripPrefix]
  | cons a p ih =>
    cases s with
    | nil => simp [stripPrefix, Router.stripPrefix, List.isPrefixOf]
    | cons b s =>
      have := ih s
      unfold stripPrefix at this ⊢
      simp only [Router.stripPrefix, List.isPrefixOf]
      by_cases hab : a = b
      · subst hab; simpa using this
      · simp [hab]

theorem normalizePrefix_eq_router (p : List Char) : normalizePrefix p = Router.normRegistryPrefix p := by
  unfold normalizePrefix Router.normRegistryPrefix dropTrailingSlashes Router.trimEndSlashes
  cases p with
  | nil => simp
  | cons c r =>
    by_cases hc : c = '/'
    · subst hc
      cases r <;> simp
    · simp [hc]

theorem entryMatches_eq_router (pre path : List Char) : entryMatches pre path = Router.mountMatches pre path := by
  unfold entryMatches Router.mountMatches
  rw [stripPrefix_eq_router]
  cases pre with
  | nil => simp
  | cons c r =>
    simp only [List.isEmpty_cons, Bool.false_eq_true, if_false, List.cons_ne_nil]
    split
    · rfl
    · cases Router.stripPrefix (c :: r) path with
      | none => rfl
      | some rest => cases rest with
        | nil => rfl
        | cons x xs => by_cases hx : x = '/' <;> simp [hx]

theorem pointerFor_eq_router (pre path : List Char) : pointerFor pre path = Router.pointerFor pre path := by
  unfold pointerFor Router.pointerFor
  rw [stripPrefix_eq_router]
  cases pre with
  | nil => cases path <;> simp
  | cons c r =>
    simp only [List.isEmpty_cons, Bool.false_eq_true, if_false, List.cons_ne_nil]
    split
    · rfl
    · cases Router.stripPrefix (c :: r) path with
      | none => rfl
      | some rest => cases rest with
        | nil => rfl
        | cons x xs => by_cases hx : x = '/' <;> simp [hx]


theorem run_registry_mounts (F : Router.Facts) (r : Router.Router) (ps : List (List Char)) (h : Nat) :
    ((Router.Router.run F r (ps.map fun p => Router.Op.registry p h)).registries.map (·.1)
        = r.registries.map (·.1) ++ ps.map Router.normRegistryPrefix) ∧
    (Router.Router.run F r (ps.map fun p => Router.Op.registry p h)).inner = r.inner ∧
    (Router.Router.run F r (ps.map fun p => Router.Op.registry p h)).structs = r.structs := by
  induction ps generalizing r with
  | nil => simp [Router.Router.run]
  | cons p ps ih =>
    have := ih (r.apply F (.registry p h))
    simp only [Router.Router.run, List.map_cons, List.foldl_cons] at this ⊢
    obtain ⟨h1, h2, h3⟩ := this
    refine ⟨?_, ?_, ?_⟩
    · rw [h1]; simp [Router.Router.apply]
    · rw [h2]; simp [Router.Router.apply]
    · rw [h3]; simp [Router.Router.apply]

/-- The prefix list of this model IS a C07 router built by `with_registry` calls: `Router::get` of that
router (with the extracted lookup order) finds the mount `routerFind` finds. -/
theorem routerFind_eq_router_get (prefixes : List (List Char)) (h : Nat) (path : List Char) :
    ((Router.Router.run Gen.routerFacts {} (prefixes.map fun p => Router.Op.registry p h)).get
        Gen.routerFacts path).map (·.pre) = routerFind prefixes path := by
  obtain ⟨h1, h2, h3⟩ := run_registry_mounts Gen.routerFacts {} prefixes h
  generalize Router.Router.run Gen.routerFacts {} (prefixes.map fun p => Router.Op.registry p h) = R at h1 h2 h3
  unfold Router.Router.get
  rw [C07.source_forms.1]
  simp only [List.findSome?_cons, List.findSome?_nil, Router.Router.lookupIn, h2, h3,
    Router.lookupExact, Router.lookupMount]
  simp only [List.find?_nil, Option.map_none]
  have hfind : (R.registries.find? fun pe => Router.mountMatches pe.1 path).map (·.1)
      = (R.registries.map (·.1)).find? (fun pre => Router.mountMatches pre path) := by
    rw [List.find?_map]; rfl
  unfold routerFind
  have hm : (prefixes.map normalizePrefix) = prefixes.map Router.normRegistryPrefix :=
    List.map_congr_left (fun p _ => normalizePrefix_eq_router p)
  have he : (fun pre => entryMatches pre path) = (fun pre => Router.mountMatches pre path) :=
    funext fun pre => entryMatches_eq_router pre path
  rw [hm, he, ← (by simpa using h1 : R.registries.map (·.1) = prefixes.map Router.normRegistryPrefix), ← hfind]
  cases R.registries.find? fun pe => Router.mountMatches pe.1 path <;> rfl

end Repe
